#!/usr/bin/env python
"""C18 demo: the BAF of a segment is the median of the heterozygous frequencies
inside it, mirrored to ONE side of 0.5 -- the side of the majority, i.e. above
0.5 only if the median of the raw frequencies is > 0.5, otherwise below.

The segments chr1:0-1000 and chr1:1000-2000 hold het SNVs whose raw median is
exactly 0.5 (0.4/0.6 and 0.3/0.5/0.7): their BAF must be 0.4 and 0.3.

Exit 0 = property holds, 1 = violated.
"""
import os
import sys
import tempfile

sys.path.insert(0, os.environ.get("SEED_REPO", "/var/tmp/s4/C18"))

import logging

import numpy as np
import pandas as pd

import cnvlib
from cnvlib.call import do_call
from cnvlib.cmdutil import load_het_snps
from cnvlib.cnary import CopyNumArray as CNA

logging.disable(logging.CRITICAL)

HEADER = """##fileformat=VCFv4.2
##contig=<ID=chr1,length=100000>
##contig=<ID=chr2,length=100000>
##INFO=<ID=SOMATIC,Number=0,Type=Flag,Description="Somatic">
##FORMAT=<ID=GT,Number=1,Type=String,Description="Genotype">
##FORMAT=<ID=AD,Number=R,Type=Integer,Description="Allelic depths">
##FORMAT=<ID=DP,Number=1,Type=Integer,Description="Depth">
#CHROM\tPOS\tID\tREF\tALT\tQUAL\tFILTER\tINFO\tFORMAT\tS1
"""

# (chrom, pos(1-based), ref, alt, gt, ref_count, alt_count, somatic)
RECORDS = [
    # chr1:0-1000 -- raw het frequencies 0.4, 0.6: median exactly 0.5
    ("chr1", 100, "A", "G", "0/1", 24, 16, False),
    ("chr1", 300, "C", "T", "0/1", 16, 24, False),
    ("chr1", 500, "G", "A", "1/1", 0, 40, False),   # hom alt: not in the BAF
    ("chr1", 700, "G", "A", "0/1", 4, 36, True),    # SOMATIC: dropped
    # chr1:1000-2000 -- 0.3, 0.5, 0.7: median exactly 0.5
    ("chr1", 1100, "T", "C", "0/1", 28, 12, False),
    ("chr1", 1400, "A", "G", "0/1", 20, 20, False),
    ("chr1", 1500, "A", "G", "0/1", 9, 1, False),   # depth 10 < 20: dropped
    ("chr1", 1800, "C", "G", "0/1", 12, 28, False),
    # chr1:2000-3000 -- 0.6, 0.7, 0.2: majority above 0.5
    ("chr1", 2100, "T", "A", "0/1", 16, 24, False),
    ("chr1", 2500, "G", "C", "0/1", 12, 28, False),
    ("chr1", 2900, "G", "T", "0/1", 32, 8, False),
    # chr2:0-1000 -- 0.45, 0.35, 0.8: majority below 0.5
    ("chr2", 100, "A", "G", "0/1", 22, 18, False),
    ("chr2", 400, "T", "C", "0/1", 26, 14, False),
    ("chr2", 800, "T", "G", "0/1", 8, 32, False),
    ("chr2", 900, "C", "A", "0/0", 40, 0, False),   # hom ref
    # chr2:1000-2000 -- no het SNV at all -> missing
    ("chr2", 1500, "G", "A", "1/1", 1, 39, False),
]

SEGMENTS = [
    ("chr1", 0, 1000),
    ("chr1", 1000, 2000),
    ("chr1", 2000, 3000),
    ("chr2", 0, 1000),
    ("chr2", 1000, 2000),
]
MIN_DEPTH = 20


def write_vcf(path):
    with open(path, "w") as out:
        out.write(HEADER)
        for chrom, pos, ref, alt, gt, rc, ac, som in RECORDS:
            out.write(
                f"{chrom}\t{pos}\t.\t{ref}\t{alt}\t50\tPASS\t"
                f"{'SOMATIC' if som else '.'}\tGT:AD:DP\t{gt}:{rc},{ac}:{rc + ac}\n"
            )


def kept_hets():
    return [
        (c, pos - 1, ac / (rc + ac))
        for c, pos, _r, _a, gt, rc, ac, som in RECORDS
        if gt == "0/1" and not som and rc + ac >= MIN_DEPTH
    ]


def mirror(vals):
    """Mirror to the side of the majority: above only if the median is > 0.5."""
    vals = np.asarray(vals, dtype=float)
    shift = np.abs(vals - 0.5)
    if np.median(vals) > 0.5:
        return 0.5 + shift
    return 0.5 - shift


def expected_baf(chrom, start, end):
    freqs = [f for c, s, f in kept_hets() if c == chrom and start <= s < end]
    if not freqs:
        return np.nan
    if len(freqs) == 1:
        return freqs[0]
    return float(np.median(mirror(freqs)))


def same(a, b):
    return (np.isnan(a) and np.isnan(b)) or bool(np.isclose(a, b))


def main():
    print("cnvlib from", cnvlib.__file__)
    failures = []
    with tempfile.TemporaryDirectory() as tmpdir:
        vcf_fname = os.path.join(tmpdir, "demo.vcf")
        write_vcf(vcf_fname)
        varr = load_het_snps(vcf_fname, min_variant_depth=MIN_DEPTH)

    # load_het_snps keeps exactly the germline heterozygous records
    want = kept_hets()
    got = list(zip(varr["chromosome"], varr["start"], varr["alt_freq"]))
    if len(got) != len(want) or any(
        g[:2] != w[:2] or not np.isclose(g[2], w[2]) for g, w in zip(got, want)
    ):
        failures.append(f"het records: got {got}, expected {want}")

    segarr = CNA(
        pd.DataFrame(
            {
                "chromosome": [s[0] for s in SEGMENTS],
                "start": [s[1] for s in SEGMENTS],
                "end": [s[2] for s in SEGMENTS],
                "gene": "-",
                "log2": 0.0,
                "probes": 10,
            }
        )
    )
    direct = np.asarray(varr.baf_by_ranges(segarr), dtype=float)
    called = np.asarray(do_call(segarr, varr, method="none")["baf"], dtype=float)
    for what, values in (("baf_by_ranges", direct), ("do_call baf", called)):
        if len(values) != len(SEGMENTS):
            failures.append(f"{what}: {len(values)} values, {len(SEGMENTS)} segments")
            continue
        for (chrom, start, end), g in zip(SEGMENTS, values):
            w = expected_baf(chrom, start, end)
            ok = same(g, w)
            print(f"  {what:14s} {chrom}:{start}-{end}  got={g:.4f}  expected={w:.4f}"
                  f"  {'ok' if ok else 'MISMATCH'}")
            if not ok:
                failures.append(
                    f"{what} {chrom}:{start}-{end}: {g!r}, but the median of the "
                    f"het frequencies mirrored to the majority side is {w!r}"
                )

    # VariantArray.mirrored_baf over one segment's SNVs (raw median exactly 0.5)
    in_seg = varr[(varr["chromosome"] == "chr1") & (varr["start"] < 1000)]
    got_m = np.asarray(in_seg.mirrored_baf(), dtype=float)
    want_m = mirror([f for c, s, f in want if c == "chr1" and s < 1000])
    if len(got_m) != len(want_m) or not np.allclose(got_m, want_m):
        failures.append(
            f"mirrored_baf of chr1:0-1000: {got_m.tolist()}, expected {want_m.tolist()}"
        )

    if failures:
        print("PROPERTY C18 VIOLATED:")
        for msg in failures:
            print("  -", msg)
        return 1
    print("property C18 holds")
    return 0


if __name__ == "__main__":
    sys.exit(main())
