#!/usr/bin/env python3
"""tools/claimadd.py Cxx <file-with-sentence> [note-old-substring note-new] : appends a sentence to a claim text and rebuilds MANIFEST.json"""
import json, os, subprocess, sys
ROOT = os.path.dirname(os.path.dirname(os.path.abspath(__file__)))
p = os.path.join(ROOT, "tools", "claims.json")
c = json.load(open(p))
pid = sys.argv[1]
s = open(sys.argv[2]).read().strip()
if s and s not in c[pid]["text"]:
    c[pid]["text"] = c[pid]["text"].rstrip() + " " + s
if len(sys.argv) >= 5:
    assert sys.argv[3] in c[pid]["note"], "note substring not found"
    c[pid]["note"] = c[pid]["note"].replace(sys.argv[3], sys.argv[4])
json.dump(c, open(p, "w"), indent=1)
subprocess.check_call([sys.executable, os.path.join(ROOT, "tools", "mkmanifest.py")])
