#!/bin/bash
# tools/seed3install.sh <Cxx> <name> : installs the round-3 seed left by a seeding agent in /tmp/seed3/<Cxx>
# (uncommitted diff + demo_seed.py) as /verif/seeded/<Cxx>-r3-<name>/{patch.diff,demo.py}
set -e
P=$1; N=$P-r3-$2; S=/tmp/seed3/$P
mkdir -p /verif/seeded/$N
git -C $S diff > /verif/seeded/$N/patch.diff
cp $S/demo_seed.py /verif/seeded/$N/demo.py
test -s /verif/seeded/$N/patch.diff || { echo "empty patch"; exit 1; }
git -C $S diff --stat | cat
echo installed seeded/$N
