#!/bin/bash
# tools/sweep.sh "<seeds>" [tier] : runs every claimed check on /repo for the given VERIF_SEED values, prints one line per run
cd "$(dirname "$0")/.."
TIER=${2:-quick}
for s in $1; do
  for p in $(python3 -c "import json;print(' '.join(c['property_id'] for c in json.load(open('MANIFEST.json'))['checks']))"); do
    out=$(VERIF_SEED=$s ./check $p --tier $TIER 2>&1); rc=$?
    echo "seed=$s $p rc=$rc $(echo "$out" | grep -E '^\[C|VIOLATION|INFRA' | tr '\n' ' ' | cut -c1-300)"
  done
done
