#!/venv/bin/python
"""tools/anchorcov.py Cxx [--max N] [--seed S] : which lines of the property's ANCHORED source files does the
correspondence run of the quick tier actually execute?

Runs the property's corpus + generated quick-tier cases (an evenly spaced sample of at most N) through `run_impl`
IN THIS PROCESS under coverage.py, restricted to the files named in the property's anchors, and writes
`coverage/Cxx.json`: per file and per function the executed / executable lines and the missed line numbers, with the
functions that the anchors name marked.  Work done in cnvkit's own worker processes (processes > 1) is not measured,
so the numbers are a lower bound.  This is a development aid that measures generator reach (cf. the brief: "print the
input distribution ... branches ... hit"); it decides nothing.
"""
import ast, json, os, random, re, sys, time

ROOT = os.path.dirname(os.path.dirname(os.path.abspath(__file__)))
sys.path.insert(0, ROOT)
from harness import core  # noqa: E402


def functions(path):
    tree = ast.parse(open(path).read())
    out = []

    def walk(node, prefix):
        for ch in ast.iter_child_nodes(node):
            if isinstance(ch, (ast.FunctionDef, ast.AsyncFunctionDef)):
                out.append((prefix + ch.name, ch.lineno, ch.end_lineno))
                walk(ch, prefix + ch.name + ".")
            elif isinstance(ch, ast.ClassDef):
                walk(ch, prefix + ch.name + ".")
            else:
                walk(ch, prefix)
    walk(tree, "")
    return out


def main():
    prop = sys.argv[1]
    mx = int(sys.argv[sys.argv.index("--max") + 1]) if "--max" in sys.argv else 400
    seed = int(sys.argv[sys.argv.index("--seed") + 1]) if "--seed" in sys.argv else 0
    budget = float(sys.argv[sys.argv.index("--budget") + 1]) if "--budget" in sys.argv else 240.0
    anchors = None
    for l in open(os.path.join(ROOT, "properties.jsonl")):
        p = json.loads(l)
        if p["id"] == prop:
            anchors = p["anchors"]
    files = [f for f in anchors["files"] if f.endswith(".py")]
    named = set()
    for m in anchors.get("mechanism", []):
        for w in re.findall(r"[A-Za-z_][A-Za-z_0-9.]*", m.get("where", "")):
            named.add(w.split(".")[-1])
    for w in anchors.get("observe_at", []):
        for t in re.findall(r"[A-Za-z_][A-Za-z_0-9]*", w):
            named.add(t)
    core.setup_repo_path()
    import importlib
    import coverage
    mod = importlib.import_module(f"harness.props.{prop}")
    cases = (list(mod.corpus()) if hasattr(mod, "corpus") else []) + list(mod.gen_cases(random.Random(seed), "quick"))
    if len(cases) > mx:
        step = len(cases) / mx
        cases = [cases[int(i * step)] for i in range(mx)]
    paths = [os.path.join(core.REPO, f) for f in files]
    cov = coverage.Coverage(include=paths, data_file=None, branch=False)
    t0 = time.time()
    ran = errs = 0
    cov.start()
    try:
        for c in cases:
            if time.time() - t0 > budget:
                break
            try:
                mod.run_impl(c)
            except BaseException:
                errs += 1
            ran += 1
    finally:
        cov.stop()
    rep = {"property": prop, "cases_run": ran, "cases_raising": errs, "seed": seed, "wall_s": round(time.time() - t0, 1),
           "note": "in-process run_impl under coverage.py; child worker processes of cnvkit are not measured (lower bound)",
           "files": {}}
    for f, pth in zip(files, paths):
        try:
            _, execu, _, missing, _ = cov.analysis2(pth)
        except Exception as e:  # file never imported
            rep["files"][f] = {"error": str(e)}
            continue
        execu, missing = set(execu), set(missing)
        fr = {"executable": len(execu), "executed": len(execu - missing), "functions": {}}
        for name, lo, hi in functions(pth):
            ex = {l for l in execu if lo < l <= hi}  # body lines (the def line itself runs at import)
            if not ex:
                continue
            ms = sorted(ex & missing)
            fr["functions"][name] = {"lines": f"{lo}-{hi}", "executable": len(ex), "executed": len(ex) - len(ms),
                                     "anchored": name.split(".")[-1] in named, "missed": ms}
        rep["files"][f] = fr
    os.makedirs(os.path.join(ROOT, "coverage"), exist_ok=True)
    json.dump(rep, open(os.path.join(ROOT, "coverage", f"{prop}.json"), "w"), indent=1)
    # console summary: anchored functions first
    print(f"{prop}: {ran} cases in {rep['wall_s']}s ({errs} raising)")
    for f, fr in rep["files"].items():
        if "error" in fr:
            print(f"  {f}: {fr['error']}")
            continue
        print(f"  {f}: {fr['executed']}/{fr['executable']} lines")
        for n, d in fr["functions"].items():
            if d["anchored"] or d["executed"]:
                flag = "*" if d["anchored"] else " "
                if d["missed"]:
                    print(f"   {flag} {n} {d['executed']}/{d['executable']} missed {d['missed'][:12]}")
    core.shutdown_pool()
    os._exit(0)


if __name__ == "__main__":
    main()
