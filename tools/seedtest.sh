#!/bin/bash
# tools/seedtest.sh <seed-dir under /verif/seeded> <property> [tier]
# Applies seeded/<dir>/patch.diff to a scratch worktree of /repo HEAD (outside /repo and /verif),
# runs the demo (must fail with the patch, pass without) and the property's check against it.
set -u
D=/verif/seeded/$1; P=$2; TIER=${3:-quick}
# VERIF_ROOT: run the check from another worktree of /verif (own tree lock, so several seed tests can run side by side)
VR=${VERIF_ROOT:-/verif}
WT=/var/tmp/seedwt-$1
git -C /repo worktree remove --force $WT 2>/dev/null
git -C /repo worktree add -q $WT HEAD || exit 3
echo "== demo on clean tree (expect 0)"; (cd $WT && SEED_REPO=$WT PYTHONPATH=$WT /venv/bin/python $D/demo.py >/dev/null 2>&1; echo "exit $?")
(cd $WT && git apply $D/patch.diff) || { echo "patch does not apply"; git -C /repo worktree remove --force $WT; exit 3; }
echo "== demo with patch (expect non-zero)"; (cd $WT && SEED_REPO=$WT PYTHONPATH=$WT /venv/bin/python $D/demo.py >/dev/null 2>&1; echo "exit $?")
echo "== check $P --tier $TIER with patch (expect VIOLATION)"
(cd $VR && VERIF_REPO=$WT ./check $P --tier $TIER 2>&1 | tail -6; echo "exit ${PIPESTATUS[0]}")
git -C /repo worktree remove --force $WT
