#!/usr/bin/env python3
"""tools/mkdesign913.py : (re)writes section 9.13 of DESIGN.md from reports/ext5/*.md (round-5 growth paragraphs), seeded/*-r4-*/meta.json
(round-4 seeds) and tools/design913_head.md (hand-written text). Also appends the claim sentences of the reports to tools/claims.json."""
import json, os, re, subprocess, sys
ROOT = os.path.dirname(os.path.dirname(os.path.abspath(__file__)))
R = os.path.join(ROOT, "reports", "ext5")
th = json.load(open(os.path.join(ROOT, "lean", "theorems.json")))
claims_p = os.path.join(ROOT, "tools", "claims.json")
claims = json.load(open(claims_p))


def section(txt, pat):
    m = re.search(r"^## [^\n]*" + pat + r"[^\n]*\n(?P<body>.*?)(?=^## |\Z)", txt, flags=re.S | re.M | re.I)
    return re.sub(r"\s*\n\s*", " ", m.group("body").strip()) if m else None


bullets = []
R2 = os.path.join(ROOT, "reports", "ext5b")   # short second wave of the same session
files = [(R, x) for x in sorted(os.listdir(R)) if x.endswith(".md")]
R3 = os.path.join(ROOT, "reports", "ext5c")   # third, shortest wave
for rr in (R2, R3):
    if os.path.isdir(rr):
        files += [(rr, x) for x in sorted(os.listdir(rr)) if x.endswith(".md")]
for d_, f in files:
    pid = f[:3]
    txt = open(os.path.join(d_, f)).read()
    wave = " Second wave (5b)." if d_ == R2 else " Third wave (5c)." if d_ == R3 else ""
    d = section(txt, r"DESIGN")
    c = section(txt, r"claim")
    if d:
        d = re.sub(r"^\*\*?C\d\d[^*]*\*\*\.?\s*", "", d).strip().strip('"')
        bullets.append(f"* **{pid}** ({len(th[pid]['theorems'])} theorems).{wave} {d}")
    if c:
        c = c.strip().strip('"').strip()
        c = re.sub(r"^(Append|Add)[^:]*:\s*", "", c)
        tag = "Round 5: "
        if c and c[:60] not in claims[pid]["text"]:
            claims[pid]["text"] = claims[pid]["text"].rstrip() + " " + (c if c.lower().startswith("round 5") else tag + c)
json.dump(claims, open(claims_p, "w"), indent=1, ensure_ascii=False)
total = sum(len(v["theorems"]) for v in th.values())
seeds = subprocess.check_output([sys.executable, os.path.join(ROOT, "tools", "seedtable.py"), "4"], text=True)
head = open(os.path.join(ROOT, "tools", "design913_head.md")).read()
body = head.replace("{SEEDTABLE}", seeds.strip()).replace("{TOTAL}", str(total)).replace("{BULLETS}", "\n".join(bullets))
p = os.path.join(ROOT, "DESIGN.md")
s = open(p).read()
i = s.find("\n### 9.13 ")
if i >= 0:
    s = s[:i]
open(p, "w").write(s.rstrip("\n") + "\n\n" + body.strip("\n") + "\n")
subprocess.check_call([sys.executable, os.path.join(ROOT, "tools", "mkmanifest.py")])
print("9.13 written:", len(bullets), "property paragraphs,", total, "theorems")
