#!/bin/bash
# tools/mergeext.sh <Cxx> : merges branch ext-<Cxx> (a growth agent's work, see EXTEND_GUIDE.md) into the current branch.
# Generated bookkeeping files are never merged textually: they are regenerated (register.py, translate --lock).
set -u
cd "$(dirname "$0")/.."
B=ext-$1
if [ -n "$(git status --porcelain --untracked-files=no | grep -v "^ M evidence/")" ]; then echo "working tree not clean: commit first"; git status --short --untracked-files=no | head; exit 2; fi
git checkout HEAD -- evidence 2>/dev/null
git merge --no-ff --no-commit $B > /var/tmp/merge-$1.log 2>&1
# bookkeeping files: take ours, regenerate below
for f in lean/theorems.json lean/CnvVerif/Props/All.lean lean/generated.lock.json; do
  git checkout --ours -- $f 2>/dev/null; git add $f 2>/dev/null
done
# evidence is rewritten by the checks in /verif, never taken from a branch
git checkout HEAD -- evidence 2>/dev/null
U=$(git diff --name-only --diff-filter=U)
if [ -n "$U" ]; then echo "CONFLICTS:"; echo "$U"; exit 1; fi
echo "merged $B without textual conflicts (not yet committed); now: register, translate --lock, build, check"
