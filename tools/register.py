#!/usr/bin/env python3
"""Rebuilds lean/theorems.json and lean/CnvVerif/Props/All.lean from the Props/Cxx*.lean files:
every `theorem` declared in a Props file is a registered obligation of that property."""
import json, os, re
ROOT = os.path.dirname(os.path.dirname(os.path.abspath(__file__)))
PROPS = os.path.join(ROOT, "lean", "CnvVerif", "Props")
reg = {}
mods = []
for fn in sorted(os.listdir(PROPS)):
    m = re.match(r"(C\d\d)([A-Za-z0-9_]*)\.lean$", fn)
    if not m:
        continue
    pid = m.group(1)
    mod = "CnvVerif.Props." + fn[:-5]
    src = open(os.path.join(PROPS, fn)).read()
    src_nc = re.sub(r"/-.*?-/", "", src, flags=re.S)
    src_nc = re.sub(r"--.*", "", src_nc)
    ns = re.search(r"^namespace\s+(\S+)", src_nc, re.M)
    prefix = (ns.group(1) + ".") if ns else ""
    names = [prefix + n for n in re.findall(r"^\s*theorem\s+([A-Za-z0-9_.']+)", src_nc, re.M)]
    e = reg.setdefault(pid, {"modules": [], "theorems": []})
    e["modules"].append(mod)
    e["theorems"] += names
    mods.append(mod)
for l in open(os.path.join(ROOT, "properties.jsonl")):
    reg.setdefault(json.loads(l)["id"], {"modules": [], "theorems": []})
json.dump(dict(sorted(reg.items())), open(os.path.join(ROOT, "lean", "theorems.json"), "w"), indent=1)
# Props/All.lean (built by MANIFEST.setup_cmd) imports the modules of the CLAIMED properties only
try:
    claimed = set(json.load(open(os.path.join(ROOT, "tools", "claims.json"))).keys())
except Exception:
    claimed = set(reg.keys())
allmods = [m for pid, e in sorted(reg.items()) if pid in claimed for m in e["modules"]]
open(os.path.join(PROPS, "All.lean"), "w").write("".join(f"import {m}\n" for m in allmods))
print({k: len(v["theorems"]) for k, v in sorted(reg.items()) if v["theorems"]})
