#!/usr/bin/env python3
"""tools/integrate.py <Topic> [extra CnvVerif modules...]: adds Driver/<Topic> to Main.lean and CnvVerif.lean"""
import re, sys
topic = sys.argv[1]
extra = [a for a in sys.argv[2:] if not a.startswith('--')]
p = '/verif/lean/CnvVerif.lean'
s = open(p).read()
for m in extra + [f"CnvVerif.Model.{topic}", f"CnvVerif.Driver.{topic}"]:
    if f"import {m}\n" not in s:
        s += f"import {m}\n"
open(p, 'w').write(s)
# builder drivers share the namespace CnvVerif.Drv: give each its own sub-namespace to avoid name clashes
dp = f'/verif/lean/CnvVerif/Driver/{topic}.lean'
d = open(dp).read()
if f"namespace CnvVerif.Drv.{topic}" not in d and "--ns" in sys.argv:
    d = re.sub(r"^namespace CnvVerif\.Drv\s*$", f"namespace CnvVerif.Drv.{topic}", d, flags=re.M)
    d = re.sub(r"^end CnvVerif\.Drv\s*$", f"end CnvVerif.Drv.{topic}", d, flags=re.M)
    open(dp, 'w').write(d)
qual = f"{topic}.handle{topic}" if f"namespace CnvVerif.Drv.{topic}" in d else f"handle{topic}"
p = '/verif/lean/Main.lean'
s = open(p).read()
if f"import CnvVerif.Driver.{topic}\n" not in s:
    s = s.replace("open Lean CnvVerif.Drv", f"import CnvVerif.Driver.{topic}\nopen Lean CnvVerif.Drv")
    s = re.sub(r"\[handleInterval([^\]]*)\]", lambda m: f"[handleInterval{m.group(1)}, {qual}]", s, count=1)
open(p, 'w').write(s)
print(open(p).read()[:900])
