"""reduced runner (mutation self-test on a loaded machine): ONLY the extension-5 cases of C07 (op in_ranges_raw) plus,
with --all-inranges, the in_range / in_ranges cases, through the same run_impl / to_line / Lean driver / judge as ./check"""
import os, sys, random, json
sys.path.insert(0, os.path.dirname(os.path.dirname(os.path.abspath(__file__))))
from harness import core
core.setup_repo_path()
from harness.props import C07
seed = int(os.environ.get("VERIF_SEED", "0"))
rng = random.Random(seed)
cases = [c for c in C07.corpus() if c["op"] == "in_ranges_raw"] + C07._raw_cases(rng, True)
if "--all" in sys.argv:
    allc = C07.gen_cases(random.Random(seed), "quick")
    cases = [c for c in allc if c["op"] in ("in_range", "in_ranges", "in_ranges_raw")][::7] + cases
impls = []
for c in cases:
    try:
        impls.append(C07.run_impl(c))
    except Exception as e:
        impls.append({"__error__": type(e).__name__, "msg": str(e)[:200]})
lines = [C07.to_line(c, i) for c, i in zip(cases, impls)]
resps = core.lean_driver(lines)
bad = 0
kinds = {}
for c, i, r in zip(cases, impls, resps):
    spec, dis, _ = C07.judge(c, i, r)
    k = "raise:" + i["raise"] if isinstance(i, dict) and "raise" in i else ("error" if isinstance(i, dict) and "__error__" in i else "rows")
    kinds[k] = kinds.get(k, 0) + 1
    if spec or dis:
        bad += 1
        if bad <= 3:
            print("VIOLATION", spec, dis, json.dumps(c["in"])[:300], "impl=", json.dumps(i)[:200], "model=", json.dumps(r.get("out"))[:200])
print(f"repo={core.REPO} cases={len(cases)} kinds={kinds} violations={bad}")
