#!/bin/bash
# tools/seedinstall.sh <seed worktree dir> <name> : copies patch/demo/NOTE into /verif/seeded/<name>, making the demo path-independent
set -e
S=$1; N=$2
mkdir -p /verif/seeded/$N
cp $S/patch.diff /verif/seeded/$N/patch.diff
cp $S/NOTE.md /verif/seeded/$N/NOTE.md 2>/dev/null || true
sed -e "s#sys.path.insert(0, \"$S\")#sys.path.insert(0, __import__('os').environ.get('SEED_REPO', '/repo'))#; s#sys.path.insert(0, '$S')#sys.path.insert(0, __import__('os').environ.get('SEED_REPO', '/repo'))#; s#sys.path.insert(0, os.path.dirname(os.path.abspath(__file__)))#sys.path.insert(0, os.environ.get('SEED_REPO', '/repo'))#; s#^HERE = os.path.dirname(os.path.abspath(__file__))#HERE = os.environ.get(\"SEED_REPO\", \"/repo\")#; s#$S#'+__import__('os').environ.get('SEED_REPO','/repo')+'#g" $S/demo.py > /verif/seeded/$N/demo.py
grep -n "SEED_REPO\|$S" /verif/seeded/$N/demo.py | head -5
