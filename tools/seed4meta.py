#!/usr/bin/env python3
"""tools/seed4meta.py <seed-dir> <logfile> [note]: records in seeded/<dir>/meta.json what tools/seedtest.sh printed for it"""
import json, re, sys, os
d, log = sys.argv[1], open(sys.argv[2]).read()
p = os.path.join(os.path.dirname(os.path.dirname(os.path.abspath(__file__))), "seeded", d, "meta.json")
m = json.load(open(p))
exits = re.findall(r"^exit (\d+)", log, re.M)
viol = re.findall(r"^VIOLATION property=(\w+) replay=replays/\w+?-(.+?)-[0-9a-f]{12}\.json(.*)$", log, re.M)
summ = re.findall(r"^\[C\d\d\] tier=.*$", log, re.M)
prop = d[:3]
m["caught_by"] = f"./check {prop} --tier quick -> " + ("VIOLATION clauses " + ", ".join(sorted({v[1] + (" (no-failing-input-found)" if "no-failing" in v[2] else "") for v in viol})) if viol else "NOT reported")
m["check_summary"] = summ[-1] if summ else ""
m["origin"] = "independent sub-agent given only the property text and a scratch worktree (round 4: a clause / mechanism different from rounds 1-3)"
m["confirmed"] = [f"tools/seedtest.sh {d} {prop}: demo exit {exits[0] if exits else '?'} without the patch, {exits[1] if len(exits) > 1 else '?'} with it; check exit {exits[2] if len(exits) > 2 else '?'}"]
if len(sys.argv) > 3:
    m["note"] = sys.argv[3]
json.dump(m, open(p, "w"), indent=1, ensure_ascii=False)
print(d, m["caught_by"][:200])
