#!/usr/bin/env python3
"""tools/dupnames.py : declaration names that occur in more than one Lean file of the library (approximate, by text).
Modules developed side by side (growth branches) can define the same helper lemma; Props/All.lean imports all of them."""
import re, os, collections
root = os.path.join(os.path.dirname(os.path.dirname(os.path.abspath(__file__))), "lean", "CnvVerif")
decl = collections.defaultdict(set)
for d, _, fs in os.walk(root):
    for f in fs:
        if not f.endswith(".lean"):
            continue
        p = os.path.join(d, f)
        src = re.sub(r"/-.*?-/", "", open(p).read(), flags=re.S)
        src = re.sub(r"--.*", "", src)
        ns = []
        for line in src.split("\n"):
            m = re.match(r"\s*namespace\s+(\S+)", line)
            if m:
                ns.append(m.group(1)); continue
            m = re.match(r"\s*end\s+(\S+)\s*$", line)
            if m and ns and ns[-1] == m.group(1):
                ns.pop(); continue
            m = re.match(r"\s*(private\s+|protected\s+)?(?:@\[[^\]]*\]\s*)?(?:noncomputable\s+)?(theorem|lemma|def|abbrev|structure|inductive)\s+([A-Za-z_][A-Za-z0-9_.']*)", line)
            if m and not (m.group(1) or "").startswith("private"):
                decl[".".join(ns + [m.group(3)])].add(os.path.relpath(p, root))
bad = {k: sorted(v) for k, v in decl.items() if len(v) > 1}
for k, v in sorted(bad.items()):
    print(k, v)
print(len(bad), "names in more than one file")
