#!/bin/bash
# tools/seedsweep.sh : every seeded change under /verif/seeded must still be reported by the quick tier of its property
cd /verif
for d in seeded/*/; do
  n=$(basename $d); p=${n:0:3}
  out=$(tools/seedtest.sh $n $p 2>&1)
  v=$(echo "$out" | grep -c "^VIOLATION")
  e=$(echo "$out" | grep "^exit" | tail -1)
  echo "$n $p violations=$v $e"
done
