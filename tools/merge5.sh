#!/bin/bash
# tools/merge5.sh <Cxx> : merge branch ext-<Cxx> (round-5 growth), regenerate bookkeeping, build, commit. Checks run afterwards.
set -u
cd "$(dirname "$0")/.."
P=$1
tools/mergeext.sh $P | tail -3; git rev-parse -q --verify MERGE_HEAD >/dev/null || { echo "NOT MERGED (working tree not clean?)"; exit 1; }
python3 tools/resolve_main.py && git add lean/Main.lean lean/CnvVerif.lean
U=$(git diff --name-only --diff-filter=U); if [ -n "$U" ]; then echo "UNRESOLVED: $U"; exit 1; fi
/venv/bin/python tools/register.py > /var/tmp/register.out 2>&1 || { tail -5 /var/tmp/register.out; exit 1; }
/venv/bin/python -m harness.translate --lock > /var/tmp/translate.out 2>&1 || { tail -5 /var/tmp/translate.out; exit 1; }
python3 tools/dupnames.py 2>/dev/null | tail -3
M=$(git status --porcelain lean/CnvVerif/Generated | grep "^ M\|^MM" )
if [ -n "$M" ]; then echo "GENERATED FILES CHANGED:"; echo "$M"; fi
( cd lean && lake build CnvVerif Main CnvVerif.Props.All 2>&1 | grep -E "^error|✖|build failed" | head -20 )
if ( cd lean && lake build CnvVerif Main CnvVerif.Props.All > /dev/null 2>&1 ); then
  git add -A lean harness tools reports proposed_fixes coverage
  git commit -qm "merge ext-$P (round-5 growth): $(git log -1 --format=%s ext-$P | cut -c1-150)" && echo "committed merge of $P: $(tail -1 /var/tmp/register.out | cut -c1-400)"
else
  echo "BUILD FAILED after merging $P"
fi
