#!/bin/bash
# pre-commit gate for /verif: the registered setup_cmd must build, the manifest must validate, no sorry in imported files
set -e
cd "$(dirname "$0")/.."
# hold the shared tree lock (see harness/main.py) so that no development run rewrites Generated/ meanwhile
mkdir -p lean/.lake
exec 9>lean/.lake/tree.lock
flock -s 9
# the generated model files must be what the translator produces from /repo (a dev run against a mutated tree may have left others)
python3 - <<'PY'
import sys
sys.path.insert(0, ".")
from harness import translate as tr
info = tr.regenerate("/repo", "lean/CnvVerif/Generated")
if info.get("changed"):
    print("generated files differ from the committed lock:", info.get("changed")); sys.exit(1)
PY
# ... and what is being committed must be those files (the index can lag behind the working tree)
if ! git diff --quiet -- lean/CnvVerif/Generated lean/generated.lock.json lean/generated.baseline; then
  echo "generated files in the working tree differ from the staged ones: git add lean/CnvVerif/Generated lean/generated.lock.json lean/generated.baseline"; exit 1
fi
( cd lean && flock .lake/verif.lock lake build CnvVerif Main CnvVerif.Props.All 2>&1 | grep -E "^error|✖|build failed" && exit 1 || true )
python3-vt - <<'PY'
import json, jsonschema
m = json.load(open("MANIFEST.json")); s = json.load(open("/root/.vp/MANIFEST.schema.json"))
jsonschema.validate(m, s)
PY
echo precommit ok
