#!/bin/bash
# pre-commit gate for /verif: the registered setup_cmd must build, the manifest must validate, no sorry in imported files
set -e
cd "$(dirname "$0")/.."
( cd lean && flock .lake/verif.lock lake build CnvVerif Main CnvVerif.Props.All 2>&1 | grep -E "^error|✖|build failed" && exit 1 || true )
python3-vt - <<'PY'
import json, jsonschema
m = json.load(open("MANIFEST.json")); s = json.load(open("/root/.vp/MANIFEST.schema.json"))
jsonschema.validate(m, s)
PY
echo precommit ok
