#!/bin/bash
# tools/reftest.sh <patch.diff> <property> [tier]
# Applies a BEHAVIOUR-PRESERVING patch to a scratch worktree of /repo HEAD (outside /repo and /verif) and runs the
# property's check against it: the expected outcome is exit 0 (no alarm).
set -u
PATCH=$1; P=$2; TIER=${3:-quick}
VR=${VERIF_ROOT:-/verif}   # run the check from another worktree of /verif (own tree lock)
WT=/var/tmp/refwt-$P-$$
git -C /repo worktree add -q --detach $WT HEAD || exit 3
(cd $WT && git apply $PATCH) || { echo "patch does not apply"; git -C /repo worktree remove --force $WT; exit 3; }
(cd $VR && VERIF_REPO=$WT ./check $P --tier $TIER 2>&1 | grep -v "^KNOWN-FINDING\|^WARNING" | tail -4; echo "exit ${PIPESTATUS[0]}")
git -C /repo worktree remove --force $WT
