#!/usr/bin/env python3
"""tools/seedtable.py <round>: markdown table of the seeded changes of one round (from seeded/*/meta.json) for DESIGN.md"""
import json, glob, sys, os, re
r = sys.argv[1]
root = os.path.dirname(os.path.dirname(os.path.abspath(__file__)))
print("| seed | property | needs … to manifest | reported by the quick tier under |")
print("|------|----------|---------------------|----------------------------------|")
for p in sorted(glob.glob(os.path.join(root, "seeded", f"*-r{r}-*", "meta.json"))):
    m = json.load(open(p)); d = os.path.basename(os.path.dirname(p))
    needs = re.sub(r"\s+", " ", m.get("needs", "")).replace("|", "/")
    if len(needs) > 330:
        needs = needs[:327] + "…"
    cb = m.get("caught_by", "").split("VIOLATION clauses ")[-1]
    cb = ", ".join(f"`{c.strip()}`" for c in cb.split(", ")) if "NOT" not in cb else "**missed**"
    note = (" — " + m["note"]) if m.get("note") else ""
    print(f"| {d} | {m['property']} | {needs} | {cb}{note} |")
