#!/usr/bin/env python3
"""tools/mkdesign911.py : (re)writes section 9.11 of DESIGN.md from reports/ext4/*.md (the growth agents' paragraphs)."""
import json, os, re
ROOT = os.path.dirname(os.path.dirname(os.path.abspath(__file__)))
R = os.path.join(ROOT, "reports", "ext4")
th = json.load(open(os.path.join(ROOT, "lean", "theorems.json")))


def paras(txt, head):
    m = re.search(re.escape(head) + r"[^\n]*\n(.*?)(?:\n\s*\n|\nClaim sentence|\Z)", txt, flags=re.S)
    return m.group(1).strip() if m else None


body = []
for f in sorted(x for x in os.listdir(R) if x.endswith(".md")):
    txt = open(os.path.join(R, f)).read()
    pid = f[:3]
    if f == "C01C02.md":
        for p, h in (("C01", "DESIGN §9.2 text (C01):"), ("C02", "DESIGN §9.2 text (C02):")):
            body.append(f"* **{p}** ({len(th[p]['theorems'])} theorems). " + paras(txt, h))
        continue
    s = paras(txt, "DESIGN §9.2 text:")
    body.append(f"* **{pid}** ({len(th[pid]['theorems'])} theorems). " + s)
total = sum(len(v["theorems"]) for v in th.values())

HEAD = f"""
### 9.11 Growth round (session 3): more of the code inside the model, more theorems, a tighter tie

Every property was handed to a growth agent working under `EXTEND_GUIDE.md` in its OWN git worktree of /verif (own
`lean/.lake`, own tree lock, scratch worktree of /repo for mutations), on a branch `ext-Cxx` that was then merged here
(`tools/mergeext.sh`; bookkeeping files are regenerated, never merged). The brief to each: turn clauses carried only by the
correspondence / metamorphic / oracle runs into theorems, bring glue code (wrappers, command functions, option handling) into
the model with driver ops and generators that reach it, and extend the *translation* tie so that whole function bodies are
re-read from the source on every run and PROVED equal to the hand-written model (`Props/CxxSrc*.lean`). Each agent had to
show, per new piece, one realistic breaking edit that only the new work exposes and two behaviour-preserving rewrites that
stay silent. Registered obligations grew from 455 to {total}; the reports are kept under `reports/ext4/`.

**The translator family after this round** (all `ast`-based, all part of the trusted base, each with its reading rules stated
at the top of its file; every `Generated/*.lean` that existed before is byte-identical after the merge):

| reader | reads | used for |
|---|---|---|
| `exprtrans.Fn` / `emit` (+ options `pieces`, `atoms`, `columns`, `bare_columns`, `opaque`, `loop_mode`) | pure arithmetic bodies, masked numpy updates, index-set scatter, `round` half-even, `x.clip`, Boolean masks | C01 abs, C02 baf, C04 edge / mask / weights, C06 pieces, C09 depth / log2, C14 levels, C17 levels / z_prob / MSE, C18 boost, C19 wing |
| `emit_fragments`, `emit_slices`, `emit_pieces`, `emit_values` | single expressions / tests / slice bounds / the value of a local, cut out of a larger function by shape | C03 `by_arm`, C04 `apply_weights`, C06 merge / subtract / resize / subdivide, C17 percentile levels |
| `exprtrans.TFn` / `emit_typed`, `scan_rows`, `guard_condition` | decision tables as sequences of masked column assignments, row masks, `for … enumerate … break … else` as a first-match recursion, `if …: raise` guards | C01 copy tables, `cnary` sex-chromosome / PAR masks, C02 threshold scan, `_cmd_call` guard |
| `exprtrans.RowFn` / `emit_rows` | column-wise pandas code row by row, `itertuples` loops, f-strings | C20 `segments2vcf`, `export_bed`, `verify_sample_sex` |
| `exprtrans.GFn` / `emit_gtyped` | typed list / index logic, ONE iteration of a loop as yields + carried state, row records | C16 `by_gene`, genemetrics tests, `get_breakpoints`, `segment_mean` |
| `exprtrans.FnOpt`, `BoolFn`, `emit_loop` | optional values, Boolean decision expressions, one iteration of an index loop | C15 sex decision / `center_all`, C11 `HaarConv` |
| `harness/looptrans.py` (+ `Model/PyPrims.lean`) | generator loops with carried state (`for line in f:` state machines) | C13 `get_regions`, `join_regions` |
| `harness/settrans.py` | rules over sets of names (comprehensions, `any` / `all`, `isdisjoint`, `max(map(len, …))`) | C12 contig rule, name filters |
| `harness/vectrans.py` (+ `Model/NpVec.lean`) | typed numpy vector code (`cumsum`, `searchsorted`, `take`, percentiles) | C19 eight estimators |
| `harness/dectrans.py` | if / elif / return decision STRUCTURE over a stated vocabulary of atoms | C18 `_extract_genotype`, `_get_alt_count`, `_safesum` |
| `extractors/exprs_chromsort.py` (+ `Model/PyStr.lean`) | string-valued functions | C08 `sorter_chrom`, `to_label` |

A tie of this kind says "the model function IS what the source text says, under the stated reading of the Python subset"; an
edit to a tied formula breaks a proof obligation even when its numerical effect is far below any correspondence tolerance
(each agent demonstrated one such sub-tolerance edit; the check then reports `no-failing-input-found` naming the theorem),
while renamed locals, reordered independent statements, flipped comparisons and equivalent numpy spellings keep the
proofs green (proved through `ring` / `omega` / case splits, not `rfl`). Ties live in one Lean module per source function
where possible, so an edit names exactly its obligation. A rewrite that leaves a reader's subset is reported although
harmless (by the rules of the task); known instances are listed per property below.

**Per property** (what round 4 added; §9.2 still describes the base):

"""

TAIL = """

**Defects found by this round.** BF, BG (C10): see 9.3 — `reference --cluster` still depended on the global RNG state through sklearn's PCA (fix bc7a16a); `do_segmentation` on an empty table returned and reordered the caller's table (fix 25951a5). BE (C14): `enumerate_changes` accumulated |Δlevel| truncated to int, so the weighted-median cn
5.5 that `ampdel` leaves for a run of cn 5 and 6 was merged by a following `cn` filter with a cn-5 segment across the neutral
segment `ampdel` had dropped (chr1 rows cn 5, 6, 2, 5, filters `[ampdel, cn]` → one row 0–40). Reproduced on /repo, repaired by
`fix:` 31bc163 (count the changes, as the docstring says), 61/61 baseline tests pass, witness in the C14 corpus.

**False alarm removed by this round.** C13: a changed default of `access -s` used to be reported under
`access_small_gaps_joined` because the driver assumed `do_access`'s default for command-line cases; it now reads the command
line's own default from the source (`ACCESS_CLI_DEFAULT_MIN_GAP`).

**Integration notes.** Branches developed side by side defined helper lemmas and generated definitions of the same name
(`splitRow_within`, `cov_flatMap`, `roundHalfEven_nonneg`, `chromsInOrder_single`, `src_verify_sample_sex`,
`src_chr_x_filter`, two readers both called `TFn`): `Props/All.lean` imports everything, so they were renamed at the merge
(`tools/dupnames.py` lists such names). Textual merges of `exprtrans.py` were resolved by hand; after every merge the
translator was re-run and `git status lean/CnvVerif/Generated` had to show no modified file — that is the check that the
merged readers still produce every branch's generated definitions byte for byte. (One resolution silently lost the tail of
`emit_pieces`, which emptied `ExprsInterval.lean`; this check caught it.)

**Follow-ups from the measured coverage (9.12).** C18: the gap of `_parse_pedigrees` (both GATK branches never executed, the
model knew PEDIGREE only) is closed: `Model/VcfPairs.lean` models the three conventions and their `if / elif / elif` precedence
on the pysam view of the header (GATKCommandLine ID + option tokens as data; `strip` / `split` trusted), `readVcfH` /
`loadHetSnpsH` replace `readVcf` / `loadHetSnps` in the `vcf_read` / `vcf_hets` / `vcf_pipeline` ops (identical without GATK
records), `VErr` gains `typeError`; 16 theorems in `Props/C18Pairs.lean` (precedence, exact pair per convention, "the first
declared pair is the pair read"); 18 generator cells crossed with selectors on real header lines; three mutations of the
branch (pair swapped, NORMAL/TUMOR test inverted, `elif` → `if`) are caught with replays; no defect of /repo. A source tie
of the key precedence and the general `chooseNamesH = chooseNames` bridge were not built. C03: anchor coverage of `transfer_fields` rose from 35/45 to 45/45 lines (`make_null_segment` 0/3 → 3/3) by a direct-call op
`transfer` and units-without-survivor cells; 10 theorems in `Props/C03Fallback.lean` (zero total weight ⇒ depth 0; no weight
column ⇒ weight = count of spanned bins and depth = their mean, equal to the weighted branch at unit weights; null row; no
bins; `assembleUnit` is `transferFields`). The call-path analysis showed that the null-segment, no-bins, zero-total-weight and
no-weight-column branches are dead code behind `do_segmentation` — the last because `_do_segmentation` indexes
`filtered_cn["weight"]` unconditionally and raises KeyError on a weight-less table although `transfer_fields` supports one
(observation outside C03's quantifier, `proposed_fixes/C03-segment-without-weight-column.diff`, not applied). Mutations of each
branch are caught with replays; three equivalent rewrites stay silent.

**Trusted base, additions.** The readers in the table above with their stated rules; the one-line primitives in
`Model/PyPrims.lean`, `NpVec.lean`, `PyStr.lean`, `PyRow.lean`; hand-written control flow re-assembling generated fragments
(`Lemmas/SrcArm.lean: srcCmereIdx`, `pySlice`); the atoms named verbatim by extractors (`exprs_interval.py`), the vocabulary of
`dectrans`; concurrent.futures storing each result in the future of its own submission (C09). Removed from the trusted list:
the spelling of `%.6g` (C08, now a theorem), the worker schedule as an ordered-map contract (C09, now a small-step model),
`per_chrom_agrees` (C13, now a theorem), depth-scale / permutation invariance as metamorphic-only (C04).
"""

s = open(os.path.join(ROOT, "DESIGN.md")).read()
i = s.find("\n### 9.11 Growth round")
after = ""
if i >= 0:
    j = s.find("\n### 9.12", i)
    after = s[j:] if j >= 0 else ""
    s = s[:i].rstrip("\n") + "\n"
s = s.rstrip("\n") + "\n" + HEAD + "\n".join(body) + TAIL.rstrip("\n") + "\n" + after
open(os.path.join(ROOT, "DESIGN.md"), "w").write(s)
print("DESIGN.md 9.11 written:", len(body), "properties,", total, "theorems")
