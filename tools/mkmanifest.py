#!/usr/bin/env python3
"""Writes MANIFEST.json from the table below (kept in one place so it stays valid)."""
import json, os
ROOT = os.path.dirname(os.path.dirname(os.path.abspath(__file__)))
props = [json.loads(l) for l in open(os.path.join(ROOT, "properties.jsonl"))]
CLAIMED = json.load(open(os.path.join(ROOT, "tools", "claims.json")))
checks, na = [], []
for p in props:
    pid = p["id"]
    c = CLAIMED.get(pid)
    if not c or c.get("not_applicable"):
        na.append({"property_id": pid, "reason": (c or {}).get("not_applicable", "check not built yet in this round (planned: DESIGN.md section 6)")})
        continue
    checks.append({
        "property_id": pid,
        "quick_cmd": f"./check {pid} --tier quick",
        "thorough_cmd": f"./check {pid} --tier thorough",
        "evidence_file": f"evidence/{pid}.json",
        "replay_cmd_template": f"./check {pid} --replay {{path}}",
        "engine": "lean4-proof+correspondence",
        "level_claimed": {"category": c.get("category", "proof"), "text": c["text"], "design_ref": f"DESIGN.md section 6 {pid}"},
        "level_note": c["note"],
        "technique": c.get("technique", "Lean 4 theorems about an executable model; differential correspondence model vs real code; Lean spec oracle on real outputs"),
    })
man = {
    "version": 1,
    "setup_cmd": "cd lean && lake build CnvVerif Main CnvVerif.Props.All",
    "hooks": {"guard": "CNVKIT_VERIF", "enable": "export CNVKIT_VERIF=1 (no hook commits exist: every anchor is reachable through public functions)",
              "baseline_off_cmd": "tools/baseline.sh", "source_commits": [], "add_only": True},
    "engines": [{"name": "lean4-proof+correspondence", "path": "check", "serves_properties": [c["property_id"] for c in checks],
                 "kind_free_text": "Lean 4.33 theorems (lean/CnvVerif/Props) about executable models (lean/CnvVerif/Model); harness/ regenerates Generated/Consts.lean from /repo (ast translator), runs the real cnvlib/skgenome code and the Lean driver on the same inputs and diffs; Lean-side decidable spec oracle evaluated on the real outputs"}],
    "checks": checks,
    "notes": "fix: commits in /repo and their witnesses are listed in known_findings.json; see DESIGN.md sections 5 and 7",
    "not_applicable": na,
}
json.dump(man, open(os.path.join(ROOT, "MANIFEST.json"), "w"), indent=1)
print(len(checks), "checks,", len(na), "not claimed")
