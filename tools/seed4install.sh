#!/bin/bash
# tools/seed4install.sh <Cxx> <name> [runner] : installs the round-4 seed delivered in /var/tmp/s4out/<Cxx>
# (patch.diff, demo.py, meta.json) as /verif/seeded/<Cxx>-r4-<name>/ and runs tools/seedtest.sh on it from a runner
# worktree of /verif (first free of /var/tmp/run/r1..r5; each has its own tree lock), log in /var/tmp/s4log/<Cxx>.log
set -e
P=$1; N=$P-r4-$2; S=/var/tmp/s4out/$P
mkdir -p /verif/seeded/$N /var/tmp/s4log
cp $S/patch.diff $S/demo.py $S/meta.json /verif/seeded/$N/
test -s /verif/seeded/$N/patch.diff || { echo "empty patch"; exit 1; }
git -C /repo apply --check /verif/seeded/$N/patch.diff
for i in 1 2 3 4 5; do
  exec 8>/var/tmp/run/r$i.busy
  if flock -n 8; then
    VERIF_ROOT=/var/tmp/run/r$i /verif/tools/seedtest.sh $N $P > /var/tmp/s4log/$P.log 2>&1
    echo "$N on r$i:"; grep -E "^exit|^VIOLATION|^== |^\[C" /var/tmp/s4log/$P.log | cut -c1-400
    exit 0
  fi
done
echo "no free runner"; exit 4
