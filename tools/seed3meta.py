#!/usr/bin/env python3
"""tools/seed3meta.py <seed-dir-name> <log> "<breaks>" "<needs>" : writes seeded/<name>/meta.json from a seedtest log"""
import json, re, sys, os
name, log, breaks, needs = sys.argv[1:5]
txt = open(log).read()
prop = name[:3]
clauses = sorted(set(re.findall(r"replay=replays/" + prop + r"-(.+?)-[0-9a-f]{12}\.json", txt)))
summary = re.search(r"^\[" + prop + r"\].*$", txt, re.M)
exits = re.findall(r"^exit (\d+)", txt, re.M)
nofail = "no-failing-input-found" in txt
meta = {
    "property": prop, "round": 3, "breaks": breaks, "needs": needs,
    "caught_by": f"./check {prop} --tier quick -> VIOLATION clauses {', '.join(clauses)}" + (" (no-failing-input-found for some)" if nofail else ""),
    "check_summary": summary.group(0) if summary else None,
    "origin": "independent sub-agent given only the property text and a scratch worktree (round 3: a clause / mechanism different from rounds 1 and 2)",
    "ran": [f"tools/seedtest.sh {name} {prop}: demo exit {exits[0] if exits else '?'} without the patch, {exits[1] if len(exits)>1 else '?'} with it; check exit {exits[2] if len(exits)>2 else '?'}",
            "existing test suite in the seeding agent's worktree: same result with and without the patch (64 passed, 6 failing for environmental reasons either way: no R, missing BAM fixtures)"],
}
json.dump(meta, open(os.path.join(os.path.dirname(os.path.dirname(os.path.abspath(__file__))), "seeded", name, "meta.json"), "w"), indent=1)
print(name, clauses, exits)
