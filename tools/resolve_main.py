#!/usr/bin/env python3
"""tools/resolve_main.py: resolves the merge conflict every growth branch causes in lean/Main.lean (all branches add an import and a
handler to the same one-line list) and in lean/CnvVerif.lean (import lines). Main.lean is rebuilt from both sides (HEAD and
MERGE_HEAD): imports = ours + theirs' new ones, handler list = ours + theirs' new ones, everything else ours."""
import re, subprocess, os
root = os.path.dirname(os.path.dirname(os.path.abspath(__file__)))


def show(rev, rel):
    return subprocess.check_output(["git", "-C", root, "show", f"{rev}:{rel}"], text=True)


def handlers(s):
    m = re.search(r"^  \[(handleInterval.*?)\]\s*$", s, flags=re.M | re.S)
    return m, [x.strip() for x in m.group(1).replace("\n", " ").split(",") if x.strip()]


p = os.path.join(root, "lean/Main.lean")
s = open(p).read()
if "<<<<<<<" in s or os.path.exists(os.path.join(root, ".git", "MERGE_HEAD")):
    ours, theirs = show("HEAD", "lean/Main.lean"), show("MERGE_HEAD", "lean/Main.lean")
    oi = [l for l in ours.splitlines() if l.startswith("import ")]
    ti = [l for l in theirs.splitlines() if l.startswith("import ") and l not in oi]
    m, oh = handlers(ours)
    _, thh = handlers(theirs)
    new_list = "  [" + ", ".join(oh + [h for h in thh if h not in oh]) + "]"
    out = ours[:m.start()] + new_list + ours[m.end():]
    last = oi[-1]
    out = out.replace(last + "\n", last + "\n" + "".join(l + "\n" for l in ti), 1)
    open(p, "w").write(out)
    print("resolved lean/Main.lean (+%d imports, +%d handlers)" % (len(ti), len([h for h in thh if h not in oh])))
p = os.path.join(root, "lean/CnvVerif.lean")
s = open(p).read()
if "<<<<<<<" in s:
    def fix(m):
        al, bl = m.group(1).splitlines(), m.group(2).splitlines()
        return "\n".join(al + [x for x in bl if x not in al]) + "\n"
    s = re.sub(r"<<<<<<< [^\n]*\n(.*?)=======\n(.*?)>>>>>>> [^\n]*\n", fix, s, flags=re.S)
    open(p, "w").write(s)
    print("resolved lean/CnvVerif.lean")
