#!/usr/bin/env python3
"""tools/resolve_main.py: resolves the merge conflict every growth branch causes in lean/Main.lean (all branches add a handler to the
same one-line list) and in lean/CnvVerif.lean (import lines): union of both sides, ours first."""
import re, sys, os
root = os.path.dirname(os.path.dirname(os.path.abspath(__file__)))
for rel in ("lean/Main.lean", "lean/CnvVerif.lean"):
    p = os.path.join(root, rel)
    s = open(p).read()
    if "<<<<<<<" not in s:
        continue
    def fix(m):
        ours, theirs = m.group(1), m.group(2)
        if ours.strip().startswith("["):
            a = [x.strip() for x in ours.strip()[1:-1].split(",")]
            b = [x.strip() for x in theirs.strip()[1:-1].split(",")]
            return "  [" + ", ".join(a + [x for x in b if x not in a]) + "]\n"
        al = ours.splitlines(); bl = theirs.splitlines()
        return "\n".join(al + [x for x in bl if x not in al]) + "\n"
    s2 = re.sub(r"<<<<<<< [^\n]*\n(.*?)=======\n(.*?)>>>>>>> [^\n]*\n", fix, s, flags=re.S)
    open(p, "w").write(s2)
    print("resolved", rel)
