#!/bin/bash
# Runs the repository's pinned test suite with the verification guard OFF and compares with BASELINE.json
unset CNVKIT_VERIF
OUT=${1:-/var/tmp/cnvkit_baseline.junit.xml}
cd /repo && /venv/bin/python -m pytest -ra -q -p no:cacheprovider --timeout=900 --continue-on-collection-errors --junitxml="$OUT" > "$OUT.log" 2>&1
/venv/bin/python - "$OUT" <<'PY'
import json, sys, xml.etree.ElementTree as ET
base = json.load(open('/root/.vp/BASELINE.json'))
want = set(base['stable_pass'])
root = ET.parse(sys.argv[1]).getroot()
passed = set()
for tc in root.iter('testcase'):
    bad = any(ch.tag in ('failure', 'error', 'skipped') for ch in tc)
    if not bad:
        passed.add(f"{tc.get('classname')}::{tc.get('name')}")
missing = sorted(want - passed)
print(f"baseline: {len(want & passed)}/{len(want)} stable tests pass")
for m in missing:
    print("MISSING", m)
sys.exit(1 if missing else 0)
PY
