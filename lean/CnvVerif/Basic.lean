/-
  Basic vocabulary shared by every model: rows of a genomic table, chromosome sort key,
  stable sorts / groupings that mirror the pandas calls used by skgenome and cnvlib.
  Core Lean only (no Mathlib): the JSON driver imports these files.
-/
namespace CnvVerif

/-- A row of a `GenomicArray`: chromosome, 0-based half-open interval, and one payload
    column (`gene`) standing for "the other fields of the row". -/
structure Row where
  chrom : String
  s : Int
  e : Int
  gene : String
deriving Repr, DecidableEq, Inhabited

abbrev Table := List Row

/-- `skgenome.chromsort.sorter_chrom`. -/
def sorterChrom (label : String) : Nat × String :=
  let chrom : String :=
    if label.toLower.startsWith "chr" then (label.drop 3).toString else label
  if chrom == "X" || chrom == "Y" then (1000, chrom)
  else
    let nums := (chrom.takeWhile Char.isDigit).toString
    let chars := (chrom.drop nums.length).toString
    let n := nums.toNat?.getD 0
    if chars.isEmpty then (n, "")
    else if chars.length == 1 then (2000 + n, chars)
    else (3000 + n, chars)

/-- Python tuple comparison `(int, str) <= (int, str)`. -/
def chromKeyLe (a b : Nat × String) : Bool :=
  a.1 < b.1 || (a.1 == b.1 && decide (a.2 ≤ b.2))

def chromKeyLt (a b : Nat × String) : Bool :=
  a.1 < b.1 || (a.1 == b.1 && decide (a.2 < b.2))

/-- `GenomicArray.sort`: stable sort by (`sorter_chrom`, start, end). -/
def sortLe (a b : Row) : Bool :=
  let ka := sorterChrom a.chrom
  let kb := sorterChrom b.chrom
  chromKeyLt ka kb || (ka == kb && (a.s < b.s || (a.s == b.s && a.e ≤ b.e)))

def sortTable (t : Table) : Table := t.mergeSort sortLe

/-- `DataFrame.sort_values(["chromosome","start","end"])` (lexicographic chromosome). -/
def lexLe (a b : Row) : Bool :=
  decide (a.chrom < b.chrom) || (a.chrom == b.chrom && (a.s < b.s || (a.s == b.s && a.e ≤ b.e)))

def sortLex (t : Table) : Table := t.mergeSort lexLe

/-- Re-sort chromosomes "cleverly": stable sort on `sorter_chrom` only. -/
def chromOnlyLe (a b : Row) : Bool := chromKeyLe (sorterChrom a.chrom) (sorterChrom b.chrom)

def resortChrom (t : Table) : Table := t.mergeSort chromOnlyLe

/-- Chromosome names in order of first appearance (`groupby(..., sort=False)` keys). -/
def chromsInOrder (t : Table) : List String := (t.map (·.chrom)).eraseDups

/-- `groupby("chromosome", sort=False)`. -/
def groupByChrom (t : Table) : List (String × Table) :=
  (chromsInOrder t).map (fun c => (c, t.filter (fun r => r.chrom == c)))

/-- `",".join(pd.unique(elems))`. -/
def joinStrings (l : List String) : String := ",".intercalate l.eraseDups

/-- numpy `searchsorted(col, v, side="left")` on a monotone column = number of entries `< v`. -/
def ssLeft (col : List Int) (v : Int) : Nat := col.countP (fun x => x < v)
/-- numpy `searchsorted(col, v, side="right")` on a monotone column = number of entries `≤ v`. -/
def ssRight (col : List Int) (v : Int) : Nat := col.countP (fun x => x ≤ v)

/-- `Series.is_monotonic_increasing` (non-strict). -/
def isMonotone : List Int → Bool
  | [] => true
  | [_] => true
  | a :: b :: t => a ≤ b && isMonotone (b :: t)

/-- running maximum (`Series.cummax`). -/
def cummaxGo (m : Int) : List Int → List Int
  | [] => []
  | x :: xs => max m x :: cummaxGo (max m x) xs

def cummax : List Int → List Int
  | [] => []
  | x :: xs => x :: cummaxGo x xs

end CnvVerif
