/-
  Driver ops of C10 (effects): `history`, `ensure_path`, `rng_trace`, `gather`.
  "out" = the model's prediction, "spec" = the property's clauses evaluated on what the REAL code did.
-/
import CnvVerif.Driver.Json
import CnvVerif.Model.Effects
import CnvVerif.Generated.EffectsConsts
open Lean
namespace CnvVerif.Drv
open CnvVerif.Effects
namespace Eff

/-! ### JSON -/

def getRole (s : String) : R Role :=
  match s with
  | "filters" => pure .filters
  | "ignore" => pure .ignoreList
  | "ignore_tuple" => pure .ignoreTuple
  | "read" => pure .readOnly
  | r => throw s!"bad role {r}"

/-- [role, ref] -/
def getUse (j : Json) : R Use := do
  let a ← getArr j
  if a.size < 2 then throw "use needs 2 fields"
  pure { role := ← getRole (← getStr a[0]!), ref := ← getNat a[1]! }

def getStep (j : Json) : R Step := do
  pure { name := ← getStr (← fld j "name"), procs := ← getNat (← fld j "procs"),
         uses := ← getList getUse (← fld j "uses"), fresh := ← getStr (← fld j "fresh") }

def getHeap (j : Json) : R Heap := getList (getList getStr) j
def heapJ (h : Heap) : Json := arrJ (h.map (fun l => arrJ (l.map strJ)))

def getPair (j : Json) : R (String × String) := do
  let a ← getArr j
  if a.size < 2 then throw "pair needs 2 fields"
  pure (← getStr a[0]!, ← getStr a[1]!)

def pairJ (p : String × String) : Json := arrJ [strJ p.1, strJ p.2]

/-- what the harness saw the real code do in one step -/
structure Obs where
  res : String
  before : List (String × String)
  after : List (String × String)
  heap : Heap

def getObs (j : Json) : R Obs := do
  pure { res := ← getStr (← fld j "res"), before := ← getList getPair (← fld j "before"),
         after := ← getList getPair (← fld j "after"), heap := ← getHeap (← fld j "heap") }

/-- ["seed", c|null] / ["draw", kind] -/
def getROp (j : Json) : R ROp := do
  let a ← getArr j
  if a.size < 2 then throw "rng op needs 2 fields"
  match (← getStr a[0]!) with
  | "seed" => match a[1]! with
    | .null => pure (.seed none)
    | v => do pure (.seed (some (← getNat v)))
  | "draw" => do pure (.draw (← getStr a[1]!))
  | k => throw s!"bad rng op {k}"

/-! ### spec clauses (the property's wording on the real observations) -/

/-- which part of "depends only on its arguments" a differing result contradicts -/
def differsClause (earlier : List Step) (s : Step) : String :=
  if s.procs > 1 then "same_table_with_1_or_n_workers"
  else if earlier.isEmpty then "same_under_any_rng_state"
  else if earlier.any (fun e => e.name == s.name) then "same_when_repeated"
  else "same_after_any_other_steps"

def historySpecGo (earlier : List Step) (heapBefore : Heap) : List Step → List Obs → List String
  | s :: ss, o :: os =>
    (if o.res == s.fresh then [] else [differsClause earlier s]) ++
    (if o.before == o.after && o.heap == heapBefore then [] else ["arguments_left_unchanged"]) ++
    historySpecGo (earlier ++ [s]) o.heap ss os
  | _, _ => []

def historySpec (h : Heap) (steps : List Step) (obs : List Obs) : List String :=
  (if steps.length == obs.length then [] else ["one_observation_per_step"]) ++
  (historySpecGo [] h steps obs).eraseDups

def sortFS (fs : FS) : FS := fs.mergeSort (fun a b => decide (a.1 ≤ b.1))

def countOf (l : List String) (x : String) : Nat := l.count x

/-- multiset equality of two string lists -/
def sameBag (a b : List String) : Bool :=
  a.length == b.length && a.all (fun x => countOf a x == countOf b x)

/-- `pre`: the directory before, `ws`: the contents written to `p` one after the other, `post`: the directory after -/
def ensurePathSpec (pre : FS) (p : String) (ws : List String) (post : FS) : List String :=
  (if post.length == pre.length + ws.length then [] else ["k_writes_leave_k_more_files"]) ++
  (if sameBag (contents post) (contents pre ++ ws) then [] else ["every_earlier_content_survives"]) ++
  (match ws.getLast? with
   | some c => if readFile post p == some c then [] else ["path_holds_the_last_write"]
   | none => []) ++
  (if (pre.filter (fun f => f.1 != p)).all (fun f => readFile post f.1 == some f.2) then []
   else ["other_files_untouched"]) ++
  (if (names post).eraseDups.length == post.length then [] else ["names_unique"])

def gatherF (x : Int) : Int := x * x + 1

def optIntJ : Option Int → Json
  | some i => intJ i
  | none => Json.null

end Eff
open Eff

/-! ### handler -/

def handleEffects (op : String) (inp : Json) (impl : Option Json) : R (Option Json) := do
  match op with
  | "history" =>
    let pre ← getBool (← fld inp "prefix")
    let h ← getHeap (← fld inp "heap")
    let steps ← getList getStep (← fld inp "steps")
    let out := runHistory pre h steps
    let spec ← (match impl with
      | none => pure Json.null
      | some ij => do
        let obs ← getList getObs (← fld ij "steps")
        pure (arrJ ((historySpec h steps obs).map strJ)))
    pure (some (obj [("out", obj [("steps", arrJ (out.map (fun r => obj [("res", strJ r.1), ("heap", heapJ r.2)])))]),
                     ("spec", spec)]))
  | "ensure_path" =>
    let pre ← getList getPair (← fld inp "pre")
    let p ← getStr (← fld inp "path")
    let ws ← getList getStr (← fld inp "writes")
    let guarded ← getBool (← fld inp "guarded")
    let out := if guarded then guardedWrites pre p ws else plainWrites pre p ws
    let spec ← (match impl with
      | none => pure Json.null
      | some ij => do
        let post ← getList getPair (← fld ij "files")
        pure (arrJ ((if guarded then ensurePathSpec pre p ws post else []).map strJ)))
    pure (some (obj [("out", obj [("files", arrJ ((sortFS out).map pairJ))]), ("spec", spec),
                     ("specm", arrJ ((ensurePathSpec pre p ws out).map strJ))]))
  | "rng_trace" =>
    let fn ← getStr (← fld inp "fn")
    let entry := Generated.RNG_TABLE.find? (fun e => e.1 == fn)
    let (known, pub, sk) := match entry with
      | some e => (true, e.2.1, e.2.2)
      | none => (false, true, Sk.nop)     -- a function the table does not list must not touch the generator
    let tableSafe := (safeSk sk false).isSome
    match impl with
    | none => pure (some (obj [("out", obj [("known", boolJ known), ("public", boolJ pub), ("table_safe", boolJ tableSafe)]),
                               ("spec", Json.null)]))
    | some ij =>
      let tr ← getList getROp (← fld ij "trace")
      let acc := accepts sk tr
      let spec := if pub && !(safeOps tr false) then ["reseeds_before_its_first_draw"] else []
      pure (some (obj [("out", obj [("known", boolJ known), ("public", boolJ pub), ("table_safe", boolJ tableSafe),
                                    ("accepted", boolJ acc), ("draws", natJ (tr.filter (fun o => match o with | .draw _ => true | _ => false)).length)]),
                       ("spec", arrJ (spec.map strJ))]))
  | "gather" =>
    let xs ← getList getInt (← fld inp "xs")
    let order ← getList getNat (← fld inp "order")
    let out := poolMap gatherF xs order
    let spec ← (match impl with
      | none => pure Json.null
      | some ij => do
        let res ← getList getInt (← fld ij "res")
        pure (arrJ ((if res == xs.map gatherF then [] else ["results_in_submission_order"]).map strJ)))
    pure (some (obj [("out", obj [("res", arrJ (out.map Eff.optIntJ)),
                                  ("unordered", arrJ ((asCompleted gatherF xs order).map Eff.optIntJ))]), ("spec", spec)]))
  | _ => pure none

end CnvVerif.Drv
