/-
  JSON driver for the C08 extension (spelling of `%.6g`, tab files with float columns).
  Ops:
    fmt_spell  in {vals: [rat]}            impl [string]   — `'%.6g' % x` of the real code
    tab_spell  in {t0, cna}                impl {file1, t1, file2, file3} — write / read / write / write
    src_key    in {names: [string]}        — sort key by the model AND by the function regenerated from the source
    src_label  in {rows: [[chrom, s, e]]}  — `to_label` by the model and by the generated function, read back by the model
  `spec` is evaluated on the IMPLEMENTATION's strings / files with the model's number parser as oracle.
-/
import CnvVerif.Driver.Formats
import CnvVerif.Model.FormatsExt
import CnvVerif.Generated.ExprsChromsort
open Lean
namespace CnvVerif.Drv
open CnvVerif.Fmt
open FormatsDrv

namespace FormatsExtDrv

def linesJ (ls : List Line) : Json := arrJ (ls.map fun l => arrJ (l.map strJ))

/-- clauses for one printed number: `s` is what the real code printed for the exact value `q` -/
def spellClauses (q : Rat) (s : String) : List String :=
  match parseDec s.toList with
  | none => ["number_readable"]
  | some v =>
    (if v == sixg q then [] else ["roundtrip_numbers_6_digits"]) ++
    (if fmt6g v == s then [] else ["rewrite_identical_bytes"])

end FormatsExtDrv
open FormatsExtDrv

def handleFormatsExt (op : String) (inp : Json) (impl : Option Json) : R (Option Json) := do
  match op with
  | "fmt_spell" =>
    let vals ← getList getRat (← fld inp "vals")
    let out := vals.map fun q => obj [("s", strJ (fmt6g q)),
      ("back", match parseDec (fmt6g q).toList with
        | some v => ratJ v
        | none => Json.null),
      ("six", ratJ (sixg q))]
    let spec ← (match impl with
      | some ij => do
        let ss ← getList getStr ij
        pure (clausesJ ((vals.zip ss).map (fun p => spellClauses p.1 p.2)).flatten)
      | none => pure Json.null)
    pure (some (obj [("out", arrJ out), ("spec", spec)]))
  | "tab_spell" =>
    let cna := match optFld inp "cna" with
      | some (Json.bool b) => b
      | _ => false
    let t0 ← getFTab (← fld inp "t0")
    let w1 := renderLinesF (writeTab t0)
    let r1 := readFmt "tab" cna .first w1
    let w2 : Except String (List Line) := r1.map fun t => renderLinesF (writeTab t)
    let r2 : Except String FTab := do readFmt "tab" cna .first (← w2)
    let spec ← (match impl with
      | some ij => do
        let file1 ← getLines (← fld ij "file1")
        let t1 ← getFTab (← fld ij "t1")
        let file2 ← getLines (← fld ij "file2")
        let file3 ← getLines (← fld ij "file3")
        pure (clausesJ (roundtripClauses "tab" t0 t1 ++
          (if file3 == file2 && (coordsOf t0 != coordsOf t1 || file1 == file2) then [] else ["rewrite_identical_bytes"])))
      | none => pure Json.null)
    pure (some (obj [("out", obj [("w1", linesJ w1), ("r1", exceptJ ftabJ r1), ("w2", exceptJ linesJ w2),
                                   ("fix", Json.bool (match r1, r2 with
                                      | .ok a, .ok b => a == b
                                      | _, _ => false))]),
                     ("spec", spec)]))
  | "src_key" =>
    let names ← getList getStr (← fld inp "names")
    let out := names.map fun c =>
      let k := sorterChrom c
      let g := CnvVerif.Generated.src_sorter_chrom c
      obj [("model", arrJ [natJ k.1, strJ k.2]), ("src", arrJ [natJ g.1, strJ g.2]),
           ("outside", Json.bool (c.toList.any fun ch => ch.toNat ≥ 128))]
    pure (some (obj [("out", arrJ out), ("spec", Json.null)]))
  | "src_label" =>
    let rows ← getList (fun j => do
      let a ← getArr j
      if a.size < 3 then throw "row needs 3 entries"
      pure ((← getStr a[0]!), (← getInt a[1]!), (← getInt a[2]!))) (← fld inp "rows")
    let out := rows.map fun (c, s, e) =>
      let lab := CnvVerif.Generated.src_to_label c s e
      obj [("label", strJ lab), ("model", strJ (toLabel c s e)),
           ("back", match parseTextLine lab with
              | .ok r => arrJ [strJ r.chrom, intJ r.s, intJ r.e]
              | .error m => strJ m)]
    pure (some (obj [("out", arrJ out), ("spec", Json.null)]))
  | _ => pure none

end CnvVerif.Drv
