import CnvVerif.Driver.Json
import CnvVerif.Driver.Interval
import CnvVerif.Model.IntervalExt5
open Lean
namespace CnvVerif.Drv
open CnvVerif.C06X

def c06xGetVal (j : Json) : R Val :=
  match j.getStr? with
  | .ok s => pure (.str s)
  | .error _ => do pure (.num (← getInt j))

def c06xValJ : Val → Json
  | .str s => strJ s
  | .num n => intJ n

def c06xGetCmb (j : Json) : R Cmb :=
  match j.getStr? with
  | .ok "first_of" => pure .firstOf
  | .ok "last_of" => pure .lastOf
  | .ok "join_strings" => pure .joinStrings
  | .ok "merge_strands" => pure .mergeStrands
  | .ok "max" => pure .maxOf
  | .ok "min" => pure .minOf
  | .ok "sum" => pure .sumOf
  | .ok s => throw s!"combiner {s}"
  | .error _ => do
    let a ← getArr j
    if a.size < 2 then throw "const"
    pure (.const (← c06xGetVal a[1]!))

def c06xGetRows (cols : List String) (j : Json) : R XTable :=
  getList (fun x => do
    let vs ← getList c06xGetVal x
    if vs.length != cols.length then throw "row width"
    pure (cols.zip vs)) j

def c06xTableJ (cols : List String) (t : XTable) : Json :=
  obj [("cols", arrJ (cols.map strJ)), ("rows", arrJ (t.map (fun r => arrJ (r.map (fun p => c06xValJ p.2)))))]

def handleIntervalExt5 (op : String) (inp : Json) (impl : Option Json) : R (Option Json) := do
  match op with
  | "merge_x" =>
    let cols ← getList getStr (← fld inp "cols")
    let t ← c06xGetRows cols (← fld inp "t")
    let bp ← getInt (← fld inp "bp")
    let stranded ← getBool (← fld inp "stranded")
    let custom ← getList (fun x => do
      let a ← getArr x
      if a.size < 2 then throw "combine"
      pure (← getStr a[0]!, ← c06xGetCmb a[1]!)) (← fld inp "combine")
    let out := mergeX bp stranded custom cols t
    let useSpec := decide (0 ≤ bp) && decide (bp ≤ 1)
    let spec ← (match impl with
      | none => pure Json.null
      | some j => do
        let icols ← getList getStr (← fld j "cols")
        let it ← c06xGetRows icols (← fld j "rows")
        pure (clausesJ (if useSpec then mergeXSpecB bp stranded custom cols t it else [])))
    pure (some (obj [("out", c06xTableJ cols out), ("spec", spec),
      ("specm", clausesJ (if useSpec then mergeXSpecB bp stranded custom cols t out else []))]))
  | _ => pure none

end CnvVerif.Drv
