import CnvVerif.Driver.Json
import CnvVerif.Driver.Call
import CnvVerif.Driver.SegFilter
import CnvVerif.Model.SegFilterExt
open Lean
namespace CnvVerif.Drv

def getFilt (j : Json) : R Filt := do
  let s ← getStr j
  match Filt.ofName s with
  | some f => pure f
  | none => throw s!"bad filter {s}"

/-- the property's wording of one filter on a table: the `require_column` guard, then the run-based definition -/
def specRun (f : Filt) (t : Tab) : Except String Tab :=
  if f.needs.all (fun c => t.cols.contains c) then
    let h := t.cols.contains "cn1"
    let rows := match f with
      | .ampdel => specAmpdel h t.rows
      | g => specSquash h g.level t.rows
    .ok { cols := colsAfterSquash t.cols, rows := rows }
  else .error f.name

def specChain : List Filt → Tab → Except String Tab
  | [], t => .ok t
  | f :: fs, t => match specRun f t with
    | .ok t' => specChain fs t'
    | .error e => .error e

def sameRows (o want : List Seg) : Bool :=
  o.length == want.length && (o.zip want).all (fun p =>
    p.1.chrom == p.2.chrom && p.1.s == p.2.s && p.1.e == p.2.e && p.1.probes == p.2.probes &&
    closeRat p.1.weight p.2.weight && closeRat p.1.log2 p.2.log2)

def outJ : Except String Tab → Json
  | .ok t => obj [("rows", arrJ (t.rows.map segJ))]
  | .error e => obj [("raises", strJ e)]

/-- clauses evaluated on the real outcome `impl` = {"rows": …} | {"raises": filter} against the wording `want`.
    The property speaks about the tables the filters produce: where its wording yields a table, a refusal or another
    table is a violation; where the wording itself is a refusal (a required column missing -- e.g. a list holding both
    ci and sem) the property says nothing, and the comparison with the model (not a spec clause) is what is checked. -/
def chainSpec (clause : String) (conserve : Bool) (inp : List Seg) (want : Except String Tab) (impl : Json) : R (List String) := do
  match want, optFld impl "raises" with
  | .error _, _ => pure []
  | .ok _, some r => pure [s!"refuses_filter_{← getStr r}"]
  | .ok w, none =>
    let o ← getList getSeg (← fld impl "rows")
    let c := if conserve then
        (if sumInt (o.map (·.probes)) == sumInt (inp.map (·.probes)) then [] else ["chain_conserves_probes"]) ++
        (if closeRat (sumRat (o.map (·.weight))) (sumRat (inp.map (·.weight))) then [] else ["chain_conserves_weight"])
      else []
    pure ((if sameRows o w.rows then [] else [clause]) ++ c)

def chainSlack (fs : List Filt) (t : List Seg) : Rat := if fs.contains Filt.sem then semSlack t else 1

def handleSegFilterExt (op : String) (inp : Json) (impl : Option Json) : R (Option Json) := do
  match op with
  | "filter_chain" =>
    -- segfilters.F1(…segfilters.Fk(table)) directly: guards, dropped columns, every stage's runs
    let t : Tab := { cols := ← getList getStr (← fld inp "cols"), rows := ← getList getSeg (← fld inp "rows") }
    let fs ← getList getFilt (← fld inp "filters")
    let out := runChain fs t
    let want := specChain fs t
    let conserve := !fs.contains Filt.ampdel
    let spec ← (match impl with
      | none => pure Json.null
      | some ij => do pure (arrJ ((← chainSpec "chain_runs_squashed" conserve t.rows want ij).map strJ)))
    pure (some (obj [("out", outJ out), ("spec", spec), ("slack", ratJ (chainSlack fs t.rows))]))
  | "do_call_pipe" =>
    -- do_call(method = threshold | none, filters = ANY list): the model's `doCallFiltersE`
    let t : Tab := { cols := ← getList getStr (← fld inp "cols"), rows := ← getList getSeg (← fld inp "rows") }
    let fs ← getList getFilt (← fld inp "filters")
    let thr ← getList getRat (← fld inp "thr")
    let ploidy ← getNat (← fld inp "ploidy")
    let hapX ← getBool (← fld inp "hapX")
    let method ← getStr (← fld inp "method")
    let call : Tab → Tab := fun t =>
      if method == "none" then t else
      { cols := if t.cols.contains "cn" then t.cols else t.cols ++ ["cn"],
        rows := t.rows.map fun r =>
          { r with cn := some ((thresholdCall thr ploidy (refCopiesPure r.chrom ploidy hapX) (some r.log2) 1 : Int) : Rat) } }
    let out := doCallFiltersE call fs t
    -- the wording: at most one of ci/sem first (both: refused), the call, the others in the order given
    let pre := [Filt.ci, Filt.sem].filter (fun p => fs.contains p)
    let want : Except String Tab := match specChain pre t with
      | .error e => .error e
      | .ok t1 => specChain ((fs.erase Filt.ci).erase Filt.sem) (call t1)
    let t1rows := match specChain pre t with
      | .ok t1 => t1.rows
      | .error _ => t.rows
    let slack0 : Rat := if method == "none" then 1 else
      (t1rows.flatMap (fun r => thr.map (fun th => ratAbs (r.log2 - th)))).foldl min 1
    let slack := min slack0 (chainSlack fs t.rows)
    let conserve := !fs.contains Filt.ampdel
    let spec ← (match impl with
      | none => pure Json.null
      | some ij => do pure (arrJ ((← chainSpec "filter_order_and_runs" conserve t.rows want ij).map strJ)))
    pure (some (obj [("out", outJ out), ("spec", spec), ("slack", ratJ slack)]))
  | _ => pure none

end CnvVerif.Drv
