import CnvVerif.Driver.Json
import CnvVerif.Model.TileOutlierExt5
import CnvVerif.Generated.ExprsOutlier
open Lean
namespace CnvVerif.Drv

/-- [chrom, x, trend, quants] -/
def getOutlRow (j : Json) : R (String × C03Outl.Pt) := do
  let a ← getArr j
  if a.size < 4 then throw "outlier row needs 4 fields"
  pure (← getStr a[0]!, { x := ← getRat a[1]!, trend := ← getRat a[2]!, quants := ← getRat a[3]! })

/-- C03 round 5: `drop_outliers(table, width, factor)` with trend and rolling quantile supplied per row.
    `mask` = the model; `src` = the same computed with the definitions generated from the source text -/
def handleTileOutl (op : String) (inp : Json) (_impl : Option Json) : R (Option Json) := do
  match op with
  | "outlier" =>
    let rows ← getList getOutlRow (← fld inp "rows")
    let width ← getNat (← fld inp "width")
    let factor ← getRat (← fld inp "factor")
    let mask := C03Outl.dropMask width factor rows
    let src := (C03Outl.chromRuns rows).flatMap fun g =>
      if Generated.src_outl_short (g.length : Rat) (width : Rat) then List.replicate g.length Generated.src_outl_short_value
      else g.map fun r => Generated.src_outl_elem r.2.x (width : Rat) Generated.src_drop_outliers_q factor r.2.trend r.2.quants
    let kept := C03Outl.dropOutliers mask (List.range rows.length)
    let keptSrc := ((List.range rows.length).zip src).filterMap fun (i, mk) =>
      if Generated.src_drop_outliers_keep mk then some i else none
    pure (some (obj [("mask", arrJ (mask.map boolJ)), ("src", arrJ (src.map boolJ)),
      ("kept", arrJ (kept.map natJ)), ("kept_src", arrJ (keptSrc.map natJ)),
      ("groups", arrJ ((C03Outl.chromRuns rows).map fun g => natJ g.length)),
      ("seg_width", natJ Generated.src_segment_outlier_width)]))
  | _ => pure none

end CnvVerif.Drv
