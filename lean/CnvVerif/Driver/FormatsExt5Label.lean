/-
  JSON driver for the C08 round-5 extension (the pattern of `re_label`, the whole of `from_label`).
  Op:
    lab_parse  in {texts: [string], keep: bool}
      out per text: {re: [g1,g2,g3,g4] | null      — groups of the regenerated source pattern (None as "")
                     hand: [g1,g2,g3,g4] | null    — the hand-written parser Fmt.fromLabel
                     full: [chrom|null, start|null, end|null, gene|null] | "ValueError…"   — Fmt.C08L.fromLabelFull
                     outside: bool}                 — non-ASCII text (character classes are modelled on ASCII)
-/
import CnvVerif.Driver.Formats
import CnvVerif.Model.FormatsExt5Label
import CnvVerif.Generated.RegexLabel
open Lean
namespace CnvVerif.Drv
open CnvVerif.Fmt
open FormatsDrv

namespace C08LabelDrv
open CnvVerif.Fmt.C08L

def groupsJ (r : Except String (List Char × List Char × List Char × List Char)) : Json :=
  match r with
  | .ok (a, b, c, d) => arrJ [strJ (String.ofList a), strJ (String.ofList b), strJ (String.ofList c), strJ (String.ofList d)]
  | .error _ => Json.null

def optStrJ : Option String → Json
  | some s => strJ s
  | none => Json.null

def optIntJ : Option Int → Json
  | some i => intJ i
  | none => Json.null

end C08LabelDrv
open C08LabelDrv

def handleFormatsLabel (op : String) (inp : Json) (_impl : Option Json) : R (Option Json) := do
  match op with
  | "lab_parse" =>
    let texts ← getList getStr (← fld inp "texts")
    let keep := match optFld inp "keep" with
      | some (Json.bool b) => b
      | _ => true
    let out := texts.map fun t =>
      let l := t.toList
      obj [("re", groupsJ (CnvVerif.Fmt.C08L.fromLabelRe CnvVerif.Generated.src_re_label l)),
           ("hand", groupsJ (fromLabel l)),
           ("full", match CnvVerif.Fmt.C08L.fromLabelFull l keep with
              | .ok r => arrJ [optStrJ r.chrom, optIntJ r.s, optIntJ r.e, optStrJ r.gene]
              | .error m => strJ m),
           ("outside", Json.bool (l.any fun ch => ch.toNat ≥ 128))]
    pure (some (obj [("out", arrJ out), ("spec", Json.null)]))
  | _ => pure none

end CnvVerif.Drv
