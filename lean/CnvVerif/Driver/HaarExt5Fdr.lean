/-
  JSON driver for `FDRThres` as written (Model/HaarExt5Fdr.lean): op `fdr_cdf`.  Input: the peak values `x`, `q`, and
  the doubles `c = stats.norm.cdf(x_sorted, stdev)` scipy returned (a table standing in for the `cdf` parameter).
  Output: the threshold, the keep mask `|x| >= T`, and the quantities the theorems of Props/C11Fdr.lean speak about
  (does any p-value pass, is the bump absorbed by the double rounding, the float rule `absorbed <-> 1 <= max|x|`).
-/
import CnvVerif.Driver.Haar
import CnvVerif.Model.HaarExt5Fdr
open Lean
namespace CnvVerif.Drv.HaarFdr
open CnvVerif.Drv CnvVerif.Drv.Haar CnvVerif.Haar CnvVerif.HaarFdr

def handleHaarFdr (op : String) (inp : Json) (impl : Option Json) : R (Option Json) := do
  match op with
  | "fdr_cdf" =>
    let x ← getList getRat (← fld inp "x")
    let q ← getRat (← fld inp "q")
    let c ← getList getRat (← fld inp "c")
    if x.length ≥ 2 ∧ c.length ≠ x.length then throw "fdr_cdf: cdf values do not match x"
    let cdf := cdfTable (xSorted x) c
    let T := fdrThresCdf fl64 cdf x q 0
    let nopass := (passing fl64 cdf x q 0).isEmpty
    let t := top x
    let absorbed := decide (fl64 (t + Generated.HAAR_FDR_EPS) ≤ t)
    -- theorem `fdrz_some_peak_kept_iff`
    let keptAny := decide (2 ≤ x.length) && (!nopass || absorbed)
    -- the float side of observation Z: for a double `t >= 0` the bump is absorbed iff `t >= 1`
    let floatRule := (absorbed == decide (1 ≤ t))
    let spec ← specOf impl fun ij => do
      let ti ← getRat (← fld ij "T")
      pure ((if x.length < 2 ∧ ti ≠ 0 then ["threshold_zero_below_two_peaks"] else []) ++
            (if ti < 0 then ["threshold_negative"] else []))
    pure (some (obj [("out", obj [("T", ratJ T), ("mask", arrJ ((keepMask x T).map boolJ)),
                                  ("no_pvalue_passes", boolJ nopass), ("bump_absorbed", boolJ absorbed),
                                  ("kept_any_by_theorem", boolJ keptAny), ("float_rule", boolJ floatRule),
                                  ("top", ratJ t), ("passing", natsJ (passing fl64 cdf x q 0))]),
                     ("spec", spec)]))
  | _ => pure none

end CnvVerif.Drv.HaarFdr
