import CnvVerif.Driver.Access
import CnvVerif.Model.AccessExt5
import CnvVerif.Generated.AccessProg
open Lean
namespace CnvVerif.Drv

/-- op `access_prog`: `do_access` run as the PROGRAM read from the source (`Generated.DO_ACCESS_PROG` interpreted by
    `C13P.runDoAccess`), next to the hand-written `doAccess` (`prog_agrees`: Props/C13Prog.lean proves it always
    true; reported so that a changed body gives a replayable input besides the broken theorem).  `beds` left out:
    the call left `exclude_fnames` to its default. -/
def handleAccessExt5 (op : String) (inp : Json) (impl : Option Json) : R (Option Json) := do
  match op with
  | "access_prog" =>
    let text ← getStr (← fld inp "text")
    let seqs ← getSeqs (← fld inp "seqs")
    let beds ← (match inp.getObjVal? "beds" with
      | .ok v => getList (getList getTriple) v
      | .error _ =>
        if Generated.DO_ACCESS_EXCLUDE_DEFAULT_EMPTY then pure [] else throw "exclude_fnames has no empty default")
    let gap : Option Int ← (match inp.getObjVal? "gap" with
      | .ok Json.null => pure none
      | .ok v => do pure (some (← getInt v))
      | .error _ => pure (some Generated.ACCESS_DEFAULT_MIN_GAP))
    let skip : Bool ← (match inp.getObjVal? "skip" with
      | .ok v => getBool v
      | .error _ => pure Generated.ACCESS_DEFAULT_SKIP_NONCANONICAL)
    let lines := parseFasta text
    let out := C13P.runDoAccess Generated.DO_ACCESS_PROG lines beds gap skip
    let hand := doAccess lines beds gap skip
    let agrees := match out, hand with
      | .ok a, .ok b => a.map (fun r => (r.chrom, r.s, r.e)) == b.map (fun r => (r.chrom, r.s, r.e))
      | .error a, .error b => a == b
      | _, _ => false
    let ain : AccessIn := { seqs := seqs, excl := beds, minGap := gap.getD 0, skip := skip }
    let spec ← (match impl with
      | none => pure Json.null
      | some j => do
        let rows ← getList getTriple j
        pure (arrJ ((accessSpecB ain rows).map strJ)))
    pure (some (obj [("out", exceptJ triplesJ out), ("spec", spec), ("prog_agrees", boolJ agrees)]))
  | _ => pure none

end CnvVerif.Drv
