/-
  JSON driver for the VCF / BAF model (property C18).
  ops: vcf_read, vcf_hets, vcf_baf, vcf_mirror, vcf_pipeline, vcf_boost, vcf_rescale
  A VCF input is {samples, tags, records} plus, optionally (Model/VcfPairs.lean), "gatk": [{"id": str|null,
  "opts": null | [[key, value|null], ...]}, ...] (the ##GATKCommandLine records) and "mutect2": bool (a
  ##GATKCommandLine.MuTect2 record exists); left out = none of them, and the ops are then what they were.
-/
import CnvVerif.Driver.Json
import CnvVerif.Model.Vcf
import CnvVerif.Model.VcfPairs
open Lean
namespace CnvVerif.Drv
open CnvVerif.Vcf

/-! ### decoding -/

def vGetSel (j : Json) : R Sel :=
  match j with
  | .null => pure .unset
  | .str s => pure (.name s)
  | _ => do pure (.idx (← getInt j))

def vGetAD (j : Json) : R AD :=
  match j with
  | .null => pure .absent
  | _ =>
    match j.getObjVal? "t" with
    | .ok t => do pure (.tuple (← getList getOptInt t))
    | .error _ => do pure (.scalar (← getOptInt (← fld j "s")))

/-- `[gt, hasDP, dp, ad]` -/
def vGetSmp (j : Json) : R Smp := do
  let a ← getArr j
  if a.size < 4 then throw "smp needs 4 fields"
  pure { gt := ← getList getOptInt a[0]!, hasDP := ← getBool a[1]!, dp := ← getOptInt a[2]!,
         ad := ← vGetAD a[3]! }

/-- `[chrom, pos, ref, alts, filters, infoDP, somatic, smps]` -/
def vGetRec (j : Json) : R Rec := do
  let a ← getArr j
  if a.size < 8 then throw "rec needs 8 fields"
  pure { chrom := ← getStr a[0]!, pos := ← getInt a[1]!, ref := ← getStr a[2]!,
         alts := ← getList getStr a[3]!, filt := ← getList getStr a[4]!,
         infoDP := ← getOptInt a[5]!, somatic := ← getBool a[6]!, smps := ← getList vGetSmp a[7]! }

def vGetTag (j : Json) : R PedTag :=
  getList (fun kv => do
    let a ← getArr kv
    if a.size < 2 then throw "tag kv"
    pure (← getStr a[0]!, ← getStr a[1]!)) j

def vGetFreq (j : Json) : R Freq :=
  match j with
  | .null => pure .nan
  | .str "inf" => pure .inf
  | _ => do pure (.fin (← getRat j))

def vFreqJ : Freq → Json
  | .fin q => ratJ q
  | .inf => strJ "inf"
  | .nan => Json.null

/-- `[zyg, depth, alt_count, alt_freq]` -/
def vGetGeno (j : Json) : R Geno := do
  let a ← getArr j
  if a.size < 4 then throw "geno needs 4 fields"
  pure { zyg := ← getRat a[0]!, depth := ← getRat a[1]!, altCount := ← getRat a[2]!,
         altFreq := ← vGetFreq a[3]! }

def vGenoJ (g : Geno) : Json := arrJ [ratJ g.zyg, ratJ g.depth, ratJ g.altCount, vFreqJ g.altFreq]

/-- `[chrom, start, end, ref, alt, somatic, geno, n_geno|null]` -/
def vGetRow (j : Json) : R VRow := do
  let a ← getArr j
  if a.size < 8 then throw "vrow needs 8 fields"
  let n ← (match a[7]! with
    | .null => pure none
    | g => do pure (some (← vGetGeno g)))
  pure { chrom := ← getStr a[0]!, s := ← getInt a[1]!, e := ← getInt a[2]!, ref := ← getStr a[3]!,
         alt := ← getStr a[4]!, somatic := ← getBool a[5]!, t := ← vGetGeno a[6]!, n := n }

def vRowJ (r : VRow) : Json :=
  arrJ [strJ r.chrom, intJ r.s, intJ r.e, strJ r.ref, strJ r.alt, boolJ r.somatic, vGenoJ r.t,
        match r.n with | some g => vGenoJ g | none => Json.null]

def vGetTable (j : Json) : R VTable := do
  pure { paired := ← getBool (← fld j "paired"), rows := ← getList vGetRow (← fld j "rows") }

def vTableJ (t : VTable) : Json := obj [("paired", boolJ t.paired), ("rows", arrJ (t.rows.map vRowJ))]

def vErrJ : VErr → Json
  | .indexError => strJ "IndexError"
  | .keyError => strJ "KeyError"
  | .assertionError => strJ "AssertionError"
  | .valueError => strJ "ValueError"
  | .typeError => strJ "TypeError"

def vResJ : Except VErr VTable → Json
  | .ok t => vTableJ t
  | .error e => obj [("error", vErrJ e)]

def vGetSeg (j : Json) : R (String × Int × Int) := do
  let a ← getArr j
  if a.size < 3 then throw "seg needs 3 fields"
  pure (← getStr a[0]!, ← getInt a[1]!, ← getInt a[2]!)

def vGetOptBool (j : Json) : R (Option Bool) :=
  match j with
  | .null => pure none
  | _ => do pure (some (← getBool j))

def vOptRatsJ (l : List (Option Rat)) : Json := arrJ (l.map optRatJ)

structure VcfIn where
  samples : List String
  tags : List PedTag
  recs : List Rec
  gatk : List GatkTag := []
  mutect2 : Bool := false

def VcfIn.hdr (v : VcfIn) : Hdr := { tags := v.tags, gatk := v.gatk, mutect2 := v.mutect2 }

def vGetGatk (j : Json) : R GatkTag := do
  let opts ← (match optFld j "opts" with
    | none => pure none
    | some .null => pure none
    | some o => do
      pure (some (← getList (fun kv => do
        let a ← getArr kv
        if a.size < 2 then throw "gatk option token: [key, value|null]"
        pure (← getStr a[0]!, ← getOptStr a[1]!)) o)))
  pure { id := ← getOptStr (← fld j "id"), opts := opts }

def vGetVcf (inp : Json) : R VcfIn := do
  let gatk ← (match optFld inp "gatk" with
    | none => pure []
    | some g => getList vGetGatk g)
  let m2 ← (match optFld inp "mutect2" with
    | none => pure false
    | some b => getBool b)
  pure { samples := ← getList getStr (← fld inp "samples"),
         tags := ← getList vGetTag (← fld inp "tags"),
         recs := ← getList vGetRec (← fld inp "records"), gatk := gatk, mutect2 := m2 }

def vAbs (q : Rat) : Rat := if q < 0 then -q else q
def vClose (a b : Rat) : Bool := vAbs (a - b) ≤ (1 / 1000000000 : Rat) * max 1 (vAbs b)

def vCloseOpt : Option Rat → Option Rat → Bool
  | some a, some b => vClose a b
  | none, none => true
  | _, _ => false

def vCloseFreq : Freq → Freq → Bool
  | .fin a, .fin b => vClose a b
  | .inf, .inf => true
  | .nan, .nan => true
  | _, _ => false

/-- the property says "mirrored to one side of 0.5" without naming the side: when the side is left
    to the data, the value and its mirror image 1 − value are both accepted -/
def vCloseSide (sideFree : Bool) (i e : Option Rat) : Bool :=
  vCloseOpt i e || (sideFree && vCloseOpt i (e.map (fun x => 1 - x)))

/-! ### the property's clauses evaluated on the implementation's output -/

/-- the impl answer is `{"error": kind}` or a table -/
def vImplErr (j : Json) : Option String :=
  match j.getObjVal? "error" with
  | .ok (.str s) => some s
  | _ => none

/-- resolved selectors (names); `none` when the selector itself is invalid (bad position / unknown name) -/
def vResolved (samples : List String) (sid nid : Sel) : Option (Option String × Option String) :=
  match resolveSel samples sid, resolveSel samples nid with
  | .ok s, .ok n =>
    let s := truthy s
    let n := truthy n
    if (match s with | some x => samples.contains x | none => true) &&
       (match n with | some x => samples.contains x | none => true) then some (s, n) else none
  | _, _ => none

/-- the declared pairs (PEDIGREE, else MuTect, else MuTect2), `none` when the declaration is unreadable (Derived
    without Original; a MuTect record without CommandLineOptions / normal_sample_name) -/
def vPeds (v : VcfIn) : Option (List DPair) :=
  match headerPairs v.samples v.hdr with
  | .ok p => some p
  | .error _ => none

/-- every declared name is exactly one sample column -/
def vPedsValid (samples : List String) (peds : List DPair) : Bool :=
  peds.all (fun x => (match x.1 with | some t => samples.count t == 1 | none => true) && samples.count x.2 == 1)

/-- the declaration's first pair names no tumour and no tumour id is given: the reader has no sample to read;
    it fails at the first record it looks at -- a file without one comes back as an empty table -/
def vHeadless (v : VcfIn) (sid nid : Sel) : Bool :=
  match vResolved v.samples sid nid, vPeds v with
  | some (none, _), some ((none, _) :: _) => true
  | _, _ => false

/-- what the documented rules choose: `none` = the reader has to refuse; `some (pair, mayRefuse)` =
    this pair, where a header declaring unknown samples may also be refused outright -/
def vChoice (v : VcfIn) (sid nid : Sel) : Option ((String × Option String) × Bool) :=
  match vResolved v.samples sid nid, vPeds v with
  | some (s, n), some peds =>
    match specPairH v.samples peds s n with
    | some pair =>
      if v.samples.count pair.1 == 1 && (match pair.2 with | some x => v.samples.count x == 1 | none => true)
      then some (pair, !vPedsValid v.samples peds) else none
    | none => none
  | _, _ => none

/-- the rows the property describes for a VCF, a chosen pair and the filters asked for, each with
    the record it comes from (unsorted, in file order): `(unfiltered, filtered)` -/
def vExpectedRows (v : VcfIn) (pair : String × Option String) (minDepth : Option Int)
    (skipReject skipSomatic : Bool) : List (VRow × Rec) × List (VRow × Rec) :=
  let si := v.samples.idxOf pair.1
  let ni := pair.2.map (fun n => v.samples.idxOf n)
  let all := (v.recs.filter (fun r => !(skipReject && rejected r))).flatMap
    (fun r => (rowsOfRec si ni r).map (fun x => (x, r)))
  -- "after the depth and somatic filters asked for": depth of the normal when paired; a file
  -- without any depth information cannot be filtered on depth
  let byDepth := match minDepth with
    | some m => if m ≠ 0 && all.any (fun r => r.1.t.depth != 0)
                then all.filter (fun r => decide (filterDepth r.1 ≥ (m : Rat))) else all
    | none => all
  let bySom := if skipSomatic then byDepth.filter (fun r => !r.1.somatic) else byDepth
  (all, bySom)

def vKeyLe (a b : VRow) : Bool := sortLe a.key b.key

def vSortedRows : List VRow → Bool
  | [] => true
  | [_] => true
  | a :: b :: t => vKeyLe a b && vSortedRows (b :: t)

/-- field-by-field clauses for one impl row against the record's row -/
def vRowClauses (si : Nat) (ni : Option Nat) (imp : VRow) (expr : VRow × Rec) : List String :=
  let exp := expr.1
  let genoClauses (pre : String) (gi ge : Geno) (gt : List (Option Int)) : List String :=
    (if gi.depth == ge.depth then [] else [pre ++ "depth_as_defined"]) ++
    (if gi.altCount == ge.altCount then [] else [pre ++ "alt_count_is_alt_allele"]) ++
    (if (match gi.altFreq with
          | .fin f => if gi.depth != 0 then vClose (f * gi.depth) gi.altCount else f == 0
          | .inf => gi.depth == 0 && gi.altCount != 0
          | .nan => false) && vCloseFreq gi.altFreq ge.altFreq then [] else [pre ++ "alt_freq_def"]) ++
    (if specZygOk gt gi.zyg && gi.zyg == ge.zyg then [] else [pre ++ "zygosity_table"])
  let r := expr.2
  let gtT := (r.smps[si]?).map (·.gt) |>.getD []
  let gtN := (ni.bind (fun j => r.smps[j]?)).map (·.gt) |>.getD []
  (if imp.chrom == exp.chrom && imp.s == exp.s then [] else ["start_zero_based"]) ++
  (if imp.e == exp.e && imp.ref == exp.ref && imp.alt == exp.alt then [] else ["row_alleles"]) ++
  (if imp.somatic == exp.somatic then [] else ["somatic_flag"]) ++
  genoClauses "" imp.t exp.t gtT ++
  (match imp.n, exp.n with
   | some gi, some ge => genoClauses "normal_" gi ge gtN
   | none, none => []
   | _, _ => ["paired_normal_columns"])

def vDedup (l : List String) : List String := l.eraseDups

/-- clauses of the reading part; `pairOpt = none` : the rules admit no choice, the reader must refuse -/
def vReadSpec (v : VcfIn) (sid nid : Sel) (minDepth : Option Int) (skipReject skipSomatic : Bool)
    (impl : Json) : R (List String) := do
  let refuse : Bool := (vImplErr impl).isSome
  match vChoice v sid nid with
  | none =>
    if refuse then pure [] else
    if vHeadless v sid nid then do
      let t ← vGetTable impl
      pure (if t.rows.isEmpty then [] else ["sample_choice_rules"])
    else pure ["sample_choice_rules"]
  | some (pair, mayRefuse) =>
      if refuse then pure (if mayRefuse then [] else ["sample_choice_rules"]) else
      let t ← vGetTable impl
      let (all, kept) := vExpectedRows v pair minDepth skipReject skipSomatic
      let exp := kept.mergeSort (fun a b => vKeyLe a.1 b.1)
      let si := v.samples.idxOf pair.1
      let ni := pair.2.map (fun n => v.samples.idxOf n)
      let c0 := if t.rows.isEmpty || t.paired == pair.2.isSome then [] else ["sample_choice_rules"]
      let c1 := if vSortedRows t.rows then [] else ["output_sorted"]
      if t.rows.length != exp.length then
        let which := if t.rows.length == all.length || t.rows.length != kept.length && kept.length != all.length
                        && t.rows.all (fun r => all.any (fun x => x.1.chrom == r.chrom && x.1.s == r.s))
                     then "filters_exact" else "one_row_per_record"
        pure (vDedup (c0 ++ c1 ++ [which]))
      else
        pure (vDedup (c0 ++ c1 ++ ((t.rows.zip exp).flatMap (fun p => vRowClauses si ni p.1 p.2))))

/-- clauses of `load_het_snps` -/
def vHetSpec (v : VcfIn) (o : HetOpts) (impl : Json) : R (List String) := do
  let refuse : Bool := (vImplErr impl).isSome
  match vChoice v o.sid o.nid with
  | none =>
    if refuse then pure [] else
    if vHeadless v o.sid o.nid then do
      let t ← vGetTable impl
      pure (if t.rows.isEmpty then [] else ["sample_choice_rules"])
    else pure ["sample_choice_rules"]
  | some (pair, mayRefuse) =>
      let badFreq := match o.zygFreq with
        | some (het, hom) => !(0 ≤ het ∧ het ≤ hom ∧ hom ≤ 1)
        | none => false
      if badFreq || (o.tumorBoost && pair.2.isNone) then
        pure (if refuse then [] else ["refuses_bad_options"])
      else if refuse then
        -- (an empty table has lost its n_* columns, TumorBoost then reports a missing normal)
        pure (if mayRefuse || (o.tumorBoost && (vExpectedRows v pair o.minDepth false true).1.isEmpty) then []
              else ["refuses_readable_file"])
      else
      let t ← vGetTable impl
      let (_, kept) := vExpectedRows v pair o.minDepth false true
      let kept := (kept.map (·.1)).mergeSort vKeyLe
      -- genotypes: as called, or re-derived from the frequencies when asked (or when the normal
      -- carries no genotype at all)
      let zf : Option (Rat × Rat) := match o.zygFreq with
        | some z => some z
        | none => if pair.2.isSome && kept.all (fun r => germZyg r == 0) then some (1/4, 3/4) else none
      let typed := match zf with
        | some (het, hom) => zygosityFromFreq het hom kept
        | none => kept
      let hets := typed.filter isHet
      let hets := hets.map (fun r => if o.tumorBoost then { r with t := { r.t with altFreq := boostRow r } } else r)
      let same (a b : VRow) : Bool := a.chrom == b.chrom && a.s == b.s && a.e == b.e && a.ref == b.ref && a.alt == b.alt
      let aligned := t.rows.length == hets.length && (t.rows.zip hets).all (fun p => same p.1 p.2)
      let c1 := if aligned then [] else ["het_keeps_exactly_hets"]
      -- every reported row must carry its own record's numbers (rows compared in order; when the row
      -- set itself is wrong, each reported row must at least be some expected row of its coordinates)
      let z := t.rows.zip hets
      let c2 := if aligned then
          (if z.all (fun p => p.1.t.depth == p.2.t.depth && p.1.t.altCount == p.2.t.altCount &&
                              (p.1.n.map (·.depth)) == (p.2.n.map (·.depth))) then [] else ["freqs_stay_attached"])
        else
          (if t.rows.all (fun r => typed.any (fun x => same x r && x.t.depth == r.t.depth && x.t.altCount == r.t.altCount))
           then [] else ["freqs_stay_attached"])
      let c3 := if aligned then
          (if z.all (fun p => vCloseFreq p.1.t.altFreq p.2.t.altFreq) then []
           else [if o.tumorBoost then "tumorboost_formula" else "freqs_stay_attached"]) ++
          (if z.all (fun p => p.1.t.zyg == p.2.t.zyg && (p.1.n.map (·.zyg)) == (p.2.n.map (·.zyg))) then []
           else ["zygosity_table"])
        else []
      pure (vDedup (c1 ++ c2 ++ c3))

/-- `|median − 1/2|` of a value list (distance to the mirroring branch), 1 when not applicable -/
def vMirrorSlack (vals : List (Option Rat)) : Rat :=
  match nanmedian vals with
  | some m => vAbs (m - 1/2)
  | none => 1

def vMinRat (l : List Rat) : Rat := l.foldl min 1

/-- each chromosome's ranges are adjacent (decidable form of `ChromGrouped`) -/
def vGroupedGo (closed : List String) (cur : Option String) : List (String × Int × Int) → Bool
  | [] => true
  | g :: t =>
    if cur == some g.1 then vGroupedGo closed cur t
    else if closed.contains g.1 then false
    else vGroupedGo (match cur with | some c => c :: closed | none => closed) (some g.1) t

def vGrouped (segs : List (String × Int × Int)) : Bool := vGroupedGo [] none segs

/-- clauses of `baf_by_ranges` -/
def vBafSpec (tb : VTable) (segs : List (String × Int × Int)) (above : Option Bool) (boost : Bool)
    (impl : List (Option Rat)) : List String :=
  if impl.length != segs.length then ["one_value_per_range"] else
  -- a table whose chromosomes are interleaved is not a segment table (results come back chromosome
  -- by chromosome): model only
  if !vGrouped segs then [] else
  let exp := segs.map (specBaf tb.paired boost above tb.rows)
  let z := (segs.zip (impl.zip exp))
  let inside (g : String × Int × Int) := (tb.rows.filter isHet).filter (overlaps g)
  -- the single-value shortcut returns an unmirrored frequency when a side is forced; the property's
  -- quantifier leaves the side to the data, so forced sides are judged on ranges with ≥ 2 values
  let judged (g : String × Int × Int) : Bool := above.isNone || (inside g).length != 1
  vDedup (
    (if z.all (fun (g, i, _) => i.isNone == (((inside g).map (bafFreq tb.paired boost)).filterMap id).isEmpty) then []
     else ["baf_missing_iff_no_het"]) ++
    (if z.all (fun (g, i, e) => !judged g || i.isNone || e.isNone || vCloseSide above.isNone i e) then []
     else ["baf_is_median_of_mirrored"]))

def vBafSlack (tb : VTable) (segs : List (String × Int × Int)) (above : Option Bool) (boost : Bool) : Rat :=
  if above.isSome then 1 else
  vMinRat (segs.map fun g =>
    let vals := ((heterozygous tb.rows).filter (overlaps g)).map (bafFreq tb.paired boost)
    if vals.length ≥ 2 then vMirrorSlack vals else 1)

def vZygSlack (zf : Option (Rat × Rat)) (rows : List VRow) : Rat :=
  match zf with
  | none => 1
  | some (het, hom) =>
    vMinRat (rows.flatMap fun r =>
      ([r.t.altFreq] ++ (r.n.map (·.altFreq)).toList).flatMap fun f =>
        match f with
        | .fin q => [vAbs (q - het), vAbs (q - hom)]
        | _ => [])

def vGetHetOpts (inp : Json) : R HetOpts := do
  let zf ← (match optFld inp "zyg_freq" with
    | none => pure none
    | some j => do
      let a ← getArr j
      if a.size < 2 then throw "zyg_freq needs [het, hom]"
      pure (some (← getRat a[0]!, ← getRat a[1]!)))
  pure { sid := ← vGetSel (← fld inp "sid"), nid := ← vGetSel (← fld inp "nid"),
         minDepth := ← getOptInt (← fld inp "min_depth"), zygFreq := zf,
         tumorBoost := ← getBool (← fld inp "tumor_boost") }

def vClausesJ (l : List String) : Json := arrJ (l.map strJ)

def handleVcf (op : String) (inp : Json) (impl : Option Json) : R (Option Json) := do
  match op with
  | "vcf_read" =>
    let v ← vGetVcf inp
    let sid ← vGetSel (← fld inp "sid")
    let nid ← vGetSel (← fld inp "nid")
    let minDepth ← getOptInt (← fld inp "min_depth")
    let skipReject ← getBool (← fld inp "skip_reject")
    let skipSomatic ← getBool (← fld inp "skip_somatic")
    let out := readVcfH v.samples v.hdr v.recs { sid, nid, minDepth, skipReject, skipSomatic }
    let spec ← (match impl with
      | none => pure Json.null
      | some ij => do pure (vClausesJ (← vReadSpec v sid nid minDepth skipReject skipSomatic ij)))
    pure (some (obj [("out", vResJ out), ("spec", spec)]))
  | "vcf_hets" =>
    let v ← vGetVcf inp
    let o ← vGetHetOpts inp
    let out := loadHetSnpsH v.samples v.hdr v.recs o
    let base := readVcfH v.samples v.hdr v.recs
      { sid := o.sid, nid := o.nid, minDepth := o.minDepth, skipReject := false, skipSomatic := true }
    let slack : Rat := match base with
      | .ok t => vZygSlack (match o.zygFreq with
          | some z => some z
          | none => if t.paired then some (1/4, 3/4) else none) t.rows
      | .error _ => 1
    let spec ← (match impl with
      | none => pure Json.null
      | some ij => do pure (vClausesJ (← vHetSpec v o ij)))
    pure (some (obj [("out", vResJ out), ("spec", spec), ("slack", ratJ slack)]))
  | "vcf_baf" =>
    let tb ← vGetTable (← fld inp "table")
    let segs ← getList vGetSeg (← fld inp "segs")
    let above ← vGetOptBool (← fld inp "above")
    let boost ← getBool (← fld inp "boost")
    let out := bafByRanges tb segs above boost
    let spec ← (match impl with
      | none => pure Json.null
      | some ij =>
        if (vImplErr ij).isSome then pure (vClausesJ ["raises_error"]) else
        do pure (vClausesJ (vBafSpec tb segs above boost (← getList getOptRat ij))))
    pure (some (obj [("out", vOptRatsJ out), ("spec", spec), ("mslack", ratJ (vBafSlack tb segs above boost))]))
  | "vcf_mirror" =>
    let tb ← vGetTable (← fld inp "table")
    let above ← vGetOptBool (← fld inp "above")
    let boost ← getBool (← fld inp "boost")
    let vals := tb.rows.map (bafFreq tb.paired boost)
    let out := mirroredBafOf tb above boost
    let spec ← (match impl with
      | none => pure Json.null
      | some ij =>
        if (vImplErr ij).isSome then pure (vClausesJ ["raises_error"]) else do
        let im ← getList getOptRat ij
        if im.length != vals.length then pure (vClausesJ ["one_value_per_row"]) else
        let fin := im.filterMap id
        -- all on one side of 0.5, each at its own distance from 0.5
        let oneSide := fin.all (fun x => x ≥ 1/2 - 1/1000000000) || fin.all (fun x => x ≤ 1/2 + 1/1000000000)
        let side := match above with
          | some true => fin.all (fun x => x ≥ 1/2 - 1/1000000000)
          | some false => fin.all (fun x => x ≤ 1/2 + 1/1000000000)
          | none => true
        let dist := (im.zip vals).all (fun p => match p.1, p.2 with
          | some m, some v => vClose (vAbs (m - 1/2)) (vAbs (v - 1/2))
          | none, none => true
          | _, _ => false)
        pure (vClausesJ ((if oneSide && side then [] else ["mirror_one_side"]) ++
                         (if dist then [] else ["mirror_keeps_distance"]))))
    pure (some (obj [("out", vOptRatsJ out), ("spec", spec),
                     ("mslack", ratJ (if above.isSome then 1 else vMirrorSlack vals))]))
  | "vcf_pipeline" =>
    let v ← vGetVcf inp
    let o ← vGetHetOpts inp
    let segs ← getList vGetSeg (← fld inp "segs")
    let purity ← getOptRat (← fld inp "purity")
    let resc (l : List (Option Rat)) : List (Option Rat) := match purity with
      | some p => l.map (fun x => x.map (rescaleBaf p))
      | none => l
    match loadHetSnpsH v.samples v.hdr v.recs o with
    | .error e => pure (some (obj [("out", obj [("error", vErrJ e)]), ("spec", Json.null), ("slack", ratJ 1)]))
    | .ok tb =>
      let out := resc (bafByRanges tb segs none false)
      let base := readVcfH v.samples v.hdr v.recs
        { sid := o.sid, nid := o.nid, minDepth := o.minDepth, skipReject := false, skipSomatic := true }
      let zslack : Rat := match base with
        | .ok t => vZygSlack (match o.zygFreq with
            | some z => some z
            | none => if t.paired then some (1/4, 3/4) else none) t.rows
        | .error _ => 1
      let spec ← (match impl with
        | none => pure Json.null
        | some ij =>
          if (vImplErr ij).isSome then pure (vClausesJ ["refuses_readable_file"]) else do
          let im ← getList getOptRat ij
          -- the het table of the property: exactly the germline-heterozygous rows
          let spectb : VTable := { tb with rows := tb.rows.filter isHet }
          let expRaw := segs.map (specBaf tb.paired false none spectb.rows)
          let exp := resc expRaw
          if im.length != segs.length then pure (vClausesJ ["one_value_per_range"]) else
          pure (vClausesJ (vDedup (
            (if (im.zip exp).all (fun p => p.1.isNone == p.2.isNone) then [] else ["baf_missing_iff_no_het"]) ++
            (if (im.zip expRaw).all (fun p => p.1.isNone || p.2.isNone ||
                  vCloseOpt p.1 (resc [p.2]).head! || vCloseOpt p.1 (resc [p.2.map (fun x => 1 - x)]).head!) then []
             else ["baf_is_median_of_mirrored"])))))
      pure (some (obj [("out", vOptRatsJ out), ("spec", spec),
                       ("nohet", boolJ (!tb.rows.isEmpty && !tb.rows.any isHet)),
                       ("slack", ratJ zslack), ("mslack", ratJ (vBafSlack tb segs none false))]))
  | "vcf_boost" =>
    let ts ← getList getRat (← fld inp "t")
    let ns ← getList getRat (← fld inp "n")
    let out := (ts.zip ns).map (fun p => tumorBoost p.1 p.2)
    let spec ← (match impl with
      | none => pure Json.null
      | some ij =>
        if (vImplErr ij).isSome then pure (vClausesJ ["raises_error"]) else do
        let im ← getList getOptRat ij
        if im.length != ts.length then pure (vClausesJ ["one_value_per_row"]) else
        -- boosted = t/(2n) if t < n, 1 − (1−t)/(2(1−n)) otherwise (stated without division)
        let ok := (im.zip (ts.zip ns)).all (fun (b, t, n) => match b with
          | some b => if t < n then vClose (b * (2 * n)) t else vClose ((1 - b) * (2 * (1 - n))) (1 - t)
          | none => n == 1 && !(t < n))
        pure (vClausesJ (if ok then [] else ["tumorboost_formula"])))
    pure (some (obj [("out", vOptRatsJ out), ("spec", spec)]))
  | "vcf_rescale" =>
    let p ← getRat (← fld inp "purity")
    let obs ← getList getOptRat (← fld inp "obs")
    if p == 0 then throw "purity 0 is outside the model"
    let out := obs.map (fun x => x.map (rescaleBaf p))
    let spec ← (match impl with
      | none => pure Json.null
      | some ij =>
        if (vImplErr ij).isSome then pure (vClausesJ ["raises_error"]) else do
        let im ← getList getOptRat ij
        if im.length != obs.length then pure (vClausesJ ["one_value_per_row"]) else
        -- the tumour BAF mixes back to the observed one: t·p + ½(1−p) = obs
        let ok := (im.zip obs).all (fun p2 => match p2.1, p2.2 with
          | some t, some o => vClose (t * p + (1/2) * (1 - p)) o
          | none, none => true
          | _, _ => false)
        pure (vClausesJ (if ok then [] else ["rescale_formula"])))
    pure (some (obj [("out", vOptRatsJ out), ("spec", spec)]))
  | _ => pure none

end CnvVerif.Drv
