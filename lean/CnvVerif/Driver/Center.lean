import CnvVerif.Driver.Json
import CnvVerif.Driver.Call
import CnvVerif.Model.Center
open Lean
namespace CnvVerif.Drv

/-- [chrom,s,e,log2,depth|null] -/
def getCBin (j : Json) : R CBin := do
  let a ← getArr j
  if a.size < 5 then throw "cbin needs 5 fields"
  pure { chrom := ← getStr a[0]!, s := ← getInt a[1]!, e := ← getInt a[2]!, log2 := ← getRat a[3]!,
         depth := ← getOptRat a[4]! }

def tinyR (q : Rat) : Bool := absR q ≤ 1 / 1000000000

def getCmp (j : Json) : R AutoCmp := do
  let a ← getArr j
  pure { stat := ← getOptRat a[0]!, diff := ← getRat a[1]! }

def handleCenter (op : String) (inp : Json) (impl : Option Json) : R (Option Json) := do
  match op with
  | "center" =>
    let t ← getList getCBin (← fld inp "rows")
    let estName ← getStr (← fld inp "est")
    let byChrom ← getBool (← fld inp "by_chrom")
    let skipLow ← getBool (← fld inp "skip_low")
    let par ← getOptStr (← fld inp "par")
    -- biweight location iterates to within its own epsilon (1e-3): "zero" up to that tolerance
    let reestTol : Rat := if estName == "biweight" then 2 / 1000 else 1 / 1000000
    let est? : Option (List Rat → Rat) := match estName with
      | "median" => some medianR
      | "mean" => some meanR
      | _ => none
    let out : Json := match est? with
      | some est => arrJ ((centerAll est byChrom skipLow par t).map (fun b => ratJ b.log2))
      | none => Json.null
    let spec ← (match impl with
      | none => pure Json.null
      | some ij => do
        let newLog2 ← getList getRat (← fld ij "log2")
        let reest ← getRat (← fld ij "reest")
        if newLog2.length != t.length then pure (arrJ [strJ "row_count"]) else
        let diffs := (newLog2.zip t).map (fun p => p.1 - p.2.log2)
        let d0 := diffs.headD 0
        let uniform := diffs.all (fun d => tinyR (d - d0))
        -- the estimate that center_all zeroes, recomputed on the real output
        -- (the bins are selected on the ORIGINAL values: a bin just above the null-coverage cut-off
        -- stays selected although the shift may push it below)
        let first := (t.head?.map (·.chrom)).getD ""
        let tagged := (t.zip newLog2).map (fun p => ({ p.1 with weight := some p.2 } : CBin))
        let sel := autosomesOf first par (if skipLow then dropLow tagged else tagged)
        let sel' := sel.map (fun b => { b with log2 := b.weight.getD 0 })
        let zero := match est? with
          | some est => sel'.isEmpty || tinyR (est (centerValues est byChrom sel'))
          | none => absR reest ≤ reestTol
        pure (arrJ (((if uniform then [] else ["uniform_shift"]) ++
                     (if zero then [] else ["estimator_zero_after_centering"])).map strJ)))
    let first0 := (t.head?.map (·.chrom)).getD ""
    let selIdx := ((List.range t.length).zip t).filter (fun p =>
      (autosomesOf first0 par (if skipLow then dropLow t else t)).contains p.2) |>.map (·.1)
    pure (some (obj [("out", out), ("spec", spec), ("sel", arrJ (selIdx.map natJ))]))
  | "shift_xx" =>
    let t ← getList getCBin (← fld inp "rows")
    let hapX ← getBool (← fld inp "hapX")
    let isXX ← getBool (← fld inp "is_xx")
    let out := (shiftXX hapX isXX t).map (fun b => ratJ b.log2)
    pure (some (obj [("out", arrJ out), ("spec", arrJ [])]))
  | "expect_flat" =>
    let t ← getList getCBin (← fld inp "rows")
    let hapX ← getBool (← fld inp "hapX")
    let par ← getOptStr (← fld inp "par")
    let out := expectFlat hapX par t
    let first := (t.head?.map (·.chrom)).getD ""
    let spec ← (match impl with
      | none => pure Json.null
      | some ij => do
        let o ← getList getRat ij
        -- 0 on autosomes, -1 on Y, and -1 on X only for a male reference
        let ok := o.length == t.length && (t.zip o).all fun (b, v) =>
          let c := b.chrom.toLower
          let isX := b.chrom == xLabel first
          let isY := b.chrom == yLabel first
          let inParX := match par with | some g => isX && inPar g "PAR1X" "PAR2X" b.s b.e | none => false
          let inParY := match par with | some g => isY && inPar g "PAR1Y" "PAR2Y" b.s b.e | none => false
          if isY then (v == -1 || (hapX && inParY && v == 0))
          else if isX then (if hapX && !inParX then v == -1 else v == 0)
          else v == 0 && c.length ≥ 0
        pure (arrJ ((if ok then [] else ["expect_flat_levels"]).map strJ)))
    pure (some (obj [("out", arrJ (out.map ratJ)), ("spec", spec)]))
  | "sex" =>
    -- decision logic of compare_sex_chromosomes; the Mood statistics are parameters (scipy)
    let xF ← getCmp (← fld inp "xF")
    let xM ← getCmp (← fld inp "xM")
    let y ← (match optFld inp "yF", optFld inp "yM" with
      | some a, some b => do pure (some (← getCmp a, ← getCmp b))
      | _, _ => pure none)
    -- rows given: recompute the unweighted median differences from the table itself
    let t ← getList getCBin (← fld inp "rows")
    let hapX ← getBool (← fld inp "hapX")
    let par ← getOptStr (← fld inp "par")
    let weighted ← getBool (← fld inp "weighted")
    let first := (t.head?.map (·.chrom)).getD ""
    let auto := (autosomesOf first par t).map (·.log2)
    let xs := (t.filter (fun b => classOf first par b.chrom b.s b.e == .x)).map (·.log2)
    let ys := (t.filter (fun b => classOf first par b.chrom b.s b.e == .y)).map (·.log2)
    let diffOf (vals : List Rat) (sh : Rat) : Rat := absR (medianR auto - medianR (vals.map (· + sh)))
    let fix (c : AutoCmp) (vals : List Rat) (sh : Rat) : AutoCmp :=
      if weighted then c else { c with diff := diffOf vals sh }
    let xF' := fix xF xs (xShifts hapX).1
    let xM' := fix xM xs (xShifts hapX).2
    let y' := y.map fun (a, b) => (fix a ys yShifts.1, fix b ys yShifts.2)
    let sx := compareChrom xF' xM'
    let score := match y' with
      | some (a, b) => sx * compareChrom a b
      | none => sx
    pure (some (obj [("out", obj [("is_male", boolJ (isMale xF' xM' y')), ("chrx_male_lr", ratJ sx),
                                   ("score", ratJ score)]),
                     ("slack", ratJ (absR (score - 1))), ("spec", arrJ [])]))
  | "sex_oracle" =>
    pure (some (obj [("out", Json.null), ("spec", arrJ [])]))
  | _ => pure none

end CnvVerif.Drv
