/-
  Driver for Props/C07Dual.lean (C07, extension 5c): `a.intersection(b, mode="trim")` and `a.subtract(b)` on the same
  pair of tables.  `impl` = {"inter": rows, "sub": rows}.  The spec clauses are the statement of
  `C07Dual.trim_and_subtract_partition_bases` evaluated on the real outputs at every interval end point of the four tables
  (coverage is constant between consecutive end points).
-/
import CnvVerif.Driver.Json
import CnvVerif.Driver.Interval
import CnvVerif.Model.Ranges
import CnvVerif.Model.Interval
import CnvVerif.Model.IntervalSpec
open Lean
namespace CnvVerif.Drv

def c07DualSpecB (a b inter sub : Table) : List String :=
  let ts := [a, b, inter, sub]
  let chroms := allChroms ts
  let pts (c : String) : List Int := ts.flatMap (fun t => endpoints t c)
  (if chroms.all (fun c => (pts c).all fun p => covb a c p == (covb inter c p || covb sub c p)) then []
   else ["trim_union_subtract_covers_exactly_a"]) ++
  (if chroms.all (fun c => (pts c).all fun p => !(covb inter c p && covb sub c p)) then []
   else ["trim_and_subtract_disjoint"])

def handleC07Dual (op : String) (inp : Json) (impl : Option Json) : R (Option Json) := do
  match op with
  | "trim_subtract" =>
    let a ← getTable (← fld inp "a")
    let b ← getTable (← fld inp "b")
    let inter := intersection a b .trim
    let sub := subtractTable a b
    let spec ← (match impl with
      | none => pure Json.null
      | some j => do
        let ii ← getTable (← fld j "inter")
        let si ← getTable (← fld j "sub")
        pure (clausesJ (c07DualSpecB a b ii si)))
    pure (some (obj [("out", obj [("inter", tableJ inter), ("sub", tableJ sub)]), ("spec", spec),
      ("specm", clausesJ (c07DualSpecB a b inter sub))]))
  | _ => pure none

end CnvVerif.Drv
