/-
  JSON driver for C08 (table formats).  Ops: fmt_read, fmt_auto, fmt_roundtrip, seg_roundtrip.
  Encodings: cell = null | ["i", n] | ["f", "n/d"] | ["s", text];  row = [chrom, start, end, [cells]];
  table = {"names": [...], "rows": [...]};  file = [[field, ...], ...] (lines split on tabs).
  `spec` = the clauses of the property evaluated on the IMPLEMENTATION's tables / files.
-/
import CnvVerif.Driver.Json
import CnvVerif.Model.Formats
open Lean
namespace CnvVerif.Drv
open CnvVerif.Fmt

/- helpers live in their own namespace: several drivers share `CnvVerif.Drv` -/
namespace FormatsDrv

def getCell (j : Json) : R Cell :=
  match j with
  | .null => pure .na
  | _ => do
    let a ← getArr j
    if a.size != 2 then throw "cell needs [kind, value]"
    match ← getStr a[0]! with
    | "i" => pure (.int (← getInt a[1]!))
    | "f" => pure (.flt (← getRat a[1]!))
    | "s" => pure (.str (← getStr a[1]!))
    | k => throw s!"bad cell kind {k}"

def cellJ : Cell → Json
  | .na => Json.null
  | .int i => arrJ [strJ "i", intJ i]
  | .flt q => arrJ [strJ "f", ratJ q]
  | .str s => arrJ [strJ "s", strJ s]

def getFRow (j : Json) : R FRow := do
  let a ← getArr j
  if a.size < 4 then throw "frow needs 4 entries"
  pure { chrom := ← getStr a[0]!, s := ← getInt a[1]!, e := ← getInt a[2]!, cols := ← getList getCell a[3]! }

def frowJ (r : FRow) : Json := arrJ [strJ r.chrom, intJ r.s, intJ r.e, arrJ (r.cols.map cellJ)]

def getFTab (j : Json) : R FTab := do
  pure { names := ← getList getStr (← fld j "names"), rows := ← getList getFRow (← fld j "rows") }

def ftabJ (t : FTab) : Json := obj [("names", arrJ (t.names.map strJ)), ("rows", arrJ (t.rows.map frowJ))]

def getLines (j : Json) : R (List Line) := getList (getList getStr) j

def cellLinesJ (ls : List (List Cell)) : Json := arrJ (ls.map fun l => arrJ (l.map cellJ))

def exceptJ {α} (f : α → Json) : Except String α → Json
  | .ok v => f v
  | .error e => obj [("error", strJ e)]

def getSel (j : Option Json) : R SampleSel :=
  match j with
  | none => pure .first
  | some (.str s) => pure (.name s)
  | some v => do pure (.index (← getNat v))

/-! ### the property's clauses, evaluated on tables the real code produced -/

def ratStr (q : Rat) : String := if q.den == 1 then toString q.num else s!"{q.num}/{q.den}"

/-- comparison key of a cell: integers exactly, numbers by their 6 significant digits -/
def cellKey : Cell → String
  | .na => "n"
  | .int i => "q" ++ toString i
  | .flt q => "q" ++ ratStr (sixg q)
  | .str s => "s" ++ s

def rowKey (names : List String) (t : FTab) (r : FRow) : String :=
  "\x01".intercalate ([r.chrom, toString r.s, toString r.e] ++
    names.map fun n => match colCell t n r with
      | some c => cellKey c
      | none => "<missing>")

/-- the two tables hold the same rows (as multisets) on coordinates + the named columns -/
def sameRows (names : List String) (a b : FTab) : Bool :=
  let ka := (a.rows.map (rowKey names a)).mergeSort (fun x y => decide (x ≤ y))
  let kb := (b.rows.map (rowKey names b)).mergeSort (fun x y => decide (x ≤ y))
  ka == kb

def stripChr (l : List Char) : List Char :=
  match l with
  | a :: b :: c :: rest => if a.toLower == 'c' && b.toLower == 'h' && c.toLower == 'r' then rest else l
  | _ => l

/-- rank of a canonical chromosome name in the order the property spells out: 1 < 2 < 10 < X < Y < M -/
def canonRank (c : String) : Option Nat :=
  let l := stripChr c.toList
  if !l.isEmpty && l.all Char.isDigit && l.length ≤ 3 then some (digitsVal l)
  else if l == ['X'] then some 1000
  else if l == ['Y'] then some 1001
  else if l == ['M'] || l == ['M', 'T'] then some 1002
  else none

def pairwiseB {α} (p : α → α → Bool) : List α → Bool
  | [] => true
  | a :: t => t.all (p a) && pairwiseB p t

def dedupAdjacent : List String → List String
  | a :: b :: t => if a == b then dedupAdjacent (b :: t) else a :: dedupAdjacent (b :: t)
  | l => l

def hasDup (l : List String) : Bool := l.eraseDups.length != l.length

/-- "rows sorted by natural chromosome order (1, 2, 10, X, Y, M) then start then end" -/
def sortClauses (rows : List FRow) : List String :=
  let names := rows.map (·.chrom)
  let distinct := names.eraseDups
  let mixed := hasDup (distinct.map fun c => String.ofList ((stripChr c.toList).map Char.toLower))
  (if pairwiseB (fun a b => match canonRank a.chrom, canonRank b.chrom with
      | some x, some y => x ≤ y
      | _, _ => true) rows then [] else ["natural_chromosome_order"]) ++
  (if pairwiseB (fun a b => a.chrom != b.chrom || a.s < b.s || (a.s == b.s && a.e ≤ b.e)) rows
    then [] else ["start_then_end_order"]) ++
  (if mixed || !hasDup (dedupAdjacent names) then [] else ["chromosomes_contiguous"])

def coordsOf (t : FTab) : List (String × Int × Int) := t.rows.map fun r => (r.chrom, r.s, r.e)

def colKinds (t : FTab) : List (String × String) :=
  t.names.map fun n =>
    let cells := t.rows.map fun r => (colCell t n r).getD .na
    let kind := if cells.any (fun c => match c with | .str _ => true | _ => false) then "str"
      else if cells.all (fun c => match c with | .int _ => true | _ => false) then "int"
      else "num"
    (n, kind)

/-- columns a written format carries besides the coordinates -/
def carried (wfmt : String) (t : FTab) : List String :=
  match wfmt with
  | "tab" => t.names
  | "bed4" => if t.names.contains "gene" then ["gene"] else []
  | "interval" => ["gene", "strand"].filter t.names.contains
  | "seg" => ["log2", "probes"].filter t.names.contains
  | _ => []

def joinLine (l : Line) : String := "\t".intercalate l

def sameLineSet (a b : List Line) : Bool :=
  (a.map joinLine).mergeSort (fun x y => decide (x ≤ y)) == (b.map joinLine).mergeSort (fun x y => decide (x ≤ y))

/-- write-then-read clauses: `t0` written, `t1` read back -/
def roundtripClauses (wfmt : String) (t0 t1 : FTab) : List String :=
  let kinds := colKinds t0
  let car := carried wfmt t0
  let of (k : String) := car.filter (fun n => kinds.lookup n == some k)
  (if !sameRows [] t0 t1 then ["roundtrip_coordinates"] else
    (if sameRows (of "str") t0 t1 then [] else ["roundtrip_names"]) ++
    (if sameRows (of "int") t0 t1 then [] else ["roundtrip_integer_columns"]) ++
    (if sameRows (of "num") t0 t1 then [] else ["roundtrip_numbers_6_digits"]) ++
    (if sameRows car t0 t1 then [] else ["roundtrip_rows"])) ++
  sortClauses t1.rows

def clausesJ (l : List String) : Json := arrJ (l.eraseDups.map strJ)

end FormatsDrv
open FormatsDrv

def handleFormats (op : String) (inp : Json) (impl : Option Json) : R (Option Json) := do
  match op with
  | "fmt_read" =>
    let fmt ← getStr (← fld inp "fmt")
    let lines ← getLines (← fld inp "lines")
    let cna := match optFld inp "cna" with
      | some (Json.bool b) => b
      | _ => false
    let sel ← getSel (optFld inp "sel")
    let out := readFmt fmt cna sel lines
    let spec ← (match impl, optFld inp "truth" with
      | some ij, some tj => do
        let it ← getFTab ij
        let truth ← getFTab tj
        let car ← (match optFld inp "carried" with
          | some c => getList getStr c
          | none => pure [])
        pure (clausesJ (
          (if !sameRows [] truth it then ["coords_zero_based_half_open"]
           else if sameRows car truth it then [] else ["names_kept"]) ++
          sortClauses it.rows))
      | some ij, none => do
        let it ← getFTab ij
        pure (clausesJ (sortClauses it.rows))
      | none, _ => pure Json.null)
    pure (some (obj [("out", exceptJ ftabJ out), ("spec", spec)]))
  | "fmt_auto" =>
    let ext ← getStr (← fld inp "ext")
    let lines ← getLines (← fld inp "lines")
    let out := autoFormat ext lines
    let spec ← (match impl with
      | some ij => do
        match optFld ij "auto", optFld ij "direct" with
        | some aj, some dj => do
          let a ← getFTab aj
          let d ← getFTab dj
          let common := a.names.filter d.names.contains
          pure (clausesJ (
            if !sameRows [] d a then ["auto_same_coordinates"]
            else if sameRows common d a && coordsOf a == coordsOf d then [] else ["auto_same_table"]))
        | _, _ => pure (clausesJ ["auto_detection_fails"])
      | none => pure Json.null)
    pure (some (obj [("out", exceptJ strJ out), ("spec", spec)]))
  | "fmt_roundtrip" =>
    let wfmt ← getStr (← fld inp "wfmt")
    let rfmt ← getStr (← fld inp "rfmt")
    let cna := match optFld inp "cna" with
      | some (Json.bool b) => b
      | _ => false
    let t0 ← getFTab (← fld inp "t0")
    let w1 := writeFmt wfmt t0
    match impl with
    | none => pure (some (obj [("out", obj [("w1", exceptJ cellLinesJ w1)]), ("spec", Json.null)]))
    | some ij =>
      let file1 ← getLines (← fld ij "file1")
      let t1 ← getFTab (← fld ij "t1")
      let file2 ← getLines (← fld ij "file2")
      let file3 ← getLines (← fld ij "file3")
      let r1 := readFmt rfmt cna .first file1
      let w2 := writeFmt wfmt t1
      let sameOrder := coordsOf t0 == coordsOf t1
      let clauses := roundtripClauses wfmt t0 t1 ++
        (if !sameRows (carried wfmt t0) t0 t1 then [] else
          (if sameLineSet file1 file2 && (wfmt != "tab" || file1.head? == file2.head?) then [] else ["rewrite_same_lines"]) ++
          (if file3 == file2 && (!sameOrder || file1 == file2) then [] else ["rewrite_identical_bytes"]))
      pure (some (obj [("out", obj [("w1", exceptJ cellLinesJ w1), ("r1", exceptJ ftabJ r1),
                                     ("w2", exceptJ cellLinesJ w2)]),
                       ("spec", clausesJ clauses)]))
  | "seg_roundtrip" =>
    -- in: samples [{sid, t0}];  impl: {cns1: [lines per sample], seg1, imported: [{sid, cns, t1}], seg2}
    let samples ← getList (fun j => do pure ((← getStr (← fld j "sid")), (← getFTab (← fld j "t0")))) (← fld inp "samples")
    match impl with
    | none => pure (some (obj [("out", Json.null), ("spec", Json.null)]))
    | some ij =>
      let cns1 ← getList getLines (← fld ij "cns1")
      let seg1 ← getLines (← fld ij "seg1")
      let seg2 ← getLines (← fld ij "seg2")
      let imported ← getList (fun j => do
        pure ((← getStr (← fld j "sid")), (← getLines (← fld j "cns")), (← getFTab (← fld j "t1")))) (← fld ij "imported")
      -- export: every .cns is read as a CopyNumArray, then formatted
      let exported : Except String (List (List Cell)) := do
        let tabs ← (samples.zip cns1).mapM fun ((sid, _), ls) => do
          pure (sid, ← readFmt "tab" true .first ls)
        writeSeg tabs
      -- import-seg: parse, one .cns per sample (unsorted), then read back
      let parsed : Except String (List (String × List (List Cell))) := do
        let (names, groups) ← parseSeg seg1 [] none
        pure (groups.map fun (sid, rows) => (sid, writeTab { names := names, rows := rows }))
      let reread : Except String (List FTab) :=
        imported.mapM fun (_, ls, _) => readFmt "tab" true .first ls
      let parsedJ := exceptJ (fun l => arrJ (l.map fun (sid, ls) => obj [("sid", strJ sid), ("cns", cellLinesJ ls)])) parsed
      let perSample := (samples.zip imported).map fun ((_, t0), (_, _, t1)) => roundtripClauses "seg" t0 t1
      let clauses :=
        (if samples.map (·.1) == imported.map (·.1) then [] else ["roundtrip_sample_ids"]) ++
        perSample.flatten ++
        (if seg1 == seg2 then [] else ["rewrite_identical_bytes"])
      pure (some (obj [("out", obj [("seg", exceptJ cellLinesJ exported), ("parsed", parsedJ),
                                     ("reread", exceptJ (fun l => arrJ (l.map ftabJ)) reread)]),
                       ("spec", clausesJ clauses)]))
  | "fmt_key" =>
    -- the sort key the model uses for a chromosome name (diagnostic)
    let c ← getStr (← fld inp "chrom")
    let k := sorterChrom c
    pure (some (obj [("out", arrJ [natJ k.1, strJ k.2]), ("spec", Json.null)]))
  | _ => pure none

end CnvVerif.Drv
