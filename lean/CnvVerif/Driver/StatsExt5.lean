/-
  JSON driver for property C17, op `bintest_noseg`: `do_bintest` without segments (Model/StatsExt5.lean).
  `out` = the model's hits `[label, residual, q]`; `spec` = the clauses of the property that do not speak of a segment
  mean, judged on the implementation's own rows: every returned row is a row of the table, has its reported p below
  alpha, is no off-target row with `target_only`, and comes once.  What the residual is in this mode (log2 −
  chromosome median) -- and with it WHICH bins fall below alpha -- is outside the property's wording: that is compared
  model-vs-code by the harness (a difference is reported as a broken correspondence), not judged here.
-/
import CnvVerif.Driver.Stats
import CnvVerif.Model.StatsExt5
open Lean
namespace CnvVerif.Drv
open CnvVerif.Stats

def handleStatsExt5 (op : String) (inp : Json) (impl : Option Json) : R (Option Json) := do
  match op with
  | "bintest_noseg" =>
    let bins ← getBins (← fld inp "bins")
    let alpha ← getRat (← fld inp "alpha")
    let targetOnly ← getBool (← fld inp "target_only")
    let phi ← getPairs2 (← fld inp "phi")
    for b in bins do
      if !(0 < b.weight && b.weight ≤ 1) then throw "weight outside (0,1] is outside the model"
    let tail : Rat → Rat := fun x => (lookupNear phi x).getD 0
    let rows := nosegTested bins targetOnly
    let args := rows.filterMap (fun r =>
      if r.2 == 0 then some (0 : Rat) else if r.1.weight == 1 then none else some (r.2 * r.2 / (1 - r.1.weight)))
    let missing := args.any (fun x => (lookupNear phi x).isNone)
    let all := nosegAll tail bins targetOnly
    let hits := all.filter (fun h => h.q < alpha)
    let slack := listMin (all.map (fun h => rabs (h.q - alpha))) 1
    let hitJ (h : Hit) : Json := arrJ [natJ (labelOf h.bin), ratJ h.resid, ratJ h.q]
    let spec ← (match impl with
      | none => pure Json.null
      | some ij => do
        let ih ← getList (fun x => do
          let a ← getArr x
          if a.size < 3 then throw "hit needs [label, log2, p]"
          pure (← getNat a[0]!, ← getRat a[1]!, ← getRat a[2]!)) (← fld ij "hits")
        let mut bad : List String := []
        let labs := ih.map (·.1)
        for (lab, _lg, p) in ih do
          match bins.find? (fun b => labelOf b == lab) with
          | none => bad := "bintest_hit_is_tested_bin" :: bad
          | some b =>
            if !(p < alpha) then bad := "bintest_exactly_below_alpha" :: bad
            if targetOnly && Generated.ANTITARGET_ALIASES.contains b.gene then bad := "bintest_on_target_only" :: bad
        if labs.eraseDups.length != labs.length then bad := "bintest_exactly_below_alpha" :: bad
        pure (sClausesJ bad.reverse))
    pure (some (obj [("out", arrJ (hits.map hitJ)), ("tested", natJ all.length), ("slack", ratJ slack),
                     ("phi_missing", boolJ missing), ("spec", spec)]))
  | _ => pure none

end CnvVerif.Drv
