/-
  JSON helpers for the line-protocol driver.  Rationals travel as strings "n/d" (or "n").
-/
import Lean.Data.Json
import CnvVerif.Basic
import CnvVerif.Model.Ranges
open Lean
namespace CnvVerif.Drv

abbrev R := Except String

def getInt (j : Json) : R Int := j.getInt?
def getNat (j : Json) : R Nat := j.getNat?
def getStr (j : Json) : R String := j.getStr?
def getBool (j : Json) : R Bool := j.getBool?
def getArr (j : Json) : R (Array Json) := j.getArr?
def fld (j : Json) (k : String) : R Json := j.getObjVal? k

def optFld (j : Json) (k : String) : Option Json :=
  match j.getObjVal? k with
  | .ok Json.null => none
  | .ok v => some v
  | .error _ => none

def parseRatStr (s : String) : R Rat :=
  match s.splitOn "/" with
  | [n] => match n.toInt? with
    | some i => pure (i : Rat)
    | none => throw s!"bad rat {s}"
  | [n, d] => match n.toInt?, d.toNat? with
    | some i, some k => if k == 0 then throw s!"zero den {s}" else pure ((i : Rat) / (k : Rat))
    | _, _ => throw s!"bad rat {s}"
  | _ => throw s!"bad rat {s}"

def getRat (j : Json) : R Rat :=
  match j with
  | .str s => parseRatStr s
  | .num _ => match j.getInt? with
    | .ok i => pure (i : Rat)
    | .error e => throw e
  | _ => throw "bad rat json"

def ratJ (q : Rat) : Json :=
  if q.den == 1 then Json.str (toString q.num) else Json.str s!"{q.num}/{q.den}"

def optRatJ : Option Rat → Json
  | none => Json.null
  | some q => ratJ q

def intJ (i : Int) : Json := Json.num (JsonNumber.fromInt i)
def natJ (n : Nat) : Json := Json.num (JsonNumber.fromNat n)
def strJ (s : String) : Json := Json.str s
def boolJ (b : Bool) : Json := Json.bool b
def arrJ (l : List Json) : Json := Json.arr l.toArray

def getList {α} (f : Json → R α) (j : Json) : R (List α) := do
  let a ← getArr j
  a.toList.mapM f

def getOptInt (j : Json) : R (Option Int) :=
  match j with
  | .null => pure none
  | _ => do pure (some (← getInt j))

def getOptRat (j : Json) : R (Option Rat) :=
  match j with
  | .null => pure none
  | _ => do pure (some (← getRat j))

def getOptStr (j : Json) : R (Option String) :=
  match j with
  | .null => pure none
  | _ => do pure (some (← getStr j))

/-- a row is `[chrom, start, end, gene]` -/
def getRow (j : Json) : R Row := do
  let a ← getArr j
  if a.size < 4 then throw "row needs 4 fields"
  pure { chrom := ← getStr a[0]!, s := ← getInt a[1]!, e := ← getInt a[2]!, gene := ← getStr a[3]! }

def getTable (j : Json) : R Table := getList getRow j

def rowJ (r : Row) : Json := arrJ [strJ r.chrom, intJ r.s, intJ r.e, strJ r.gene]
def tableJ (t : Table) : Json := arrJ (t.map rowJ)

def getMode (j : Json) : R Mode := do
  match (← getStr j) with
  | "inner" => pure .inner
  | "outer" => pure .outer
  | "trim" => pure .trim
  | m => throw s!"bad mode {m}"

def obj (kvs : List (String × Json)) : Json := Json.mkObj kvs

end CnvVerif.Drv
