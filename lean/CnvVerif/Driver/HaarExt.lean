/-
  JSON driver for the C11 extension: weighted `HaarConv` on noise-free steps (closed form), the weighted `haarSeg`,
  the window-edge indices of the `HaarConv` loop (model, generated source expression, observed), and the initial HMM
  of `hmm_get_model`.
-/
import CnvVerif.Driver.Haar
import CnvVerif.Model.HaarExt
import CnvVerif.Driver.HaarExt5Fdr
import CnvVerif.Driver.HaarExt5Hmm
import CnvVerif.Generated.ExprsHaar
import CnvVerif.Generated.HmmConsts
open Lean
namespace CnvVerif.Drv.HaarExt
open CnvVerif.Drv CnvVerif.Drv.Haar CnvVerif.Haar

def stepList (lo hi : Rat) (b n : Nat) : List Rat := List.replicate b lo ++ List.replicate (n - b) hi

/-- theorem `haarConvW_ideal_step` / `weighted_step_share` on the REAL output -/
def wStepSpec (fac lo hi : Rat) (wt : List Rat) (b n h : Nat) (closed out : List Rat) : List String :=
  if ¬ (1 ≤ h ∧ h ≤ b ∧ b + h ≤ n ∧ wt.length = n ∧ wt.all (fun x => decide (0 < x))) then [] else
  let bad := (List.range n).any fun k => !(closeQ (out.getD k 0) (closed.getD k 0))
  let outside := (List.range n).any fun k =>
    (decide (k + h ≤ b) || decide (b + h ≤ k)) && !(closeQ (out.getD k 0) 0)
  (if out.length ≠ n then ["conv_length"] else []) ++
  (if bad then ["weighted_ideal_response"] else []) ++
  (if outside then ["weighted_response_zero_outside_reach"] else []) ++
  (if closeQ (out.getD b 0) (fac * (hi - lo)) then [] else ["weighted_response_at_step_is_the_step"])

def matJ (m : List (List Rat)) : Json := arrJ (m.map ratsJ)

def handleHaarExt (op : String) (inp : Json) (impl : Option Json) : R (Option Json) := do
  match op with
  | "haar_conv_w_step" =>
    let b ← getNat (← fld inp "b")
    let n ← getNat (← fld inp "n")
    let h ← getNat (← fld inp "h")
    let lo ← getRat (← fld inp "lo")
    let hi ← getRat (← fld inp "hi")
    let fac ← getRat (← fld inp "fac")
    let wt ← getList getRat (← fld inp "w")
    if h = 0 ∨ fac ≤ 0 ∨ n < b then throw "haar_conv_w_step: h = 0, fac <= 0 or b > n"
    let sig := stepList lo hi b n
    let model := haarConvW fac sig wt h
    let closed := stepRespW fac lo hi wt b n h
    let facBad := !(closeQ (fac * fac) ((h : Rat) / 2))
    let spec ← specOf impl fun ij => do
      match ij with
      | .str _ => pure []
      | _ =>
        let o ← getList getRat ij
        pure ((if facBad then ["norm_is_not_the_sqrt"] else []) ++ wStepSpec fac lo hi wt b n h closed o)
    pure (some (obj [("out", match model with | some l => ratsJ l | none => Json.null),
                     ("closed", ratsJ closed), ("spec", spec)]))
  | "haar_seg_w" =>
    let I ← getList getRat (← fld inp "I")
    if I.isEmpty then throw "haar_seg_w: empty signal"
    let wt ← getList getRat (← fld inp "w")
    let q ← getRat (← fld inp "q")
    let facs ← getList getRat (← fld inp "facs")
    let ideal ← getIdeal inp
    let table := Generated.HAAR_LEVEL_TABLE
    if facs.length ≠ table.length then throw "haar_seg_w: facs do not match the level table"
    let facOf : Nat → Rat := fun h => facs.getD ((table.map (·.2.1)).idxOf h) 1
    let t := haarSegW fl64 facOf (fun _ => []) q I wt
    let spec ← specOf impl fun ij => do
      let ti ← Haar.getTable ij
      pure (match ideal with | some id => idealSegSpec I.length id ti | none => [])
    pure (some (obj [("out", Haar.tableJ t), ("spec", spec)]))
  | "haar_idx" =>
    let n ← getNat (← fld inp "n")
    let h ← getNat (← fld inp "h")
    let ks := (List.range n).drop 1
    let model := ks.map fun (k : Nat) => [(hiIdx n h k : Int), (loIdx h k : Int), ((k - 1 : Nat) : Int)]
    let src := ks.map fun (k : Nat) =>
      [Generated.src_haarconv_highEnd (k : Int) (n : Int) (h : Int), Generated.src_haarconv_lowEnd (k : Int) (h : Int),
       (k : Int) - 1]
    let spec ← specOf impl fun ij => do
      let obs ← getList (getList getInt) ij
      let inRange := obs.all fun r => r.all fun i => decide (0 ≤ i ∧ i < (n : Int))
      pure (if inRange then [] else ["window_index_outside_signal"])
    pure (some (obj [("out", arrJ (model.map intsJ)), ("src", arrJ (src.map intsJ)), ("spec", spec)]))
  | "hmm_init" =>
    -- no clause of the property speaks about the initial model: the observed arguments of `from_matrix` are compared
    -- with the generated constants by the harness (a difference breaks the tie, it is not a spec failure); the shape
    -- predicates are reported for the evidence only
    let shape ← (match impl with
      | none => pure Json.null
      | some ij => do
        let start ← getList getRat (← fld ij "start")
        let trans ← getList (getList getRat) (← fld ij "trans")
        pure (obj [("start_prefers_neutral", boolJ (startPrefersNeutral start)),
                   ("transitions_sticky_100", boolJ (stickyMatrix 100 trans))]))
    let spec ← specOf impl fun _ => pure []
    pure (some (obj [("out", obj [("start", ratsJ Generated.HMM_START_3), ("trans", matJ Generated.HMM_TRANS_3),
                                  ("args", strsJ Generated.HMM_FROM_MATRIX_ARGS)]),
                     ("observed_shape", shape), ("spec", spec)]))
  | _ => do   -- round 5: op `fdr_cdf` (Driver/HaarExt5Fdr.lean), op `hmm_states` (Driver/HaarExt5Hmm.lean)
    match ← HaarFdr.handleHaarFdr op inp impl with
    | some r => pure (some r)
    | none => HaarHmmM.handleHaarHmmM op inp impl

end CnvVerif.Drv.HaarExt
