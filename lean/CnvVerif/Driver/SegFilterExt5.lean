import CnvVerif.Driver.Json
import CnvVerif.Driver.Call
import CnvVerif.Driver.SegFilter
import CnvVerif.Model.SegFilterExt5
open Lean
namespace CnvVerif.Drv
open CnvVerif.C14Sq

/-- [chrom, start, end, gene, log2, probes, weight, depth, baf, cn, cn1, p_bintest] -/
def c14sqGetRow (j : Json) : R XRow := do
  let a ← getArr j
  if a.size < 12 then throw "xrow needs 12 fields"
  pure { chrom := ← getStr a[0]!, s := ← getInt a[1]!, e := ← getInt a[2]!, gene := ← getStr a[3]!,
         log2 := ← getRat a[4]!, probes := ← getInt a[5]!, weight := ← getRat a[6]!,
         depth := ← getRat a[7]!, baf := ← getRat a[8]!, cn := ← getRat a[9]!, cn1 := ← getRat a[10]!,
         pb := ← getRat a[11]! }

def c14sqCellJ : Cell → Json
  | .num q => ratJ q
  | .str s => strJ s

def c14sqRowJ (l : List Col) : Json :=
  arrJ ((presentCols l).map (fun kc => arrJ [strJ kc.1, c14sqCellJ kc.2]))

/-- the real one-row result: [[name, value], ...] in column order -/
def c14sqGetImpl (j : Json) : R (List (String × Cell)) :=
  getList (fun p => do
    let a ← getArr p
    if a.size < 2 then throw "pair"
    let k ← getStr a[0]!
    if k == "chromosome" || k == "gene" then pure (k, Cell.str (← getStr a[1]!))
    else pure (k, Cell.num (← getRat a[1]!))) j

def c14sqNum (o : List (String × Cell)) (k : String) : Option Rat :=
  match o.lookup k with
  | some (.num q) => some q
  | _ => none

def c14sqStr (o : List (String × Cell)) (k : String) : Option String :=
  match o.lookup k with
  | some (.str s) => some s
  | _ => none

/-- distinct names in order of first appearance, written independently of `List.eraseDups` -/
def c14sqDistinct (l : List String) : List String :=
  (l.foldl (fun seen g => if seen.contains g then seen else seen ++ [g]) [])

def c14sqIsClose (got : Option Rat) (want : Rat) : Bool :=
  match got with
  | some g => closeRat g want
  | none => false

/-- the clauses of the property's wording on the real merged row `o` of the run `rows` -/
def c14sqSpec (cols : List String) (rows : List XRow) (o : List (String × Cell)) : List String :=
  match rows with
  | [] => []
  | first :: _ =>
    let last := rows.getLast?.getD first
    let W := sumRat (rows.map (·.weight))
    let bad (name : String) (ok : Bool) : List String := if ok then [] else [name]
    let wmean (f : XRow → Rat) : Rat :=
      if W > 0 then sumRat (rows.map (fun r => f r * r.weight)) / W else sumRat (rows.map f) / (rows.length : Rat)
    bad "merged_row_spans_first_start_to_last_end"
      (c14sqNum o "start" == some (first.s : Rat) && c14sqNum o "end" == some (last.e : Rat)
        && c14sqStr o "chromosome" == some first.chrom) ++
    bad "merged_gene_is_the_distinct_names_in_order"
      (c14sqStr o "gene" == some (",".intercalate (c14sqDistinct (rows.map (·.gene))))) ++
    bad "merged_probes_and_weight_are_sums"
      (c14sqIsClose (c14sqNum o "weight") W &&
        c14sqNum o "probes" == some (if cols.contains "probes" then ((sumInt (rows.map (·.probes)) : Int) : Rat) else (rows.length : Rat))) ++
    bad "merged_log2_is_the_weighted_mean" (c14sqIsClose (c14sqNum o "log2") (wmean (·.log2))) ++
    bad "merged_depth_is_the_weighted_mean"
      (if cols.contains "depth" then c14sqIsClose (c14sqNum o "depth") (wmean (·.depth)) else (o.lookup "depth").isNone) ++
    bad "merged_baf_is_the_weighted_mean"
      (if cols.contains "baf" then c14sqIsClose (c14sqNum o "baf") (wmean (·.baf)) else (o.lookup "baf").isNone) ++
    bad "merged_pbintest_is_the_largest"
      (if cols.contains "p_bintest" then
        match c14sqNum o "p_bintest" with
        | some m => rows.all (fun r => decide (r.pb ≤ m)) && rows.any (fun r => r.pb == m)
        | none => false
       else (o.lookup "p_bintest").isNone) ++
    bad "merged_cn2_is_cn_minus_cn1"
      (if cols.contains "cn" && cols.contains "cn1" then
        match c14sqNum o "cn", c14sqNum o "cn1", c14sqNum o "cn2" with
        | some a, some b, some c => closeRat c (a - b)
        | _, _, _ => false
       else (o.lookup "cn2").isNone)

def c14sqSplit : List Nat → List XRow → List (List XRow)
  | [], _ => []
  | n :: ns, l => l.take n :: c14sqSplit ns (l.drop n)

def handleSegFilterExt5 (op : String) (inp : Json) (impl : Option Json) : R (Option Json) := do
  match op with
  | "squash_region_x" =>
    -- segfilters.squash_region(table) directly: every column of the merged row
    let cols ← getList getStr (← fld inp "cols")
    let rows ← getList c14sqGetRow (← fld inp "rows")
    let spec ← (match impl with
      | none => pure Json.null
      | some ij => do pure (arrJ ((c14sqSpec cols rows (← c14sqGetImpl ij)).map strJ)))
    pure (some (obj [("out", c14sqRowJ (squashRowX cols rows)), ("spec", spec)]))
  | "cn_filter_x" =>
    -- segfilters.cn(table) on a table carrying depth / baf / p_bintest: the maximal runs (the proved `splitRuns`
    -- wording), each squashed with every column
    let cols ← getList getStr (← fld inp "cols")
    let rows ← getList c14sqGetRow (← fld inp "rows")
    let h := cols.contains "cn1"
    let runs := c14sqSplit ((splitRuns (fullLevel h levelCn) (rows.map (toSeg h))).map List.length) rows
    let spec ← (match impl with
      | none => pure Json.null
      | some ij => do
        let os ← getList c14sqGetImpl ij
        if os.length != runs.length then pure (arrJ [strJ "maximal_runs_squashed"])
        else pure (arrJ (((runs.zip os).flatMap (fun p => c14sqSpec cols p.1 p.2)).eraseDups.map strJ)))
    pure (some (obj [("out", arrJ (runs.map (fun g => c14sqRowJ (squashRowX cols g)))), ("spec", spec)]))
  | _ => pure none

end CnvVerif.Drv
