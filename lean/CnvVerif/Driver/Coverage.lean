/-
  JSON driver for C09 (coverage).  Ops:
    "cov"    : one BAM x BED x mapq cut-off, several runs (algorithm, processes, chunk size, completion order)
    "chunks" : parallel.to_chunks on raw lines
  `spec` = the clauses of property C09 evaluated on the implementation's tables.
-/
import CnvVerif.Driver.Json
import CnvVerif.Model.Coverage
open Lean
namespace CnvVerif.Drv
open CnvVerif CnvVerif.Cov

namespace CovD

def absR (q : Rat) : Rat := if q < 0 then -q else q
def closeR (a b : Rat) : Bool := absR (a - b) ≤ (1 / 1000000000 : Rat) * max 1 (absR b)

def getPair (j : Json) : R (Nat × Nat) := do
  let a ← getArr j
  if a.size < 2 then throw "pair needs 2 fields"
  pure (← getNat a[0]!, ← getNat a[1]!)

def getRead (j : Json) : R Read := do
  let a ← getArr j
  if a.size < 5 then throw "read needs 5 fields"
  pure { tid := ← getNat a[0]!, pos := ← getInt a[1]!, cigar := ← getList getPair a[2]!,
         flag := ← getNat a[3]!, mapq := ← getNat a[4]! }

def getContig (j : Json) : R (String × Nat) := do
  let a ← getArr j
  if a.size < 2 then throw "contig needs 2 fields"
  pure (← getStr a[0]!, ← getNat a[1]!)

/-- a BED line: `null` = comment, `[chrom, start, end, [rest...]]` = record -/
def getBedLine (j : Json) : R BedLine :=
  match j with
  | .null => pure .comment
  | _ => do
    let a ← getArr j
    if a.size < 4 then throw "bed record needs 4 fields"
    pure (.record { chrom := ← getStr a[0]!, s := ← getInt a[1]!, e := ← getInt a[2]!,
                    rest := ← getList getStr a[3]! })

structure Run where
  algo : Algo
  procs : Nat
  size : Nat
  order : List Nat

def getRun (j : Json) : R Run := do
  let a ← getArr j
  if a.size < 4 then throw "run needs 4 fields"
  let algo ← (match (← getStr a[0]!) with
    | "count" => pure Algo.count
    | "pileup" => pure Algo.pileup
    | s => throw s!"bad algo {s}")
  pure { algo, procs := ← getNat a[1]!, size := ← getNat a[2]!, order := ← getList getNat a[3]! }

/-- implementation row: [chrom, start, end, gene, depth, log2, 2**log2] (numbers as exact rationals) -/
structure IRow where
  key : Row
  depth : Rat
  log2 : Rat
  pow2 : Rat

def getIRow (j : Json) : R IRow := do
  let a ← getArr j
  if a.size < 7 then throw "impl row needs 7 fields"
  pure { key := { chrom := ← getStr a[0]!, s := ← getInt a[1]!, e := ← getInt a[2]!, gene := ← getStr a[3]! },
         depth := ← getRat a[4]!, log2 := ← getRat a[5]!, pow2 := ← getRat a[6]! }

/-- `none` = the run raised -/
def getIRun (j : Json) : R (Option (List IRow)) :=
  match j.getObjVal? "rows" with
  | .ok r => do pure (some (← getList getIRow r))
  | .error _ => pure none

def outRowJ (o : OutRow) : Json :=
  arrJ [strJ o.chrom, intJ o.s, intJ o.e, strJ o.gene, ratJ o.depth, optRatJ o.log2]

/-- total order on (chrom, start, end, gene), only used to match rows up to rearrangement -/
def keyLe (a b : Row) : Bool :=
  decide (a.chrom < b.chrom) || (a.chrom == b.chrom &&
    (a.s < b.s || (a.s == b.s && (a.e < b.e || (a.e == b.e && decide (a.gene ≤ b.gene))))))

/-- weaker read filters, to name the clause when a depth is off: which exclusion is missing -/
def weakFilters (q : Nat) : List (ARead → Bool) :=
  let f (dup sec unm qcf : Bool) (mq : ARead → Bool) : ARead → Bool := fun r =>
    !(dup && flagSet r.flag 1024) && !(sec && flagSet r.flag 256) && !(unm && flagSet r.flag 4)
      && !(qcf && flagSet r.flag 512) && mq r
  let ge : ARead → Bool := fun r => decide (q ≤ r.mapq)
  [f false true true true ge, f true false true true ge, f true true false true ge, f true true true false ge,
   f true true true true (fun r => decide (q < r.mapq)), f true true true true (fun _ => true),
   f false false false false (fun _ => true)]

def basesWith (contigs : List (String × Nat)) (reads : List ARead) (keep : ARead → Bool) (spanned : Bool)
    (b : Row) : Int :=
  match tidOf contigs b.chrom with
  | none => 0
  | some t => ((reads.filter (fun r => r.tid == t && keep r)).map
      (fun r => if spanned then spanIn r b.s b.e else basesIn r b.s b.e)).sum

structure Truth where
  key : Row
  aligned : Int
  spanned : Int

def sameRows (a b : List IRow) : Bool :=
  a.length == b.length && (a.zip b).all (fun (x, y) =>
    x.key == y.key && closeR x.depth y.depth && closeR x.log2 y.log2)

def checkRun (contigs : List (String × Nat)) (ar : List ARead) (q : Nat) (truths : List Truth)
    (noGap : Bool) (algo : Algo) (rows : List IRow) : List String :=
  let srows := rows.mergeSort (fun a b => keyLe a.key b.key)
  if srows.map (·.key) != truths.map (·.key) then ["rows_keep_bin"] else
  let z := srows.zip truths
  let useSpan := algo == .pileup && !noGap
  let want (t : Truth) : Int := if useSpan then t.spanned else t.aligned
  let depthBad := z.filter (fun (r, t) => !closeR r.depth (depthOf (want t) t.key.s t.key.e))
  let flagsBad := depthBad.filter (fun (r, t) =>
    (weakFilters q).any (fun keep => closeR r.depth (depthOf (basesWith contigs ar keep useSpan t.key) t.key.s t.key.e)))
  let c1 := if depthBad.length > flagsBad.length then
      [if useSpan then "pileup_depth_is_covered_positions_over_length" else "depth_is_bases_over_length"] else []
  let c2 := if flagsBad.isEmpty then [] else ["flags_excluded"]
  -- a bin no counted read overlaps: depth 0 and log2 = -20, exactly
  let emptyBad := z.any (fun (r, t) =>
    (want t == 0 || t.key.e ≤ t.key.s) && !(r.depth == 0 && r.log2 == (-20 : Rat)))
  let c3 := if emptyBad then ["empty_bin_sentinel"] else []
  -- otherwise log2 is the logarithm of the reported depth
  let logBad := z.any (fun (r, _) => r.depth != 0 && !closeR r.pow2 r.depth)
  let c4 := if logBad then ["log2_is_log_of_depth"] else []
  c1 ++ c2 ++ c3 ++ c4

def getLineStr (j : Json) : R String := getStr j

end CovD

open CovD in
def handleCoverage (op : String) (inp : Json) (impl : Option Json) : R (Option Json) := do
  match op with
  | "cov" =>
    let contigs ← getList getContig (← fld inp "contigs")
    let reads ← getList getRead (← fld inp "reads")
    let lines ← getList getBedLine (← fld inp "bed")
    let q ← getNat (← fld inp "q")
    let runs ← getList getRun (← fld inp "runs")
    let ar := reads.map align
    let outs := runs.map (fun r => coverage contigs reads q lines r.algo r.procs r.size r.order)
    let outJ := arrJ (outs.map fun o => match o with
      | .error e => obj [("err", strJ e)]
      | .ok rows => obj [("rows", arrJ (rows.map outRowJ))])
    let valid := (validate contigs lines).isNone
    let noGap := reads.all (fun r => noRefGap r.cigar)
    let spec ← (match impl with
      | none => pure Json.null
      | some ij => do
        let iruns ← getList getIRun ij
        if iruns.length != runs.length then throw "impl needs one entry per run"
        if !valid then pure (arrJ []) else
        let recs := ((records lines).map BedRec.toRow).mergeSort keyLe
        let truths : List Truth := recs.map (fun b =>
          { key := b, aligned := alignedBasesInBin contigs ar q b.chrom b.s b.e,
            spanned := spannedBasesInBin contigs ar q b.chrom b.s b.e })
        let z := runs.zip iruns
        let perRun := z.flatMap (fun (r, ir) => match ir with
          | none => []
          | some rows => checkRun contigs ar q truths noGap r.algo rows)
        -- the table is the same for any number of processes and any split into chunks
        let tablesOf (a : Algo) : List (List IRow) := z.filterMap (fun (r, ir) => if r.algo == a then ir else none)
        let allSame (ts : List (List IRow)) : Bool := match ts with
          | [] => true
          | t :: rest => rest.all (sameRows t)
        let c5 := if allSame (tablesOf .count) && allSame (tablesOf .pileup) then []
          else ["same_table_any_processes_any_chunks"]
        -- both algorithms give the same depths on reads without indels
        let c6 := if !noGap then [] else
          match (tablesOf .count).head?, (tablesOf .pileup).head? with
          | some a, some b =>
            let sa := a.mergeSort (fun x y => keyLe x.key y.key)
            let sb := b.mergeSort (fun x y => keyLe x.key y.key)
            if sa.length == sb.length && (sa.zip sb).all (fun (x, y) => x.key == y.key && closeR x.depth y.depth)
            then [] else ["algorithms_agree_without_indels"]
          | _, _ => []
        pure (arrJ ((perRun ++ c5 ++ c6).eraseDups.map strJ)))
    pure (some (obj [("out", outJ), ("spec", spec), ("valid", boolJ valid), ("nogap", boolJ noGap)]))
  | "chunks" =>
    let lines ← getList getLineStr (← fld inp "lines")
    let size ← getNat (← fld inp "size")
    if size == 0 then throw "chunk size 0 is outside the model (ZeroDivisionError)"
    let isC : String → Bool := fun l => l.front == '#'
    let out := toChunks isC size lines
    let spec ← (match impl with
      | none => pure Json.null
      | some ij => do
        let chunks ← getList (getList getLineStr) ij
        let c1 := if chunks.flatten == lines.filter (fun l => !isC l) then [] else ["chunks_concat_is_noncomment_lines"]
        let c2 := if chunks.all (fun c => !c.isEmpty) then [] else ["chunks_nonempty"]
        let c3 := if chunks.all (fun c => c.length ≤ size) then [] else ["chunks_at_most_size"]
        let c4 := if chunks.dropLast.all (fun c => c.length == size) then [] else ["chunks_full_but_last"]
        pure (arrJ ((c1 ++ c2 ++ c3 ++ c4).map strJ)))
    pure (some (obj [("out", arrJ (out.map fun c => arrJ (c.map strJ))), ("spec", spec)]))
  | _ => pure none

end CnvVerif.Drv
