/-
  JSON driver, C19 round 5b: op "cw_iter" -- `smoothing.convolve_weighted(window, signal, weights, n_iter)` called
  DIRECTLY, every `n_iter` (0..4).  `out` = the model's `(y, w)`; `den_ok` = the decidable hypothesis `densNonzero` of
  `C19.convolve_weighted_constant_every_n_iter`; `slack` = the smallest |window sum| of any pass relative to the largest
  weight of that pass (knife-edge of the division).  `spec` = clauses evaluated on the implementation's answers.
-/
import CnvVerif.Driver.Descriptives
import CnvVerif.Model.SmoothIterExt5b
open Lean
namespace CnvVerif.Drv
open CnvVerif.Desc CnvVerif.Smooth CnvVerif.C19Iter C19

def handleSmoothIterExt5b (op : String) (inp : Json) (impl : Option Json) : R (Option Json) := do
  match op with
  | "cw_iter" =>
    let window ← getList getRat (← fld inp "window")
    let y ← getList getRat (← fld inp "y")
    let w ← getList getRat (← fld inp "w")
    let k ← getNat (← fld inp "n_iter")
    if window.sum = 0 then throw "cw_iter: window sums to 0"
    match convolveWeighted window y w k with
    | .error _ => pure (some (obj [("out", obj [("error", strJ "AssertionError")]), ("spec", Json.null)]))
    | .ok (my, mw) =>
      let dens := denominators window w k
      let denOk := densNonzero window w k
      -- the weights each pass starts from: w, then the denominators of the passes before
      let starts := w :: dens.dropLast
      let slack : Rat := (dens.zip starts).foldl (fun sl p =>
        let big := max (magnitude p.2) (1 / 1000000000000)
        p.1.foldl (fun m N => min m (absQ N / big)) sl) 1
      let outJ := obj [("y", arrJ (my.map optRatT)), ("w", arrJ (mw.map ratT))]
      let spec ← (match impl with
        | none => pure Json.null
        | some ij => do
          let iy ← getOptRatList (← fld ij "y")
          let iw ← getOptRatList (← fld ij "w")
          let wmag := max 1 (magnitude w)
          let ymag := max 1 (magnitude y)
          let wOk := iw.length == mw.length && (iw.zip mw).all (fun p => match p.1 with
            | some v => closeQ v p.2 wmag
            | none => false)
          let safe := denOk && decide (slack > 1 / 1000000)
          let constOk := !(safe && allEqual y) ||
            iy.all (fun v => match v with | some q => closeQ q (y.headD 0) ymag | none => false)
          let finOk := !safe || iy.all (·.isSome)
          pure (clausesJ ((if iy.length == y.length && iw.length == w.length then [] else ["one_value_per_input"]) ++
                          (if wOk then [] else ["weights_are_iterated_convolution"]) ++
                          (if constOk then [] else ["constant_reproduced_every_n_iter"]) ++
                          (if finOk then [] else ["finite_when_no_window_sum_vanishes"]))))
      pure (some (obj [("out", outJ), ("den_ok", boolJ denOk), ("slack", ratT slack), ("spec", spec)]))
  | _ => pure none

end CnvVerif.Drv
