import CnvVerif.Driver.Access
import CnvVerif.Model.AccessNoneExt5
open Lean
namespace CnvVerif.Drv

/-- op `get_regions_src`: `get_regions` run as the loop read from the source, from the source's own initial state
    `chrom = cursor = run_start = None` (`C13N.c13nRegions` over `Generated.src_get_regions_none_step` and
    `Generated.src_get_regions_step`), next to the hand model `getRegions` (`src_agrees`: Props/C13SrcNone.lean proves
    it always true; reported so that an edited loop gives a replayable input besides the broken theorem). -/
def handleAccessNoneExt5 (op : String) (inp : Json) (_impl : Option Json) : R (Option Json) := do
  match op with
  | "get_regions_src" =>
    let text ← getStr (← fld inp "text")
    let raw := splitLines text.toList
    let out := C13N.c13nRegions raw
    let hand := getRegions (raw.map parseLine)
    let agrees := match out, hand with
      | .ok a, .ok b => a == b
      | .error a, .error b => a == b
      | _, _ => false
    pure (some (obj [("out", exceptJ (fun l => arrJ (l.map regionJ)) out), ("src_agrees", boolJ agrees)]))
  | _ => pure none

end CnvVerif.Drv
