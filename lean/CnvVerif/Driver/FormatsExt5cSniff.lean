/-
  JSON driver for the C08 round-5c extension (the sniff patterns `format_patterns['text' / 'bed']`).
  Op:
    sniff_re  in {lines: [string]}
      out per line: {text: bool   — Generated.src_sniff_text matches at the start of the line (Re.run semantics)
                     bed: bool    — Generated.src_sniff_bed likewise
                     outside: bool}  — non-ASCII line (character classes are modelled on ASCII)
-/
import CnvVerif.Driver.Formats
import CnvVerif.Model.FormatsExt5Label
import CnvVerif.Generated.RegexSniff
open Lean
namespace CnvVerif.Drv
open CnvVerif.Fmt
open FormatsDrv

def handleFormatsSniffRe (op : String) (inp : Json) (_impl : Option Json) : R (Option Json) := do
  match op with
  | "sniff_re" =>
    let lines ← getList getStr (← fld inp "lines")
    let out := lines.map fun t =>
      let l := t.toList
      obj [("text", Json.bool (CnvVerif.Fmt.C08L.reMatch CnvVerif.Generated.src_sniff_text l).isSome),
           ("bed", Json.bool (CnvVerif.Fmt.C08L.reMatch CnvVerif.Generated.src_sniff_bed l).isSome),
           ("outside", Json.bool (l.any fun ch => ch.toNat ≥ 128))]
    pure (some (obj [("out", arrJ out), ("spec", Json.null)]))
  | _ => pure none

end CnvVerif.Drv
