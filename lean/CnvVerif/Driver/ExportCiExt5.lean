import CnvVerif.Driver.Json
import CnvVerif.Driver.Export
import CnvVerif.Model.ExportCiExt5
open Lean
namespace CnvVerif.Drv.C20Ci
open CnvVerif CnvVerif.Export CnvVerif.Export.C20Ci CnvVerif.Drv CnvVerif.Drv.Ex

def getPair (j : Json) : R (Int × Int) := do
  let a ← getArr j
  if a.size < 2 then throw "ci pair needs 2 fields"
  pure (← getInt a[0]!, ← getInt a[1]!)

def getQuad (j : Json) : R CiVals := do
  let a ← getArr j
  if a.size < 4 then throw "ci quadruple needs 4 fields"
  pure { posL := ← getInt a[0]!, posR := ← getInt a[1]!, endL := ← getInt a[2]!, endR := ← getInt a[3]! }

def quadJ (v : CiVals) : Json := arrJ [intJ v.posL, intJ v.posR, intJ v.endL, intJ v.endR]

/-- op `export_vcf_ci`: `export_vcf` on a segment table that carries `ci_left` / `ci_right` (in.ci_cols, one pair per
    row); the records and, per record, the four numbers of CIPOS / CIEND -/
def handleExportCi (op : String) (inp : Json) (impl : Option Json) : R (Option Json) := do
  match op with
  | "export_vcf_ci" =>
    let cfg ← getCfg inp
    let rows ← getList getSeg (← fld inp "rows")
    let ci ← getList getPair (← fld inp "ci_cols")
    if ci.length != rows.length then throw "ci_cols: one pair per row"
    if rows.isEmpty then throw "an empty table with confidence columns is outside the model (pandas refuses it)"
    let sampleArg ← getOptStr (← fld inp "sample_id")
    let segId ← getStr (← fld inp "seg_id")
    let out := segments2vcfCi cfg rows ci
    let col := vcfSampleColumn sampleArg segId
    let wf := cfg.hasProbes && rows.all (fun r => decide (0 ≤ r.probes))
    let spec ← (match impl with
      | none => pure Json.null
      | some ij => do
        let got ← getList getVcf (← fld ij "records")
        let gotCi ← getList getQuad (← fld ij "ci")
        let first := firstChrom rows
        let crs := ciRowsOf rows ci
        -- the source's COLUMN program (not the row-wise model) evaluated on the table
        let cols := List.zip (List.zip (posLCol crs) (posRCol crs)) (List.zip (endLCol crs) (endRCol crs))
        let want := (List.zip rows (List.zip crs cols)).filter (fun p => vcfKeep cfg first p.1)
        let one := got.length == want.length && gotCi.length == want.length &&
          all2 (fun (g : VcfRec) (w : Seg × CiRow × ((Int × Int) × (Int × Int))) =>
            g.chrom == w.1.chrom && g.endp == w.1.e) got want
        let per (f : CiVals → (Seg × CiRow × ((Int × Int) × (Int × Int))) → Bool) : Bool := !one || all2 f gotCi want
        if !wf then pure (clauses []) else
        pure (clauses [
          ("vcfci_one_record_per_unexpected_segment", one),
          ("vcfci_cipos_right_reaches_ci_left", per (fun v w => w.2.1.s + v.posR == w.2.1.ciLeft)),
          ("vcfci_ciend_left_reaches_ci_right", per (fun v w => w.2.1.e - v.endL == w.2.1.ciRight)),
          ("vcfci_cipos_left_is_row_above", per (fun v w => v.posL == w.2.2.1.1)),
          ("vcfci_ciend_right_is_row_below", per (fun v w => v.endR == w.2.2.2.2))]))
    pure (some (obj [("out", obj [("records", arrJ (out.map (fun p => vcfJ p.1))), ("sample_col", strJ col),
                                  ("ci", arrJ (out.map (fun p => quadJ p.2)))]),
                     ("slack", slackOf cfg rows true), ("wf", boolJ wf), ("spec", spec)]))
  | _ => pure none

end CnvVerif.Drv.C20Ci
