import CnvVerif.Driver.Json
import CnvVerif.Model.Export
open Lean
namespace CnvVerif.Drv.Ex
open CnvVerif CnvVerif.Export CnvVerif.Drv

def absQ (q : Rat) : Rat := if q < 0 then -q else q
def closeQ (a b : Rat) : Bool := absQ (a - b) ≤ (1 / 1000000000 : Rat) * max 1 (absQ b)

/-- a segment row is `[chrom, start, end, gene, log2, 2**log2, probes, cn]` -/
def getSeg (j : Json) : R Seg := do
  let a ← getArr j
  if a.size < 8 then throw "seg row needs 8 fields"
  pure { chrom := ← getStr a[0]!, s := ← getInt a[1]!, e := ← getInt a[2]!, gene := ← getStr a[3]!,
         v := ← getRat a[4]!, t := ← getRat a[5]!, probes := ← getInt a[6]!, cn := ← getInt a[7]! }

def getCfg (inp : Json) : R Cfg := do
  let ploidy ← getNat (← fld inp "ploidy")
  if ploidy == 0 then throw "ploidy 0 is outside the model"
  pure { ploidy, hapX := ← getBool (← fld inp "hapX"), female := ← getBool (← fld inp "female"),
         par := ← getOptStr (← fld inp "par"), hasCn := ← getBool (← fld inp "has_cn"),
         hasProbes := ← getBool (← fld inp "has_probes") }

def getShow (j : Json) : R ShowMode := do
  match (← getStr j) with
  | "all" => pure .all
  | "ploidy" => pure .ploidy
  | "variant" => pure .variant
  | m => throw s!"bad show {m}"

def bedJ (b : BedRow) : Json := arrJ [strJ b.chrom, intJ b.s, intJ b.e, strJ b.label, intJ b.ncopies]

def getBed (j : Json) : R BedRow := do
  let a ← getArr j
  if a.size < 5 then throw "bed row needs 5 fields"
  pure { chrom := ← getStr a[0]!, s := ← getInt a[1]!, e := ← getInt a[2]!, label := ← getStr a[3]!,
         ncopies := ← getInt a[4]! }

def strsJ (l : List String) : Json := arrJ (l.map strJ)

def vcfJ (r : VcfRec) : Json :=
  arrJ [strJ r.chrom, intJ r.pos, strJ r.id, strJ r.ref, strJ r.alt, strJ r.qual, strJ r.filt,
        strsJ r.infoKeys, strJ r.svtype, intJ r.endp, intJ r.svlen, ratJ r.fold, ratJ r.foldLog,
        intJ r.probes, strsJ r.formatKeys, strsJ r.sample]

def getVcf (j : Json) : R VcfRec := do
  let a ← getArr j
  if a.size < 16 then throw "vcf record needs 16 fields"
  pure { chrom := ← getStr a[0]!, pos := ← getInt a[1]!, id := ← getStr a[2]!, ref := ← getStr a[3]!,
         alt := ← getStr a[4]!, qual := ← getStr a[5]!, filt := ← getStr a[6]!,
         infoKeys := ← getList getStr a[7]!, svtype := ← getStr a[8]!, endp := ← getInt a[9]!,
         svlen := ← getInt a[10]!, fold := ← getRat a[11]!, foldLog := ← getRat a[12]!,
         probes := ← getInt a[13]!, formatKeys := ← getList getStr a[14]!,
         sample := ← getList getStr a[15]! }

def getSegSample (j : Json) : R SegSample := do
  pure { id := ← getStr (← fld j "id"), hasProbes := ← getBool (← fld j "has_probes"),
         rows := ← getList getSeg (← fld j "rows") }

def optIntJ' : Option Int → Json
  | none => Json.null
  | some i => intJ i

def segOutJ (o : SegOut) : Json :=
  arrJ [strJ o.id, strJ o.chrom, intJ o.start, intJ o.endp, optIntJ' o.probes, ratJ o.mean]

def getSegOut (j : Json) : R SegOut := do
  let a ← getArr j
  if a.size < 6 then throw "seg out row needs 6 fields"
  pure { id := ← getStr a[0]!, chrom := ← getStr a[1]!, start := ← getInt a[2]!, endp := ← getInt a[3]!,
         probes := ← getOptInt a[4]!, mean := ← getRat a[5]! }

def getBin (j : Json) : R Bin := do
  let a ← getArr j
  if a.size < 5 then throw "bin needs 5 fields"
  pure { chrom := ← getStr a[0]!, s := ← getInt a[1]!, e := ← getInt a[2]!, gene := ← getStr a[3]!,
         v := ← getRat a[4]! }

def getBinSample (j : Json) : R BinSample := do
  pure { id := ← getStr (← fld j "id"), bins := ← getList getBin (← fld j "bins") }

/-- cells travel as `["s", str]`, `["i", int]`, `["q", "n/d"]` -/
def cellJ : Cell → Json
  | .str s => arrJ [strJ "s", strJ s]
  | .int i => arrJ [strJ "i", intJ i]
  | .num q => arrJ [strJ "q", ratJ q]

def getCell (j : Json) : R Cell := do
  let a ← getArr j
  if a.size < 2 then throw "cell needs 2 fields"
  match (← getStr a[0]!) with
  | "s" => pure (.str (← getStr a[1]!))
  | "i" => pure (.int (← getInt a[1]!))
  | "q" => pure (.num (← getRat a[1]!))
  | k => throw s!"bad cell kind {k}"

/-- numeric reading of a cell (an integer cell counts as that number) -/
def cellNum : Cell → Option Rat
  | .num q => some q
  | .int i => some (i : Rat)
  | .str _ => none

def cellClose (want : Rat) (c : Cell) : Bool :=
  match cellNum c with
  | some q => closeQ q want
  | none => false

/-- per row: distance of the un-rounded copy number to a rounding boundary -/
def slackOf (cfg : Cfg) (rows : List Seg) (vcf : Bool) : Json :=
  let first := firstChrom rows
  arrJ (rows.map fun r =>
    if cfg.hasCn then ratJ 1 else
    let q : Rat :=
      min (halfSlack (((refExpect cfg.ploidy cfg.hapX cfg.female (classOf first cfg.par r.chrom r.s r.e)).1 : Rat) * r.t))
          (if vcf then 1 else halfSlack ((refCopiesPure r.chrom cfg.ploidy cfg.hapX : Rat) * r.t))
    ratJ q)

def clauses (l : List (String × Bool)) : Json :=
  arrJ ((l.filter (fun p => !p.2)).map (fun p => strJ p.1)).eraseDups

/-- all pairs of two equally long lists satisfy `f` -/
def all2 {α β} (f : α → β → Bool) (a : List α) (b : List β) : Bool :=
  a.length == b.length && (a.zip b).all (fun p => f p.1 p.2)

def errName : MergeErr → String
  | .mismatch _ => "mismatch"
  | .duplicate _ => "duplicate"

end CnvVerif.Drv.Ex

namespace CnvVerif.Drv
open CnvVerif CnvVerif.Export CnvVerif.Drv.Ex

def handleExport (op : String) (inp : Json) (impl : Option Json) : R (Option Json) := do
  match op with
  | "export_bed" =>
    let cfg ← getCfg inp
    let rows ← getList getSeg (← fld inp "rows")
    let label ← getOptStr (← fld inp "label")
    let sh ← getShow (← fld inp "show")
    let out := exportBed cfg label sh rows
    let spec ← (match impl with
      | none => pure Json.null
      | some ij => do
        let got ← getList getBed ij
        let first := firstChrom rows
        -- the segments the property says are listed, in table order
        let want := rows.filter (bedKeep cfg first sh)
        let listed := got.length == want.length &&
          all2 (fun (g : BedRow) (r : Seg) => g.chrom == r.chrom) got want
        let nm := match sh with
          | .all => "bed_all_lists_every_segment"
          | .ploidy => "bed_ploidy_lists_exactly_nondefault"
          | .variant => "bed_variant_lists_exactly_unexpected"
        pure (clauses [
          (nm, listed),
          ("bed_coordinates_0based", !listed || all2 (fun (g : BedRow) (r : Seg) => g.s == r.s && g.e == r.e) got want),
          ("bed_integer_copy_number", !listed || all2 (fun (g : BedRow) (r : Seg) => g.ncopies == ncopiesOf cfg first r) got want),
          ("bed_label", !listed || all2 (fun (g : BedRow) (r : Seg) => g.label == bedLabel label r) got want)]))
    pure (some (obj [("out", arrJ (out.map bedJ)), ("slack", slackOf cfg rows false), ("spec", spec)]))
  | "export_vcf" =>
    let cfg ← getCfg inp
    let rows ← getList getSeg (← fld inp "rows")
    let sampleArg ← getOptStr (← fld inp "sample_id")
    let segId ← getStr (← fld inp "seg_id")
    let out := segments2vcf cfg rows
    let col := vcfSampleColumn sampleArg segId
    let wf := cfg.hasProbes && rows.all (fun r => decide (0 ≤ r.probes))
    let spec ← (match impl with
      | none => pure Json.null
      | some ij => do
        let got ← getList getVcf (← fld ij "records")
        let gotCol ← getStr (← fld ij "sample_col")
        let first := firstChrom rows
        let want := rows.filter (vcfKeep cfg first)
        let one := got.length == want.length &&
          all2 (fun (g : VcfRec) (r : Seg) => g.chrom == r.chrom) got want
        let isLoss (r : Seg) : Bool := decide (ncopiesOf cfg first r < expectedCopies cfg first r)
        let per (f : VcfRec → Seg → Bool) : Bool := !one || all2 f got want
        if !wf then pure (clauses []) else
        pure (clauses [
          ("vcf_one_record_per_unexpected_segment", one),
          ("vcf_pos_is_start_or_1", per (fun g r => g.pos == (if r.s == 0 then 1 else r.s))),
          ("vcf_end_is_end", per (fun g r => g.endp == r.e)),
          ("vcf_svtype_alt_del_below_dup_above", per (fun g r =>
            let ty := if isLoss r then "DEL" else "DUP"
            g.svtype == ty && g.alt == "<" ++ ty ++ ">")),
          ("vcf_svlen_signed_length", per (fun g r =>
            g.svlen == (if isLoss r then -(r.e - r.s) else r.e - r.s))),
          ("vcf_sample_carries_cn_for_gains", per (fun g r =>
            isLoss r || sampleField g "CN" == some (toString (ncopiesOf cfg first r)))),
          ("vcf_sample_column_named", gotCol == col)]))
    pure (some (obj [("out", obj [("records", arrJ (out.map vcfJ)), ("sample_col", strJ col)]),
                     ("slack", slackOf cfg rows true), ("wf", boolJ wf), ("spec", spec)]))
  | "export_seg" =>
    let samples ← getList getSegSample (← fld inp "samples")
    let enumerate ← getBool (← fld inp "enumerate")
    let out := exportSeg enumerate samples
    let spec ← (match impl with
      | none => pure Json.null
      | some ij => do
        let got ← getList getSegOut ij
        let want := segSpec samples
        let n := got.length == want.length
        let per (f : SegOut → SegOut → Bool) : Bool := !n || all2 f got want
        pure (clauses [
          ("seg_each_samples_segments_in_order", n),
          ("seg_under_its_sample_id", per (fun g w => g.id == w.id)),
          ("seg_start_1based", per (fun g w => g.start == w.start)),
          ("seg_end", per (fun g w => g.endp == w.endp)),
          ("seg_probe_count", per (fun g w => g.probes == w.probes)),
          ("seg_mean", per (fun g w => closeQ g.mean w.mean)),
          ("seg_chromosome", enumerate || per (fun g w => g.chrom == w.chrom))]))
    pure (some (obj [("out", arrJ (out.map segOutJ)), ("spec", spec)]))
  | "export_table" =>
    let samples ← getList getBinSample (← fld inp "samples")
    let fmt ← getStr (← fld inp "fmt")
    let ids := samples.map (·.id)
    let merged := mergeSamples samples
    let (hdr, body) ← (match merged with
      | .error _ => pure (([] : List String), ([] : List (List Cell)))
      | .ok f => match fmt with
        | "jtv" => pure (fmtJtv ids f)
        | "cdt" => pure (fmtCdt ids f)
        | x => throw s!"bad fmt {x}")
    let outJ := match merged with
      | .error e => obj [("error", strJ (errName e))]
      | .ok _ => obj [("error", Json.null), ("header", strsJ hdr), ("rows", arrJ (body.map (fun r => arrJ (r.map cellJ))))]
    let binsDiffer := match samples with
      | [] => false
      | first :: rest => rest.any (fun sm => !(sameBins first sm))
    let idsDistinct := ids.eraseDups.length == ids.length
    let idsFree := ids.all (fun i => !(reservedCols.contains i))
    let spec ← (match impl with
      | none => pure Json.null
      | some ij => do
        match optFld ij "error" with
        | some _ =>
          -- refused: the property demands that when the bins differ; with equal bins and distinct
          -- sample IDs a table is due
          pure (clauses [("table_made_when_bins_agree", binsDiffer || !idsDistinct)])
        | none => do
          let rows ← getList (getList getCell) (← fld ij "rows")
          let header ← getList getStr (← fld ij "header")
          let (skipRows, prefixLen, labelPos) := if fmt == "cdt" then (2, 4, 2) else (0, 2, 1)
          let bodyRows := rows.drop skipRows
          let want := tableBody samples
          let n := bodyRows.length == want.length
          pure (clauses [
            ("table_refuses_differing_bins", !binsDiffer),
            ("table_one_row_per_bin", binsDiffer || n),
            ("table_row_has_bin_label", binsDiffer || !n || all2 (fun (g : List Cell) (w : String × List Rat) =>
              g.getD labelPos (Cell.int 0) == Cell.str w.1) bodyRows want),
            ("table_each_sample_log2_in_own_column", binsDiffer || !n || all2 (fun (g : List Cell) (w : String × List Rat) =>
              all2 (fun c q => cellClose q c) (g.drop prefixLen) w.2) bodyRows want),
            ("table_header_names_samples", binsDiffer || header.drop prefixLen == ids)]))
    pure (some (obj [("out", outJ), ("bins_differ", boolJ binsDiffer), ("ids_distinct", boolJ idsDistinct),
                     ("ids_free", boolJ idsFree), ("spec", spec)]))
  | "export_nexus_basic" =>
    let bins ← getList getBin (← fld inp "bins")
    let out := nexusBasic bins
    let spec ← (match impl with
      | none => pure Json.null
      | some ij => do
        let rows ← getList (getList getCell) ij
        let n := rows.length == bins.length
        pure (clauses [
          ("nexus_one_row_per_bin", n),
          ("nexus_row_has_bin_label", !n || all2 (fun (g : List Cell) (b : Bin) =>
            g.getD 5 (Cell.int 0) == Cell.str (toLabel b) && g.getD 0 (Cell.int 0) == Cell.str b.chrom &&
            g.getD 1 (Cell.str "") == Cell.int b.s && g.getD 2 (Cell.str "") == Cell.int b.e) rows bins),
          ("nexus_row_has_log2", !n || all2 (fun (g : List Cell) (b : Bin) =>
            cellClose b.v (g.getD 4 (Cell.str ""))) rows bins)]))
    pure (some (obj [("out", arrJ (out.map (fun r => arrJ (r.map cellJ)))), ("spec", spec)]))
  | _ => pure none

end CnvVerif.Drv
