/-
  Driver op of C10 added in round 5:
  `writer_cmd`  a REAL command function (`cnvkit.py coverage / reference / target / …`) run k times into one output
                path, the path spelled absolute, `dir/name`, `./name` or as a bare name: the final tree against the
                model run of the file actions the translator read from the source of that command
                (Generated.WRITER_TABLE: guarded → `ensure_path` + write, not guarded → plain overwrite); for the
                writers that promise not to overwrite the Lean spec oracle checks the real tree (k more files, every
                earlier content kept, path holds the last output, directory created).
-/
import CnvVerif.Driver.Json
import CnvVerif.Driver.Effects
import CnvVerif.Driver.EffectsExt
import CnvVerif.Model.WritersExt5
import CnvVerif.Generated.EffectsWriters
open Lean
namespace CnvVerif.Drv
open CnvVerif.Effects CnvVerif.C10W
open Eff EffX

namespace EffW

/-- the actions of a row on one path expression -/
def onExpr (e : String) (acts : List WAct) : List WAct :=
  acts.filter (fun a => match a with
    | .ensure x => x == e
    | .write _ x => x == e)

end EffW
open EffW

def handleEffectsWriters (op : String) (inp : Json) (impl : Option Json) : R (Option Json) := do
  match op with
  | "writer_cmd" =>
    let fn ← getStr (← fld inp "fn")
    let dirs ← getList getDir (← fld inp "dirs")
    let pre ← getList getPair (← fld inp "pre")
    let pj ← fld inp "path"
    let p : PathArg := { name := ← getStr (← fld pj "name"), slash := ← getBool (← fld pj "slash"), dir := ← getDir (← fld pj "dir") }
    let ws ← getList getStr (← fld inp "writes")
    let fs0 : FSD := { dirs := dirs, files := pre }
    let row := findRow Generated.WRITER_TABLE fn
    let acts := match row with | some r => r.acts | none => []
    let e := (mainOutput acts).getD ""
    let mine := onExpr e acts
    let guarded := siteGuarded e acts
    let promised := PROMISED.contains fn
    let fileJ := fun (fs : FSD) => obj [("files", arrJ ((sortFS fs.files).map pairJ)), ("dirs", arrJ ((sortDirs fs.dirs).map dirJ))]
    let out := match runRepeated (fun _ => p) mine ws fs0 with
      | .ok fs => fileJ fs
      | .error m => obj [("error", strJ m)]
    let spec ← (match impl with
      | none => pure Json.null
      | some ij => do
        let post ← getList getPair (← fld ij "files")
        let pdirs ← getList getDir (← fld ij "dirs")
        pure (arrJ ((if promised then ensurePathSpec pre p.name ws post ++ dirSpec dirs pdirs p ws.length else []).map strJ)))
    pure (some (obj [("out", out), ("known", boolJ row.isSome), ("expr", strJ e), ("guarded", boolJ guarded),
                     ("promised", boolJ promised),
                     ("promise_kept", boolJ (!promised || (match row with | some r => promisedOK r.acts | none => false))),
                     ("safe_write_plain", boolJ (!Generated.SAFE_WRITE_GUARDS && Generated.SAFE_WRITE_TRUNCATES)),
                     ("spec", spec)]))
  | _ => pure none

end CnvVerif.Drv
