import CnvVerif.Driver.Fix
import CnvVerif.Model.FixExt5
open Lean
namespace CnvVerif.Drv

/-- C04 round 5: the decisions of `load_adjust_coverages` (op `fix_plan`) and the pooled-or-flat verdict of
    `apply_weights` (op `fix_pooled`), for the differential run against the real calls -/
def handleFixExt5 (op : String) (inp : Json) (_impl : Option Json) : R (Option Json) := do
  match op with
  | "fix_plan" =>
    let samp ← getList getSRow (← fld inp "samp")
    let ref ← getList getRRow (← fld inp "ref")
    let res := C04x.decisions samp ref (← getBool (← fld inp "skip_low")) (← getBool (← fld inp "fix_gc"))
      (← getBool (← fld inp "fix_edge")) (← getBool (← fld inp "fix_rmask")) (← getOptStr (← fld inp "par"))
    let outJ : Json := match res with
      | .ok (sk, plan) => obj [("skip", Json.bool sk), ("plan", arrJ (plan.map strJ))]
      | .error e => obj [("error_kind", strJ (errName e))]
    pure (some (obj [("out", outJ), ("spec", arrJ [])]))
  | "fix_pooled" =>
    let sp ← getList getRat (← fld inp "spread")
    let lg ← getList getRat (← fld inp "log2")
    pure (some (obj [("out", Json.bool (C04x.pooledCols sp lg)), ("spec", arrJ [])]))
  | _ => pure none

end CnvVerif.Drv
