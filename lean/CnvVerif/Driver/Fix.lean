import CnvVerif.Driver.Json
import CnvVerif.Driver.Call
import CnvVerif.Driver.Center
import CnvVerif.Model.Fix
open Lean
namespace CnvVerif.Drv

/-- [chrom,s,e,gene,log2,depth] -/
def getSRow (j : Json) : R SRow := do
  let a ← getArr j
  if a.size < 6 then throw "srow needs 6 fields"
  pure { chrom := ← getStr a[0]!, s := ← getInt a[1]!, e := ← getInt a[2]!, gene := ← getStr a[3]!,
         log2 := ← getRat a[4]!, depth := ← getRat a[5]! }

/-- [chrom,s,e,gene,log2,depth,gc|null,rmask|null,spread] -/
def getRRow (j : Json) : R RRow := do
  let a ← getArr j
  if a.size < 9 then throw "rrow needs 9 fields"
  pure { chrom := ← getStr a[0]!, s := ← getInt a[1]!, e := ← getInt a[2]!, gene := ← getStr a[3]!,
         log2 := ← getRat a[4]!, depth := ← getRat a[5]!, gc := ← getOptRat a[6]!, rmask := ← getOptRat a[7]!,
         spread := ← getRat a[8]! }

/-- impl output row [chrom,s,e,gene,log2,weight] -/
def getORow (j : Json) : R (String × Int × Int × String × Rat × Rat) := do
  let a ← getArr j
  pure (← getStr a[0]!, ← getInt a[1]!, ← getInt a[2]!, ← getStr a[3]!, ← getRat a[4]!, ← getRat a[5]!)

def errName : FixErr → String
  | .dupSample => "dup_sample"
  | .dupRef => "dup_ref"
  | .missing _ => "missing"

def handleFix (op : String) (inp : Json) (impl : Option Json) : R (Option Json) := do
  match op with
  | "fix" =>
    let tgt ← getList getSRow (← fld inp "tgt")
    let anti ← getList getSRow (← fld inp "anti")
    let ref ← getList getRRow (← fld inp "ref")
    let cfg : FixCfg := { gc := ← getBool (← fld inp "do_gc"), edge := ← getBool (← fld inp "do_edge"),
                          rmask := ← getBool (← fld inp "do_rmask"), par := ← getOptStr (← fld inp "par") }
    let sq ← getList (fun x => do
      let a ← getArr x
      pure ((← getStr a[0]!, ← getInt a[1]!, ← getInt a[2]!), ← getRat a[3]!)) (← fld inp "sqrt")
    let P : FixParams := {
      permT := ← getList getNat (← fld inp "permT"), wingT := ← getNat (← fld inp "wingT"),
      permA := ← getList getNat (← fld inp "permA"), wingA := ← getNat (← fld inp "wingA"),
      sqrtSize := sq, varT := ← getRat (← fld inp "varT"), varA := ← getRat (← fld inp "varA"),
      edgeKeysT := ← (match optFld inp "edge_keys" with
        | some j => do pure (some (← getList getRat j))
        | none => pure none) }
    let res := doFix tgt anti ref cfg P
    let outJ : Json := match res with
      | .ok rows => arrJ (rows.map fun o =>
          arrJ [strJ o.row.chrom, intJ o.row.s, intJ o.row.e, strJ o.row.gene, ratJ o.row.log2, ratJ o.weight])
      | .error e => obj [("error_kind", strJ (errName e))]
    -- the property's clauses on the real output
    let spec ← (match impl with
      | none => pure Json.null
      | some ij => do
        let o ← getList getORow ij
        let samp := tgt ++ anti
        -- exactly the sample bins whose coordinate-matched reference bin passes the filters, in genomic order
        let good := samp.filter fun r => match ref.find? (fun q => rKey q == sKey r) with
          | some q => !badBin q
          | none => false
        let wantKeys := (sortS good).map sKey
        let gotKeys := o.map fun r => (r.1, r.2.1, r.2.2.1)
        let keysOk := wantKeys == gotKeys
        -- weight range
        let wOk := o.all fun r => decide (r.2.2.2.2.2 ≥ Generated.WEIGHT_EPSILON_dec - 1/1000000000000) &&
                                  decide (r.2.2.2.2.2 ≤ 1)
        -- centred: median of the autosomal chromosome medians (null-coverage bins ignored) is 0
        let outC : List CBin := o.map fun r =>
          let d := ((samp.find? (fun q => sKey q == (r.1, r.2.1, r.2.2.1))).map (·.depth)).getD 1
          { chrom := r.1, s := r.2.1, e := r.2.2.1, log2 := r.2.2.2.2.1, depth := some d }
        let cOk := outC.isEmpty || tinyR (centerEstimate medianR true true cfg.par outC)
        -- with corrections off: sample - reference + one constant per class
        let isAnti (g : String) : Bool := Generated.ANTITARGET_ALIASES.contains g
        let noCorr := !cfg.gc && !cfg.edge && !cfg.rmask
        let deltas (cls : Bool) : List Rat := o.filterMap fun r =>
          if isAnti r.2.2.2.1 == cls then
            match samp.find? (fun q => sKey q == (r.1, r.2.1, r.2.2.1)), ref.find? (fun q => rKey q == (r.1, r.2.1, r.2.2.1)) with
            | some sr, some rr => some (r.2.2.2.2.1 - (sr.log2 - rr.log2))
            | _, _ => none
          else none
        let constOk (l : List Rat) : Bool := match l with
          | [] => true
          | x :: xs => xs.all (fun y => tinyR (y - x))
        let dOk := !noCorr || (constOk (deltas false) && constOk (deltas true))
        -- weight never decreases with bin size nor increases with reference spread (within a class)
        let info := o.filterMap fun r =>
          match ref.find? (fun q => rKey q == (r.1, r.2.1, r.2.2.1)) with
          | some rr => some (isAnti r.2.2.2.1, r.2.2.1 - r.2.1, rr.spread, r.2.2.2.2.2)
          | none => none
        let tol : Rat := 1 / 1000000000
        let mono := info.all fun a => info.all fun b =>
          if a.1 == b.1 then
            (if a.2.2.1 == b.2.2.1 && a.2.1 ≤ b.2.1 then decide (a.2.2.2 ≤ b.2.2.2 + tol) else true) &&
            (if a.2.1 == b.2.1 && a.2.2.1 ≤ b.2.2.1 then decide (a.2.2.2 + tol ≥ b.2.2.2) else true)
          else true
        pure (arrJ (((if keysOk then [] else ["emits_exactly_good_bins_in_order"]) ++
                     (if wOk then [] else ["weight_in_range"]) ++
                     (if cOk then [] else ["output_centered"]) ++
                     (if dOk then [] else ["nocorr_difference_plus_class_constant"]) ++
                     (if mono then [] else ["weight_monotone"])).map strJ)))
    pure (some (obj [("out", outJ), ("spec", spec), ("edge_key_dev", ratJ (doFixSlack tgt ref cfg P))]))
  | "edge_bias" =>
    let t ← getList getSRow (← fld inp "rows")
    let margin ← getInt (← fld inp "margin")
    pure (some (obj [("out", arrJ ((edgeBias t margin).map ratJ)), ("spec", arrJ [])]))
  | _ => pure none

end CnvVerif.Drv
