/-
  Driver ops for C12 (`target`, `antitarget`) and the decidable spec clauses in the property's
  words, evaluated on the implementation's output.  The spec side uses the numbers the *property*
  names (500, 3/2, "Antitarget"); the model side uses the generated constants.
-/
import CnvVerif.Driver.Json
import CnvVerif.Model.Bins
open Lean
namespace CnvVerif.Drv
namespace BinsDrv

/-! ### vocabulary of the spec: maximal stretches of a base predicate -/

def sortDedupI (l : List Int) : List Int := (l.mergeSort (· ≤ ·)).eraseDups

/-- maximal runs `[u, v)` of bases with `f`, for `f` constant between consecutive `points`
    (sorted, distinct) and false from the last point on -/
def stretchesGo (f : Int → Bool) : Option Int → List Int → List (Int × Int)
  | _, [] => []
  | op, [p] => match op with
    | some s => [(s, p)]
    | none => []
  | op, p :: q :: rest =>
    if f p then stretchesGo f (some (op.getD p)) (q :: rest)
    else (match op with
      | some s => [(s, p)]
      | none => []) ++ stretchesGo f none (q :: rest)

def stretches (f : Int → Bool) (points : List Int) : List (Int × Int) :=
  stretchesGo f none (sortDedupI points)

/-- every base of `[s, e)` (`s < e`) on chromosome `c` is covered by `t`: it is enough to look at
    `s` and at the row ends inside `[s, e)` (the smallest uncovered base is one of those) -/
def insideB (t : Table) (c : String) (s e : Int) : Bool :=
  covb t c s && (rowsOf t c).all (fun r => !(s ≤ r.e && r.e < e) || covb t c r.e)

def coordsOf (t : Table) : List (String × Int × Int) := t.map (fun r => (r.chrom, r.s, r.e))

/-! ### target -/

/-- `target --split`: non-overlapping bins in genomic order covering exactly the union of the
    non-empty baits, each merged bait cut into max(1, round(length/avg)) equal bins (±1 base) -/
def targetSplitSpecB (baits : Table) (avg : Rat) (out : Table) : List String :=
  let ne := baits.filter (fun r => r.s != r.e)
  let cs := allChroms [ne, out]
  let ordered := cs.all fun c => pairwiseB (fun a b => a.e ≤ b.s) (rowsOf out c)
  let perRegion := cs.all fun c =>
    (stretches (covb ne c) (endpoints ne c)).all fun uv =>
      let pieces := (rowsOf out c).filter (fun r => uv.1 ≤ r.s && r.e ≤ uv.2)
      let n0 := roundHalfEven (((uv.2 - uv.1 : Int) : Rat) / avg)
      let n : Nat := if n0 ≤ 0 then 1 else n0.toNat
      pieces.length == n &&
      (pieces.head?.map (·.s)) == some uv.1 &&
      (pieces.getLast?.map (·.e)) == some uv.2 &&
      ((pieces.zip (pieces.drop 1)).all (fun p => p.1.e == p.2.s)) &&
      (pieces.all fun a => pieces.all fun b => (a.e - a.s) - (b.e - b.s) ≤ 1)
  (if ordered then [] else ["target_nonoverlapping_sorted"]) ++
  (if chromOrderB out then [] else ["target_genomic_order"]) ++
  (if covAgree [ne] out (fun c p => covb ne c p) then [] else ["target_split_cov"]) ++
  (if perRegion then [] else ["target_bin_count"])

/-- without `--split`: the non-empty baits unchanged -/
def targetPlainSpecB (baits : Table) (out : Table) : List String :=
  if coordsOf out == coordsOf (baits.filter (fun r => r.s != r.e)) then []
  else ["target_nosplit_identity"]

/-! ### antitarget -/

/-- the property's margin -/
def margin : Int := 500

/-- the accessible regions shrunk by the margin (what is left of each; start clipped at 0) -/
def shrunkAccess (a : Table) : Table :=
  (a.map fun r => { r with s := max 0 (r.s + margin), e := r.e - margin }).filter (fun r => r.s < r.e)

/-- base `p` of `c` is within 500 bases of a target row -/
def nearTargetB (tg : Table) (c : String) (p : Int) : Bool :=
  tg.any (fun r => r.chrom == c && r.s - margin ≤ p && p < r.e + margin)

/-- chromosomes of the rule's accessible contigs on which some stretch of off-target shrunk-accessible
    sequence of at least `minSize` bases is not completely covered by `out` -/
def coverFailChroms (tg : Table) (accRule : Table) (minSize : Int) (out : Table) : List String :=
  let sr := shrunkAccess accRule
  (allChroms [sr]).filter fun c =>
    let pts := endpoints sr c ++ (rowsOf tg c).flatMap (fun r => [r.s - margin, r.e + margin])
    !((stretches (fun p => covb sr c p && !nearTargetB tg c p) pts).all fun uv =>
      uv.2 - uv.1 < minSize || uv.2 ≤ uv.1 || insideB out c uv.1 uv.2)

def antiSpecB (tg : Table) (accAll accRule : Table) (avg : Rat) (minSize : Int) (out : Table) :
    List String :=
  let sa := shrunkAccess accAll
  let cs := allChroms [out]
  let named := out.all (fun r => r.gene == "Antitarget")
  let nonempty := out.all (fun r => r.s < r.e)
  let inside := out.all (fun r => r.s < r.e && insideB sa r.chrom r.s r.e)
  let far := out.all fun b => tg.all fun r =>
    !(r.chrom == b.chrom && b.s < r.e + margin && r.s - margin < b.e)
  let disjoint := cs.all fun c => pairwiseB (fun a b => a.e ≤ b.s || b.e ≤ a.s) (rowsOf out c)
  let lower := out.all (fun r => r.e - r.s ≥ minSize)
  let upper := out.all (fun r => ((r.e - r.s : Int) : Rat) ≤ (3 / 2 : Rat) * avg)
  let covers := (coverFailChroms tg accRule minSize out).isEmpty
  (if named then [] else ["anti_named"]) ++
  (if nonempty then [] else ["anti_bins_nonempty"]) ++
  (if inside then [] else ["anti_inside_shrunk_access"]) ++
  (if far then [] else ["anti_far_from_targets"]) ++
  (if disjoint then [] else ["anti_disjoint"]) ++
  (if lower then [] else ["anti_size_lower"]) ++
  (if upper then [] else ["anti_size_upper"]) ++
  (if covers then [] else ["anti_covers_all_large_stretches"])

/-! ### handlers -/

def getOptTable (j : Json) : R (Option Table) :=
  match j with
  | .null => pure none
  | _ => do pure (some (← getTable j))

def candsJ (c : Option (List (List String))) : Json :=
  match c with
  | none => Json.null
  | some l => arrJ (l.map (fun x => arrJ (x.map strJ)))

end BinsDrv
open BinsDrv

def handleBins (op : String) (inp : Json) (impl : Option Json) : R (Option Json) := do
  match op with
  | "target" =>
    let baits ← getTable (← fld inp "baits")
    let annot ← getOptTable ((optFld inp "annot").getD Json.null)
    let short ← getBool (← fld inp "short")
    let split ← getBool (← fld inp "split")
    let avg ← getRat (← fld inp "avg")
    let core := doTargetCore baits split avg
    let regions := mergeTable 0 (baits.filter (fun r => r.s != r.e))
    let bridge : Bool := !split || (allChroms [baits, core]).all fun c =>
      rowsOf core c == targetChrom avg (rowsOf baits c)
    let spec ← (match impl with
      | none => pure Json.null
      | some j => do
        let rows ← getTable (← fld j "rows")
        let plain ← getTable (← fld j "plain")
        let sp := (if split then targetSplitSpecB baits avg plain else targetPlainSpecB baits plain) ++
          (if coordsOf rows == coordsOf plain then [] else ["labels_keep_bins"])
        pure (arrJ (sp.map strJ)))
    match doTarget baits annot short split avg with
    | .error e =>
      pure (some (obj [("out", obj [("error", strJ e)]), ("spec", spec), ("bridge", boolJ bridge),
        ("regions", tableJ regions)]))
    | .ok (rows, cands) =>
      pure (some (obj [("out", obj [("rows", tableJ rows), ("cands", candsJ cands),
          ("plain", tableJ core)]),
        ("spec", spec), ("bridge", boolJ bridge), ("regions", tableJ regions)]))
  | "antitarget" =>
    let tg ← getTable (← fld inp "tg")
    let acc ← getOptTable ((optFld inp "acc").getD Json.null)
    let avg ← getRat (← fld inp "avg")
    let mn ← getOptInt ((optFld inp "min").getD Json.null)
    let m : Int := match mn with
      | some m => if m == 0 then defaultMinSize avg else m
      | none => defaultMinSize avg
    match effectiveAccess tg acc with
    | .error e =>
      pure (some (obj [("out", obj [("error", strJ e)]), ("spec", Json.null), ("bridge", boolJ true),
        ("min", intJ m), ("regions", tableJ [])]))
    | .ok a =>
      let out := match doAntitarget tg acc avg mn with
        | .ok t => t
        | .error _ => []
      let regions := mergeTable 0 (antiRegions a tg)
      let bridge : Bool := (allChroms [a, out]).all fun c =>
        rowsOf out c == antiChrom Generated.ANTI_PAD avg m (rowsOf a c) (rowsOf tg c)
      -- the property's contig rule: every accessible contig that is targeted or canonically named
      let tc := chromsInOrder tg
      let given := match acc with
        | some x => !x.isEmpty
        | none => false
      let accAll := if given then acc.getD [] else guessRegions tg
      let accRule := if given then
          accAll.filter (fun r => tc.contains r.chrom || isCanonicalName r.chrom)
        else accAll
      let (spec, bad) ← (match impl with
        | none => pure (Json.null, Json.null)
        | some j => do
          let rows ← getTable j
          pure (arrJ ((antiSpecB tg accAll accRule avg m rows).map strJ),
                arrJ ((coverFailChroms tg accRule m rows).map strJ)))
      pure (some (obj [("out", obj [("rows", tableJ out)]), ("spec", spec), ("bridge", boolJ bridge),
        ("bad_cover", bad),
        ("min", intJ m), ("regions", tableJ regions),
        ("specm", arrJ ((antiSpecB tg accAll accRule avg m out).map strJ))]))
  | _ => pure none

end CnvVerif.Drv
