/-
  JSON driver, C19 round 5: op "biloc_trace" -- `biweight_location` with ALL its options (`initial`, `c`, `epsilon`,
  `max_iter`).  The harness calls the real function with `max_iter = 0, 1, .., K`: the answers for 1..K are what the
  outer loop holds in `result` after at most that many rounds, so the whole TRACE of the loop is compared, not only the
  value returned.  `spec` = the clauses (range of every iterate, proportionality when the data AND the tolerance are
  rescaled) evaluated on the implementation's answers; `slack` = distance of the model run to its nearest branch boundary.
-/
import CnvVerif.Driver.Descriptives
import CnvVerif.Model.DescLoopExt5
open Lean
namespace CnvVerif.Drv
open CnvVerif.Desc CnvVerif.C19Loop C19

namespace C19Loop

/-- distance of the steps taken from the points `pts` to the boundaries `|u| = 1` (relative) and `|Δ| = ε` (relative to ε) -/
def traceSlack (c eps : Rat) (a : List Rat) (pts : List Rat) : Rat :=
  pts.foldl (fun sl p =>
    let d := a.map (· - p)
    let s := max (c * Desc.median (d.map absR)) eps
    let sl := d.foldl (fun m x => min m (absQ (absR (x / s) - 1))) sl
    let r := bilocIter c eps a p
    min sl (absQ (absR (r - p) - eps) / eps)) 1

end C19Loop

def handleDescLoopExt5 (op : String) (inp : Json) (impl : Option Json) : R (Option Json) := do
  match op with
  | "biloc_trace" =>
    let a ← getList getRat (← fld inp "a")
    let cut ← getRat (← fld inp "cut")
    let eps ← getRat (← fld inp "eps")
    let K ← getNat (← fld inp "max_iter")
    let k ← optFldD inp "k" getRat 1
    let initial ← optFldD inp "initial" getOptRat none
    if a.length < 2 || K = 0 || eps ≤ 0 then throw "biloc_trace: needs >= 2 values, max_iter >= 1, eps > 0"
    let init := initial.getD (Desc.median a)
    let vs := (List.range (K + 1)).map (fun m => biweightLocationOpts a initial cut eps m)
    let tr := trace (bilocIter cut eps a) eps (K - 1) init
    let slack := C19Loop.traceSlack cut eps a (init :: tr.dropLast)
    let outJ := obj [("vs", arrJ (vs.map (fun v => match v with | none => strJ "UnboundLocalError" | some q => ratT q))),
                     ("trace_len", Json.num (tr.length : Nat))]
    let spec ← (match impl with
      | none => pure Json.null
      | some ij => do
        let ivs ← getList getOptRat (← fld ij "vs")
        let vsc ← optFldD ij "v_scale" getOptRat none
        let lo := min (listMin a) init
        let hi := max (listMax a) init
        let mag := max (magnitude a) (absQ init)
        let inRange := ivs.all (fun v => match v with
          | none => false
          | some m => decide (lo - tolQ * max 1 mag ≤ m) && decide (m ≤ hi + tolQ * max 1 mag))
        let scaleOk := match vsc, ivs.getLast? with
          | some x, some (some y) => closeQ x (k * y) (k * mag)
          | _, _ => false
        pure (clausesJ ((if inRange then [] else ["every_iterate_in_range"]) ++
                        (if scaleOk then [] else ["iterate_scale_with_eps"]))))
    pure (some (obj [("out", outJ), ("slack", ratT slack), ("spec", spec)]))
  | _ => pure none

end CnvVerif.Drv
