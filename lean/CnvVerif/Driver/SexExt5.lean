import CnvVerif.Driver.Json
import CnvVerif.Driver.Center
import CnvVerif.Model.SexExt5
open Lean
namespace CnvVerif.Drv
open CnvVerif.C15x

/-- [chrom,s,e,log2,depth|null,weight|null] -/
def c15xGetBin (j : Json) : R CBin := do
  let a ← getArr j
  if a.size < 6 then throw "c15x bin needs 6 fields"
  pure { chrom := ← getStr a[0]!, s := ← getInt a[1]!, e := ← getInt a[2]!, log2 := ← getRat a[3]!,
         depth := ← getOptRat a[4]!, weight := ← getOptRat a[5]! }

def c15xMoodJ (t : MoodTable) : Json := arrJ [natJ t.aAbove, natJ t.aBelow, natJ t.vAbove, natJ t.vBelow]

def c15xOptRatJ (v : Option Rat) : Json := match v with | some q => ratJ q | none => Json.null
def c15xOptBoolJ (v : Option Bool) : Json := match v with | some b => boolJ b | none => Json.null
def c15xCellJ (c : Cell) : Json := match c with
  | .na => strJ "NA"
  | .num p v => obj [("plus", boolJ p), ("v", c15xOptRatJ v)]

/-- what the k-th real call of `compare_to_auto` got from scipy / `weighted_median`: raw statistic (`none` = it
    raised), the two weighted medians (weighted tables only) -/
structure C15xCall where
  stat : Option Rat
  wa : Option Rat
  wv : Option Rat
deriving Inhabited

def c15xGetCall (j : Json) : R C15xCall := do
  let g (k : String) : R (Option Rat) := match optFld j k with
    | some v => getOptRat v
    | none => pure none
  pure { stat := ← g "stat", wa := ← g "wa", wv := ← g "wv" }

/-- op `sex_glue`: `compare_sex_chromosomes(hapX, par, skip_low)`, `guess_xx` and the `do_sex` row from the bin
    table.  The Mood tables, their degeneracy, the unweighted medians, the selections, the fall-backs, the segment
    means and the row are the model's; scipy's statistic on non-degenerate tables and the weighted medians are
    the recorded results of the real calls (parameters `cta`). -/
def handleSexExt5 (op : String) (inp : Json) (impl : Option Json) : R (Option Json) := do
  match op with
  | "sex_glue" =>
    let t ← getList c15xGetBin (← fld inp "rows")
    let hapX ← getBool (← fld inp "hapX")
    let par ← getOptStr (← fld inp "par")
    let skipLow ← getBool (← fld inp "skip_low")
    let calls ← getList c15xGetCall (← fld inp "calls")
    let weighted := t.any fun b => b.weight.isSome
    let cta : Cta := fun k auto c sh =>
      let call := calls.getD k default
      let base := compareToAuto (fun _ => call.stat.getD 0) (auto.map (·.log2)) (shiftVals (c.map (·.log2)) sh)
      if weighted then { base with diff := absR (call.wa.getD 0 - call.wv.getD 0) } else base
    let res := compareSex cta hapX par skipLow t
    -- the tables of the comparisons the model makes, against "scipy raised"
    let auto := lowIf skipLow (autoBins par t)
    let chrx := lowIf skipLow (chrXBins par t)
    let chry := lowIf skipLow (chrYBins par t)
    let tb (c : List CBin) (sh : Rat) : MoodTable := moodTable (auto.map (·.log2)) (shiftVals (c.map (·.log2)) sh)
    let used : List (Nat × MoodTable) :=
      (if res.isSome && !chrx.isEmpty then [(0, tb chrx (xShifts hapX).1), (1, tb chrx (xShifts hapX).2)] else []) ++
      (if res.isSome && !chry.isEmpty then [(2, tb chry yShifts.1), (3, tb chry yShifts.2)] else [])
    let degMismatch := used.filterMap fun (k, tbl) =>
      if k < calls.length && tbl.degenerate != (calls.getD k default).stat.isNone then some (natJ k) else none
    let guess := if skipLow then none else guessXX cta hapX par t
    let row := sexRow cta hapX par t
    let statsJ : Json := match res with
      | some (_, st) => obj [("chrx_ratio", c15xOptRatJ st.chrxRatio), ("chry_ratio", c15xOptRatJ st.chryRatio),
                             ("combined_score", c15xOptRatJ st.combined), ("chrx_male_lr", c15xOptRatJ st.chrxLr),
                             ("chry_male_lr", c15xOptRatJ st.chryLr)]
      | none => Json.null
    let slack : Json := match res with
      | some (_, st) => (match st.combined with | some s => ratJ (absR (s - 1)) | none => Json.null)
      | none => Json.null
    -- hypotheses of the table-level margin theorem (tables without a weight column, `skip_low` off)
    let (marginFemale, marginHyp) ← (match optFld inp "margin" with
      | some mj => do
        let f ← getBool (← fld mj "female")
        let a ← getRat (← fld mj "a")
        let d ← getRat (← fld mj "d")
        let av := (autoBins par t).map (·.log2)
        let xv := (chrXBins par t).map (·.log2)
        let yv := (chrYBins par t).map (·.log2)
        pure (some f, !weighted && !skipLow && withinMargin hapX f a d av xv yv && allDegenerate hapX av xv yv)
      | none => pure ((none : Option Bool), false))
    -- spec clauses on the REAL outputs (the theorems of Props/C15Glue evaluated on them)
    let spec ← (match impl with
      | none => pure Json.null
      | some ij => do
        let gx ← (match optFld ij "guess_xx" with
          | some (Json.bool b) => pure (some b)
          | _ => pure (none : Option Bool))
        let sex ← (match optFld ij "row_sex" with
          | some (Json.str s) => pure (some s)
          | _ => pure (none : Option String))
        let bad1 := match gx, sex with
          | some xx, some s => s != (if xx then "Female" else "Male")
          | _, _ => false
        -- the table-level margin theorem (`guessXX_and_report_within_margin`) on the real outputs
        let bad2 := marginHyp && (match marginFemale, gx with
          | some f, some xx => xx != f
          | some _, none => true
          | none, _ => false)
        let bad3 := marginHyp && (match marginFemale, sex with
          | some f, some s => s != (if f then "Female" else "Male")
          | some _, none => true
          | none, _ => false)
        let names : List String := (if bad1 then ["sex_report_agrees_with_guess_xx"] else []) ++
                    (if bad2 then ["guess_xx_within_margin_table"] else []) ++
                    (if bad3 then ["sex_report_within_margin_table"] else [])
        pure (arrJ (names.map strJ)))
    pure (some (obj [("out", obj [("is_male", c15xOptBoolJ (res.map (·.1))), ("stats", statsJ),
                                   ("guess_xx", c15xOptBoolJ guess),
                                   ("row", arrJ [strJ row.1, c15xCellJ row.2.1, c15xCellJ row.2.2]),
                                   ("n", arrJ [natJ auto.length, natJ chrx.length, natJ chry.length,
                                               natJ (chrYBins par t).length]),
                                   ("tables", arrJ (used.map fun (_, tbl) => c15xMoodJ tbl)),
                                   ("deg_mismatch", arrJ degMismatch),
                                   ("margin_hyp", boolJ marginHyp)]),
                     ("slack", slack), ("spec", spec)]))
  | _ => pure none

end CnvVerif.Drv
