import CnvVerif.Driver.Reference
import CnvVerif.Model.ReferenceExt5Cluster
open Lean
namespace CnvVerif.Drv.ReferenceExt5
open CnvVerif.Drv CnvVerif.Ref CnvVerif.Ref.C05Cl CnvVerif.Drv.Reference

/-- op `ref_cluster`: the cluster columns of `reference --cluster` (corrections off), k-means membership supplied -/
def handleReferenceExt5 (op : String) (inp : Json) (_impl : Option Json) : R (Option Json) := do
  match op with
  | "ref_cluster" =>
    let hapX ← getBool (← fld inp "hapX")
    let par ← getOptStr (← fld inp "par")
    let tgt ← getList getSample (← fld inp "targets")
    let anti ← (match optFld inp "antitargets" with
      | some j => do pure (some (← getList getSample j))
      | none => pure none)
    let sj ← fld inp "sex_inputs"
    let given ← (match optFld sj "given" with
      | some v => do pure (some (← getBool v))
      | none => pure none)
    let sexes := resolveSexes given (← getList getStr (← fld sj "target_ids")) (← getInf (← fld sj "t_inf"))
                   (← getInf (← fld sj "a_inf"))
    let members ← getList (getList getNat) (← fld inp "members")
    let minSize ← getNat (← fld inp "min_size")
    let outJ : Json := match doCluster hapX par sexes tgt anti members minSize with
      | .ok tbl => obj [
          ("bins", arrJ (tbl.bins.map fun r => arrJ [strJ r.chrom, intJ r.s, intJ r.e, strJ r.gene])),
          ("cols", arrJ (tbl.cols.map fun c =>
            arrJ [natJ c.1, arrJ (c.2.map fun cell => arrJ [ratJ cell.1, scaleJ cell.2])]))]
      | .error (.binsDiffer f) => obj [("error_kind", strJ "bins_differ"), ("file", strJ f)]
      | .error .unequalCounts => obj [("error_kind", strJ "unequal_counts")]
    pure (some (obj [("out", outJ), ("spec", arrJ [])]))
  | _ => pure none

end CnvVerif.Drv.ReferenceExt5
