import CnvVerif.Driver.Json
import CnvVerif.Model.Call
open Lean
namespace CnvVerif.Drv

def getSegRow (j : Json) : R SegRow := do
  let a ← getArr j
  if a.size < 6 then throw "segrow needs 6 fields"
  pure { chrom := ← getStr a[0]!, s := ← getInt a[1]!, e := ← getInt a[2]!,
         v := ← getOptRat a[3]!, t := ← getRat a[4]!, baf := ← getOptRat a[5]! }

def getMethod (j : Json) : R Method := do
  match (← getStr j) with
  | "threshold" => pure .threshold
  | "clonal" => pure .clonal
  | "none" => pure .none
  | m => throw s!"bad method {m}"

def optIntJ : Option Int → Json
  | none => Json.null
  | some i => intJ i

def absRat (q : Rat) : Rat := if q < 0 then -q else q

def closeRat (a b : Rat) : Bool := absRat (a - b) ≤ (1 / 1000000000 : Rat) * max 1 (absRat b)

/-- impl output of one row: [cn|null, ratio|null, cn1|null, cn2|null] -/
def getImplRow (j : Json) : R (Option Int × Option Rat × Option Int × Option Int) := do
  let a ← getArr j
  pure (← getOptInt a[0]!, ← getOptRat a[1]!, ← getOptInt a[2]!, ← getOptInt a[3]!)

def handleCall (op : String) (inp : Json) (impl : Option Json) : R (Option Json) := do
  match op with
  | "call" =>
    let rows ← getList getSegRow (← fld inp "rows")
    let m ← getMethod (← fld inp "method")
    let ploidy ← getNat (← fld inp "ploidy")
    let purity ← getOptRat (← fld inp "purity")
    let hapX ← getBool (← fld inp "hapX")
    let female ← getBool (← fld inp "female")
    let par ← getOptStr (← fld inp "par")
    let thr ← getList getRat (← fld inp "thr")
    let hasBaf ← getBool (← fld inp "has_baf")
    -- expected tumour copy number per row (null when the row was not generated from a known n)
    let ns ← (match optFld inp "n" with
      | some j => getList getOptInt j
      | none => pure (rows.map (fun _ => none)))
    let checkMono := match optFld inp "check_monotone" with
      | some (Json.bool b) => b
      | _ => false
    -- antilogs of the thresholds (exact doubles `2.0 ** thr`), needed when the scan runs on the rescaled log2
    let thrPow2 ← (match optFld inp "thr_pow2" with
      | some j => getList getRat j
      | none => pure [])
    let cfg : CallCfg := { ploidy, purity, hapX, female, par, thrPow2 }
    if ploidy == 0 then throw "ploidy 0 is outside the model"
    let onPurity := (purityActive purity).isSome
    if m == .threshold && onPurity && thrPow2.length != thr.length then
      throw "threshold after purity rescaling needs thr_pow2"
    -- `variants`: the BAF column came from the `variants` argument (rescaled for purity on the purity path)
    let fromVariants := match optFld inp "variants" with
      | some (Json.bool b) => b
      | _ => false
    let rowsIn := rows
    let rows := if fromVariants then rows.map (bafForCall cfg true) else rows
    let outs := if fromVariants then callTableV cfg m thr true rowsIn else callTable cfg m thr hasBaf rows
    let first := (rows.head?.map (·.chrom)).getD ""
    let outJ := arrJ (outs.map fun o =>
      arrJ [optIntJ o.cn, optRatJ o.ratio, optIntJ o.cn1, optIntJ o.cn2])
    -- knife-edge slack per row
    let slack := arrJ ((rows.zip outs).map fun (row, o) =>
      let s1 := halfSlack o.absolute
      let s2 : Rat := match row.baf with
        | some b => halfSlack (o.absolute * ((absRat (b - 1/2)) + 1/2))
        | none => 1
      -- the value the threshold scan reads: the table's ratio, or the rescaled one on the purity path
      let scanT : Rat := if onPurity then o.ratio.getD row.t else row.t
      let s3 : Rat := if m == .threshold then intSlack ((refCopiesPure row.chrom ploidy hapX : Rat) * scanT) else 1
      let s3' : Rat := if m == .threshold && (refCopiesPure row.chrom ploidy hapX) == 0 then 1 else s3
      -- on the purity path the real scan compares a float log2 with thr, the model the ratio with 2^thr:
      -- relative distance to the nearest threshold antilog
      let s4 : Rat := if m == .threshold && onPurity then
          thrPow2.foldl (fun acc th => min acc (absRat (scanT / th - 1))) 1
        else 1
      ratJ (min (min (if m == .threshold then 1 else s1) s4) (min (if hasBaf then s2 else 1) s3')))
    let spec ← (match impl with
      | none => pure Json.null
      | some ij => do
        let irows ← getList getImplRow ij
        if irows.length != rows.length then pure (clausesJ' ["rowcount_preserved"]) else
        let z := (rows.zip (ns.zip irows))
        let bad (name : String) (f : SegRow → Option Int → (Option Int × Option Rat × Option Int × Option Int) → Bool) : List String :=
          if z.all (fun (r, n, i) => f r n i) then [] else [name]
        let clauses :=
          bad "cn_nonneg" (fun _ _ i => match i.1 with | some c => c ≥ 0 | none => m == .none) ++
          bad "cn_is_n" (fun _ n i => match n with | some k => m == .none || i.1 == some k | none => true) ++
          bad "ratio_of_pure_sample" (fun r n i => match n, (purityActive purity) with
            | some k, some _ =>
              if ploidy % 2 == 0 then
                let cls := classOf first par r.chrom r.s r.e
                let (rr, _) := refExpect ploidy hapX female cls
                -- ratio a pure sample with k copies shows against the reference, floored
                let want : Rat := if cls == .pary then max ((k : Rat) / ploidy) (1/1000)
                  else max ((k : Rat) / (rr : Rat)) ((1/1000 : Rat) * (ploidy : Rat) / (rr : Rat))
                match i.2.1 with
                | some got => closeRat got want
                | none => false
              else true
            | _, _ => true) ++
          bad "cn_nearest_integer" (fun r _ i =>
            if m == .clonal && (purityActive purity).isNone then
              match i.1 with
              | some c => absRat ((c : Rat) - (refCopiesPure r.chrom ploidy hapX : Rat) * r.t) ≤ 1/2 + 1/1000000000
              | none => false
            else true) ++
          bad "nan_gives_reference" (fun r _ i =>
            if m == .threshold && r.v.isNone then i.1 == some (refCopiesPure r.chrom ploidy hapX : Int) else true) ++
          bad "threshold_step" (fun r _ i =>
            if m == .threshold && onPurity then
              -- purity path: the scan reads the log2 the call itself wrote (here as the ratio 2^log2 of the REAL
              -- output): cn = number of thresholds strictly below it, scaled and truncated, ceil above the last
              match i.2.1, i.1 with
              | some got, some c =>
                let rp := refCopiesPure r.chrom ploidy hapX
                if thrPow2.any (fun th => absRat (got / th - 1) < 1/100000000) then true else
                let below := thrPow2.countP (fun th => decide (th < got))
                if below < thrPow2.length then
                  c == (if rp ≠ ploidy then ((below * rp / ploidy : Nat) : Int) else (below : Int))
                else
                  let q := (rp : Rat) * got
                  c == q.ceil || (intSlack q < 1/10000000 && absRat ((c : Rat) - q) ≤ 1 + 1/10000000)
              | _, _ => false
            else if m == .threshold then
              match r.v, i.1 with
              | some v, some c =>
                let rp := refCopiesPure r.chrom ploidy hapX
                let below := thr.countP (fun th => decide (th < v))
                if below < thr.length then
                  -- number of thresholds strictly below log2, scaled and truncated on chromosomes
                  -- the reference carries in fewer copies
                  c == (if rp ≠ ploidy then ((below * rp / ploidy : Nat) : Int) else (below : Int))
                else
                  let q := (rp : Rat) * r.t
                  c == q.ceil || (intSlack q < 1/1000000000 && absRat ((c : Rat) - q) ≤ 1 + 1/1000000000)
              | _, _ => true
            else true) ++
          (if checkMono && m == .threshold then
            (if z.all (fun (r1, _, i1) => z.all (fun (r2, _, i2) =>
                match r1.v, r2.v, i1.1, i2.1 with
                | some v1, some v2, some c1, some c2 =>
                  if refCopiesPure r1.chrom ploidy hapX == refCopiesPure r2.chrom ploidy hapX && v1 ≤ v2
                  then c1 ≤ c2 else true
                | _, _, _, _ => true)) then [] else ["monotone_in_log2"])
           else []) ++
          bad "allelic_sum" (fun _ _ i => match i.1, i.2.2.1, i.2.2.2 with
            | some c, some c1, some c2 => c1 + c2 == c && 0 ≤ c1 && 0 ≤ c2 && c1 ≤ c && c2 ≤ c
            | _, none, none => true
            | _, _, _ => false) ++
          bad "allelic_missing_iff" (fun r _ i =>
            if hasBaf && m != .none then
              match i.1 with
              | some c => (i.2.2.1.isNone && i.2.2.2.isNone) == (r.baf.isNone && c > 0)
              | none => false
            else i.2.2.1.isNone && i.2.2.2.isNone)
        pure (clausesJ' clauses))
    pure (some (obj [("out", outJ), ("slack", slack), ("spec", spec)]))
  | _ => pure none
where
  clausesJ' (l : List String) : Json := arrJ (l.map strJ)

end CnvVerif.Drv
