import CnvVerif.Driver.Json
import CnvVerif.Model.Interval
import CnvVerif.Model.IntervalSpec
open Lean
namespace CnvVerif.Drv

def clausesJ (l : List String) : Json := arrJ (l.map strJ)

def implTable (impl : Option Json) : R (Option Table) :=
  match impl with
  | none => pure none
  | some j => do pure (some (← getTable j))

def specOn (impl : Option Table) (f : Table → List String) : Json :=
  match impl with
  | none => Json.null
  | some t => clausesJ (f t)

def pairsJ (l : List (Row × Table)) : Json :=
  arrJ (l.map (fun p => arrJ [rowJ p.1, tableJ p.2]))

def getPairs (j : Json) : R (List (Row × Table)) :=
  getList (fun x => do
    let a ← getArr x
    if a.size < 2 then throw "pair"
    pure (← getRow a[0]!, ← getTable a[1]!)) j

/-- specification of by_ranges for sorted tables: per query of `other`, in order -/
def byRangesSpec (table other : Table) (mode : Mode) (keepEmpty : Bool) : List (Row × Table) :=
  let grouped := (groupByChrom other).flatMap (·.2)
  (grouped.map (fun q => (q, selectSpec table q.chrom q.s q.e mode))).filter
    (fun p => keepEmpty || !p.2.isEmpty)

def handleInterval (op : String) (inp : Json) (impl : Option Json) : R (Option Json) := do
  match op with
  | "merge" =>
    let t ← getTable (← fld inp "t")
    let bp ← getInt (← fld inp "bp")
    let out := mergeTable bp t
    let it ← implTable impl
    let spec := if bp == 0 then specOn it (mergeSpecB t) else specOn it (fun _ => [])
    let specm := if bp == 0 then clausesJ (mergeSpecB t out) else clausesJ []
    pure (some (obj [("out", tableJ out), ("spec", spec), ("specm", specm)]))
  | "flatten" =>
    let t ← getTable (← fld inp "t")
    let out := flattenTable t
    let it ← implTable impl
    pure (some (obj [("out", tableJ out), ("spec", specOn it (flattenSpecB t)),
      ("specm", clausesJ (flattenSpecB t out))]))
  | "subtract" =>
    let a ← getTable (← fld inp "a")
    let b ← getTable (← fld inp "b")
    let out := subtractTable a b
    let it ← implTable impl
    pure (some (obj [("out", tableJ out), ("spec", specOn it (subtractSpecB a b)),
      ("specm", clausesJ (subtractSpecB a b out))]))
  | "intersect" =>
    let a ← getTable (← fld inp "a")
    let b ← getTable (← fld inp "b")
    let mode ← getMode (← fld inp "mode")
    let out := intersection a b mode
    let it ← implTable impl
    let expect := ((byRangesSpec a b mode false).map (·.2)).flatten
    let sp (o : Table) : List String :=
      (if o == expect then [] else ["intersection_rows_" ++ (match mode with | .inner => "inner" | .outer => "outer" | .trim => "trim")]) ++
      (if mode == .trim then intersectTrimSpecB a b o else [])
    pure (some (obj [("out", tableJ out), ("spec", specOn it sp), ("specm", clausesJ (sp out))]))
  | "subdivide" =>
    let t ← getTable (← fld inp "t")
    let avg ← getRat (← fld inp "avg")
    let mn ← getInt (← fld inp "min")
    let out := subdivideTable avg mn t
    let it ← implTable impl
    pure (some (obj [("out", tableJ out), ("spec", specOn it (subdivideSpecB avg mn t)),
      ("specm", clausesJ (subdivideSpecB avg mn t out))]))
  | "resize" =>
    let t ← getTable (← fld inp "t")
    let bp ← getInt (← fld inp "bp")
    let sizes : String → Option Int ← (match optFld inp "sizes" with
      | none => pure (fun _ => none)
      | some sj => do
        let kvs ← getList (fun x => do
          let a ← getArr x
          pure (← getStr a[0]!, ← getInt a[1]!)) sj
        pure (fun c => (kvs.find? (fun kv => kv.1 == c)).map (·.2)))
    let out := resizeTable bp sizes t
    pure (some (obj [("out", tableJ out)]))
  | "total" =>
    let t ← getTable (← fld inp "t")
    let out := totalRangeSize t
    let spec ← (match impl with
      | none => pure Json.null
      | some j => do pure (clausesJ (totalSpecB t (← getInt j))))
    pure (some (obj [("out", intJ out), ("spec", spec), ("specm", clausesJ (totalSpecB t out))]))
  | "in_range" =>
    let t ← getTable (← fld inp "t")
    let chrom ← getOptStr (← fld inp "chrom")
    let qs ← getOptInt (← fld inp "s")
    let qe ← getOptInt (← fld inp "e")
    let mode ← getMode (← fld inp "mode")
    let out := inRange t chrom qs qe mode
    -- specification: None bound = unbounded side
    let rows : Table := match chrom with
      | some c => t.filter (fun r => r.chrom == c)
      | none => t
    let sel : Table := match mode with
      | .inner => rows.filter (fun r => (qs.all (fun s => r.s ≥ s)) && (qe.all (fun e => r.e ≤ e)))
      | _ => rows.filter (fun r => (qs.all (fun s => r.e > s)) && (qe.all (fun e => r.s < e)))
    let expect : Table := if mode == .trim then
        sel.map (fun (r : Row) =>
          let s' : Int := match qs with | some s => max r.s s | none => r.s
          let e' : Int := match qe with | some e => min r.e e | none => r.e
          { r with s := s', e := e' })
      else sel
    let it ← implTable impl
    let sp (o : Table) : List String := if o == expect then [] else ["in_range_exact"]
    pure (some (obj [("out", tableJ out), ("spec", specOn it sp), ("specm", clausesJ (sp out))]))
  | "in_ranges" =>
    let t ← getTable (← fld inp "t")
    let chrom ← getOptStr (← fld inp "chrom")
    let qs ← getList (fun x => do let a ← getArr x; pure (← getInt a[0]!, ← getInt a[1]!)) (← fld inp "qs")
    let mode ← getMode (← fld inp "mode")
    let out := inRanges t chrom qs mode
    let rows : Table := match chrom with
      | some c => t.filter (fun r => r.chrom == c)
      | none => t
    let c0 := (rows.head?.map (·.chrom)).getD ""
    let expect := (qs.map (fun q => selectSpec rows c0 q.1 q.2 mode)).flatten
    let it ← implTable impl
    let sp (o : Table) : List String := if o == expect then [] else ["in_ranges_exact"]
    pure (some (obj [("out", tableJ out), ("spec", specOn it sp), ("specm", clausesJ (sp out))]))
  | "by_ranges" =>
    let a ← getTable (← fld inp "a")
    let b ← getTable (← fld inp "b")
    let mode ← getMode (← fld inp "mode")
    let ke ← getBool (← fld inp "keep_empty")
    let out := byRanges a b mode ke
    let expect := byRangesSpec a b mode ke
    let ip ← (match impl with
      | none => pure none
      | some j => do pure (some (← getPairs j)))
    let sp (o : List (Row × Table)) : List String := if o == expect then [] else ["by_ranges_exact"]
    let spec := match ip with | none => Json.null | some o => clausesJ (sp o)
    pure (some (obj [("out", pairsJ out), ("spec", spec), ("specm", clausesJ (sp out))]))
  | "iter_ranges_of" =>
    let a ← getTable (← fld inp "a")
    let b ← getTable (← fld inp "b")
    let mode ← getMode (← fld inp "mode")
    let ke ← getBool (← fld inp "keep_empty")
    let out := (iterSlices a b mode ke).map (fun sel => sel.map (·.gene))
    let expect := ((byRangesSpec a b mode.idx true).map (fun p => p.2.map (·.gene))).filter
      (fun l => ke || !l.isEmpty)
    let toJ (l : List (List String)) : Json := arrJ (l.map (fun x => arrJ (x.map strJ)))
    let ip ← (match impl with
      | none => pure none
      | some j => do pure (some (← getList (getList getStr) j)))
    let sp (o : List (List String)) : List String := if o == expect then [] else ["iter_ranges_of_exact"]
    let spec := match ip with | none => Json.null | some o => clausesJ (sp o)
    pure (some (obj [("out", toJ out), ("spec", spec), ("specm", clausesJ (sp out))]))
  | "into_ranges" =>
    let a ← getTable (← fld inp "a")
    let b ← getTable (← fld inp "b")
    let dflt ← getStr (← fld inp "default")
    let out := intoRangesStr a b dflt
    let expect := (groupByChrom b).flatMap (·.2) |>.map fun q =>
      match selectSpec a q.chrom q.s q.e .outer with
      | [] => dflt
      | [r] => r.gene
      | rs => joinStrings (rs.map (·.gene))
    let ip ← (match impl with
      | none => pure none
      | some j => do pure (some (← getList getStr j)))
    let sp (o : List String) : List String := if o == expect then [] else ["into_ranges_exact"]
    let spec := match ip with | none => Json.null | some o => clausesJ (sp o)
    pure (some (obj [("out", arrJ (out.map strJ)), ("spec", spec), ("specm", clausesJ (sp out))]))
  | _ => pure none

end CnvVerif.Drv
