/-
  Driver for Model/RangesExt5.lean (C07, extension 5): `in_ranges` with arrays of unequal length / empty arrays.
  `impl` is either the returned rows or `{"raise": "<ExceptionName>"}`.
-/
import CnvVerif.Driver.Json
import CnvVerif.Driver.RangesExt
import CnvVerif.Model.RangesExt5
open Lean
namespace CnvVerif.Drv

def c07ErrName : C07Err → String
  | .valueError => "ValueError"
  | .assertionError => "AssertionError"

def handleRangesExt5 (op : String) (inp : Json) (impl : Option Json) : R (Option Json) := do
  match op with
  | "in_ranges_raw" =>
    let t ← getTable (← fld inp "t")
    let chrom ← getOptStr (← fld inp "chrom")
    let starts ← (match optFld inp "starts" with
      | none => pure none
      | some j => do pure (some (← getList getInt j)))
    let ends ← (match optFld inp "ends" with
      | none => pure none
      | some j => do pure (some (← getList getInt j)))
    let mode ← getMode (← fld inp "mode")
    let res := c07InRangesRaw t chrom starts ends mode
    -- the property's wording, independent of the slicing code, over `zip` of the non-empty arrays
    let rows : Table := match chrom with
      | some c => t.filter (fun r => r.chrom == c)
      | none => t
    let one (qs qe : Option Int) : Table :=
      let sel : Table := match mode with
        | .inner => rows.filter (fun r => (qs.all (fun s => r.s ≥ s)) && (qe.all (fun e => r.e ≤ e)))
        | _ => rows.filter (fun r => (qs.all (fun s => r.e > s)) && (qe.all (fun e => r.s < e)))
      if mode == .trim then
        sel.map (fun (r : Row) =>
          let s' : Int := match qs with | some s => max r.s s | none => r.s
          let e' : Int := match qe with | some e => min r.e e | none => r.e
          { r with s := s', e := e' })
      else sel
    let expect := (zipBounds (c07Given starts) (c07Given ends)).flatMap (fun q => one q.1 q.2)
    let documented : Bool := (starts != some []) && (ends != some []) && !c07LenMismatch starts ends
    let spTable (o : Table) : List String := if o == expect then [] else ["in_ranges_exact"]
    let spRaise : List String := if documented then ["in_ranges_raises_on_documented_arguments"] else []
    let outJ : Json := match res with
      | .ok o => obj [("rows", tableJ o)]
      | .error e => obj [("raise", strJ (c07ErrName e))]
    let specm : List String := match res with
      | .ok o => spTable o
      | .error _ => spRaise
    let spec ← (match impl with
      | none => pure Json.null
      | some j =>
        match optFld j "raise" with
        | some _ => pure (arrJ (spRaise.map strJ))
        | none => do pure (arrJ ((spTable (← getTable (← fld j "rows"))).map strJ)))
    pure (some (obj [("out", outJ), ("spec", spec), ("specm", arrJ (specm.map strJ))]))
  | _ => pure none

end CnvVerif.Drv
