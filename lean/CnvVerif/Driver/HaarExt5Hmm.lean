/-
  JSON driver, op `hmm_states`: the state table (names, means, frozen flags) and the initial model (start vector,
  transition matrix) of a method branch of `hmm_get_model`, as read from the source text by the translator
  (`Generated/HaarConsts.lean`, `Generated/HmmConsts.lean`).  The harness compares them with what the real function
  hands to pomegranate for that method.
-/
import CnvVerif.Driver.Haar
import CnvVerif.Model.HaarExt5Hmm
open Lean
namespace CnvVerif.Drv.HaarHmmM
open CnvVerif.Drv CnvVerif.Drv.Haar CnvVerif.HaarHmmM

def handleHaarHmmM (op : String) (inp : Json) (_impl : Option Json) : R (Option Json) := do
  match op with
  | "hmm_states" =>
    let method ← getStr (← fld inp "method")
    let t := hmmTableOf method
    pure (some (obj [("out", obj [("names", strsJ t.names), ("means", ratsJ t.means), ("frozen", arrJ (t.frozen.map boolJ)),
                                  ("start", ratsJ t.start), ("trans", arrJ (t.trans.map ratsJ)),
                                  ("table_ok", boolJ (hmmzTableOk t))]),
                     ("spec", Json.null)]))
  | _ => pure none

end CnvVerif.Drv.HaarHmmM
