/-
  Driver ops of C10 added in round 4:
  `rng_trace_lib`  a recorded trace (incl. draws made INSIDE libraries, seen as moves of the generator state) against
                   the extended skeleton table Generated.RNG_TABLE_LIB, plus the results under two generator states;
  `ensure_path_dirs` 1..5 guarded writes to a path whose directory may not exist, on a tree of directories: the real
                   code against BOTH the hand-written model and the program generated from the source of `ensure_path`;
  `alias_probe`    which arguments the REAL function changed, against the summary of its row in the generated
                   alias table (the reading rules of the extractor meet the running code here).
-/
import CnvVerif.Driver.Json
import CnvVerif.Driver.Effects
import CnvVerif.Model.Alias
import CnvVerif.Model.PathProg
import CnvVerif.Generated.EffectsPath
import CnvVerif.Generated.EffectsRng
import CnvVerif.Generated.EffectsAlias
open Lean
namespace CnvVerif.Drv
open CnvVerif.Effects CnvVerif.Alias
namespace EffX

def findFn (name : String) : Option Fn :=
  (Generated.ALIAS_CHUNKS.flatMap id).find? (fun f => f.name == name)

/-- the parameters (by spelling) the summary of `f` says it may write -/
def mayWrite (f : Fn) : List String :=
  f.paramNames.filterMap (fun p => match p.2 with
    | some i => if f.writes.contains i then some p.1 else none
    | none => none)

def getDir (j : Json) : R Dir := getList getStr j
def dirJ (d : Dir) : Json := arrJ (d.map strJ)

def dirLe (a b : Dir) : Bool := decide (String.intercalate "/" a ≤ String.intercalate "/" b)
def sortDirs (ds : List Dir) : List Dir := ds.mergeSort dirLe

/-- k guarded writes where the guard is the program read from the source -/
def guardedWritesProg (fs : FSD) (p : PathArg) : List String → Except String FSD
  | [] => .ok fs
  | c :: ws => match writeFileD (runEnsurePath Generated.ENSURE_PATH_PROG fs p) p c with
    | .ok fs' => guardedWritesProg fs' p ws
    | .error e => .error e

def dirSpec (pre post : List Dir) (p : PathArg) (nwrites : Nat) : List String :=
  (if nwrites == 0 || post.contains p.dir then [] else ["directory_created"]) ++
  (if pre.all (fun d => post.contains d) then [] else ["existing_directories_kept"]) ++
  (if post.all (fun d => pre.contains d || (ancestors p.dir).contains d) then [] else ["only_ancestors_created"])

end EffX
open Eff EffX

def handleEffectsExt (op : String) (inp : Json) (impl : Option Json) : R (Option Json) := do
  match op with
  | "rng_trace_lib" =>
    let fn ← getStr (← fld inp "fn")
    let entry := Generated.RNG_TABLE_LIB.find? (fun e => e.1 == fn)
    let (known, pub, sk) := match entry with
      | some e => (true, e.2.1, e.2.2)
      | none => (false, true, Sk.nop)
    let tableSafe := (safeSk sk false).isSome
    match impl with
    | none => pure (some (obj [("out", obj [("known", boolJ known), ("public", boolJ pub), ("table_safe", boolJ tableSafe)]),
                               ("spec", Json.null)]))
    | some ij =>
      let tr ← getList getROp (← fld ij "trace")
      let results ← getList getStr (← fld ij "results")
      let acc := accepts sk tr
      let spec := (if pub && !(safeOps tr false) then ["reseeds_before_its_first_draw"] else []) ++
                  (if results.eraseDups.length ≤ 1 then [] else ["same_under_any_rng_state"])
      pure (some (obj [("out", obj [("known", boolJ known), ("public", boolJ pub), ("table_safe", boolJ tableSafe),
                                    ("accepted", boolJ acc)]),
                       ("spec", arrJ (spec.map strJ))]))
  | "ensure_path_dirs" =>
    let dirs ← getList getDir (← fld inp "dirs")
    let pre ← getList getPair (← fld inp "pre")
    let pj ← fld inp "path"
    let p : PathArg := { name := ← getStr (← fld pj "name"), slash := ← getBool (← fld pj "slash"), dir := ← getDir (← fld pj "dir") }
    let ws ← getList getStr (← fld inp "writes")
    let fs0 : FSD := { dirs := dirs, files := pre }
    let fileJ := fun (fs : FSD) => obj [("files", arrJ ((sortFS fs.files).map pairJ)), ("dirs", arrJ ((sortDirs fs.dirs).map dirJ))]
    let out := match guardedWritesD fs0 p ws with
      | .ok fs => fileJ fs
      | .error e => obj [("error", strJ e)]
    let outProg := if !Generated.ENSURE_PATH_READABLE then out else match guardedWritesProg fs0 p ws with
      | .ok fs => fileJ fs
      | .error e => obj [("error", strJ e)]
    let spec ← (match impl with
      | none => pure Json.null
      | some ij => do
        let post ← getList getPair (← fld ij "files")
        let pdirs ← getList getDir (← fld ij "dirs")
        pure (arrJ ((ensurePathSpec pre p.name ws post ++ dirSpec dirs pdirs p ws.length).map strJ)))
    pure (some (obj [("out", out), ("out_source_program", outProg), ("spec", spec)]))
  | "alias_probe" =>
    let fn ← getStr (← fld inp "fn")
    match findFn fn with
    | none => pure (some (obj [("out", obj [("known", boolJ false), ("may_write", arrJ []), ("entry", boolJ false)]),
                               ("spec", match impl with | none => Json.null | some _ => arrJ [])]))
    | some f =>
      let mw := mayWrite f
      let spec ← (match impl with
        | none => pure Json.null
        | some ij => do
          let changed ← getList getStr (← fld ij "changed")
          -- the property: a pipeline step / array method leaves its arguments unchanged (a method may work on its receiver)
          let bad := changed.filter (fun p => !(f.isMethod && p == "self"))
          pure (arrJ ((if f.entry && !bad.isEmpty then ["arguments_left_unchanged"] else []).map strJ)))
      pure (some (obj [("out", obj [("known", boolJ true), ("entry", boolJ f.entry), ("may_write", arrJ (mw.map strJ)),
                                    ("respects_summary", boolJ f.respectsSummary)]),
                       ("spec", spec)]))
  | _ => pure none

end CnvVerif.Drv
