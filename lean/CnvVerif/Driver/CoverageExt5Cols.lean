/-
  JSON driver for the round-5 extension of C09 (the text side of `bedcov`).  Op:
    "covcols" : in = { "text": the text `pysam.bedcov` returned, "lines": optional, the same text as a list of lines, each
                a list of fields (regions-file fields + the count), given when the text was rendered from them }
                out = `detect` (names or exception class) and `parse` (names, cells, records) of
                Model/CoverageExt5Cols.lean, run with the reader settings READ FROM THE SOURCE (Generated.BEDCOV_*)
                spec (with impl = { "n": rows, "recs": [[chrom,start,end,gene,basecount]..] } of the real table and
                well-formed "lines"): row count = line count; every record is its line (first three fields, the fourth
                iff the line has one, the count)
-/
import CnvVerif.Driver.Json
import CnvVerif.Lemmas.SrcCovCols
open Lean
namespace CnvVerif.Drv
open CnvVerif CnvVerif.C09Cols

namespace CovCols

def optJ (o : Option (List Char)) : Json := match o with
  | none => Json.null
  | some s => strJ (String.ofList s)

def recJ (r : Rec) : Json := arrJ [optJ r.chrom, optJ r.start, optJ r.stop, optJ r.gene, optJ r.basecount]

def getOptChars (j : Json) : R (Option (List Char)) := match j with
  | Json.null => pure none
  | _ => do pure (some ((← getStr j).toList))

/-- the record a well-formed line stands for, directly from its fields (no text in between) -/
def recOfLine (rd : Reader) (fs : List (List Char)) : Rec :=
  let cells := fs.map (cell rd)
  { chrom := (cells[0]?).join, start := (cells[1]?).join, stop := (cells[2]?).join,
    gene := if fs.length ≥ 5 then (cells[3]?).join else none,
    basecount := (cells[fs.length - 1]?).join }

end CovCols

open CovCols in
def handleCoverageExt5Cols (op : String) (inp : Json) (impl : Option Json) : R (Option Json) := do
  match op with
  | "covcols" =>
    let text := (← getStr (← fld inp "text")).toList
    let rd := srcReader
    let detJ := match detect text with
      | .error e => obj [("err", strJ e.pyName)]
      | .ok cols => obj [("cols", arrJ (cols.map strJ))]
    let parJ := match parse rd text with
      | .error e => obj [("err", strJ e.pyName)]
      | .ok (cols, rows) => obj [("cols", arrJ (cols.map strJ)), ("rows", arrJ (rows.map fun r => arrJ (r.map optJ))),
          ("recs", arrJ (rows.map fun r => recJ (recOf cols r)))]
    let lines ← (match optFld inp "lines" with
      | none => pure none
      | some j => do
        let ls ← getList (getList (fun x => do pure ((← getStr x).toList))) j
        pure (some ls))
    let wf : Bool := match lines with
      | some (l0 :: rest) => decide (3 ≤ l0.length - 1 ∧ WF (l0.length - 1) (l0 :: rest))
      | _ => false
    let spec ← (match impl, lines with
      | some ij, some ls =>
        if !wf then pure Json.null else do
        match optFld ij "recs" with
        | none => pure (arrJ [strJ "bedcov_row_count_is_line_count"])
        | some rj =>
          let recs : List (List (Option (List Char))) ← getList (getList getOptChars) rj
          let want := ls.map (fun fs => let r := recOfLine rd fs; [r.chrom, r.start, r.stop, r.gene, r.basecount])
          let c1 := if recs.length == ls.length then [] else ["bedcov_row_count_is_line_count"]
          let c2 := if recs.length != ls.length || recs == want then [] else ["bedcov_row_is_its_line"]
          pure (arrJ ((c1 ++ c2).map strJ))
      | _, _ => pure Json.null)
    pure (some (obj [("detect", detJ), ("parse", parJ), ("spec", spec), ("wf", boolJ wf)]))
  | _ => pure none

end CnvVerif.Drv
