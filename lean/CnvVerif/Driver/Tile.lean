import CnvVerif.Driver.Json
import CnvVerif.Model.Tile
import CnvVerif.Model.TileFallback
import CnvVerif.Driver.TileOutlierExt5
open Lean
namespace CnvVerif.Drv

/-- [chrom,s,e,gene,log2,weight,depth,outlier] ; `keep` is computed by the model's filters -/
def getBinRaw (j : Json) : R (Bin × Bool) := do
  let a ← getArr j
  if a.size < 8 then throw "bin needs 8 fields"
  pure ({ chrom := ← getStr a[0]!, s := ← getInt a[1]!, e := ← getInt a[2]!, gene := ← getStr a[3]!,
          log2 := ← getRat a[4]!, weight := ← getRat a[5]!, depth := ← getRat a[6]!, keep := true },
        ← getBool a[7]!)

/-- [chrom,s,e,gene,log2,probes,weight,depth] -/
def getSegO (j : Json) : R SegO := do
  let a ← getArr j
  if a.size < 8 then throw "seg needs 8 fields"
  pure { chrom := ← getStr a[0]!, s := ← getInt a[1]!, e := ← getInt a[2]!, gene := ← getStr a[3]!,
         log2 := ← getRat a[4]!, probes := ← getInt a[5]!, weight := ← getRat a[6]!, depth := ← getRat a[7]! }

def segOJ (g : SegO) : Json :=
  arrJ [strJ g.chrom, intJ g.s, intJ g.e, strJ g.gene, ratJ g.log2, intJ g.probes, ratJ g.weight, ratJ g.depth]

def segSortLe (a b : SegO) : Bool :=
  let ka := sorterChrom a.chrom
  let kb := sorterChrom b.chrom
  chromKeyLt ka kb || (ka == kb && (a.s < b.s || (a.s == b.s && a.e ≤ b.e)))

def handleTile (op : String) (inp : Json) (impl : Option Json) : R (Option Json) := do
  match op with
  | "segment" =>
    let unitsRaw ← getList (getList getBinRaw) (← fld inp "units")
    let runs ← getList (getList getNat) (← fld inp "runs")
    let perArm ← getBool (← fld inp "per_arm")
    let checkLog2 ← getBool (← fld inp "check_log2")
    let skipLow ← getBool (← fld inp "skip_low")
    let minWeight ← getRat (← fld inp "min_weight")
    let units : List (List Bin) := unitsRaw.map fun u => u.map fun (b, outl) =>
      { b with keep := surviveMask skipLow minWeight outl b.log2 b.depth b.weight }
    let segs0 := ((units.zip (runs ++ List.replicate units.length [])).flatMap fun (u, r) => assembleUnit u r)
    let segs := if perArm then segs0.mergeSort segSortLe else segs0
    let keepJ := arrJ (units.map fun u => arrJ (u.map fun b => boolJ b.keep))
    let spec ← (match impl with
      | none => pure Json.null
      | some ij => do
        let o ← getList getSegO ij
        pure (arrJ ((tileSpec units perArm checkLog2 o).map strJ)))
    let armsJ ← (match optFld inp "bins" with
      | some bj => do
        let rows ← getList getBinRaw bj
        pure (arrJ ((byArm (rows.map (·.1))).map fun a => natJ a.length))
      | none => pure Json.null)
    pure (some (obj [("out", arrJ (segs.map segOJ)), ("keep", keepJ), ("spec", spec), ("arms", armsJ),
      ("specm", arrJ ((tileSpec units perArm checkLog2 segs).map strJ))]))
  | "by_arm" =>
    let rows ← getList getBinRaw (← fld inp "bins")
    let arms := byArm (rows.map (·.1))
    pure (some (obj [("out", arrJ (arms.map fun a => natJ a.length))]))
  | "transfer" =>
    -- transfer_fields(segments, cnarr) called on its own: the fallback branches (Model/TileFallback.lean)
    let cn := (← getList getBinRaw (← fld inp "cn")).map (·.1)
    let segs ← getList getSegO (← fld inp "segs")
    let hasWeight ← getBool (← fld inp "has_weight")
    match transferFields hasWeight cn segs with
    | .unchanged o => pure (some (obj [("kind", strJ "unchanged"), ("out", arrJ (o.map segOJ))]))
    | .nullRow r => pure (some (obj [("kind", strJ "null"), ("out", arrJ [segOJ r])]))
    | .table o =>
      -- the Lean spec oracle on the real rows (they carry every column once gene / weight / depth are assigned)
      let spec ← (match impl with
        | some ij =>
          match optFld ij "segs", optFld ij "kind" with
          | some sj, some (Json.str "rows") => do
            let rows ← getList getSegO sj
            pure (arrJ ((transferSpec hasWeight cn rows).map strJ))
          | _, _ => pure Json.null
        | none => pure Json.null)
      pure (some (obj [("kind", strJ "table"), ("out", arrJ (o.map segOJ)), ("spec", spec)]))
  | _ => handleTileOutl op inp impl  -- round 5: op `outlier` (Driver/TileOutlierExt5.lean)

end CnvVerif.Drv
