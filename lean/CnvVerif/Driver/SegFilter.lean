import CnvVerif.Driver.Json
import CnvVerif.Driver.Call
import CnvVerif.Model.SegFilter
open Lean
namespace CnvVerif.Drv

/-- [chrom,s,e,gene,log2,probes,weight,cn,cn1,cn2,ciLo,ciHi,sem] -/
def getSeg (j : Json) : R Seg := do
  let a ← getArr j
  if a.size < 13 then throw "seg needs 13 fields"
  pure { chrom := ← getStr a[0]!, s := ← getInt a[1]!, e := ← getInt a[2]!, gene := ← getStr a[3]!,
         log2 := ← getRat a[4]!, probes := ← getInt a[5]!, weight := ← getRat a[6]!,
         cn := ← getOptRat a[7]!, cn1 := ← getOptRat a[8]!, cn2 := ← getOptRat a[9]!,
         ciLo := ← getOptRat a[10]!, ciHi := ← getOptRat a[11]!, sem := ← getOptRat a[12]! }

def segJ (r : Seg) : Json :=
  arrJ [strJ r.chrom, intJ r.s, intJ r.e, strJ r.gene, ratJ r.log2, intJ r.probes, ratJ r.weight,
        optRatJ r.cn, optRatJ r.cn1, optRatJ r.cn2, optRatJ r.ciLo, optRatJ r.ciHi, optRatJ r.sem]

def levelOf (name : String) : R (Seg → Option Rat) :=
  match name with
  | "cn" => pure levelCn
  | "ci" => pure levelCi
  | "sem" => pure levelSem
  | "ampdel" => pure levelAmpdel
  | f => throw s!"bad filter {f}"

def applyFilter (name : String) (h : Bool) (t : List Seg) : R (List Seg) :=
  match name with
  | "cn" => pure (filterCn h t)
  | "ci" => pure (filterCi h t)
  | "sem" => pure (filterSem h t)
  | "ampdel" => pure (filterAmpdel h t)
  | f => throw s!"bad filter {f}"

def spanOf (t : List Seg) (c : String) : Option (Int × Int) :=
  match t.filter (fun r => r.chrom == c) with
  | [] => none
  | x :: xs => some ((xs.foldl (fun m r => min m r.s) x.s), (xs.foldl (fun m r => max m r.e) x.e))

/-- the property's clauses evaluated on a filter's real output -/
def segFilterSpec (name : String) (h : Bool) (f : Seg → Option Rat) (inp out : List Seg) : List String :=
  let want0 := specSquash h f inp
  let want := if name == "ampdel" then
      -- ampdel then keeps only the cn = 0 or cn >= 5 runs
      ((splitRuns (fullLevel h f) inp).filter (fun g => match g with
        | [] => false
        | x :: _ => f x != some 0)).filterMap squashRegion
    else want0
  let same (a b : Seg) : Bool :=
    a.chrom == b.chrom && a.s == b.s && a.e == b.e && a.probes == b.probes &&
    closeRat a.weight b.weight && closeRat a.log2 b.log2
  let runsOk := out.length == want.length && (out.zip want).all (fun p => same p.1 p.2)
  let chroms := (inp.map (·.chrom)).eraseDups
  let cons :=
    if name == "ampdel" then [] else
    (if sumInt (out.map (·.probes)) == sumInt (inp.map (·.probes)) then [] else ["conserves_probes"]) ++
    (if closeRat (sumRat (out.map (·.weight))) (sumRat (inp.map (·.weight))) then [] else ["conserves_weight"]) ++
    (if chroms.all (fun c => spanOf out c == spanOf inp c) && (out.map (·.chrom)).eraseDups == chroms then []
     else ["conserves_chrom_span"])
  let ext := if name == "ampdel" then
      (if out.all (fun r => match r.cn with
          | some c => c == 0 || c ≥ 5
          | none => false) then [] else ["ampdel_keeps_only_extremes"])
    else []
  (if runsOk then [] else ["maximal_runs_squashed"]) ++ cons ++ ext

/-- distance of the `sem` filter's two comparisons to their boundary (knife-edge rule) -/
def semSlack (t : List Seg) : Rat :=
  (t.flatMap (fun r => match r.sem with
    | none => []      -- a missing sem takes part in no comparison that could go either way
    | some s =>
      let m := s * Generated.SEM_ZSCORE
      [ratAbs (r.log2 + m), ratAbs (r.log2 - m)])).foldl min 1

def handleSegFilter (op : String) (inp : Json) (impl : Option Json) : R (Option Json) := do
  match op with
  | "segfilter" =>
    let t ← getList getSeg (← fld inp "rows")
    let name ← getStr (← fld inp "filter")
    let h ← getBool (← fld inp "has_cn1")
    let f ← levelOf name
    let out ← applyFilter name h t
    let spec ← (match impl with
      | none => pure Json.null
      | some ij => do
        let o ← getList getSeg ij
        pure (arrJ ((segFilterSpec name h f t o).map strJ)))
    let slack : Rat := if name == "sem" then semSlack t else 1
    pure (some (obj [("out", arrJ (out.map segJ)), ("spec", spec), ("slack", ratJ slack),
      ("specm", arrJ ((segFilterSpec name h f t out).map strJ))]))
  | "call_filters" =>
    -- do_call(method="threshold", purity=None, filters=[...]) on a segment table whose log2 values
    -- all lie below the last threshold (so the ratio 2^log2 is never consulted)
    let t ← getList getSeg (← fld inp "rows")
    let filters ← getList getStr (← fld inp "filters")
    let thr ← getList getRat (← fld inp "thr")
    let ploidy ← getNat (← fld inp "ploidy")
    let hapX ← getBool (← fld inp "hapX")
    let mut cur := t
    -- ci and sem act first, in that fixed order, before calling
    for pre in ["ci", "sem"] do
      if filters.contains pre then cur ← applyFilter pre false cur
    let called := cur.map fun r =>
      { r with cn := some ((thresholdCall thr ploidy (refCopiesPure r.chrom ploidy hapX) (some r.log2) 1 : Int) : Rat) }
    let slack0 : Rat := (cur.flatMap (fun r => thr.map (fun th => ratAbs (r.log2 - th)))).foldl min 1
    let slack : Rat := if filters.contains "sem" then min slack0 (semSlack (if filters.contains "ci" then cur else t)) else slack0
    let mut res := called
    for f in filters do
      if f != "ci" && f != "sem" then res ← applyFilter f false res
    -- specification: the same pipeline with the run-based definition of each filter
    let specPipe : R (List Seg) := do
      let mut c := t
      for pre in ["ci", "sem"] do
        if filters.contains pre then c := specSquash false (← levelOf pre) c
      let mut r2 := c.map fun r =>
        { r with cn := some ((thresholdCall thr ploidy (refCopiesPure r.chrom ploidy hapX) (some r.log2) 1 : Int) : Rat) }
      for f in filters do
        if f == "cn" then r2 := specSquash false levelCn r2
        else if f == "ampdel" then
          r2 := ((splitRuns (fullLevel false levelAmpdel) r2).filter (fun g => match g with
            | [] => false
            | x :: _ => levelAmpdel x != some 0)).filterMap squashRegion
      pure r2
    let want ← specPipe
    let same (a b : Seg) : Bool :=
      a.chrom == b.chrom && a.s == b.s && a.e == b.e && a.probes == b.probes &&
      closeRat a.weight b.weight && closeRat a.log2 b.log2
    let spec ← (match impl with
      | none => pure Json.null
      | some ij => do
        let o ← getList getSeg ij
        let ok := o.length == want.length && (o.zip want).all (fun p => same p.1 p.2)
        pure (arrJ ((if ok then [] else ["filter_order_and_runs"]).map strJ)))
    pure (some (obj [("out", arrJ (res.map segJ)), ("spec", spec), ("slack", ratJ slack)]))
  | _ => pure none

end CnvVerif.Drv
