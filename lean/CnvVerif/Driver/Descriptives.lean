/-
  JSON driver for property C19 (cnvlib/descriptives.py, cnvlib/smoothing.py).
  ops: "loc" (biweight_location | modal_location | weighted_median),
       "scale" (mad | iqr | gapper | qn | bivar | wmad | wstd),
       "smooth" (rolling_median | kaiser | savgol | savgol_w).
  `out` = the model's answer; `spec` = the clauses of the property, in its own words, evaluated on the
  implementation's answers (`impl`); `slack` = distance of the model run to its nearest branch boundary.
  The `Spec` section holds definitions written a second time, straight from the published formulas,
  without using the model's functions.
-/
import CnvVerif.Driver.Json
import CnvVerif.Model.Descriptives
import CnvVerif.Model.Smoothing
open Lean
namespace CnvVerif.Drv
open CnvVerif.Desc CnvVerif.Smooth

namespace C19

def tolQ : Rat := 1 / 1000000000

def absQ (q : Rat) : Rat := if q < 0 then -q else q

/-- `|a − b| ≤ 1e-9 · max(1, |b|, extra)` -/
def closeQ (a b : Rat) (extra : Rat := 0) : Bool := absQ (a - b) ≤ tolQ * max (max 1 (absQ b)) extra

def getOptRatList (j : Json) : R (List (Option Rat)) := getList getOptRat j

def optFldD {α} (j : Json) (k : String) (f : Json → R α) (d : α) : R α :=
  match optFld j k with
  | some v => f v
  | none => pure d

def listMin (l : List Rat) : Rat := l.foldl min (l.headD 0)
def listMax (l : List Rat) : Rat := l.foldl max (l.headD 0)
def magnitude (l : List Rat) : Rat := l.foldl (fun m x => max m (absQ x)) 0

/-! ### independent definitions (published formulas) -/
namespace Spec

/-- insertion sort (written here a second time; the model uses `List.mergeSort`) -/
def insertSorted (x : Rat) : List Rat → List Rat
  | [] => [x]
  | y :: ys => if x ≤ y then x :: y :: ys else y :: insertSorted x ys

def isort (l : List Rat) : List Rat := l.foldr insertSorted []

/-- k-th order statistic (0-based) of an already ordered sample -/
def orderStat (sorted : List Rat) (k : Nat) : Rat := sorted.getD k 0

/-- median: middle order statistic, or the mean of the two middle ones -/
def median (l0 : List Rat) : Rat :=
  let l := isort l0
  let n := l.length
  if n % 2 == 1 then orderStat l (n / 2) else (orderStat l (n / 2 - 1) + orderStat l (n / 2)) / 2

/-- Hyndman–Fan type 7 sample quantile: `h = (n−1)q`, `x₍⌊h⌋₎ + (h − ⌊h⌋)(x₍⌊h⌋+1₎ − x₍⌊h⌋₎)` -/
def quantile7 (l0 : List Rat) (q : Rat) : Rat :=
  let l := isort l0
  let h := ((l.length : Rat) - 1) * q
  let j := h.floor.toNat
  let lo := orderStat l j
  if h == (j : Rat) then lo else lo + (h - (j : Rat)) * (orderStat l (j + 1) - lo)

/-- one step of the biweight location (Beers, Flynn & Gebhardt 1990; astropy):
    `M + Σ_{|u|<1} (x−M)(1−u²)² / Σ_{|u|<1} (1−u²)²`, `u = (x−M)/(c·MAD)`; cnvkit guards the
    divisor with `max(c·MAD, 0.001)` -/
def biweightStep (x : List Rat) (m : Rat) : Rat :=
  let mad := median (x.map (fun v => absQ (v - m)))
  let s := max (6 * mad) (1 / 1000)
  let acc := x.foldl (fun (acc : Rat × Rat) v =>
    let u := (v - m) / s
    if absQ u < 1 then
      let wt := (1 - u * u) * (1 - u * u)
      (acc.1 + (v - m) * wt, acc.2 + wt)
    else acc) (0, 0)
  if acc.2 == 0 then m else m + acc.1 / acc.2

/-- iterate from the median, at most 5 steps, until a step moves by ≤ 0.001 -/
def biweightLocation (x : List Rat) (start : Option Rat) : Rat := Id.run do
  let mut m := start.getD (median x)
  let mut r := m
  for _ in [0:5] do
    r := biweightStep x m
    if absQ (r - m) ≤ 1 / 1000 then break
    m := r
  return r

/-- biweight midvariance: (`Σ_{|u|<1} u`, squared estimate
    `n Σ_{|u|<1}(x−M)²(1−u²)⁴ / (Σ_{|u|<1}(1−u²)(1−5u²))²` when its denominator is not 0, the
    documented fall-back `1.4826·MAD` taken when the first component is 0), `u = (x−M)/(9·MAD)` -/
def bivarParts (x : List Rat) (m : Rat) : Rat × Option Rat × Rat :=
  let mad := median (x.map (fun v => absQ (v - m)))
  let s := max (9 * mad) (1 / 1000)
  let kept := x.filter (fun v => decide (absQ ((v - m) / s) < 1))
  let su := (kept.map (fun v => (v - m) / s)).foldl (· + ·) 0
  let num := (kept.map (fun v => let u := (v - m) / s; (v - m) * (v - m) * ((1 - u*u) * (1 - u*u) * (1 - u*u) * (1 - u*u)))).foldl (· + ·) 0
  let den := (kept.map (fun v => let u := (v - m) / s; (1 - u*u) * (1 - 5 * u*u))).foldl (· + ·) 0
  (su, (if den == 0 then none else some ((kept.length : Rat) * num / (den * den))), mad * (7413 / 5000))

def mad (x : List Rat) : Rat :=
  let m := median x
  (7413 / 5000) * median (x.map (fun v => absQ (v - m)))

def iqr (x : List Rat) : Rat := quantile7 x (3 / 4) - quantile7 x (1 / 4)

/-- Wainer & Thissen gapper without `√π`: `Σ_{i=1}^{n−1} i(n−i)(x₍ᵢ₊₁₎ − x₍ᵢ₎) / (n(n−1))` -/
def gapper (x0 : List Rat) : Rat :=
  let x := isort x0
  let n := x.length
  ((List.range (n - 1)).map (fun i =>
    (((i + 1) * (n - (i + 1)) : Nat) : Rat) * (orderStat x (i + 1) - orderStat x i))).foldl (· + ·) 0
    / ((n * (n - 1) : Nat) : Rat)

/-- `Qn` as the docstring of `q_n` defines it: first quartile of `|x_i − x_j|, i < j`, divided by
    1.392 (n ≤ 10), `1 + 4/n` (10 < n < 400) or 1 -/
def qn (x : List Rat) : Rat :=
  let n := x.length
  let idx := List.range n
  let ds := idx.flatMap (fun i => (idx.filter (fun j => i < j)).map (fun j => absQ (x.getD i 0 - x.getD j 0)))
  let cn : Rat := if n ≤ 10 then 174 / 125 else if n < 400 then 1 + 4 / (n : Rat) else 1
  quantile7 ds (1 / 4) / cn

def wmean (p : List (Rat × Rat)) : Rat :=
  (p.foldl (fun s q => s + q.1 * q.2) 0) / (p.foldl (fun s q => s + q.2) 0)

def wvar (p : List (Rat × Rat)) : Rat :=
  let mu := wmean p
  wmean (p.map (fun q => ((q.1 - mu) * (q.1 - mu), q.2)))

/-- total weight of the values satisfying `pr` -/
def weightWhere (pr : Rat → Bool) (p : List (Rat × Rat)) : Rat :=
  p.foldl (fun s q => if pr q.1 then s + q.2 else s) 0

/-- `m` leaves at most half of the total weight strictly on either side (float allowance: 1e-9 on
    the weights, `delta` on the values) -/
def halfWeights (p : List (Rat × Rat)) (m : Rat) (delta : Rat := 0) : Bool :=
  let tot := weightWhere (fun _ => true) p
  let half := tot / 2 * (1 + tolQ)
  weightWhere (fun v => decide (v < m - delta)) p ≤ half && weightWhere (fun v => decide (m + delta < v)) p ≤ half

end Spec

/-! ### slack -/

/-- distance to the nearest integer -/
def intSlackQ (q : Rat) : Rat := let d := q - q.floor; min d (1 - d)

/-- smallest distance of the biweight iteration to one of its branch boundaries
    (`|u| = 1` relative, `|Δ| = ε` relative to ε) -/
def bilocSlack (pre : Bool) (a : List Rat) (initial : Option Rat) : Rat := Id.run do
  let mut m := initial.getD (Desc.median a)
  let mut sl : Rat := 1
  for _ in [0:Generated.BILOC_MAX_ITER] do
    let d := a.map (· - m)
    let s := max (Generated.BILOC_C * Desc.median (d.map absR)) Generated.BILOC_EPS
    for x in d do
      let u := absR (x / s)
      sl := min sl (absQ (u - 1))
      if pre then
        -- unrepaired mask `w < 1`: boundaries at u = 0 (w = 1) and u² = 2
        if x ≠ 0 then sl := min sl (min (u * u) (absQ (u * u - 2)))
    let r := if pre then bilocIterPrefix Generated.BILOC_C Generated.BILOC_EPS a m
             else bilocIter Generated.BILOC_C Generated.BILOC_EPS a m
    sl := min sl (absQ (absR (r - m) - Generated.BILOC_EPS) / Generated.BILOC_EPS)
    if absR (r - m) ≤ Generated.BILOC_EPS then break
    m := r
  return sl

/-- relative distance of the sorted weighted-median run to its comparisons -/
def wmedSlack (pre : Bool) (sp : List (Rat × Rat)) : Rat :=
  let w := sp.map (·.2)
  let tot := w.sum
  if tot ≤ 0 then 0 else
  let mid := tot / 2
  let tol := if pre then 0 else wmedTol sp
  let s1 := (w.map (fun x => absQ (x - mid))).foldl min tot
  let cums := (List.range w.length).map (cumAt w)
  let s2 := (cums.map (fun c => min (absQ (c - (mid - tol))) (absQ (c - (mid + tol))))).foldl min tot
  (min s1 s2) / tot

/-- transport of a model value: exact when short, else truncated to a multiple of 2⁻²⁰⁰
    (exact iteration results have thousands of digits) -/
def ratT (q : Rat) : Json :=
  if q.den < 2 ^ 256 then ratJ q else ratJ ((q * (2 ^ 200 : Nat)).floor / ((2 ^ 200 : Nat) : Rat))

def optRatT : Option Rat → Json
  | none => Json.null
  | some q => ratT q

def scaleOutJ : ScaleOut → Json
  | .direct v => obj [("kind", strJ "direct"), ("v", ratT v)]
  | .root v => obj [("kind", strJ "root"), ("v", ratT v)]
  | .undefined => obj [("kind", strJ "undefined")]

def errJ (e : String) : Json := obj [("error", strJ e)]

def wingErrJ : WingErr → Json
  | .valueError => errJ "ValueError"
  | .assertionError => errJ "AssertionError"

def clausesJ (l : List String) : Json := arrJ (l.map strJ)

def allEqual (l : List Rat) : Bool := l.all (fun x => x == l.headD 0)

end C19
open C19

def handleDescriptives (op : String) (inp : Json) (impl : Option Json) : R (Option Json) := do
  match op with
  | "loc" =>
    let name ← getStr (← fld inp "name")
    let a ← getOptRatList (← fld inp "a")
    let pre ← optFldD inp "prefix" getBool false
    let c ← optFldD inp "c" getRat 0
    let initial ← optFldD inp "initial" getOptRat none
    let clean := a.filterMap id
    -- the implementation's base value, when given (the slack is only worked out when it differs from the model's)
    let implV : Option Rat := match impl with
      | some ij => (match ij.getObjVal? "v" with
        | .ok vj => (match getOptRat vj with | .ok v => v | .error _ => none)
        | .error _ => none)
      | none => none
    -- model
    let (outJ, slack, extraErr) ← (match name with
      | "biweight_location" =>
        let m := biweightLocation a initial pre
        let agrees := match m, implV with
          | some x, some y => closeQ y x
          | _, _ => false
        pure (optRatT m,
              (if clean.length ≥ 2 && !agrees then bilocSlack pre clean initial else 1), ([] : List String))
      | "modal_location" => do
        if clean.length ≤ 1 then pure (optRatJ (onArray none (fun _ => none) a), (1 : Rat), [])
        else if allEqual clean then
          pure ((if pre then errJ "LinAlgError" else ratJ (clean.headD 0)), (1 : Rat), [])
        else
          let dens ← getList getRat (← fld inp "dens")
          let sarr := sortR clean
          if dens.length ≠ sarr.length then throw "dens length"
          let best := listMax dens
          let runnerUp := (dens.filter (fun d => d ≠ best)).foldl max 0
          pure (ratJ (modalCore sarr dens), (best - runnerUp) / best, [])
      | "weighted_median" => do
        let w ← getOptRatList (← fld inp "w")
        if a.length ≠ w.length then pure (errJ "ValueError", (1 : Rat), []) else
        let p := cleanPairs a w
        if p.length ≤ 1 then pure ((match onWeighted none (fun _ => none) a w with
            | .val v => optRatJ v
            | .valueError => errJ "ValueError"), (1 : Rat), [])
        else
          let order ← getList getNat (← fld inp "order")
          let okOrder := validOrder order (p.map (·.1)) 0
          pure (ratT (weightedMedianCore pre order p), wmedSlack pre (permute order p),
                if okOrder then [] else ["argsort_contract"])
      | _ => throw s!"unknown location estimator {name}")
    -- spec on the implementation's answers
    let spec ← (match impl with
      | none => pure Json.null
      | some ij => do
        let v ← getOptRat (← fld ij "v")
        let vs ← optFldD ij "v_shift" getOptRat none
        let hasShift := (optFld ij "v_shift").isSome
        let mag := max (magnitude clean) (absQ c)
        let w ← optFldD inp "w" getOptRatList []
        let p := if name == "weighted_median" then cleanPairs a w else clean.map (fun x => (x, 1))
        let vals := p.map (·.1)
        let clauses : List String :=
          (match v with
           | none => if vals.isEmpty then [] else ["nan_only_for_empty"]
           | some m =>
             (if vals.isEmpty then ["nan_only_for_empty"] else []) ++
             (if vals.isEmpty || (listMin vals - tolQ * max 1 mag ≤ m && m ≤ listMax vals + tolQ * max 1 mag) then []
              else ["loc_in_range"]) ++
             (if hasShift && !vals.isEmpty then
                match vs with
                | none => ["loc_translation"]
                | some m2 =>
                  if closeQ m2 (m + c) mag then []
                  else if name == "modal_location" then
                    -- the density may have (near-)tied peaks: any of them may be reported
                    match optFld inp "dens" with
                    | some dj => match getList getRat dj with
                      | .ok dens =>
                        let sarr := sortR vals
                        let best := listMax dens
                        if (sarr.zip dens).any (fun q => closeQ (q.1 + c) m2 mag && decide (q.2 ≥ best * (1 - 1 / 1000000)))
                        then [] else ["loc_translation"]
                      | .error _ => ["loc_translation"]
                    | none => ["loc_translation"]
                  else ["loc_translation"]
              else []) ++
             (if name == "biweight_location" && vals.length ≥ 2 then
                (if closeQ m (Spec.biweightLocation vals initial) mag then [] else ["biweight_published"])
              else []) ++
             (if name == "modal_location" && vals.length ≥ 1 then
                (if vals.any (fun x => closeQ x m mag) then [] else ["mode_is_a_data_value"])
              else []) ++
             (if name == "weighted_median" && vals.length ≥ 1 then
                let tot := (p.map (·.2)).foldl (· + ·) 0
                let wpos := p.all (fun q => decide (0 ≤ q.2)) && decide (0 < tot)
                (if !wpos || Spec.halfWeights p m (tolQ * max 1 mag) then [] else ["wmedian_half_weights"]) ++
                (if wpos && p.all (fun q => q.2 == (p.headD (0, 0)).2) then
                   (if closeQ m (Spec.median vals) mag then [] else ["wmedian_equal_weights_is_median"])
                 else [])
              else []))
        pure (clausesJ (clauses ++ extraErr)))
    pure (some (obj [("out", outJ), ("slack", ratT slack), ("spec", spec)]))
  | "scale" =>
    let name ← getStr (← fld inp "name")
    let a ← getOptRatList (← fld inp "a")
    let pre ← optFldD inp "prefix" getBool false
    let c ← optFldD inp "c" getRat 0
    let k ← optFldD inp "k" getRat 1
    let initial ← optFldD inp "initial" getOptRat none
    let w ← optFldD inp "w" getOptRatList []
    let weighted := name == "wmad" || name == "wstd"
    let clean := if weighted then (cleanPairs a w).map (·.1) else a.filterMap id
    let p := if weighted then cleanPairs a w else clean.map (fun x => (x, 1))
    let nanJ := obj [("kind", strJ "nan")]
    let direct (v : Rat) : Json := scaleOutJ (.direct v)
    let unweighted (f : List Rat → ScaleOut) : Json :=
      match clean with
      | [] => nanJ
      | [_] => direct 0
      | l => scaleOutJ (f l)
    let (outJ, slack, extraErr) ← (match name with
      | "mad" => pure (unweighted (fun l => .direct (madCore l)), (1 : Rat), ([] : List String))
      | "iqr" => pure (unweighted (fun l => .direct (iqrCore l)), (1 : Rat), [])
      | "gapper" => pure (unweighted (fun l => .direct (gapperCore l)), (1 : Rat), [])
      | "qn" => pure (unweighted (fun l => .direct (qnCore l)), (1 : Rat), [])
      | "bivar" =>
        let implV : Option Rat := match impl with
          | some ij => (match ij.getObjVal? "v" with
            | .ok vj => (match getOptRat vj with | .ok v => v | .error _ => none)
            | .error _ => none)
          | none => none
        let res : Option ScaleOut := if clean.length ≥ 2 then some (bivarCore pre clean initial) else none
        let agrees := match res, implV with
          | some (.direct x), some y => closeQ y x
          | some (.root x), some y => closeQ (y * y) x x
          | _, _ => false
        let sl : Rat := if clean.length ≥ 2 && !agrees then
            let init := initial.getD (biweightLocationCore pre clean none)
            let d := clean.map (· - init)
            let s := max (Generated.BIVAR_C * Desc.median (d.map absR)) Generated.BIVAR_EPS
            let kept := d.filter (fun x => decide (absR (x / s) < 1))
            min (if initial.isSome then 1 else bilocSlack pre clean none)
              (min (absQ ((kept.map (· / s)).sum)) ((d.map (fun x => absQ (absR (x / s) - 1))).foldl min 1))
          else 1
        pure (unweighted (fun l => (res.getD (bivarCore pre l initial))), sl, [])
      | "wmad" | "wstd" => do
        if a.length ≠ w.length then pure (errJ "ValueError", (1 : Rat), []) else
        match p with
        | [] => pure (nanJ, (1 : Rat), [])
        | [q] => pure ((if pre then direct q.1 else direct 0), (1 : Rat), [])
        | _ =>
          if name == "wstd" then
            pure ((match weightedVarCore p with
              | some v => scaleOutJ (.root v)
              | none => errJ "ZeroDivisionError"), (1 : Rat), [])
          else
            let order ← getList getNat (← fld inp "order")
            let order2 ← getList getNat (← fld inp "order2")
            let m := weightedMedianCore pre order p
            let dev := p.map (fun q => (absR (q.1 - m), q.2))
            let mag := max 1 (magnitude clean)
            let ok1 := validOrder order (p.map (·.1)) 0
            let ok2 := validOrder order2 (dev.map (·.1)) (mag / 1000000000000)
            pure (direct (weightedMadCore pre order order2 p),
                  min (wmedSlack pre (permute order p)) (wmedSlack pre (permute order2 dev)),
                  (if ok1 then [] else ["argsort_contract"]) ++ (if ok2 then [] else ["argsort2_mismatch"]))
      | _ => throw s!"unknown scale estimator {name}")
    let spec ← (match impl with
      | none => pure Json.null
      | some ij => do
        let v ← getOptRat (← fld ij "v")
        let vs ← optFldD ij "v_shift" getOptRat none
        let vk ← optFldD ij "v_scale" getOptRat none
        let vmed ← optFldD ij "v_med" getOptRat none
        let hasShift := (optFld ij "v_shift").isSome
        let hasScale := (optFld ij "v_scale").isSome
        let mag := max (max (magnitude clean) (absQ c)) (magnitude clean * absQ k)
        let tot := (p.map (·.2)).foldl (· + ·) 0
        let wpos := p.all (fun q => decide (0 ≤ q.2)) && decide (0 < tot)
        let clauses : List String :=
          (match v with
           | none => if clean.isEmpty then [] else ["nan_only_for_empty"]
           | some s =>
             (if clean.isEmpty then ["nan_only_for_empty"] else []) ++
             (if s ≥ 0 then [] else ["scale_nonneg"]) ++
             (if !clean.isEmpty && allEqual clean && !(absQ s ≤ tolQ * max 1 mag) then ["scale_zero_on_constant"] else []) ++
             (if name != "bivar" && hasShift && !clean.isEmpty then
                (match vs with
                 | some s2 => if closeQ s2 s mag then [] else ["scale_shift_invariant"]
                 | none => ["scale_shift_invariant"]) else []) ++
             (if name != "bivar" && hasScale && !clean.isEmpty then
                (match vk with
                 | some s2 => if closeQ s2 (k * s) mag then [] else ["scale_proportional"]
                 | none => ["scale_proportional"]) else []) ++
             (if clean.length ≥ 2 then
                (match name with
                 | "mad" => if closeQ s (Spec.mad clean) mag then [] else ["mad_published"]
                 | "iqr" => if closeQ s (Spec.iqr clean) mag then [] else ["iqr_published"]
                 | "gapper" => if closeQ s (Spec.gapper clean) mag then [] else ["gapper_published"]   -- `s` arrives divided by √π
                 | "qn" => if clean.length ≤ 40 then (if closeQ s (Spec.qn clean) mag then [] else ["qn_published"]) else []
                 | "bivar" =>
                   let m0 := initial.getD (Spec.biweightLocation clean none)
                   let (su, sqv, fb) := Spec.bivarParts clean m0
                   -- "exactly symmetric" is decided on doubles: within 1e-9 of symmetry either branch is accepted
                   let okFormula := match sqv with
                     | some q => closeQ (s * s) q (mag * mag)
                     | none => false
                   let okFallback := closeQ s fb mag
                   if su == 0 then (if okFallback || okFormula then [] else ["bivar_published"])
                   else if absQ su ≤ tolQ then (if okFallback || okFormula then [] else ["bivar_published"])
                   else (if okFormula then [] else ["bivar_published"])
                 | "wstd" => if !wpos || closeQ (s * s) (Spec.wvar p) (mag * mag) then [] else ["wstd_published"]
                 | "wmad" =>
                   (match vmed with
                    | some m =>
                      if !wpos || Spec.halfWeights (p.map (fun q => (absQ (q.1 - m), q.2))) (s / (7413 / 5000)) (tolQ * max 1 mag) then []
                      else ["wmad_published"]
                    | none => [])
                 | _ => [])
              else []))
        pure (clausesJ (clauses ++ extraErr)))
    pure (some (obj [("out", outJ), ("slack", ratT slack), ("spec", spec)]))
  | "smooth" =>
    let name ← getStr (← fld inp "name")
    let x ← getList getRat (← fld inp "x")
    let pre ← optFldD inp "prefix" getBool false
    let width ← optFldD inp "width" getOptRat none
    let window ← optFldD inp "window" (getList getRat) []
    let ww ← optFldD inp "window_width" getNat Generated.SAVGOL_WINDOW_WIDTH
    let order ← optFldD inp "order" getNat Generated.SAVGOL_ORDER
    let nIter ← optFldD inp "n_iter" getNat 1
    let w ← optFldD inp "w" (getList getRat) []
    let n := x.length
    let okJ (l : List Rat) : Json := arrJ (l.map ratT)
    let geom : Json := match savgolGeometry n width ww order nIter with
      | .ok (a, b, c, d) => arrJ [natJ a, natJ b, natJ c, natJ d]
      | .error _ => Json.null
    let widthSlack : Rat := match width with
      | some wd => if 0 < wd ∧ wd < 1 then intSlackQ ((n : Rat) * wd / 2) else 1
      | none => 1
    let outJ ← (match name with
      | "rolling_median" => do
        let wd ← (match width with | some q => pure q | none => throw "width required")
        pure (match (if pre then rollingMedianPrefix x wd else rollingMedian x wd) with
          | .ok l => okJ l
          | .error e => wingErrJ e)
      | "kaiser" => do
        let wd ← (match width with | some q => pure q | none => throw "width required")
        -- the window was made by the harness for the half-width the real `_width2wing` gave; a different
        -- half-width in the model (float vs exact `ceil(n·width/2)`) is reported, not computed with
        let mismatch : Bool := n ≥ 2 && (match width2wing wd n with
          | .ok wing => window.length ≠ 2 * wing + 1
          | .error _ => false)
        if mismatch then pure (errJ "geometry") else
        pure (match Smooth.kaiser x wd window with
          | .ok l => okJ l
          | .error e => wingErrJ e)
      | "savgol" | "savgol_w" => do
        let mismatch : Bool := n ≥ 2 && (match savgolGeometry n width ww order nIter with
          | .ok (_, w2, _, _) => window.length ≠ w2
          | .error _ => false)
        if mismatch then pure (errJ "geometry") else
        if name == "savgol" then
          pure (match Smooth.savgol x width ww order nIter window with
            | .ok l => okJ l
            | .error e => wingErrJ e)
        else
          if w.length ≠ n then throw "weights length"
          pure (match savgolWeighted x w width ww order nIter window with
            | .ok l => arrJ (l.map optRatT)
            | .error e => wingErrJ e)
      | _ => throw s!"unknown smoother {name}")
    let spec ← (match impl with
      | none => pure Json.null
      | some ij => do
        let y ← getOptRatList ij
        let mag := max 1 (magnitude x)
        let lo := listMin x
        let hi := listMax x
        let fin := y.filterMap id
        let windowOk : List String :=
          if name == "kaiser" && !window.isEmpty then
            (if window.all (fun q => decide (0 ≤ q)) && decide (0 < window.sum) then [] else ["kaiser_window_nonneg"])
          else if name == "savgol" && !window.isEmpty then
            (if closeQ window.sum 1 then [] else ["savgol_coeffs_sum_to_one"])
          else []
        let clauses : List String :=
          (if y.length == n then [] else ["one_value_per_input"]) ++
          (if y.all (·.isSome) then [] else ["smooth_finite"]) ++
          (if n ≥ 1 && allEqual x && !(fin.all (fun v => closeQ v (x.headD 0) mag)) then ["constant_reproduced"] else []) ++
          (if (name == "rolling_median" || name == "kaiser") && n ≥ 1 &&
              !(fin.all (fun v => decide (lo - tolQ * mag ≤ v) && decide (v ≤ hi + tolQ * mag))) then ["smooth_in_range"] else [])
        pure (clausesJ (clauses ++ windowOk)))
    -- weighted smoothing: the smallest window weight sum |N_i| (first pass) relative to the largest weight
    let denomSlack : Rat :=
      if name == "savgol_w" && n ≥ 2 && w.length == n then
        match savgolGeometry n width ww order nIter with
        | .ok (wing, _, _, _) =>
          let wts := rollOff (padArray w wing) wing
          let ns := unpad (convSame (normalise window) wts) wing
          let scale := max (magnitude wts) (1 / 1000000000000)
          (ns.map (fun v => absQ v / scale)).foldl min 1
        | .error _ => 1
      else 1
    pure (some (obj [("out", outJ), ("geom", geom), ("slack", ratT (min widthSlack denomSlack)), ("spec", spec)]))
  | _ => pure none

end CnvVerif.Drv
