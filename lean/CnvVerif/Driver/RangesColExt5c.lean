/-
  Driver for Model/RangesColExt5c.lean (C07, extension 5c): `iter_ranges_of` with any column name.
  `impl` is `{"vals": [[str]]}` or `{"raise": "<ExceptionName>"}`.
-/
import CnvVerif.Driver.Json
import CnvVerif.Driver.RangesExt5
import CnvVerif.Driver.Interval
import CnvVerif.Model.RangesColExt5c
import CnvVerif.Model.IntervalSpec
open Lean
namespace CnvVerif.Drv

def handleC07Col (op : String) (inp : Json) (impl : Option Json) : R (Option Json) := do
  match op with
  | "iter_ranges_of_col" =>
    let a ← getTable (← fld inp "a")
    let b ← getTable (← fld inp "b")
    let mode ← getMode (← fld inp "mode")
    let ke ← getBool (← fld inp "keep_empty")
    let cols ← getList getStr (← fld inp "cols")
    let column ← getStr (← fld inp "column")
    let res := c07IterRangesOf cols column a b mode ke
    let toJ (l : List (List String)) : Json := arrJ (l.map (fun x => arrJ (x.map strJ)))
    -- the property's wording: per range of `other` (in its order) the column values of the rows selected by the mode
    let expect := ((byRangesSpec a b mode.idx true).map (fun p => p.2.map (c07ColCell column))).filter
      (fun l => ke || !l.isEmpty)
    let present := cols.contains column
    let spVals (o : List (List String)) : List String :=
      (if present then [] else ["iter_ranges_of_missing_column_must_raise"]) ++
      (if o == expect then [] else ["iter_ranges_of_column_exact"])
    let spRaise : List String := if present then ["iter_ranges_of_raises_on_existing_column"] else []
    let outJ : Json := match res with
      | .ok o => obj [("vals", toJ o)]
      | .error e => obj [("raise", strJ (c07ErrName e))]
    let specm : List String := match res with
      | .ok o => spVals o
      | .error _ => spRaise
    let spec ← (match impl with
      | none => pure Json.null
      | some j =>
        match optFld j "raise" with
        | some _ => pure (arrJ (spRaise.map strJ))
        | none => do pure (arrJ ((spVals (← getList (getList getStr) (← fld j "vals"))).map strJ)))
    pure (some (obj [("out", outJ), ("spec", spec), ("specm", arrJ (specm.map strJ))]))
  | _ => pure none

end CnvVerif.Drv
