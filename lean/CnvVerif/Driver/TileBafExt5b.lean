import CnvVerif.Driver.Tile
import CnvVerif.Driver.Vcf
import CnvVerif.Model.TileBafExt5b
open Lean
namespace CnvVerif.Drv
open CnvVerif.Vcf

/-- C03 round 5b: `do_segmentation(bins, method, variants=tb)` for a non-HMM method, no segment re-split.
    Input as for op `segment` (units, runs, filters) plus the variant table; `impl` = the real `baf` column.
    `out` = segments and BAF column of the model (`C03Baf.doSegBaf`, rows sorted as `cnarr.concat` sorts them);
    `spec` = the property's wording on the real column: value k is the BAF of range k's own SNVs (`ownBafs`) -/
def handleTileBaf (op : String) (inp : Json) (impl : Option Json) : R (Option Json) := do
  match op with
  | "seg_baf" =>
    let unitsRaw ← getList (getList getBinRaw) (← fld inp "units")
    let runs ← getList (getList getNat) (← fld inp "runs")
    let skipLow ← getBool (← fld inp "skip_low")
    let minWeight ← getRat (← fld inp "min_weight")
    let tb ← vGetTable (← fld inp "table")
    let units : List (List Bin) := unitsRaw.map fun u => u.map fun (b, outl) =>
      { b with keep := surviveMask skipLow minWeight outl b.log2 b.depth b.weight }
    let runs' := runs ++ List.replicate units.length []
    let rows := (C03Baf.doSegBaf tb C03Baf.keepWhole units runs').mergeSort (fun a b => segSortLe a.1 b.1)
    -- the property's column, carried through the same row sort
    let own := (((units.zip runs').flatMap fun (u, r) => assembleUnit u r).zip (C03Baf.ownBafs tb units runs')).mergeSort
      (fun a b => segSortLe a.1 b.1)
    let spec ← (match impl with
      | none => pure Json.null
      | some ij => do
        let im ← getList getOptRat ij
        if im.length != own.length then pure (vClausesJ ["one_baf_per_segment"]) else
        pure (vClausesJ (
          (if (im.zip own).all (fun p => p.1.isNone == p.2.2.isNone) then [] else ["baf_missing_iff_no_snv_in_own_range"]) ++
          (if (im.zip own).all (fun p => p.1.isNone || p.2.2.isNone || vCloseOpt p.1 p.2.2 ||
                vCloseOpt p.1 (p.2.2.map (fun x => 1 - x))) then [] else ["baf_of_own_range"]))))
    pure (some (obj [("out", arrJ (rows.map fun p => segOJ p.1)), ("baf", vOptRatsJ (rows.map (·.2))),
      ("own", vOptRatsJ (own.map (·.2))), ("spec", spec)]))
  | _ => pure none

end CnvVerif.Drv
