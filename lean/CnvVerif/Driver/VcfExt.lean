/-
  JSON driver for the command-line glue of property C18 (Model/VcfExt.lean).
  op: vcf_cliopts  in: {cmd, sid, nid, min_depth (null = option left out), zyg (null = left out, "bare", or a number)}
                   impl: [sample_id, normal_id, min_variant_depth, zygosity_freq, tumor_boost] as load_het_snps received them
-/
import CnvVerif.Driver.Json
import CnvVerif.Model.VcfExt
open Lean
namespace CnvVerif.Drv
open CnvVerif.Vcf

def xOptStrJ : Option String → Json
  | some s => strJ s
  | none => Json.null

def xOptIntJ : Option Int → Json
  | some i => intJ i
  | none => Json.null

def xLhsJ (l : LhsArgs) : Json :=
  arrJ [xOptStrJ l.sampleId, xOptStrJ l.normalId, xOptIntJ l.minVariantDepth, optRatJ l.zygosityFreq, boolJ l.tumorBoost]

def xGetLhs (j : Json) : R LhsArgs := do
  let a ← getArr j
  if a.size < 5 then throw "load_het_snps arguments: 5 fields"
  pure { sampleId := ← getOptStr a[0]!, normalId := ← getOptStr a[1]!, minVariantDepth := ← getOptInt a[2]!,
         zygosityFreq := ← getOptRat a[3]!, tumorBoost := ← getBool a[4]! }

def xGetCli (inp : Json) : R CliVcfArgs := do
  let zyg ← (match optFld inp "zyg" with
    | none => pure none
    | some (.str "bare") => pure (some none)
    | some j => do pure (some (some (← getRat j))))
  pure { sampleId := ← getOptStr (← fld inp "sid"), normalId := ← getOptStr (← fld inp "nid"),
         minVariantDepth := ← getOptInt (← fld inp "min_depth"), zygosityFreq := zyg }

def handleVcfExt (op : String) (inp : Json) (impl : Option Json) : R (Option Json) := do
  match op with
  | "vcf_cliopts" =>
    let cmd ← getStr (← fld inp "cmd")
    let a ← xGetCli inp
    let out := match cliLhsArgs cmd a with
      | some l => xLhsJ l
      | none => obj [("error", strJ "outside")]
    let spec ← (match impl with
      | none => pure Json.null
      | some ij =>
        match ij.getObjVal? "error" with
        | .ok _ => pure (arrJ [strJ "cli_reads_the_vcf_options"])
        | .error _ => do
          let l ← xGetLhs ij
          let d := cliDocumented a
          pure (arrJ ((
            (if l.sampleId == d.sampleId && l.normalId == d.normalId then [] else ["cli_sample_ids_as_given"]) ++
            (if l.minVariantDepth == d.minVariantDepth then [] else ["cli_depth_filter_as_asked"]) ++
            (if l.zygosityFreq == d.zygosityFreq then [] else ["cli_zygosity_freq_as_asked"]) ++
            (if l.tumorBoost == d.tumorBoost then [] else ["cli_frequencies_not_boosted"])).map strJ)))
    pure (some (obj [("out", out), ("spec", spec)]))
  | _ => pure none

end CnvVerif.Drv
