import CnvVerif.Driver.Json
import CnvVerif.Driver.Center
import CnvVerif.Model.SexExt
import CnvVerif.Driver.SexExt5
open Lean
namespace CnvVerif.Drv

def moodJ (t : MoodTable) : Json := arrJ [natJ t.aAbove, natJ t.aBelow, natJ t.vAbove, natJ t.vBelow]

/-- op `sex_margin`: `compare_sex_chromosomes` from the bin values (no weight column).  `stats` carries what
    scipy's `median_test` returned for each of the (up to) four comparisons: `null` = it raised ValueError,
    otherwise the raw statistic.  The model decides by itself which comparisons are degenerate (exact
    contingency tables) and uses the supplied numbers only as the parameter `G` on the others. -/
def handleSexExt (op : String) (inp : Json) (impl : Option Json) : R (Option Json) := do
  match op with
  | "sex_margin" =>
    let t ← getList getCBin (← fld inp "rows")
    let hapX ← getBool (← fld inp "hapX")
    let female ← getBool (← fld inp "female")
    let a ← getRat (← fld inp "a")
    let d ← getRat (← fld inp "d")
    let first := (t.head?.map (·.chrom)).getD ""
    let auto := (autosomesOf first none t).map (·.log2)
    let xs := (t.filter (fun b => classOf first none b.chrom b.s b.e == .x)).map (·.log2)
    let ys := (t.filter (fun b => classOf first none b.chrom b.s b.e == .y)).map (·.log2)
    let stats ← fld inp "stats"
    let st (k : String) : R (Option Rat) := match optFld stats k with
      | some j => getOptRat j
      | none => pure none
    let sxF ← st "xF"
    let sxM ← st "xM"
    let syF ← st "yF"
    let syM ← st "yM"
    let txF := moodTable auto (shiftVals xs (xShifts hapX).1)
    let txM := moodTable auto (shiftVals xs (xShifts hapX).2)
    let tyF := moodTable auto (shiftVals ys yShifts.1)
    let tyM := moodTable auto (shiftVals ys yShifts.2)
    let used : List (String × MoodTable × Option Rat) :=
      [("xF", txF, sxF), ("xM", txM, sxM)] ++ (if ys.isEmpty then [] else [("yF", tyF, syF), ("yM", tyM, syM)])
    -- scipy raised exactly on the tables the model calls degenerate
    let degMismatch := used.filterMap fun (k, tb, s) =>
      if tb.degenerate == s.isNone then none else some (strJ k)
    let G : MoodTable → Rat := fun tb =>
      match used.find? (fun (_, tb', _) => tb' == tb) with
      | some (_, _, some s) => s
      | _ => 0
    -- tables with a weight column: the five location estimates are what the real `descriptives.weighted_median`
    -- returned (parameters, like scipy's statistics; their staying within the data's range is C19's theorem)
    let est? := optFld inp "est"
    let estOf (k : String) : R (Option Rat) := match est? with
      | some e => (match optFld e k with
        | some j => getOptRat j
        | none => pure none)
      | none => pure none
    let eA ← estOf "A"
    let eXF ← estOf "XF"
    let eXM ← estOf "XM"
    let eYF ← estOf "YF"
    let eYM ← estOf "YM"
    let weighted := est?.isSome
    let A := eA.getD (medianR auto)
    let cmp (vals : List Rat) (sh : Rat) (loc : Option Rat) : AutoCmp :=
      let c := compareToAuto G auto (shiftVals vals sh)
      if weighted then { c with diff := absR (A - loc.getD 0) } else c
    let sx := compareChrom (cmp xs (xShifts hapX).1 eXF) (cmp xs (xShifts hapX).2 eXM)
    let sy := if ys.isEmpty then none else some (compareChrom (cmp ys yShifts.1 eYF) (cmp ys yShifts.2 eYM))
    let score := sexScore sx sy
    let isM := decide (score > 1)
    let rowsWithin := withinMargin hapX female a d auto xs ys
    let eX : Rat := (if female then 0 else -1) + (if hapX then 1 else 0)
    -- the estimates are doubles computed from `vals + shift` in floating point: the theorem is applied with the
    -- radius widened by 1e-12 (it holds for every radius below 1/4)
    let dE : Rat := d + 1 / 1000000000000
    let near (v : Option Rat) (lvl : Rat) : Bool := match v with
      | some q => decide (absR (q - lvl) ≤ dE)
      | none => false
    -- hypotheses of `sex_inferred_within_margin_any_estimator`, on the supplied estimates
    let hypEst := decide (0 ≤ d) && decide (4 * dE < 1) && near eA a &&
      near eXF (a + eX + (xShifts hapX).1) && near eXM (a + eX + (xShifts hapX).2) &&
      (ys.isEmpty || (match eYF, eYM with
        | some yf, some ym =>
          if female then decide (absR (yf - (ym + 3)) ≤ dE) && decide (ym ≤ a - 2)
          else decide (absR (yf - (a + 3)) ≤ dE) && decide (absR (ym - a) ≤ dE)
        | _, _ => false))
    let hyp := if weighted then hypEst else rowsWithin
    let alldeg := allDegenerate hapX auto xs ys
    let fbMale := if weighted
      then sexIsMaleOfEstimates A (eXF.getD 0) (eXM.getD 0)
             (if ys.isEmpty then none else some (eYF.getD 0, eYM.getD 0))
      else sexIsMaleFallback hapX auto xs ys
    let spec ← (match impl with
      | none => pure Json.null
      | some ij => do
        let im ← getBool (← fld ij "is_male")
        let rep ← getStr (← fld ij "report")
        let claim := hyp && alldeg
        pure (arrJ (((if claim && im != !female then ["sex_inferred_within_margin"] else []) ++
                     (if claim && rep != (if female then "Female" else "Male") then ["sex_report_within_margin"] else [])
                    ).map strJ)))
    pure (some (obj [("out", obj [("is_male", boolJ isM), ("chrx_male_lr", ratJ sx), ("score", ratJ score),
                                   ("hyp", boolJ hyp), ("all_degenerate", boolJ alldeg),
                                   ("fallback_is_male", boolJ fbMale), ("rows_within", boolJ rowsWithin),
                                   ("tables", arrJ (used.map fun (_, tb, _) => moodJ tb)),
                                   ("deg_mismatch", arrJ degMismatch)]),
                     ("slack", ratJ (absR (score - 1))), ("spec", spec)]))
  | _ => handleSexExt5 op inp impl   -- round 5: the glue ops (Driver/SexExt5.lean)

end CnvVerif.Drv
