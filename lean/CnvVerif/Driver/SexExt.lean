import CnvVerif.Driver.Json
import CnvVerif.Driver.Center
import CnvVerif.Model.SexExt
open Lean
namespace CnvVerif.Drv

def moodJ (t : MoodTable) : Json := arrJ [natJ t.aAbove, natJ t.aBelow, natJ t.vAbove, natJ t.vBelow]

/-- op `sex_margin`: `compare_sex_chromosomes` from the bin values (no weight column).  `stats` carries what
    scipy's `median_test` returned for each of the (up to) four comparisons: `null` = it raised ValueError,
    otherwise the raw statistic.  The model decides by itself which comparisons are degenerate (exact
    contingency tables) and uses the supplied numbers only as the parameter `G` on the others. -/
def handleSexExt (op : String) (inp : Json) (impl : Option Json) : R (Option Json) := do
  match op with
  | "sex_margin" =>
    let t ← getList getCBin (← fld inp "rows")
    let hapX ← getBool (← fld inp "hapX")
    let female ← getBool (← fld inp "female")
    let a ← getRat (← fld inp "a")
    let d ← getRat (← fld inp "d")
    let first := (t.head?.map (·.chrom)).getD ""
    let auto := (autosomesOf first none t).map (·.log2)
    let xs := (t.filter (fun b => classOf first none b.chrom b.s b.e == .x)).map (·.log2)
    let ys := (t.filter (fun b => classOf first none b.chrom b.s b.e == .y)).map (·.log2)
    let stats ← fld inp "stats"
    let st (k : String) : R (Option Rat) := match optFld stats k with
      | some j => getOptRat j
      | none => pure none
    let sxF ← st "xF"
    let sxM ← st "xM"
    let syF ← st "yF"
    let syM ← st "yM"
    let txF := moodTable auto (shiftVals xs (xShifts hapX).1)
    let txM := moodTable auto (shiftVals xs (xShifts hapX).2)
    let tyF := moodTable auto (shiftVals ys yShifts.1)
    let tyM := moodTable auto (shiftVals ys yShifts.2)
    let used : List (String × MoodTable × Option Rat) :=
      [("xF", txF, sxF), ("xM", txM, sxM)] ++ (if ys.isEmpty then [] else [("yF", tyF, syF), ("yM", tyM, syM)])
    -- scipy raised exactly on the tables the model calls degenerate
    let degMismatch := used.filterMap fun (k, tb, s) =>
      if tb.degenerate == s.isNone then none else some (strJ k)
    let G : MoodTable → Rat := fun tb =>
      match used.find? (fun (_, tb', _) => tb' == tb) with
      | some (_, _, some s) => s
      | _ => 0
    let cta := compareToAuto G auto
    let sx := compareChromOf cta shiftVals xs (xShifts hapX).1 (xShifts hapX).2
    let sy := if ys.isEmpty then none else some (compareChromOf cta shiftVals ys yShifts.1 yShifts.2)
    let score := sexScore sx sy
    let isM := sexIsMale G hapX auto xs ys
    let hyp := withinMargin hapX female a d auto xs ys
    let alldeg := allDegenerate hapX auto xs ys
    let spec ← (match impl with
      | none => pure Json.null
      | some ij => do
        let im ← getBool (← fld ij "is_male")
        let rep ← getStr (← fld ij "report")
        let claim := hyp && alldeg
        pure (arrJ (((if claim && im != !female then ["sex_inferred_within_margin"] else []) ++
                     (if claim && rep != (if female then "Female" else "Male") then ["sex_report_within_margin"] else [])
                    ).map strJ)))
    pure (some (obj [("out", obj [("is_male", boolJ isM), ("chrx_male_lr", ratJ sx), ("score", ratJ score),
                                   ("hyp", boolJ hyp), ("all_degenerate", boolJ alldeg),
                                   ("fallback_is_male", boolJ (sexIsMaleFallback hapX auto xs ys)),
                                   ("tables", arrJ (used.map fun (_, tb, _) => moodJ tb)),
                                   ("deg_mismatch", arrJ degMismatch)]),
                     ("slack", ratJ (absR (score - 1))), ("spec", spec)]))
  | _ => pure none

end CnvVerif.Drv
