import CnvVerif.Driver.Json
import CnvVerif.Model.Reference
import CnvVerif.Model.ReferenceExt
open Lean
namespace CnvVerif.Drv.Reference
open CnvVerif.Drv CnvVerif.Ref

/-- [chrom,s,e,gene,log2,depth] -/
def getCov (j : Json) : R CovRow := do
  let a ← getArr j
  if a.size < 6 then throw "covrow needs 6 fields"
  pure { chrom := ← getStr a[0]!, s := ← getInt a[1]!, e := ← getInt a[2]!, gene := ← getStr a[3]!,
         log2 := ← getRat a[4]!, depth := ← getRat a[5]! }

def getSample (j : Json) : R Sample := do
  pure { name := ← getStr (← fld j "name"), rows := ← getList getCov (← fld j "rows") }

def scaleJ : Desc.ScaleOut → Json
  | .direct v => arrJ [strJ "direct", ratJ v]
  | .root v => arrJ [strJ "root", ratJ v]
  | .undefined => arrJ [strJ "undefined"]

def absQ' (q : Rat) : Rat := if q < 0 then -q else q
def closeQ' (a b : Rat) (tol : Rat) : Bool := absQ' (a - b) ≤ tol * max 1 (absQ' b)

/-- impl row [chrom,s,e,gene,log2,depth,spread] -/
def getOut (j : Json) : R (String × Int × Int × String × Rat × Rat × Rat) := do
  let a ← getArr j
  pure (← getStr a[0]!, ← getInt a[1]!, ← getInt a[2]!, ← getStr a[3]!, ← getRat a[4]!, ← getRat a[5]!, ← getRat a[6]!)

/-- {"fasta_gc": [..]|null, "fasta_rm": [..]|null, "file_gc": [..]|null, "edge": [..], "perm": [..], "wing": n} -/
def getKeys (j : Json) : R BlockKeys := do
  let keys (k : String) : R (Option (List Rat)) := match optFld j k with
    | some v => do pure (some (← getList getRat v))
    | none => pure none
  pure { fastaGc := ← keys "fasta_gc", fastaRm := ← keys "fasta_rm", fileGc := ← keys "file_gc",
         edge := ← getList getRat (← fld j "edge"),
         perm := ← getList getNat (← fld j "perm"), wing := ← getNat (← fld j "wing") }

/-- [[id, true|false|null], ..]: `guess_xx`'s answer per file -/
def getInf (j : Json) : R (List (String × Option Bool)) :=
  getList (fun x => do
    let a ← getArr x
    let b ← (match a[1]! with
      | Json.null => pure none
      | v => do pure (some (← getBool v)))
    pure (← getStr a[0]!, b)) j

def handleReference (op : String) (inp : Json) (impl : Option Json) : R (Option Json) := do
  match op with
  | "reference" =>
    let hapX ← getBool (← fld inp "hapX")
    let par ← getOptStr (← fld inp "par")
    let tgt ← getList getSample (← fld inp "targets")
    let anti ← (match optFld inp "antitargets" with
      | some j => do pure (some (← getList getSample j))
      | none => pure none)
    let sexes0 ← getList (fun x => do
      let a ← getArr x
      pure (← getStr a[0]!, ← getBool a[1]!)) (← fld inp "sexes")
    -- round 4: the sexes as `do_reference` determines them from the per-file answers of `guess_xx`
    let sexes ← (match optFld inp "sex_inputs" with
      | some sj => do
        let given ← (match optFld sj "given" with
          | some v => do pure (some (← getBool v))
          | none => pure none)
        pure (resolveSexes given (← getList getStr (← fld sj "target_ids")) (← getInf (← fld sj "t_inf"))
                (← getInf (← fld sj "a_inf")))
      | none => pure sexes0)
    -- round 4: the bias corrections inside the model
    -- "corr": {"do_gc", "do_edge", "do_rmask", "t": keys, "a": keys}
    let emptyKeys : BlockKeys := { fastaGc := none, fastaRm := none, fileGc := none, edge := [], perm := [], wing := 1 }
    let (res, edgeDev) ← (match optFld inp "corr" with
      | none => pure (doReference hapX par sexes tgt anti, (0 : Rat))
      | some cj => do
        let doGc ← getBool (← fld cj "do_gc")
        let doEdge ← getBool (← fld cj "do_edge")
        let doRmask ← getBool (← fld cj "do_rmask")
        let kT ← getKeys (← fld cj "t")
        let kA ← (match optFld cj "a" with | some aj => getKeys aj | none => pure emptyKeys)
        -- largest deviation of the supplied (float) edge-bias keys from the exact formula of `get_edge_bias`
        let dev : Rat := match (sortSamples tgt).head? with
          | some f =>
            let exact := edgeBias (f.rows.map (fun r => toS r r.log2)) Generated.INSERT_SIZE
            if exact.length == kT.edge.length then ((kT.edge.zip exact).map (fun p => absQ' (p.1 - p.2))).foldl max 0
            else 1
          | none => 0
        pure (doReferenceOpts doGc doEdge doRmask kT kA hapX par sexes tgt anti, dev))
    let outJ : Json := match res with
      | .ok rows => arrJ (rows.map fun o =>
          arrJ [strJ o.chrom, intJ o.s, intJ o.e, strJ o.gene, ratJ o.log2, ratJ o.depth, scaleJ o.spread])
      | .error (.binsDiffer f) => obj [("error_kind", strJ "bins_differ"), ("file", strJ f)]
      | .error .unequalCounts => obj [("error_kind", strJ "unequal_counts")]
    -- the property's consequence clauses, on the real output
    let ideal ← (match optFld inp "ideal" with
      | some (Json.bool b) => pure b
      | _ => pure false)
    let profT ← (match optFld inp "profile_t" with | some j => getList getRat j | none => pure [])
    let profA ← (match optFld inp "profile_a" with | some j => getList getRat j | none => pure [])
    let spec ← (match impl with
      | none => pure Json.null
      | some ij => do
        let o ← getList getOut ij
        let first := match (sortSamples tgt).head? with | some s => s.rows | none => []
        let firstA := match anti with
          | some a => (match (sortSamples a).head? with | some s => s.rows | none => [])
          | none => []
        let wantBins := ((first ++ firstA).map binKey)
        let gotBins := o.map fun r => (r.1, r.2.1, r.2.2.1, r.2.2.2.1)
        -- exactly the bins of the coverage files (as a set; order is genomic)
        let binsOk := wantBins.all (gotBins.contains ·) && gotBins.all (wantBins.contains ·) &&
                      gotBins.length == wantBins.length
        -- ideal cohorts (>= 2 samples differing only in depth and sex): common profile, spread ~ 0,
        -- X at -1 / 0 for a male / female reference, Y at -1
        let x0 := (first.head?.map (·.chrom)).getD ""
        -- expected value of a bin: the cohort's common profile, median-centred like every sample, plus the
        -- level of its chromosome in the chosen reference sex (X: -1 male / 0 female reference; Y: -1)
        let expectOf (rows : List CovRow) (prof : List Rat) : List ((String × Int × Int) × Rat) :=
          let tbl : List CBin := (rows.zip prof).map fun (r, q) => { chrom := r.chrom, s := r.s, e := r.e, log2 := q, depth := some 1 }
          let sh := centerShift medianR true false par tbl
          (rows.zip prof).map fun (r, q) =>
            let lvl : Rat := match classOf x0 par r.chrom r.s r.e with
              | .x => if hapX then -1 else 0
              | .y => -1 - q - sh      -- Y is at the single-copy level whatever the profile
              | _ => 0
            ((r.chrom, r.s, r.e), q + sh + lvl)
        let expected := expectOf first profT ++ expectOf firstA profA
        let levelsOk := !ideal || o.all fun r =>
          (match expected.find? (fun kv => kv.1 == (r.1, r.2.1, r.2.2.1)) with
           | some kv => absQ' (r.2.2.2.2.1 - kv.2) ≤ 1/1000
           | none => false) && absQ' r.2.2.2.2.2.2 ≤ 1/1000
        pure (arrJ (((if binsOk then [] else ["reference_has_exactly_the_bins"]) ++
                     (if levelsOk then [] else ["sex_levels_and_zero_spread"])).map strJ)))
    -- did the corrections change any value (non-triviality of a corrections-on case)?
    let corrEffect : Bool := match optFld inp "corr", res, doReference hapX par sexes tgt anti with
      | some _, .ok a, .ok b => a.map (·.log2) != b.map (·.log2)
      | _, _, _ => false
    pure (some (obj [("out", outJ), ("spec", spec), ("edge_dev", ratJ edgeDev), ("corr_effect", boolJ corrEffect),
                     ("sexes", arrJ (sexes.map fun p => arrJ [strJ p.1, boolJ p.2]))]))
  | "flat_reference" =>
    let hapX ← getBool (← fld inp "hapX")
    let par ← getOptStr (← fld inp "par")
    let bins ← getList getCov (← fld inp "bins")
    let out := flatReference hapX par bins
    pure (some (obj [("out", arrJ (out.map fun (r, v) => arrJ [strJ r.chrom, intJ r.s, intJ r.e, ratJ v])),
                     ("spec", arrJ [])]))
  | "gc_rmask" =>
    let s ← getStr (← fld inp "seq")
    let (g, m) := gcRmask s.toList
    pure (some (obj [("out", arrJ [ratJ g, ratJ m]), ("spec", arrJ [])]))
  | _ => pure none

end CnvVerif.Drv.Reference
