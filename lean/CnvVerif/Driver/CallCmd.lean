import CnvVerif.Driver.Call
import CnvVerif.Model.CallCmd
open Lean
namespace CnvVerif.Drv

/-- op `cmd_call`: `cnvkit.py call` as `_cmd_call` runs it.  Input = the fields of op `call` (rows as READ from the file)
    plus `center_at`, `center`, `sex_arg`, `guessed_female`, `rows_shift` (the rows with `log2 - center_at` and its antilog).
    Impl = `{"error": name}` when the command raised, else the rows of the written table. -/
def handleCallCmd (op : String) (inp : Json) (impl : Option Json) : R (Option Json) := do
  match op with
  | "cmd_call" =>
    let ploidy ← getNat (← fld inp "ploidy")
    let hapX ← getBool (← fld inp "hapX")
    let par ← getOptStr (← fld inp "par")
    let purity ← getOptRat (← fld inp "purity")
    let centerAt ← (match optFld inp "center_at" with | some j => do pure (some (← getRat j)) | none => pure none)
    let center ← (match optFld inp "center" with | some j => do pure (some (← getStr j)) | none => pure none)
    let sexArg ← (match optFld inp "sex_arg" with | some j => do pure (some (← getStr j)) | none => pure none)
    let guessed ← (match optFld inp "guessed_female" with | some j => getBool j | none => pure false)
    let args : CmdCallArgs := { purity, centerAt, center, sampleSex := sexArg }
    let implErr : Option String := match impl with
      | some j => (match optFld j "error" with
        | some (Json.str s) => some s
        | _ => none)
      | none => none
    match cmdCallPlan args ploidy hapX par guessed [] with
    | .error e =>
      -- the command must refuse; nothing is written
      pure (some (obj [("out", obj [("error", strJ e)]), ("slack", arrJ []), ("spec", arrJ []),
                       ("refused", boolJ true), ("impl_refused", boolJ (implErr == some e))]))
    | .ok (rc, cfg) =>
      match implErr with
      | some e => pure (some (obj [("out", Json.null), ("slack", arrJ []), ("spec", arrJ []),
                                   ("refused", boolJ false), ("impl_refused", boolJ true), ("impl_error", strJ e)]))
      | none =>
      let rowsKey ← (match rc with
        | .shiftBy _ => pure "rows_shift"
        | .none => pure "rows"
        | .estimator _ => throw "estimator re-centring is outside this model")
      let inp' := (inp.setObjVal! "rows" (← fld inp rowsKey)).setObjVal! "female" (boolJ cfg.female)
      match ← handleCall "call" inp' impl with
      | some r => pure (some ((r.setObjVal! "refused" (boolJ false)).setObjVal! "impl_refused" (boolJ false)))
      | none => throw "call handler missing"
  | _ => pure none

end CnvVerif.Drv
