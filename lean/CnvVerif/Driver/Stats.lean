/-
  JSON driver for property C17: ops `segmetrics`, `bintest`, `bh`.
  `out`  = the model's output (code as it is, through `iterSlices`);
  `spec` = the property's wording evaluated on the implementation's output (`impl`): every
           statistic against its definition on the bins *overlapping* the segment (plain filter),
           spreads of the deviations from the segment log2, mse from zero, PI brackets the median,
           CI ordered / inside the bins' range / reproducible, own columns unchanged; Benjamini–
           Hochberg against its closed form; hits = exactly the tested bins with q < alpha.
  Third-party values arrive as argument/value tables (`tt`: Student-t tail, `phi`: normal tail);
  the argument of every entry used is checked against the exact value computed here.
-/
import CnvVerif.Driver.Json
import CnvVerif.Model.Stats
open Lean
namespace CnvVerif.Drv
open CnvVerif.Stats

def sClausesJ (l : List String) : Json := arrJ (l.eraseDups.map strJ)

def tolS : Rat := 1 / 1000000000

def closeR (a b : Rat) : Bool := rabs (a - b) ≤ tolS * max 1 (rabs b)

/-- `|x − √v| ≤ tol·max(1, x)` without taking the root -/
def closeSqrt (x v : Rat) : Bool :=
  let t := tolS * max 1 (rabs x)
  decide (-t ≤ x) && decide (0 ≤ v) && decide (v ≤ (x + t) * (x + t)) &&
    (decide (x - t ≤ 0) || decide ((x - t) * (x - t) ≤ v))

/-- nearest entry of an argument/value table, accepted when the argument matches to 1e-9 -/
def lookupNear (table : List (Rat × Rat)) (x : Rat) : Option Rat :=
  match table with
  | [] => none
  | e :: es =>
    let best := es.foldl (fun b c => if rabs (c.1 - x) < rabs (b.1 - x) then c else b) e
    if rabs (best.1 - x) ≤ tolS * max 1 (rabs x) then some best.2 else none

def ttLookup (tt : List (Nat × Rat × Rat)) (df : Nat) (tsq : Rat) : Option Rat :=
  lookupNear ((tt.filter (fun e => e.1 == df)).map (·.2)) tsq

/-- does the implementation's number match a model/spec value?  `none` impl = NaN.
    Result: `some ok`, or `none` when a third-party table lacks the argument. -/
def matchVal (tt : List (Nat × Rat × Rat)) (impl : Option Rat) (v : Val) : Option Bool :=
  match v, impl with
  | .nan, none => some true
  | .nan, some _ => some false
  | _, none => some false
  | .num q, some x => some (closeR x q)
  | .sqrtOf q, some x => some (closeSqrt x q)
  | .tTail df tsq, some x =>
    match ttLookup tt df tsq with
    | some p => some (closeR x p)
    | none => none

/-- exact when small; otherwise rounded down to a multiple of 2^-256 (the exact value is what the
    spec clauses use; this is only what is printed for the harness's float comparison) -/
def shortRat (q : Rat) : Rat :=
  if q.den < 2 ^ 256 then q else ((q * (2 ^ 256 : Nat)).floor : Rat) / ((2 ^ 256 : Nat) : Rat)

def valJ (tt : List (Nat × Rat × Rat)) : Val → Json
  | .nan => obj [("k", strJ "nan")]
  | .num q => obj [("k", strJ "num"), ("v", ratJ (shortRat q))]
  | .sqrtOf q => obj [("k", strJ "sqrt"), ("v", ratJ (shortRat q))]
  | .tTail df tsq => obj [("k", strJ "t"), ("df", natJ df), ("tsq", ratJ (shortRat tsq)), ("p", optRatJ (ttLookup tt df tsq))]

def statOutJ (tt : List (Nat × Rat × Rat)) (s : StatOut) : Json :=
  obj [("val", valJ tt s.val),
       ("alt", match s.alt with | some a => valJ tt a | none => Json.null),
       ("slack", ratJ (shortRat s.slack))]

def pairJ : Option (Rat × Rat) → Json
  | none => Json.null
  | some p => arrJ [ratJ (shortRat p.1), ratJ (shortRat p.2)]

/-- bins are `[chrom, start, end, gene, log2, weight, depth|null]`; the label is the position -/
def getBins (j : Json) : R (List Bin) := do
  let a ← getArr j
  let mut out : Array Bin := #[]
  for h : i in [0:a.size] do
    let r ← getArr a[i]
    if r.size < 6 then throw "bin needs 6 fields"
    let depth ← (if r.size > 6 then getOptRat r[6]! else pure none)
    out := out.push { row := { chrom := ← getStr r[0]!, s := ← getInt r[1]!, e := ← getInt r[2]!, gene := toString i },
                      gene := ← getStr r[3]!, log2 := ← getRat r[4]!, weight := ← getRat r[5]!, depth := depth }
  pure out.toList

/-- segments are `[chrom, start, end, gene, log2]` -/
def getSegs (j : Json) : R (List Seg) :=
  getList (fun x => do
    let r ← getArr x
    if r.size < 5 then throw "segment needs 5 fields"
    pure { row := { chrom := ← getStr r[0]!, s := ← getInt r[1]!, e := ← getInt r[2]!, gene := ← getStr r[3]! },
           log2 := ← getRat r[4]! }) j

def getBootRow (j : Json) : R BootRow := do
  let a ← getArr j
  if a.size < 2 then throw "boot row needs [idx, noise]"
  pure { idx := ← getList getNat a[0]!, noise := ← getList getRat a[1]! }

def getTT (j : Json) : R (List (Nat × Rat × Rat)) :=
  getList (fun x => do
    let a ← getArr x
    if a.size < 3 then throw "tt entry needs [df, tsq, p]"
    pure (← getNat a[0]!, ← getRat a[1]!, ← getRat a[2]!)) j

def getPairs2 (j : Json) : R (List (Rat × Rat)) :=
  getList (fun x => do
    let a ← getArr x
    if a.size < 2 then throw "pair needs 2"
    pure (← getRat a[0]!, ← getRat a[1]!)) j

def labelOf (b : Bin) : Nat := b.row.gene.toNat?.getD 0

def listMin (l : List Rat) (d : Rat) : Rat := match l with
  | [] => d
  | x :: xs => xs.foldl min x
def listMax (l : List Rat) (d : Rat) : Rat := match l with
  | [] => d
  | x :: xs => xs.foldl max x

/-- the definition of each statistic in the property's words (same estimators as the model —
    they are the definitions — except that nothing here depends on the code's reference point) -/
def specStat (name : String) (lg : List Rat) (seglog2 : Rat) : Option StatOut :=
  match locationStat name with
  | some f => some (f lg)
  | none =>
    match specSpreadStat name with
    | some f => some (f (lg.map (· - seglog2)))
    | none => none

def implNum (row : Json) (k : String) : R (Option Rat) :=
  match row.getObjVal? k with
  | .ok v => getOptRat v
  | .error _ => throw s!"impl row lacks {k}"

def handleStats (op : String) (inp : Json) (impl : Option Json) : R (Option Json) := do
  match op with
  | "segmetrics" =>
    let bins ← getBins (← fld inp "bins")
    let segs ← getSegs (← fld inp "segs")
    let loc ← getList getStr (← fld inp "loc")
    let spread ← getList getStr (← fld inp "spread")
    let wantCi ← getBool (← fld inp "ci")
    let wantPi ← getBool (← fld inp "pi")
    let alpha ← getRat (← fld inp "alpha")
    let q2a ← getRat (← fld inp "two_over_alpha")
    let bootstraps ← getNat (← fld inp "bootstraps")
    let smoothed ← getBool (← fld inp "smoothed")
    let skipLow ← getBool (← fld inp "skip_low")
    let boots ← getList (getList getBootRow) (← fld inp "boots")
    let tt ← (match optFld inp "tt" with | some j => getTT j | none => pure [])
    if !(0 < alpha && alpha < 1) then throw "alpha outside (0,1) is outside the model"
    if !closeR q2a (2 / alpha) then throw "two_over_alpha is not 2/alpha"
    for nm in loc do
      if (locationStat nm).isNone then throw s!"unknown location statistic {nm}"
    for nm in spread do
      if (spreadStat nm).isNone then throw s!"unknown spread statistic {nm}"
    let cfg : Cfg := { loc, spread, ci := wantCi, pi := wantPi, alpha, skipLow }
    let bins' := if skipLow then dropLow bins else bins
    let groups := segBins bins' segs segmetricsMode
    -- shape of the supplied draws: B rows of k positions < k for every group of ≥ 2 bins
    let nB := bootCount bootstraps q2a
    if wantCi then
      if boots.length != groups.length then throw "boot_shape: one entry per segment needed"
      for (g, b) in groups.zip boots do
        if g.length ≥ 2 then
          if b.length != nB then throw s!"boot_shape: {b.length} replicates, model needs {nB}"
          for r in b do
            if r.idx.length != g.length || r.idx.any (· ≥ g.length) then throw "boot_shape: replicate"
            if smoothed && r.noise.length != g.length then throw "boot_shape: noise"
            if !smoothed && !r.noise.isEmpty then throw "boot_shape: noise without smoothing"
            if (r.idx.map (fun i => (g.map (·.weight)).getD i 0)).sum == 0 then throw "zero weight sum is outside the model"
    let outs := doSegmetrics cfg bins segs boots
    let outJ := arrJ (outs.map fun o =>
      obj [("n", natJ o.nbins),
           ("stats", obj (o.stats.map (fun (nm, s) => (nm, statOutJ tt s)))),
           ("ci", pairJ o.ci), ("pi", pairJ o.pi)])
    let spec ← (match impl with
      | none => pure Json.null
      | some ij => do
        let rows ← getArr (← fld ij "rows")
        let rows := rows.toList
        if rows.length != segs.length then pure (sClausesJ ["rowcount_preserved"]) else
        let mut bad : List String := []
        let mut knife : List String := []
        -- own columns: the returned table's original columns equal the input's, and the caller's
        -- table was not modified
        let own ← fld ij "own"
        let ownIn ← fld inp "segs_full"
        if !(own == ownIn) then bad := "segment_columns_unchanged" :: bad
        if !(← getBool (← fld ij "input_unmutated")) then bad := "segment_columns_unchanged" :: bad
        let again ← getArr (← fld ij "rows_again")
        let ciIdx := (List.range segs.length)
        for (i, sg, row, o, boot) in ciIdx.zip (segs.zip (rows.zip (outs.zip (boots ++ List.replicate segs.length [])))) do
          let bs := overlapping bins' sg
          let lg := bs.map (·.log2)
          let wt := bs.map (·.weight)
          let same := bs == (groups.getD i [])
          -- statistics against their definitions
          for nm in loc ++ spread do
            let x ← implNum row nm
            let d : StatOut :=
              -- the iterated biweight is expensive: reuse the model's value when it is the same function
              -- of the same bins; every other statistic is recomputed from its definition
              match (if same && nm == "bivar" then (o.stats.find? (·.1 == nm)).map (·.2) else none) with
              | some s => s
              | none => (specStat nm lg sg.log2).getD { val := .nan }
            let ok1 := matchVal tt x d.val
            let ok2 := match d.alt with | some a => matchVal tt x a | none => some false
            match ok1, ok2 with
            | some true, _ => pure ()
            | _, some true => pure ()
            | none, _ => bad := "tt_arg_missing" :: bad
            | _, _ =>
              if d.slack < tolS then knife := nm :: knife
              else bad := (nm ++ "_def") :: bad
          -- prediction interval
          if wantPi then
            let lo ← implNum row "pi_lo"
            let hi ← implNum row "pi_hi"
            match bs, lo, hi with
            | [], none, none => pure ()
            | [], _, _ => bad := "pi_def" :: bad
            | _, some lo, some hi =>
              let want := if same then o.pi.getD (piFunc lg alpha) else piFunc lg alpha
              if !(closeR lo want.1 && closeR hi want.2) then bad := "pi_def" :: bad
              let m := median lg
              if !(lo ≤ m + tolS * max 1 (rabs m) && m ≤ hi + tolS * max 1 (rabs m)) then
                bad := "pi_brackets_median" :: bad
            | _, _, _ => bad := "pi_def" :: bad
          -- bootstrap confidence interval
          if wantCi then
            let lo ← implNum row "ci_lo"
            let hi ← implNum row "ci_hi"
            let rowA := again.getD i Json.null
            let lo2 ← implNum rowA "ci_lo"
            let hi2 ← implNum rowA "ci_hi"
            if !(lo == lo2 && hi == hi2) then bad := "ci_reproducible" :: bad
            match bs, lo, hi with
            | [], none, none => pure ()
            | [], _, _ => bad := "ci_def" :: bad
            | _, some lo, some hi =>
              if !(lo ≤ hi) then bad := "ci_ordered" :: bad
              let mn := listMin lg 0
              let mx := listMax lg 0
              if !(mn - tolS * max 1 (rabs mn) ≤ lo && hi ≤ mx + tolS * max 1 (rabs mx)) then
                bad := "ci_within_bin_range" :: bad
              let want := if same then o.ci.getD (ciBoot lg wt alpha boot) else
                (if bs.length == (groups.getD i []).length then ciBoot lg wt alpha boot else (lo, hi))
              if !(closeR lo want.1 && closeR hi want.2) then bad := "ci_def" :: bad
            | _, _, _ => bad := "ci_def" :: bad
        pure (obj [("bad", sClausesJ bad.reverse), ("knife", sClausesJ knife.reverse)]))
    pure (some (obj [("out", outJ), ("spec", spec), ("nboot", natJ nB)]))
  | "bintest" =>
    let bins ← getBins (← fld inp "bins")
    let segs ← getSegs (← fld inp "segs")
    let alpha ← getRat (← fld inp "alpha")
    let targetOnly ← getBool (← fld inp "target_only")
    let phi ← getPairs2 (← fld inp "phi")
    for b in bins do
      if !(0 < b.weight && b.weight ≤ 1) then throw "weight outside (0,1] is outside the model"
    let tail : Rat → Rat := fun x => (lookupNear phi x).getD 0
    -- arguments the model needs from the table
    let rows := bintestRows bins segs
    let rows := if targetOnly then rows.filter (fun r => !Generated.ANTITARGET_ALIASES.contains r.1.gene) else rows
    let args := rows.filterMap (fun r =>
      if r.2 == 0 then some (0 : Rat) else if r.1.weight == 1 then none else some (r.2 * r.2 / (1 - r.1.weight)))
    let missing := args.any (fun x => (lookupNear phi x).isNone)
    let all := bintestAll tail bins segs targetOnly
    let hits := all.filter (fun h => h.q < alpha)
    let slack := listMin (all.map (fun h => rabs (h.q - alpha))) 1
    let hitJ (h : Hit) : Json := arrJ [natJ (labelOf h.bin), ratJ h.resid, ratJ h.q]
    let spec ← (match impl with
      | none => pure Json.null
      | some ij => do
        let ih ← getList (fun x => do
          let a ← getArr x
          if a.size < 3 then throw "hit needs [label, log2, p]"
          pure (← getNat a[0]!, ← getRat a[1]!, ← getRat a[2]!)) (← fld ij "hits")
        let mut bad : List String := []
        -- the property's wording, independent of iterSlices: a bin is tested against the first
        -- segment (in table order) that contains it
        let tested : List (Bin × Rat) := bins.filterMap (fun b =>
          match segs.find? (fun sg => sg.row.chrom == b.row.chrom && decide (sg.row.s ≤ b.row.s) && decide (b.row.e ≤ sg.row.e)) with
          | some sg => if targetOnly && Generated.ANTITARGET_ALIASES.contains b.gene then none else some (b, b.log2 - sg.log2)
          | none => none)
        let praw := tested.map (fun r => pRaw tail r.2 r.1.weight)
        let qs := bhClosedFast praw
        let tq := tested.zip qs
        for (lab, lg, p) in ih do
          match tq.find? (fun e => labelOf e.1.1 == lab) with
          | none => bad := "bintest_hit_is_tested_bin" :: bad
          | some ((b, r), q) =>
            if !closeR lg r then bad := "bintest_residual_def" :: bad
            if !closeR p q then bad := "bintest_p_is_bh_of_normal_tail" :: bad
            if targetOnly && Generated.ANTITARGET_ALIASES.contains b.gene then bad := "bintest_on_target_only" :: bad
        -- exactly the bins below alpha (bins within 1e-9 of alpha may go either way)
        let labs := ih.map (·.1)
        for ((b, _), q) in tq do
          let isHit := labs.contains (labelOf b)
          -- with a single tested bin BH is the identity (n/rank = 1.0, exact in floats): q = alpha is decided exactly
          if (rabs (q - alpha) ≥ tolS || tq.length == 1) && isHit != decide (q < alpha) then
            bad := "bintest_exactly_below_alpha" :: bad
        if labs.eraseDups.length != labs.length then bad := "bintest_exactly_below_alpha" :: bad
        pure (sClausesJ bad.reverse))
    pure (some (obj [("out", arrJ (hits.map hitJ)), ("tested", natJ all.length), ("slack", ratJ slack),
                     ("phi_missing", boolJ missing), ("spec", spec)]))
  | "bh" =>
    let p ← getList getRat (← fld inp "p")
    let out := padjustBH p
    let spec ← (match impl with
      | none => pure Json.null
      | some ij => do
        let q ← getList getRat ij
        if q.length != p.length then pure (sClausesJ ["bh_length"]) else
        let z := p.zip q
        let closed := bhClosedFast p
        let mut bad : List String := []
        if !(z.all (fun (pi, qi) => pi ≤ qi + tolS && qi ≤ 1 + tolS)) then bad := "bh_bounds" :: bad
        if !(z.all (fun (pi, qi) => z.all (fun (pj, qj) => !(pi ≤ pj) || qi ≤ qj + tolS))) then bad := "bh_monotone" :: bad
        if !(z.all (fun (pi, qi) => z.all (fun (pj, qj) => !(pi == pj) || qi == qj))) then bad := "bh_ties_equal" :: bad
        if !((q.zip closed).all (fun (a, b) => closeR a b)) then bad := "bh_closed_form" :: bad
        pure (sClausesJ bad.reverse))
    pure (some (obj [("out", arrJ (out.map ratJ)), ("spec", spec)]))
  | _ => pure none

end CnvVerif.Drv
