import CnvVerif.Driver.Json
import CnvVerif.Model.GeneExt
import CnvVerif.Model.SquashExt5
open Lean
namespace CnvVerif.Drv.GeneExt
open CnvVerif.Genes CnvVerif.GeneExt CnvVerif.PyDict16

def getOptStr16 (j : Json) : R (Option String) :=
  match j with
  | .null => pure none
  | _ => do pure (some (← getStr j))

def dictJ16 (d : Dict) : Json := arrJ (d.map (fun p => arrJ [strJ p.1, arrJ (p.2.map natJ)]))

def getItem16 (j : Json) : R (String × List Nat) := do
  let a ← getArr j
  if a.size < 2 then throw "dict item needs 2 fields"
  pure (← getStr a[0]!, ← getList getNat a[1]!)

/-- the names of row `i` (a null row has none) -/
def namesOpt16 : Option String → List String
  | none => []
  | some s => splitComma [] s.toList

/-- the promise about `_get_gene_map`, in its own words, evaluated on the implementation's output: the keys are the
    names in order of first appearance, each key once; a key's list holds the positions of the rows whose name list
    contains the key, ascending (once per occurrence in that row's list) -/
def geneMapSpec16 (gs : List (Option String)) (impl : Dict) : List String :=
  let rows : List (Nat × List String) := (List.range gs.length).zip (gs.map namesOpt16)
  let wantKeys := firstKeys (rows.flatMap (·.2))
  let idxOf (g : String) : List Nat := rows.flatMap (fun r => List.replicate (r.2.count g) r.1)
  (if impl.map (·.1) == wantKeys then [] else ["gene_map_keys"]) ++
  (if impl.all (fun p => p.2 == idxOf p.1) then [] else ["gene_map_index_iff"]) ++
  (if impl.all (fun p => !p.2.isEmpty) then [] else ["gene_map_values_nonempty"])

def handleGeneExt (op : String) (inp : Json) (impl : Option Json) : R (Option Json) := do
  match op with
  | "gene_map" =>
    let absent ← (match optFld inp "absent" with
      | some j => getBool j
      | none => pure false)
    let gs ← getList getOptStr16 (← fld inp "genes")
    let out : Dict := if absent then [] else geneMap gs
    let spec ← (match impl with
      | none => pure Json.null
      | some ij => do
        let d ← getList getItem16 ij
        pure (arrJ ((if absent then (if d.isEmpty then [] else ["gene_map_absent_column"]) else geneMapSpec16 gs d).map strJ)))
    pure (some (obj [("out", dictJ16 out), ("spec", spec)]))
  | "squash_cols" =>
    let rest ← getList getStr (← fld inp "rest")
    let cols := Squash16.required ++ rest
    let labJ (p : String × Squash16.Desc) : Json := arrJ [strJ p.1, strJ p.2.1, strJ p.2.2]
    let getLab (j : Json) : R (String × Squash16.Desc) := do
      let a ← getArr j
      if a.size < 3 then throw "label needs 3 fields"
      pure (← getStr a[0]!, (← getStr a[1]!, ← getStr a[2]!))
    let outJ := match Squash16.labelled cols with
      | some l => arrJ (l.map labJ)
      | none => obj [("error", strJ "ShortRow")]
    let spec ← (match impl with
      | none => pure Json.null
      | some ij => do
        let l ← getList getLab ij
        let head := l.take 5 == Squash16.required.zip Squash16.headSpec
        let own := rest != Squash16.appendOrder rest || l.all (fun p => p.2.1 == p.1)
        pure (arrJ (((if head then [] else ["squash_labels_required_columns"]) ++
          (if own then [] else ["squash_labels_append_order"])).map strJ)))
    pure (some (obj [("out", outJ), ("spec", spec)]))
  | _ => pure none

end CnvVerif.Drv.GeneExt
