/-
  JSON driver for property C17, op `seg_small` (Model/StatsSmallExt5c.lean): for every segment with at most one bin the
  model's 14 cells (mean median mode p_ttest stdev sem mad mse iqr bivar ci_lo ci_hi pi_lo pi_hi; null = NaN); `null`
  instead of a row for a segment with two or more bins (those are the op `segmetrics`).
-/
import CnvVerif.Driver.Json
import CnvVerif.Model.StatsSmallExt5c
open Lean
namespace CnvVerif.Drv
open CnvVerif.C17Small

def c17SmallBig : Big :=
  { median := fun _ => .nan, mode := fun _ => .nan, ttest := fun _ => .nan, std := fun _ => .nan, sem := fun _ => .nan,
    mad := fun _ => .nan, mse := fun _ => .nan, iqr := fun _ => .nan, bivar := fun _ => .nan,
    ci := fun _ _ _ => (.nan, .nan), pi := fun _ => (.nan, .nan) }

def c17CellJ : Cell → Json
  | .nan => Json.null
  | .num r => ratJ r

def handleStatsSmall5c (op : String) (inp : Json) (_impl : Option Json) : R (Option Json) := do
  match op with
  | "seg_small" =>
    let alpha ← getRat (← fld inp "alpha")
    if !(0 < alpha && alpha < 1) then throw "alpha outside (0,1) is outside the model"
    let smoothed ← getBool (← fld inp "smoothed")
    let boots ← getNat (← fld inp "bootstraps")
    let segs ← getList (fun x => do
      let a ← getArr x
      if a.size < 2 then throw "segment needs [log2, bins]"
      pure (← getRat a[0]!, ← getList getRat a[1]!)) (← fld inp "segs")
    let rows := segs.map (fun (s : Rat × List Rat) =>
      if s.2.length ≥ 2 then Json.null
      else arrJ ((segRow c17SmallBig smoothed boots s.1 s.2).cells.map c17CellJ))
    pure (some (obj [("out", arrJ rows), ("spec", arrJ [])]))
  | _ => pure none

end CnvVerif.Drv
