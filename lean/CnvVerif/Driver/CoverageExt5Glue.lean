/-
  JSON driver for the round-5b extension of C09 (the glue `do_coverage` / `interval_coverages`).  Op:
    "covglue" : in = { "sorted": what ensure_bam_sorted answers, "blank": every line of the regions file is blank,
                       "by_count": bool, "min_mapq": int, "processes": int | null }
                out = `result` / `trace` / `steps` of Model/CoverageExt5Glue.lean; `steps_src` = the same statements taken from
                the plans READ FROM THE SOURCE (Generated.src_do_coverage_plan / src_interval_coverages_plan)
                spec (with impl = { "result": .., "trace": [..] } of the real, instrumented call): the clauses of
                Props/C09SrcGlue.lean evaluated on the REAL trace
-/
import CnvVerif.Driver.Json
import CnvVerif.Model.CoverageExt5Glue
open Lean
namespace CnvVerif.Drv
open CnvVerif CnvVerif.C09Glue CnvVerif.Generated

namespace CovGlue

def optIntJ : Option Int → Json
  | none => Json.null
  | some n => intJ n

def algoS : C09gAlgo → String
  | .count => "count"
  | .pileup => "pileup"

def callJ : C09gCall → Json
  | .ensureSorted => arrJ [strJ "sorted"]
  | .ensureIndex => arrJ [strJ "index"]
  | .openBed => arrJ [strJ "bed"]
  | .run al q w => arrJ [strJ "run", strJ (algoS al), intJ q, optIntJ w]

def resultJ : C09gResult → Json
  | .runtimeError => arrJ [strJ "RuntimeError"]
  | .emptyTable => arrJ [strJ "empty"]
  | .table al q w => arrJ [strJ "table", strJ (algoS al), intJ q, optIntJ w]

def stepS (s : CovGlueStep) : String := (reprStr s).replace "CnvVerif.Generated.CovGlueStep." ""

/-- the statements of one call according to the plans read from the source -/
def stepsSrc (sorted blank : Bool) (a : C09gArgs) : List CovGlueStep :=
  (src_do_coverage_plan (c09gProcsGiven a.processes) (c09gProcsBelowOne a.processes) sorted).flatMap fun s =>
    if s = .callIntervalCoverages then src_interval_coverages_plan blank a.byCount true else [s]

end CovGlue

open CovGlue in
def handleCoverageExt5Glue (op : String) (inp : Json) (impl : Option Json) : R (Option Json) := do
  match op with
  | "covglue" =>
    let sorted ← getBool (← fld inp "sorted")
    let blank ← getBool (← fld inp "blank")
    let a : C09gArgs := { byCount := ← getBool (← fld inp "by_count"), minMapq := ← getInt (← fld inp "min_mapq"),
                          processes := ← getOptInt (← fld inp "processes") }
    let trace := (c09gTrace sorted blank a).map callJ
    let spec ← (match impl with
      | none => pure Json.null
      | some ij => do
        let tr ← getList pure (← fld ij "trace")
        let res ← fld ij "result"
        let isRun (j : Json) : Bool := match j with | Json.arr xs => xs[0]? == some (strJ "run") | _ => false
        let runs := tr.filter isRun
        let refused := res == arrJ [strJ "RuntimeError"]
        let c1 := if refused == !sorted then [] else ["unsorted_bam_is_refused_and_only_that"]
        let c2 := if sorted || (tr == [arrJ [strJ "sorted"]]) then [] else ["unsorted_bam_touches_no_index_and_counts_nothing"]
        let c3 := if !sorted || tr.take 2 == [arrJ [strJ "sorted"], arrJ [strJ "index"]] then [] else ["index_is_ensured_before_counting"]
        let want := if sorted && !blank then [callJ (.run (c09gAlgo a.byCount) a.minMapq (c09gWorkers a.processes))] else []
        let c4 := if runs == want then [] else ["options_only_select_algorithm_and_workers"]
        let c5 := if res == resultJ (c09gResult sorted blank a) then [] else ["returned_table_is_the_selected_algorithms"]
        pure (arrJ ((c1 ++ c2 ++ c3 ++ c4 ++ c5).map strJ)))
    return some (obj [("result", resultJ (c09gResult sorted blank a)), ("trace", arrJ trace),
      ("steps", arrJ ((c09gSteps sorted blank a).map (strJ ∘ stepS))),
      ("steps_src", arrJ ((stepsSrc sorted blank a).map (strJ ∘ stepS))), ("spec", spec)])
  | _ => return none

end CnvVerif.Drv
