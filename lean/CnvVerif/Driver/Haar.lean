/-
  JSON driver for the C11 package (HaarSeg components, level loop, end-to-end oracle clauses).
  Everything lives in `CnvVerif.Drv.Haar`.
-/
import CnvVerif.Driver.Json
import CnvVerif.Model.Haar
open Lean
namespace CnvVerif.Drv.Haar
open CnvVerif.Drv CnvVerif.Haar

def tol : Rat := 1 / 1000000000

def closeQ (a b : Rat) : Bool := decide (absQ (a - b) ≤ tol * max 1 (absQ b))

def ratsJ (l : List Rat) : Json := arrJ (l.map ratJ)
def natsJ (l : List Nat) : Json := arrJ (l.map natJ)
def intsJ (l : List Int) : Json := arrJ (l.map intJ)
def strsJ (l : List String) : Json := arrJ (l.map strJ)

def getOptRats (j : Option Json) : R (Option (List Rat)) :=
  match j with
  | none => pure none
  | some v => do pure (some (← getList getRat v))

def specOf (impl : Option Json) (f : Json → R (List String)) : R Json :=
  match impl with
  | none => pure Json.null
  | some ij => do pure (strsJ (← f ij))

/-- the ideal step `lo` on `[0,b)`, `hi` on `[b,n)` -/
structure Ideal where
  b : Nat
  lo : Rat
  hi : Rat

def getIdeal (inp : Json) : R (Option Ideal) :=
  match optFld inp "ideal" with
  | none => pure none
  | some j => do
    pure (some { b := ← getNat (← fld j "b"), lo := ← getRat (← fld j "lo"), hi := ← getRat (← fld j "hi") })

def tableJ (t : SegTable) : Json :=
  obj [("start", natsJ t.start), ("end", intsJ t.stop), ("size", intsJ t.size), ("mean", ratsJ t.mean)]

def getTable (j : Json) : R SegTable := do
  pure { start := ← getList getNat (← fld j "start"), stop := ← getList getInt (← fld j "end"),
         size := ← getList getInt (← fld j "size"), mean := ← getList getRat (← fld j "mean") }

/-! ### spec clauses (the property's / the theorems' wording evaluated on the real output) -/

/-- theorem `haarConv_ideal_step` on the real output: `conv[k]*norm = (hi-lo)*max(0, h-|k-b|)` -/
def tentSpec (n h : Nat) (norm : Rat) (id : Ideal) (out : List Rat) : List String :=
  if ¬ (h ≤ id.b ∧ id.b + h ≤ n) then [] else
  let bad := (List.range n).any fun k =>
    let d : Int := (h : Int) - ((k : Int) - (id.b : Int)).natAbs
    let want := (id.hi - id.lo) * (if d < 0 then 0 else (d : Rat))
    !(closeQ (out.getD k 0 * norm) want)
  (if out.length ≠ n then ["conv_length"] else []) ++ (if bad then ["ideal_tent"] else [])

def peaksSpec (sig : List Rat) (pk : List Nat) : List String :=
  let a := sig.toArray
  let n := sig.length
  let interior := pk.all fun k => decide (1 ≤ k ∧ k + 2 ≤ n)
  let extremum := pk.all fun k =>
    let p := nth a (k - 1); let c := nth a k; let nx := nth a (k + 1)
    decide ((0 < c ∧ p < c ∧ nx ≤ c) ∨ (c < 0 ∧ c < p ∧ c ≤ nx))
  let strict := (List.range n).all fun k =>
    let p := nth a (k - 1); let c := nth a k; let nx := nth a (k + 1)
    if decide (1 ≤ k ∧ k + 2 ≤ n) && decide ((0 < c ∧ p < c ∧ nx < c) ∨ (c < 0 ∧ c < p ∧ c < nx)) then pk.contains k else true
  let incr := (pk.zip (pk.drop 1)).all fun p => decide (p.1 < p.2)
  (if interior then [] else ["peak_not_interior"]) ++ (if interior && !extremum then ["peak_not_extremum"] else [])
    ++ (if strict then [] else ["strict_extremum_missed"]) ++ (if incr then [] else ["peaks_not_increasing"])

def unifySpec (base addon : List Nat) (w : Nat) (out : List Nat) : List String :=
  let sorted := (out.zip (out.drop 1)).all fun p => decide (p.1 ≤ p.2)
  let hasBase := base.all out.contains
  let far := addon.all fun a =>
    if base.all (fun b => decide (a + w < b ∨ b + w < a)) then out.contains a else true
  let sub := out.all fun x => base.contains x || addon.contains x
  (if addon.isEmpty || sorted then [] else ["unify_not_sorted"]) ++ (if hasBase then [] else ["unify_lost_base"])
    ++ (if far then [] else ["unify_lost_far_addon"]) ++ (if sub then [] else ["unify_invented"])

def strictInside (peaks : List Nat) (n : Nat) : Bool :=
  peaks.all (fun p => decide (0 < p ∧ p < n)) && (peaks.zip (peaks.drop 1)).all fun p => decide (p.1 < p.2)

/-- `SegmentByPeaks` clauses for strictly increasing peaks inside `(0, n)`: constant per segment, value =
(weighted) mean of the segment -/
def segSpec (data : List Rat) (peaks : List Nat) (wt : Option (List Rat)) (out : List Rat) : List String :=
  if out.length ≠ data.length then ["segs_length"] else
  if !(strictInside peaks data.length) then [] else
  let bad := (bounds peaks data.length).any fun se =>
    let o := slice out se.1 se.2
    let v := o.headD 0
    let d := slice data se.1 se.2
    let const := o.all (fun x => x == v)
    let meanOk := match wt with
      | some w =>
        let ws := slice w se.1 se.2
        if 0 < ws.sum then closeQ (v * ws.sum) (((d.zip ws).map fun p => p.1 * p.2).sum)
        else closeQ (v * (d.length : Rat)) d.sum
      | none => closeQ (v * (d.length : Rat)) d.sum
    !(const && meanOk)
  if bad then ["segment_not_its_mean"] else []

/-- the property's step clause on a `haarSeg` dict for a noise-free step -/
def idealSegSpec (n : Nat) (id : Ideal) (t : SegTable) : List String :=
  (if t.start.length = 2 then [] else ["one_breakpoint"]) ++
  (if t.start == [0, id.b] && t.size == [(id.b : Int), (n : Int) - (id.b : Int)]
      && t.stop == [(id.b : Int) - 1, (n : Int) - 1] then [] else ["breakpoint_at_b"]) ++
  (if t.mean.length = 2 && closeQ (t.mean.getD 0 0) id.lo && closeQ (t.mean.getD 1 0) id.hi then [] else ["segment_means"])

def flatSegSpec (n : Nat) (t : SegTable) : List String :=
  if t.start == [0] && t.size == [(n : Int)] then [] else ["flat_one_segment"]

/-! ### end-to-end oracle clauses (property C11 as written, on `do_segmentation` output) -/

structure OSeg where
  s : Int
  e : Int
  log2 : Rat
  probes : Int

def getOSeg (j : Json) : R OSeg := do
  let a ← getArr j
  if a.size < 4 then throw "oracle segment needs 4 fields"
  pure { s := ← getInt a[0]!, e := ← getInt a[1]!, log2 := ← getRat a[2]!, probes := ← getInt a[3]! }

/-- one chromosome of a profile: bin starts, true breakpoint (bins before it) or none, true levels, arms -/
def oracleChrom (starts : List Int) (b : Option Nat) (lo hi : Rat) (arms : Nat)
    (segs : List OSeg) : List String :=
  match b with
  | none =>
    if segs.length = arms then [] else ["flat_one_segment_per_arm"]
  | some b =>
    match segs with
    | [s1, s2] =>
      -- the reported breakpoint = number of bins that start before the second segment
      let pos := starts.countP (fun x => decide (x < s2.s))
      let d : Int := (pos : Int) - (b : Int)
      (if d.natAbs ≤ 5 then [] else ["breakpoint_within_5_bins"]) ++
      (if absQ (s1.log2 - lo) ≤ 1 / 10 ∧ absQ (s2.log2 - hi) ≤ 1 / 10 then [] else ["means_within_0.1"])
    | _ => ["exactly_one_breakpoint"]

/-! ### handler -/

def levelIdx (lv : Nat) : Nat :=
  (Generated.HAAR_LEVEL_TABLE.map (·.1)).idxOf lv

def handleHaar (op : String) (inp : Json) (impl : Option Json) : R (Option Json) := do
  match op with
  | "fl64" =>
    let x ← getRat (← fld inp "x")
    pure (some (obj [("out", ratJ (fl64 x)), ("spec", Json.null)]))
  | "haar_conv" =>
    let sig ← getList getRat (← fld inp "sig")
    let h ← getNat (← fld inp "h")
    let norm ← getRat (← fld inp "norm")
    if h = 0 ∨ norm ≤ 0 then throw "haar_conv: h = 0 or norm <= 0"
    let wt ← getOptRats (optFld inp "w")
    let ideal ← getIdeal inp
    let exact := (optFld inp "exact").isSome
    let out : Option (List Rat) := match wt with
      | none => some (haarConv (if exact then fl64 else id) norm sig h)
      | some w => haarConvW norm sig w h
    -- the parameter really is the square root the code takes
    let target : Rat := if wt.isSome then (h : Rat) / 2 else 2 * (h : Rat)
    let normBad := !(closeQ (norm * norm) target)
    let spec ← specOf impl fun ij => do
      match ij with
      | .str _ => pure []      -- non-finite output marker
      | _ =>
        let o ← getList getRat ij
        pure ((if normBad then ["norm_is_not_the_sqrt"] else []) ++
          (match ideal, wt with
           | some id, none => tentSpec sig.length h norm id o
           | _, _ => []))
    pure (some (obj [("out", match out with | some l => ratsJ l | none => Json.null), ("spec", spec)]))
  | "find_peaks" =>
    let sig ← getList getRat (← fld inp "sig")
    let spec ← specOf impl fun ij => do pure (peaksSpec sig (← getList getNat ij))
    pure (some (obj [("out", natsJ (findLocalPeaks sig)), ("spec", spec)]))
  | "fdr_thres" =>
    let x ← getList getRat (← fld inp "x")
    let q ← getRat (← fld inp "q")
    let p ← getList getRat (← fld inp "p")
    if x.length ≥ 2 ∧ p.length ≠ x.length then throw "fdr_thres: p-values do not match x"
    let T := fdrThres fl64 x q p
    let spec ← specOf impl fun ij => do
      let t ← getRat ij
      pure ((if x.length < 2 ∧ t ≠ 0 then ["threshold_zero_below_two_peaks"] else []) ++
            (if t < 0 then ["threshold_negative"] else []))
    pure (some (obj [("out", ratJ T), ("spec", spec)]))
  | "unify" =>
    let base ← getList getNat (← fld inp "base")
    let addon ← getList getNat (← fld inp "addon")
    let w ← getNat (← fld inp "w")
    let spec ← specOf impl fun ij => do pure (unifySpec base addon w (← getList getNat ij))
    pure (some (obj [("out", natsJ (unifyLevels base addon w)), ("spec", spec)]))
  | "seg_by_peaks" =>
    let data ← getList getRat (← fld inp "data")
    let peaks ← getList getNat (← fld inp "peaks")
    let wt ← getOptRats (optFld inp "w")
    let spec ← specOf impl fun ij => do pure (segSpec data peaks wt (← getList getRat ij))
    pure (some (obj [("out", ratsJ (segmentByPeaks data peaks wt)), ("spec", spec)]))
  | "haar_seg" =>
    let I ← getList getRat (← fld inp "I")
    if I.isEmpty then throw "haar_seg: empty signal"
    let wt ← getOptRats (optFld inp "w")
    let q ← getRat (← fld inp "q")
    let norms ← getList getRat (← fld inp "norms")
    let ps ← getList (getList getRat) (← fld inp "ps")
    let convs ← (match optFld inp "convs" with
      | none => pure none
      | some cj => do pure (some (← getList (getList getRat) cj)))
    let ideal ← getIdeal inp
    let flat := (optFld inp "flat").isSome
    let table := Generated.HAAR_LEVEL_TABLE
    if norms.length ≠ table.length ∨ ps.length ≠ table.length then throw "haar_seg: norms/ps do not match the level table"
    let conv : Nat → Nat → List Rat := fun lv h =>
      match convs with
      | some cs => cs.getD (levelIdx lv) []
      | none => haarConv fl64 (norms.getD (levelIdx lv) 1) I h
    let thr : Nat → List Rat → Rat := fun lv x => fdrThres fl64 x q (ps.getD (levelIdx lv) [])
    let bp := haarBreaks conv thr table
    let t := segTable I wt bp
    let spec ← specOf impl fun ij => do
      let ti ← getTable ij
      pure ((match ideal with | some id => idealSegSpec I.length id ti | none => []) ++
            (if flat then flatSegSpec I.length ti else []))
    pure (some (obj [("out", tableJ t), ("spec", spec)]))
  | "oracle" =>
    let chroms ← getArr (← fld inp "chroms")
    let spec ← specOf impl fun ij => do
      let segsAll ← getArr ij
      let mut bad : List String := []
      for i in [0:chroms.size] do
        let c := chroms[i]!
        let starts ← getList getInt (← fld c "starts")
        let b ← (match optFld c "b" with | none => pure none | some bj => do pure (some (← getNat bj)))
        let lo ← getRat (← fld c "lo")
        let hi ← getRat (← fld c "hi")
        let arms ← getNat (← fld c "arms")
        let skip := (optFld c "unclaimed").isSome
        let segs ← getList getOSeg (segsAll.getD i (Json.arr #[]))
        if !skip then
          bad := bad ++ oracleChrom starts b lo hi arms segs
      pure bad.eraseDups
    pure (some (obj [("out", Json.null), ("spec", spec)]))
  | "consts" =>
    let t := Generated.HAAR_LEVEL_TABLE
    let spec ← specOf impl fun ij => do
      let obs ← getList (getList getNat) (← fld ij "levels")
      let means ← getList getRat (← fld ij "germline_means")
      let want : List (List Nat) := [[2, 1], [4, 2], [8, 4], [16, 8], [32, 16]]
      let wantMeans : List Rat := [-1, 0, 585 / 1000]
      let meansOk := means.length = 3 && (means.zip wantMeans).all fun p => closeQ p.1 p.2
      pure ((if obs == want then [] else ["haar_levels_1_to_5"]) ++ (if meansOk then [] else ["germline_state_means"]))
    pure (some (obj [("out", obj [("levels", arrJ (t.map fun r => natsJ [r.2.1, r.2.2])),
                                  ("germline_means", ratsJ Generated.HMM_GERMLINE_MEANS),
                                  ("germline_frozen", arrJ (Generated.HMM_GERMLINE_FROZEN.map boolJ)),
                                  ("q", ratJ Generated.HAAR_DEFAULT_Q)]),
                     ("spec", spec)]))
  | _ => pure none

end CnvVerif.Drv.Haar
