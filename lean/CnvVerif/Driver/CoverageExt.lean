/-
  JSON driver for the round-4 extensions of C09.  Ops:
    "covsched" : one BAM x BED x cut-off, several runs (algorithm, processes, chunk size, number of workers, the
                 worker EVENTS observed in the real pool: [0, w, k] = worker w took the k-th waiting task,
                 [1, w] = worker w finished) through the small-step pool model (Model/CoverageSched.lean);
                 `spec` = the clauses of C09 on the real tables (same oracle as op "cov") + one table per algorithm
-/
import CnvVerif.Driver.Json
import CnvVerif.Driver.Coverage
import CnvVerif.Model.CoverageSched
open Lean
namespace CnvVerif.Drv
open CnvVerif CnvVerif.Cov CnvVerif.Cov.Sched

namespace CovX

def getEv (j : Json) : R Ev := do
  let a ← getArr j
  if a.size < 2 then throw "event needs 2 fields"
  let kind ← getNat a[0]!
  if kind == 0 then
    if a.size < 3 then throw "take event needs 3 fields"
    pure (Ev.take (← getNat a[1]!) (← getNat a[2]!))
  else pure (Ev.finish (← getNat a[1]!))

structure SRun where
  algo : Algo
  procs : Nat
  size : Nat
  nw : Nat
  evs : List Ev

def getSRun (j : Json) : R SRun := do
  let a ← getArr j
  if a.size < 5 then throw "sched run needs 5 fields"
  let algo ← (match (← getStr a[0]!) with
    | "count" => pure Algo.count
    | "pileup" => pure Algo.pileup
    | s => throw s!"bad algo {s}")
  pure { algo, procs := ← getNat a[1]!, size := ← getNat a[2]!, nw := ← getNat a[3]!, evs := ← getList getEv a[4]! }

end CovX

open CovD CovX in
def handleCoverageExt (op : String) (inp : Json) (impl : Option Json) : R (Option Json) := do
  match op with
  | "covsched" =>
    let contigs ← getList getContig (← fld inp "contigs")
    let reads ← getList getRead (← fld inp "reads")
    let lines ← getList getBedLine (← fld inp "bed")
    let q ← getNat (← fld inp "q")
    let runs ← getList getSRun (← fld inp "runs")
    let ar := reads.map align
    let outs := runs.map (fun r => coverageSched contigs reads q lines r.algo r.procs r.size r.nw r.evs)
    let outJ := arrJ (outs.map fun o => match o with
      | .error e => obj [("err", strJ e)]
      | .ok none => obj [("unfinished", boolJ true)]
      | .ok (some rows) => obj [("rows", arrJ (rows.map outRowJ))])
    let valid := (validate contigs lines).isNone
    let noGap := reads.all (fun r => noRefGap r.cigar)
    let spec ← (match impl with
      | none => pure Json.null
      | some ij => do
        let iruns ← getList getIRun ij
        if iruns.length != runs.length then throw "impl needs one entry per run"
        if !valid then pure (arrJ []) else
        let recs := ((records lines).map BedRec.toRow).mergeSort keyLe
        let truths : List Truth := recs.map (fun b =>
          { key := b, aligned := alignedBasesInBin contigs ar q b.chrom b.s b.e,
            spanned := spannedBasesInBin contigs ar q b.chrom b.s b.e })
        let z := runs.zip iruns
        let perRun := z.flatMap (fun (r, ir) => match ir with
          | none => []
          | some rows => checkRun contigs ar q truths noGap r.algo rows)
        let tablesOf (a : Algo) : List (List IRow) := z.filterMap (fun (r, ir) => if r.algo == a then ir else none)
        let allSame (ts : List (List IRow)) : Bool := match ts with
          | [] => true
          | t :: rest => rest.all (sameRows t)
        let c5 := if allSame (tablesOf .count) && allSame (tablesOf .pileup) then []
          else ["same_table_any_worker_schedule"]
        pure (arrJ ((perRun ++ c5).eraseDups.map strJ)))
    pure (some (obj [("out", outJ), ("spec", spec), ("valid", boolJ valid), ("nogap", boolJ noGap)]))
  | _ => pure none

end CnvVerif.Drv
