/-
  Driver for Model/RangesExt.lean (C07 growth): `into_ranges` on any column / summary, `in_ranges` with open sides.
  Cells travel as: string → JSON string, finite float → {"q": "n/d"}, NaN → null, int / bool → JSON number.
-/
import CnvVerif.Driver.Json
import CnvVerif.Model.RangesExt
import CnvVerif.Model.IntervalSpec
open Lean
namespace CnvVerif.Drv

def getCell (j : Json) : R Val :=
  match j with
  | .null => pure .nan
  | .str s => pure (.str s)
  | .num _ => do pure (.int (← getInt j))
  | .bool b => pure (.int (if b then 1 else 0))
  | _ => do pure (.num (← getRat (← fld j "q")))

def cellJ : Val → Json
  | .str s => strJ s
  | .num q => obj [("q", ratJ q)]
  | .nan => Json.null
  | .int n => intJ n

def absQ (q : Rat) : Rat := if q < 0 then -q else q

/-- equality of cells; finite floats up to 1e-9 relative (the float summaries of the real code round) -/
def cellClose (impl expect : Val) : Bool :=
  match impl, expect with
  | .num a, .num b => decide (absQ (a - b) ≤ (1 / 1000000000 : Rat) * max 1 (absQ b))
  | .num a, .int n => decide (absQ (a - (n : Rat)) ≤ (1 / 1000000000 : Rat) * max 1 (absQ (n : Rat)))
  | .int n, .num b => decide (absQ ((n : Rat) - b) ≤ (1 / 1000000000 : Rat) * max 1 (absQ b))
  | x, y => x == y

def cellRat? : Val → Option Rat
  | .num q => some q
  | .int n => some (n : Rat)
  | _ => none

/-- the callables the harness passes as `summary_func` -/
def namedFunc (name : String) : Option (List Val → Val) :=
  match name with
  | "max" => some fun vs =>
      -- Python `max` over a Series of numbers (no NaN among them in the generated cells)
      match vs with
      | [] => .nan
      | v :: rest => rest.foldl (fun m x =>
          match cellRat? m, cellRat? x with
          | some a, some b => if a < b then x else m
          | _, _ => m) v
  | "len" => some fun vs => .int vs.length
  | "last" => some lastOf
  | "first" => some firstOf
  | "first_of" => some firstOf
  | "last_of" => some lastOf
  | "join_strings" => some joinVals
  | "nanmean" => some fun vs =>
      match vs.filterMap Val.finite? with
      | [] => .nan
      | xs => .num (xs.foldl (· + ·) 0 / (xs.length : Rat))
  | _ => none

def handleRangesExt (op : String) (inp : Json) (impl : Option Json) : R (Option Json) := do
  match op with
  | "into_ranges_val" =>
    let a ← getTable (← fld inp "a")
    let b ← getTable (← fld inp "b")
    let dflt ← getCell (← fld inp "default")
    let cells : Option (List Val) ← (match optFld inp "cells" with
      | none => pure none
      | some j => do pure (some (← getList getCell j)))
    let summary : Summary ← (match optFld inp "func" with
      | none => pure Summary.auto
      | some j => do
        let name ← getStr j
        if name == "const" then pure (Summary.const (← getCell (← fld inp "const")))
        else match namedFunc name with
          | some f => pure (Summary.func f)
          | none => throw s!"unknown summary {name}")
    -- rows stand for their labels: the cell of a row is found by its (unique) gene
    let col : Option (Row → Val) := cells.map fun cs =>
      let tbl := (a.map (·.gene)).zip cs
      fun r => ((tbl.find? (fun p => p.1 == r.gene)).map (·.2)).getD .nan
    let out := intoRangesGA a b col dflt summary
    -- the property's wording, independent of the slicing code: per query row (grouped by chromosome in order
    -- of first appearance) the rows of its chromosome with end > qs and start < qe
    let expect : List Val :=
      match col, a with
      | none, _ => b.map (fun _ => dflt)
      | _, [] => b.map (fun _ => dflt)
      | some c, r0 :: _ =>
        ((groupByChrom b).flatMap (·.2)).map fun q =>
          seriesToValue dflt (pickSummary summary (c r0)) ((selectSpec a q.chrom q.s q.e .outer).map c)
    let sp (o : List Val) : List String :=
      if o.length != b.length then ["into_ranges_length"]
      else if (o.zip expect).all (fun p => cellClose p.1 p.2) then [] else ["into_ranges_value"]
    let ip ← (match impl with
      | none => pure none
      | some j => do pure (some (← getList getCell j)))
    let spec := match ip with | none => Json.null | some o => arrJ ((sp o).map strJ)
    pure (some (obj [("out", arrJ (out.map cellJ)), ("spec", spec), ("specm", arrJ ((sp out).map strJ))]))
  | "in_ranges_opt" =>
    let t ← getTable (← fld inp "t")
    let chrom ← getOptStr (← fld inp "chrom")
    let starts ← (match optFld inp "starts" with
      | none => pure none
      | some j => do pure (some (← getList getInt j)))
    let ends ← (match optFld inp "ends" with
      | none => pure none
      | some j => do pure (some (← getList getInt j)))
    let mode ← getMode (← fld inp "mode")
    let out := inRangesOpt t chrom starts ends mode
    let rows : Table := match chrom with
      | some c => t.filter (fun r => r.chrom == c)
      | none => t
    let one (qs qe : Option Int) : Table :=
      let sel : Table := match mode with
        | .inner => rows.filter (fun r => (qs.all (fun s => r.s ≥ s)) && (qe.all (fun e => r.e ≤ e)))
        | _ => rows.filter (fun r => (qs.all (fun s => r.e > s)) && (qe.all (fun e => r.s < e)))
      if mode == .trim then
        sel.map (fun (r : Row) =>
          let s' : Int := match qs with | some s => max r.s s | none => r.s
          let e' : Int := match qe with | some e => min r.e e | none => r.e
          { r with s := s', e := e' })
      else sel
    let expect := (zipBounds starts ends).flatMap (fun q => one q.1 q.2)
    let sp (o : Table) : List String := if o == expect then [] else ["in_ranges_exact"]
    let ip ← (match impl with
      | none => pure none
      | some j => do pure (some (← getTable j)))
    let spec := match ip with | none => Json.null | some o => arrJ ((sp o).map strJ)
    pure (some (obj [("out", tableJ out), ("spec", spec), ("specm", arrJ ((sp out).map strJ))]))
  | _ => pure none

end CnvVerif.Drv
