/-
  JSON driver for the glue part of property C17: ops `glue` (columns of `do_segmetrics`' result and what they hold)
  and `cmd` (decisions of `_cmd_segmetrics`).  Column contents are abstracted to tags: `own` = what the segment table
  held, `fresh` = the values a run on the same tables WITHOUT the pre-existing statistic columns yields.
  `spec` = the property's wording on the implementation's output: every requested statistic is there, freshly
  computed; every other column of the segment table is unchanged.
-/
import CnvVerif.Driver.Json
import CnvVerif.Model.StatsGlue
open Lean
namespace CnvVerif.Drv
open CnvVerif.Stats

def getPairsSS (j : Json) : R (List (String × String)) :=
  getList (fun x => do
    let a ← getArr x
    if a.size < 2 then throw "pair needs 2"
    pure (← getStr a[0]!, ← getStr a[1]!)) j

def outcomeJ : CmdOutcome → Json
  | .refuse => obj [("decision", strJ "refuse"), ("path", Json.null)]
  | .nothing => obj [("decision", strJ "nothing"), ("path", Json.null)]
  | .write p => obj [("decision", strJ "write"), ("path", strJ p)]

def handleStatsGlue (op : String) (inp : Json) (impl : Option Json) : R (Option Json) := do
  match op with
  | "glue" =>
    let segCols ← getList getStr (← fld inp "seg_cols")
    let loc ← getList getStr (← fld inp "loc")
    let spread ← getList getStr (← fld inp "spread")
    let interval ← getList getStr (← fld inp "interval")
    for nm in loc do
      if (locationStat nm).isNone then throw s!"unknown location statistic {nm}"
    for nm in spread do
      if (spreadStat nm).isNone then throw s!"unknown spread statistic {nm}"
    if segCols.eraseDups.length != segCols.length then throw "duplicate column names are outside the model"
    let segs : Frame String := segCols.map (fun c => (c, "own"))
    let out := segmetricsFrame segs loc spread interval (fun _ => "fresh") (fun _ => "fresh")
      "fresh" "fresh" "fresh" "fresh"
    let requested := loc ++ spread ++ (if interval.contains "ci" then ["ci_lo", "ci_hi"] else []) ++
      (if interval.contains "pi" then ["pi_lo", "pi_hi"] else [])
    let spec ← (match impl with
      | none => pure Json.null
      | some ij => do
        let cols ← getPairsSS (← fld ij "columns")
        let mut bad : List String := []
        for nm in requested do
          if cols.lookup nm != some "fresh" then bad := "requested_statistic_recomputed" :: bad
        for nm in segCols do
          if !requested.contains nm && cols.lookup nm != some "own" then bad := "segment_columns_unchanged" :: bad
        pure (arrJ (bad.reverse.eraseDups.map strJ)))
    pure (some (obj [("out", arrJ (out.map (fun c => arrJ [strJ c.1, strJ c.2]))),
                     ("requested", arrJ (requested.map strJ)), ("spec", spec)]))
  | "cmd" =>
    let alpha ← getRat (← fld inp "alpha")
    let loc ← getList getStr (← fld inp "loc")
    let spread ← getList getStr (← fld inp "spread")
    let interval ← getList getStr (← fld inp "interval")
    let output ← getOptStr (← fld inp "output")
    let sid ← getStr (← fld inp "sample")
    pure (some (obj [("out", outcomeJ (cmdSegmetrics alpha loc spread interval output sid)), ("spec", arrJ [])]))
  | _ => pure none

end CnvVerif.Drv
