import CnvVerif.Driver.Call
import CnvVerif.Model.CallExt5
import CnvVerif.Model.CallExt5Wrap
open Lean
namespace CnvVerif.Drv

def c01wStepName (s : Generated.DoCallStep) : String := (toString (repr s)).replace "CnvVerif.Generated.DoCallStep." ""

/-- op `do_call_whole`: `do_call` with ANY `method` string, a `filters` list and / or `variants` (the segment filters
    replaced by recording identities in the harness).  Input = the fields of op `call` (with `method` any string) plus
    `filters` (list of names).  Impl = `{"error": name}` when do_call raised, else
    `{"rows": <as op call>, "seq": [names in the order the filters ran], "pre": [...] | null, "post": [...] | null}`. -/
def handleCallWhole (op : String) (inp : Json) (impl : Option Json) : R (Option Json) := do
  match op with
  | "do_call_whole" =>
    let rows ← getList getSegRow (← fld inp "rows")
    let methodS ← getStr (← fld inp "method")
    let filters ← getList getStr (← fld inp "filters")
    let ploidy ← getNat (← fld inp "ploidy")
    let purity ← getOptRat (← fld inp "purity")
    let hapX ← getBool (← fld inp "hapX")
    let female ← getBool (← fld inp "female")
    let par ← getOptStr (← fld inp "par")
    let thr ← getList getRat (← fld inp "thr")
    let hasBaf ← getBool (← fld inp "has_baf")
    let thrPow2 ← (match optFld inp "thr_pow2" with
      | some j => getList getRat j
      | none => pure [])
    let variants := match optFld inp "variants" with
      | some (Json.bool b) => b
      | _ => false
    let cfg : CallCfg := { ploidy, purity, hapX, female, par, thrPow2 }
    let a : C01wArgs := { method := methodS, variants, bafCol := hasBaf && !variants, filters, cfg, thr }
    let implErr : Option String := match impl with
      | some j => (match optFld j "error" with
        | some (Json.str s) => some s
        | _ => none)
      | none => none
    match c01wDoCall (fun _ r => r) a rows with
    | .error e =>
      pure (some (obj [("out", obj [("error", strJ e)]), ("slack", arrJ []), ("spec", arrJ []),
                       ("refused", boolJ true), ("impl_refused", boolJ (implErr == some e))]))
    | .ok o =>
      match implErr with
      | some e => pure (some (obj [("out", Json.null), ("slack", arrJ []), ("spec", arrJ []),
                                   ("refused", boolJ false), ("impl_refused", boolJ true), ("impl_error", strJ e)]))
      | none =>
      let implRows : Option Json := match impl with
        | some j => optFld j "rows"
        | none => none
      match ← handleCall "call" inp implRows with
      | none => throw "call handler missing"
      | some r =>
        -- the whole model against the per-row op (what `C01.c01w_specialises_*` prove, once more on this input)
        let wholeJ := arrJ (o.calls.map fun c => arrJ [optIntJ c.cn, optRatJ c.ratio, optIntJ c.cn1, optIntJ c.cn2])
        let same := match optFld r "out" with
          | some j => j.compress == wholeJ.compress
          | none => false
        if !same then throw "c01wDoCall differs from the per-row call model" else
        let strs (k : String) : R (Option (List String)) := match impl with
          | some j => (match optFld j k with
            | some Json.null => pure none
            | some v => do pure (some (← getList getStr v))
            | none => pure none)
          | none => pure none
        let iseq ← strs "seq"
        let ipre ← strs "pre"
        let ipost ← strs "post"
        let extra : List String :=
          (match iseq with | some s => if s == o.pre ++ o.post then [] else ["whole_filter_sequence"] | none => []) ++
          (match ipre with | some s => if s == o.pre then [] else ["whole_filters_before_calling"] | none => []) ++
          (match ipost with | some s => if s == o.post then [] else ["whole_filters_after_calling"] | none => [])
        let spec0 : List Json := match optFld r "spec" with
          | some (Json.arr xs) => xs.toList
          | _ => []
        let r := r.setObjVal! "spec" (arrJ (spec0 ++ extra.map strJ))
        let r := r.setObjVal! "pre" (arrJ (o.pre.map strJ))
        let r := r.setObjVal! "post" (arrJ (o.post.map strJ))
        let r := r.setObjVal! "steps" (arrJ (o.steps.map (fun s => strJ (c01wStepName s))))
        pure (some ((r.setObjVal! "refused" (boolJ false)).setObjVal! "impl_refused" (boolJ false)))
  | _ => pure none

/-- op `call_wrappers`: the public wrappers `absolute_reference`, `absolute_expect`, `log2_ratios` called directly.
    Input = rows, ploidy, hapX, female, par, `abs` (the absolutes handed to log2_ratios, exact doubles).
    Impl = `{"reference": [..], "expect": [..], "ratios": [2^log2 ..]}`. -/
def handleCallWrappers (op : String) (inp : Json) (impl : Option Json) : R (Option Json) := do
  match op with
  | "call_wrappers" =>
    let rows ← getList getSegRow (← fld inp "rows")
    let ploidy ← getNat (← fld inp "ploidy")
    let hapX ← getBool (← fld inp "hapX")
    let female ← getBool (← fld inp "female")
    let par ← getOptStr (← fld inp "par")
    let abs ← getList getRat (← fld inp "abs")
    if ploidy == 0 then throw "ploidy 0 is outside the model"
    let refs := c01wAbsoluteReference ploidy par hapX rows
    let exps := c01wAbsoluteExpect ploidy par female rows
    let ratios := c01wLog2Ratios ploidy hapX par rows abs
    let spec ← (match impl with
      | none => pure Json.null
      | some ij => do
        let ir ← getList getInt (← fld ij "reference")
        let ie ← getList getInt (← fld ij "expect")
        let iq ← getList getRat (← fld ij "ratios")
        let c1 := if ir == refs.map (fun (n : Nat) => (Int.ofNat n)) then [] else ["wrapper_reference_column"]
        let c2 := if ie == exps.map (fun (n : Nat) => (Int.ofNat n)) then [] else ["wrapper_expect_column"]
        let c3 := if iq.length == ratios.length && (iq.zip ratios).all (fun (a, b) => closeRat a b) then []
                  else ["wrapper_log2_ratios"]
        pure (arrJ ((c1 ++ c2 ++ c3).map strJ)))
    pure (some (obj [("out", obj [("reference", arrJ (refs.map (fun (n : Nat) => intJ (Int.ofNat n)))),
                                  ("expect", arrJ (exps.map (fun (n : Nat) => intJ (Int.ofNat n)))),
                                  ("ratios", arrJ (ratios.map ratJ))]),
                     ("slack", arrJ []), ("spec", spec)]))
  | _ => pure none

end CnvVerif.Drv
