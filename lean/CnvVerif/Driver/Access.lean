import CnvVerif.Driver.Json
import CnvVerif.Model.Access
import CnvVerif.Model.AccessCli
open Lean
namespace CnvVerif.Drv

/-- a region travels as `[chrom, start, end]` -/
def getTriple (j : Json) : R Row := do
  let a ← getArr j
  if a.size < 3 then throw "region needs 3 fields"
  pure { chrom := ← getStr a[0]!, s := ← getInt a[1]!, e := ← getInt a[2]!, gene := "" }

def tripleJ (r : Row) : Json := arrJ [strJ r.chrom, intJ r.s, intJ r.e]
def triplesJ (t : Table) : Json := arrJ (t.map tripleJ)
def regionJ (r : Region) : Json := arrJ [strJ r.1, natJ r.2.1, natJ r.2.2]

def getRegionNat (j : Json) : R Region := do
  let a ← getArr j
  if a.size < 3 then throw "region needs 3 fields"
  pure (← getStr a[0]!, ← getNat a[1]!, ← getNat a[2]!)

def getSeqs (j : Json) : R (List (String × List Char)) :=
  getList (fun x => do
    let a ← getArr x
    if a.size < 2 then throw "seq needs name and text"
    pure (← getStr a[0]!, (← getStr a[1]!).toList)) j

def exceptJ {α} (f : α → Json) : Except String α → Json
  | .ok v => f v
  | .error e => obj [("raises", strJ e)]

private def clJ (l : List String) : Json := arrJ (l.map strJ)

/-- per-sequence pipeline (`accessChrom`, the function the theorems are about) against the
    table-level model: only meaningful when sequence names are distinct -/
def perChromAgrees (seqLines : List (String × List (List Char)))
    (beds : List Table) (gap : Option Int) (skip : Bool) (out : Table) : Bool :=
  let kept := seqLines.filter (fun sq => !skip || isCanonicalName sq.1)
  let expect := kept.flatMap fun sq =>
    accessChrom sq.1 sq.2
      (beds.map (fun b => (sortTable b).filter (fun r => r.chrom == sq.1))) (gap.getD 0)
  expect.map (fun r => (r.chrom, r.s, r.e)) == out.map (fun r => (r.chrom, r.s, r.e))

/-- group the parsed lines into (name, body lines) records; lines before a header are dropped.
    `cur` = the record being filled (lines in reverse) -/
def recordsGo (cur : Option (String × List (List Char))) : List FLine → List (String × List (List Char))
  | [] => match cur with
    | some (n, ls) => [(n, ls.reverse)]
    | none => []
  | .header n :: rest =>
    (match cur with
     | some (m, ls) => [(m, ls.reverse)]
     | none => []) ++ recordsGo (some (n, [])) rest
  | .body c :: rest =>
    match cur with
    | some (m, ls) => recordsGo (some (m, c :: ls)) rest
    | none => recordsGo none rest

def recordsOf (l : List FLine) : List (String × List (List Char)) := recordsGo none l

def handleAccess (op : String) (inp : Json) (impl : Option Json) : R (Option Json) := do
  match op with
  | "get_regions" =>
    let text ← getStr (← fld inp "text")
    let seqs ← getSeqs (← fld inp "seqs")
    let lines := parseFasta text
    let out := getRegions lines
    let spec ← (match impl with
      | none => pure Json.null
      | some j => do
        let regs ← getList getRegionNat j
        pure (clJ (scanSpecB seqs regs)))
    -- the headline theorem, observed: scanning the lines = maximal runs of each record
    let recs := recordsOf lines
    let viaSeq : List Region := recs.flatMap (fun r => (scanSeq r.2).map (fun x => (r.1, x.1, x.2)))
    let chk := match out with
      | .ok o => o == viaSeq
      | .error _ => true
    pure (some (obj [("out", exceptJ (fun (l : List Region) => arrJ (l.map regionJ)) out),
                     ("spec", spec), ("records_agree", boolJ chk)]))
  | "access" =>
    let text ← getStr (← fld inp "text")
    let seqs ← getSeqs (← fld inp "seqs")
    let beds ← getList (getList getTriple) (← fld inp "beds")
    let gap : Option Int ← (match inp.getObjVal? "gap" with
      | .ok Json.null => pure none
      | .ok v => do pure (some (← getInt v))
      | .error _ =>
        -- left out: the command line has its own default (`"cli": true`), the API call do_access's
        match inp.getObjVal? "cli" with
        | .ok (Json.bool true) => pure (some (AccessArgs.gap ⟨[], none⟩))
        | _ => pure (some Generated.ACCESS_DEFAULT_MIN_GAP))
    let skip : Bool ← (match inp.getObjVal? "skip" with
      | .ok v => getBool v
      | .error _ => pure Generated.ACCESS_DEFAULT_SKIP_NONCANONICAL)
    let lines := parseFasta text
    let out := doAccess lines beds gap skip
    let ain : AccessIn := { seqs := seqs, excl := beds, minGap := gap.getD 0, skip := skip }
    let spec ← (match impl with
      | none => pure Json.null
      | some j => do
        let rows ← getList getTriple j
        pure (clJ (accessSpecB ain rows)))
    let chk := match out with
      | .ok o => perChromAgrees (recordsOf lines) beds gap skip o
      | .error _ => true
    let specm := match out with
      | .ok o => clJ (accessSpecB ain o)
      | .error _ => Json.null
    pure (some (obj [("out", exceptJ triplesJ out), ("spec", spec), ("specm", specm),
                     ("per_chrom_agrees", boolJ chk)]))
  | "canonical_name" =>
    let name ← getStr (← fld inp "name")
    pure (some (obj [("out", boolJ (isCanonicalName name)), ("spec", Json.null)]))
  | _ => pure none

end CnvVerif.Drv
