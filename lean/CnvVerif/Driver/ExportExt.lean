import CnvVerif.Driver.Json
import CnvVerif.Driver.Export
import CnvVerif.Model.ExportExt
open Lean
namespace CnvVerif.Drv
open CnvVerif CnvVerif.Export CnvVerif.Drv.Ex

def getSegFile (j : Json) : R SegFile := do
  pure { segId := ← getStr (← fld j "seg_id"), guess := ← getBool (← fld j "guess"),
         hasCn := ← getBool (← fld j "has_cn"), hasProbes := ← getBool (← fld j "has_probes"),
         rows := ← getList getSeg (← fld j "rows") }

def getCmdArgs (inp : Json) : R CmdArgs := do
  let ploidy ← getNat (← fld inp "ploidy")
  if ploidy == 0 then throw "ploidy 0 is outside the model"
  let sh ← (match optFld inp "show" with
    | some j => getShow j
    | none => pure ShowMode.ploidy)
  let lg ← (match optFld inp "label_genes" with
    | some j => getBool j
    | none => pure false)
  pure { ploidy, hapX := ← getBool (← fld inp "hapX"), par := ← getOptStr (← fld inp "par"),
         sexArg := ← getOptStr (← fld inp "sex"), sampleId := ← getOptStr (← fld inp "sample_id"),
         labelGenes := lg, showMode := sh }

/-- ops of the command-line glue: the model receives the options as argparse hands them over and, per file, the sex
    `guess_xx` infers (C15's subject) -/
def handleExportExt (op : String) (inp : Json) (impl : Option Json) : R (Option Json) := do
  match op with
  | "cmd_export_bed" =>
    let a ← getCmdArgs inp
    let files ← getList getSegFile (← fld inp "files")
    let out := cmdExportBed a files
    let slack := arrJ (files.map fun f => slackOf (fileCfg a f) f.rows false)
    let spec ← (match impl with
      | none => pure Json.null
      | some ij => do
        let got ← getList getBed ij
        -- the property's wording, per file, for the sex in force for that file
        let want := files.flatMap fun f =>
          ((f.rows.filter (bedKeep (fileCfg a f) (firstChrom f.rows) a.showMode)).map fun r => (f, r))
        let listed := got.length == want.length &&
          all2 (fun (g : BedRow) (w : SegFile × Seg) => g.chrom == w.2.chrom && g.s == w.2.s && g.e == w.2.e) got want
        pure (clauses [
          ("cli_bed_lists_each_files_segments_for_the_sex_in_force", listed),
          ("cli_bed_integer_copy_number", !listed || all2 (fun (g : BedRow) (w : SegFile × Seg) =>
            g.ncopies == ncopiesOf (fileCfg a w.1) (firstChrom w.1.rows) w.2) got want),
          ("cli_bed_label_option", !listed || all2 (fun (g : BedRow) (w : SegFile × Seg) =>
            g.label == bedLabel (cmdBedLabel a.sampleId a.labelGenes w.1.segId) w.2) got want)]))
    pure (some (obj [("out", arrJ (out.map bedJ)), ("slack", slack),
                     ("sexes", arrJ (files.map fun f => boolJ (fileCfg a f).female)), ("spec", spec)]))
  | "cmd_export_vcf" =>
    let a ← getCmdArgs inp
    let f ← getSegFile (← fld inp "file")
    let (col, out) := cmdExportVcf a f
    let cfg := fileCfg a f
    let wf := cfg.hasProbes && f.rows.all (fun r => decide (0 ≤ r.probes))
    let spec ← (match impl with
      | none => pure Json.null
      | some ij => do
        let got ← getList getVcf (← fld ij "records")
        let gotCol ← getStr (← fld ij "sample_col")
        let first := firstChrom f.rows
        let want := f.rows.filter (vcfKeep cfg first)
        let one := got.length == want.length &&
          all2 (fun (g : VcfRec) (r : Seg) => g.chrom == r.chrom && g.endp == r.e) got want
        if !wf then pure (clauses []) else
        pure (clauses [
          ("cli_vcf_one_record_per_unexpected_segment_for_the_sex_in_force", one),
          ("cli_vcf_sample_column_named", gotCol == col)]))
    pure (some (obj [("out", obj [("records", arrJ (out.map vcfJ)), ("sample_col", strJ col)]),
                     ("slack", slackOf cfg f.rows true), ("female", boolJ cfg.female), ("wf", boolJ wf), ("spec", spec)]))
  | _ => pure none

end CnvVerif.Drv
