import CnvVerif.Driver.CallCmd
import CnvVerif.Model.CallCmdCenterExt5c
open Lean
namespace CnvVerif.Drv
open CnvVerif.C01Ctr

/-- op `cmd_call_center`: `cnvkit.py call --center <estimator>`.  Input = the fields of op `cmd_call` (rows as READ from the
    file) with `center` = the estimator name and `rows_shift` = the rows as `center_all` leaves them (float log2 and its
    antilog, computed by the harness with the real `center_all`).  The model centres the rows itself (`centerRows`:
    `median` / `mean` exactly over Rat; `mode` / `biweight` with the estimate taken from `rows_shift` as the oracle),
    compares every centred log2 with `rows_shift` (1e-9 relative) and calls the centred table. -/
def handleCallCmdCenter (op : String) (inp : Json) (impl : Option Json) : R (Option Json) := do
  match op with
  | "cmd_call_center" =>
    let ploidy ← getNat (← fld inp "ploidy")
    let hapX ← getBool (← fld inp "hapX")
    let par ← getOptStr (← fld inp "par")
    let purity ← getOptRat (← fld inp "purity")
    let center ← (match optFld inp "center" with | some j => do pure (some (← getStr j)) | none => pure none)
    let sexArg ← (match optFld inp "sex_arg" with | some j => do pure (some (← getStr j)) | none => pure none)
    let guessed ← (match optFld inp "guessed_female" with | some j => getBool j | none => pure false)
    let args : CmdCallArgs := { purity, centerAt := none, center, sampleSex := sexArg }
    let implErr : Option String := match impl with
      | some j => (match optFld j "error" with
        | some (Json.str s) => some s
        | _ => none)
      | none => none
    match cmdCallPlan args ploidy hapX par guessed [] with
    | .error e =>
      pure (some (obj [("out", obj [("error", strJ e)]), ("slack", arrJ []), ("spec", arrJ []),
                       ("refused", boolJ true), ("impl_refused", boolJ (implErr == some e))]))
    | .ok (rc, cfg) =>
      match implErr with
      | some e => pure (some (obj [("out", Json.null), ("slack", arrJ []), ("spec", arrJ []),
                                   ("refused", boolJ false), ("impl_refused", boolJ true), ("impl_error", strJ e)]))
      | none =>
      match rc with
      | .estimator n =>
        let rows ← getList getSegRow (← fld inp "rows")
        let rs ← getList getSegRow (← fld inp "rows_shift")
        if !allPresent rows || rows.length != rs.length || rows.isEmpty then throw "centred table: rows with a missing log2 are outside the model"
        -- oracle for the estimators the model does not compute: what the real estimator took off the first row
        let c0 : Rat := ((rows.head?.bind (·.v)).getD 0) - ((rs.head?.bind (·.v)).getD 0)
        let ests := estimatorOf medianR meanR (fun _ => c0) (fun _ => c0)
        match ests n with
        | none => pure (some (obj [("out", obj [("error", strJ "ValueError")]), ("slack", arrJ []), ("spec", arrJ []),
                                   ("refused", boolJ true), ("impl_refused", boolJ false)]))
        | some est =>
        let sh := -(centerConst est false par rows)
        let pairs := (rows.map (fun r => r.v.getD 0 + sh)).zip (rs.map (·.t))
        let pow2 : Rat → Rat := fun x => ((pairs.find? (fun p => p.1 == x)).map (·.2)).getD 0
        let cen := centerRows est false par pow2 rows
        let bad := ((cen.zip rs).zipIdx.filter (fun (p, _) =>
          !(match p.1.v, p.2.v with
            | some a, some b => closeRat a b
            | _, _ => false) || p.1.chrom != p.2.chrom || p.1.s != p.2.s)).map (·.2)
        let inp' := (inp.setObjVal! "rows" (← fld inp "rows_shift")).setObjVal! "female" (boolJ cfg.female)
        match ← handleCall "call" inp' impl with
        | some r => pure (some ((((r.setObjVal! "refused" (boolJ false)).setObjVal! "impl_refused" (boolJ false)).setObjVal!
                      "center_bad" (arrJ (bad.map (fun k => intJ (k : Int))))).setObjVal! "center_const" (strJ (toString (-sh)))))
        | none => throw "call handler missing"
      | _ => throw "cmd_call_center without an estimator: use op cmd_call"
  | _ => pure none

end CnvVerif.Drv
