import CnvVerif.Driver.Json
import CnvVerif.Model.Genes
open Lean
namespace CnvVerif.Drv.Genes
open CnvVerif.Genes

/-- [label, chrom, s, e, gene, log2, depth, weight] -/
def getGBin (j : Json) : R Bin := do
  let a ← getArr j
  if a.size < 8 then throw "bin needs 8 fields"
  pure { label := ← getInt a[0]!, chrom := ← getStr a[1]!, s := ← getInt a[2]!, e := ← getInt a[3]!,
         gene := ← getStr a[4]!, log2 := ← getRat a[5]!, depth := ← getRat a[6]!, weight := ← getRat a[7]! }

/-- [chrom, s, e, gene, log2, probes|null, weight|null] -/
def getGSeg (j : Json) : R SegRow := do
  let a ← getArr j
  if a.size < 7 then throw "segment needs 7 fields"
  pure { chrom := ← getStr a[0]!, s := ← getInt a[1]!, e := ← getInt a[2]!, gene := ← getStr a[3]!,
         log2 := ← getRat a[4]!, probes := ← getOptInt a[5]!, weight := ← getOptRat a[6]! }

def genesCloseRat (a b : Rat) : Bool := ratAbs (a - b) ≤ (1 / 1000000000 : Rat) * max 1 (ratAbs b)

def genesCloseOpt (a b : Option Rat) : Bool :=
  match a, b with
  | some x, some y => genesCloseRat x y
  | none, none => true
  | _, _ => false

def optIntJ : Option Int → Json
  | some i => intJ i
  | none => Json.null

def getOptBool (j : Json) : R (Option Bool) :=
  match j with
  | .null => pure none
  | _ => do pure (some (← getBool j))

/-- groups travel as [gene, [labels…]] -/
def groupJ (p : String × List Bin) : Json := arrJ [strJ p.1, arrJ (p.2.map (fun b => intJ b.label))]

def getGroup (j : Json) : R (String × List Int) := do
  let a ← getArr j
  if a.size < 2 then throw "group needs 2 fields"
  pure (← getStr a[0]!, ← getList getInt a[1]!)

/-- [gene, chrom, s, e, log2|null, depth, weight, probes, segment_weight|null, segment_probes|null] -/
def growJ (r : GRow) : Json :=
  arrJ [strJ r.gene, strJ r.chrom, intJ r.s, intJ r.e, optRatJ r.log2, optRatJ r.depth, ratJ r.weight,
        natJ r.probes, optRatJ r.segWeight, optIntJ r.segProbes]

def getGRow (j : Json) : R GRow := do
  let a ← getArr j
  if a.size < 10 then throw "genemetrics row needs 10 fields"
  pure { gene := ← getStr a[0]!, chrom := ← getStr a[1]!, s := ← getInt a[2]!, e := ← getInt a[3]!,
         log2 := ← getOptRat a[4]!, depth := ← getOptRat a[5]!, weight := ← getRat a[6]!,
         probes := ← getNat a[7]!, segWeight := ← getOptRat a[8]!, segProbes := ← getOptInt a[9]! }

/-- squash rows: [chrom, s, e, gene, log2, depth, weight] -/
def sqJ (b : Bin) : Json := arrJ [strJ b.chrom, intJ b.s, intJ b.e, strJ b.gene, ratJ b.log2, ratJ b.depth, ratJ b.weight]

def getSq (j : Json) : R (String × Int × Int × String) := do
  let a ← getArr j
  if a.size < 4 then throw "squash row needs 4 fields"
  pure (← getStr a[0]!, ← getInt a[1]!, ← getInt a[2]!, ← getStr a[3]!)

/-- [gene, chrom, location, change, probes_left, probes_right] -/
def brkJ (b : Brk) : Json := arrJ [strJ b.gene, strJ b.chrom, intJ b.loc, ratJ b.change, natJ b.left, natJ b.right]

def getBrk (j : Json) : R Brk := do
  let a ← getArr j
  if a.size < 6 then throw "break row needs 6 fields"
  pure { gene := ← getStr a[0]!, chrom := ← getStr a[1]!, loc := ← getInt a[2]!, change := ← getRat a[3]!,
         left := ← getNat a[4]!, right := ← getNat a[5]! }

def errJ : Err → Json
  | .zeroDivision => obj [("error", strJ "ZeroDivisionError")]

/-! ### spec clauses (the property's wording on the implementation's output) -/

def flagIf (ok : Bool) (name : String) : List String := if ok then [] else [name]

/-- by_gene: `impl` = yielded groups as (name, labels) -/
def byGeneSpec (ign : List String) (t : List Bin) (impl : List (String × List Int)) : List String :=
  let look (l : Int) : Option Bin := t.find? (fun b => b.label == l)
  let groups : List (String × List (Option Bin)) := impl.map (fun p => (p.1, p.2.map look))
  if groups.any (fun p => p.2.any (·.isNone)) then ["yields_unknown_row"] else
  let gs : List (String × List Bin) := groups.map (fun p => (p.1, p.2.filterMap id))
  let chroms := byChrom t
  let labelsOf (l : List Bin) : List Int := l.map (·.label)
  let once := labelsOf (gs.flatMap (·.2)) == labelsOf (chroms.flatMap (·.2))
  let isAT (p : String × List Bin) : Bool := p.1 == antitarget
  let geneOk (p : String × List Bin) : Bool :=
    match p.2 with
    | [] => false
    | b :: _ =>
      !ign.contains p.1 &&
      labelsOf p.2 == labelsOf (geneSpan ign (t.filter (fun x => x.chrom == b.chrom)) p.1)
  let genesWanted : List (String × String) :=
    chroms.flatMap (fun c => (firstKeys (c.2.flatMap (named ign))).map (fun g => (c.1, g)))
  let genesGot : List (String × String) :=
    (gs.filter (fun p => !isAT p)).map (fun p => ((p.2.head?.map (·.chrom)).getD "", p.1))
  let atOk (p : String × List Bin) : Bool := !p.2.isEmpty && p.2.all (fun b => (named ign b).isEmpty)
  let rec noTwoAT : List (String × List Bin) → Bool
    | a :: b :: rest =>
      !(isAT a && isAT b && (a.2.getLast?.map (·.chrom)) == (b.2.head?.map (·.chrom))) && noTwoAT (b :: rest)
    | _ => true
  flagIf once "each_bin_once_in_order" ++
  flagIf ((gs.filter (fun p => !isAT p)).all geneOk) "gene_group_first_to_last" ++
  flagIf (genesGot == genesWanted) "each_gene_once" ++
  flagIf ((gs.filter isAT).all atOk && noTwoAT gs) "antitarget_stretches"

/-- the rows the property promises for a list of gene groups -/
def wantedRows (groups : List (String × List Bin)) (skipLow : Bool) : List GRow :=
  (groups.filter (fun p => p.1 != "" && !p.2.isEmpty)).filterMap (fun p => groupRow p.1 p.2 skipLow)

def sameGRow (a b : GRow) : Bool :=
  a.gene == b.gene && a.chrom == b.chrom && a.s == b.s && a.e == b.e && a.probes == b.probes &&
  genesCloseOpt a.log2 b.log2 && genesCloseOpt a.depth b.depth && genesCloseRat a.weight b.weight &&
  genesCloseOpt a.segWeight b.segWeight && a.segProbes == b.segProbes

def keyOf (r : GRow) : String × String × Int × Int := (r.chrom, r.gene, r.s, r.e)

/-- genemetrics without segments -/
def metricsSpecByGene (t : List Bin) (thr : Rat) (minProbes : Nat) (skipLow : Bool) (impl : List GRow) :
    List String :=
  let ign := fullIgnore defaultIgnore
  let all := wantedRows ((byChrom t).flatMap (fun c => expectedGenes ign c.2)) skipLow
  if all.any (fun r => r.depth.isNone) then [] else
  let want := all.filter (fun r => reaches r.log2 thr && decide (r.probes ≥ minProbes))
  let sel := (impl.map (fun r => (r.chrom, r.gene))) == (want.map (fun r => (r.chrom, r.gene)))
  let rowsOk := impl.all (fun r => match want.find? (fun w => w.chrom == r.chrom && w.gene == r.gene) with
    | some w => sameGRow r w
    | none => true)
  flagIf sel "genemetrics_selection" ++ flagIf rowsOk "genemetrics_row_exact"

/-- genemetrics with segments: for each segment reaching the threshold, the part of every gene
    inside it, with the segment's log2 -/
def metricsSpecBySegment (t : List Bin) (segs : List SegRow) (thr : Rat) (minProbes : Nat)
    (skipLow : Bool) (impl : List GRow) : List String :=
  let ign := fullIgnore defaultIgnore
  let all : List GRow :=
    ((segsInOrder segs).filter (fun sg => decide (ratAbs sg.log2 ≥ thr))).flatMap (fun sg =>
      (wantedRows (expectedGenes ign (binsOfSegment t sg)) skipLow).map
        (fun (r : GRow) => { r with log2 := some sg.log2, segWeight := sg.weight, segProbes := sg.probes }))
  if all.any (fun r => r.depth.isNone) then [] else
  let want := if minProbes == 0 then all else all.filter (fun r => match r.segProbes with
    | some p => decide (p ≥ (minProbes : Int))
    | none => decide (r.probes ≥ minProbes))
  let ok := impl.length == want.length && (impl.zip want).all (fun p => sameGRow p.1 p.2)
  flagIf ok "by_segment_parts"

/-- squash_genes: one row per gene from its first bin's start to its last bin's end; the other
    bins as they are (or one row per stretch when `squash_antitarget`) -/
def squashSpec (ign : List String) (squashAnti : Bool) (t : List Bin) (impl : List (String × Int × Int × String)) :
    List String :=
  let want : List (String × Int × Int) := (idealGroups ign t).flatMap (fun p =>
    if p.1 == antitarget && !squashAnti then p.2.map (fun b => (b.chrom, b.s, b.e))
    else match p.2, p.2.getLast? with
      | first :: _, some last => [(first.chrom, first.s, last.e)]
      | _, _ => [])
  let got := impl.map (fun r => (r.1, r.2.1, r.2.2.1))
  let geneRows := (idealGroups ign t).filter (fun p => p.1 != antitarget)
  let named1 := geneRows.all (fun p => match p.2 with
    | [_] => true
    | first :: _ => impl.any (fun r => r.1 == first.chrom && r.2.1 == first.s && r.2.2.2 == p.1)
    | [] => true)
  flagIf (got == want) "squash_one_row_per_gene" ++ flagIf named1 "squash_row_named_for_gene"

/-- breaks: exactly the genes with at least `minProbes` bins on each side of a boundary -/
def breaksWanted (t : List Bin) (minProbes : Nat) : List SegRow → List Brk
  | cur :: nxt :: rest =>
    (if cur.chrom == nxt.chrom then
      let ign := fullIgnore defaultIgnore
      let rows := t.filter (fun b => b.chrom == cur.chrom && !ign.contains b.gene)
      (firstKeys (rows.map (·.gene))).filterMap (fun g =>
        let mine := rows.filter (fun b => b.gene == g)
        let l := mine.countP (fun b => decide (b.s < cur.e))
        let r := mine.countP (fun b => decide (b.s ≥ cur.e))
        if l ≥ minProbes && r ≥ minProbes then
          some { gene := g, chrom := cur.chrom, loc := cur.e, change := nxt.log2 - cur.log2, left := l, right := r : Brk }
        else none)
    else []) ++ breaksWanted t minProbes (nxt :: rest)
  | _ => []

def sameBrk (a b : Brk) : Bool :=
  a.gene == b.gene && a.chrom == b.chrom && a.loc == b.loc && a.left == b.left && a.right == b.right &&
  genesCloseRat a.change b.change

def subBrk (a b : List Brk) : Bool := a.all (fun x => b.any (sameBrk x))

def breaksSpec (t : List Bin) (segs : List SegRow) (minProbes : Nat) (impl : List Brk) : List String :=
  if minProbes == 0 || t.any (fun b => decide (b.e ≤ b.s)) then [] else
  let want := breaksWanted t minProbes segs
  flagIf (impl.length == want.length && subBrk impl want && subBrk want impl) "breaks_exact"

def genesMinSlack (l : List Rat) : Rat := l.foldl min 1

def handleGenes (op : String) (inp : Json) (impl : Option Json) : R (Option Json) := do
  match op with
  | "by_gene" =>
    let t ← getList getGBin (← fld inp "rows")
    let ignore ← (match optFld inp "ignore" with
      | some j => getList getStr j
      | none => pure defaultIgnore)
    let prefix' ← (match optFld inp "prefix" with
      | some j => getBool j
      | none => pure false)
    let out := if prefix' then byGeneLoc ignore t else byGene ignore t
    let ign := fullIgnore ignore
    let wf := tableContiguousB ign t
    let spec ← (match impl with
      | none => pure Json.null
      | some ij => do
        let gs ← getList getGroup ij
        pure (arrJ ((if wf then byGeneSpec ign t gs else []).map strJ)))
    let specm := if wf then byGeneSpec ign t (out.map (fun p => (p.1, p.2.map (·.label)))) else []
    pure (some (obj [("out", arrJ (out.map groupJ)), ("spec", spec), ("wf", boolJ wf),
      ("specm", arrJ (specm.map strJ))]))
  | "genemetrics" =>
    let t ← getList getGBin (← fld inp "rows")
    let segs ← (match optFld inp "segs" with
      | some j => do pure (some (← getList getGSeg j))
      | none => pure none)
    let thr ← getRat (← fld inp "thr")
    let minProbes ← getNat (← fld inp "min_probes")
    let skipLow ← getBool (← fld inp "skip_low")
    let hapX ← getBool (← fld inp "hapx")
    let isXX ← getOptBool ((optFld inp "female").getD Json.null)
    let pre ← (match optFld inp "prefix" with
      | some j => getBool j
      | none => pure false)
    let t' := shiftBins t hapX isXX
    let segs' := segs.map (fun sg => shiftSegs sg hapX isXX)
    let bySeg := match segs with
      | some sg => !sg.isEmpty
      | none => false
    let wf := tableContiguousB (fullIgnore defaultIgnore) t
    -- distance of every threshold comparison to its boundary
    let slack : Rat :=
      if bySeg then genesMinSlack ((segs'.getD []).map (fun sg => ratAbs (ratAbs sg.log2 - thr)))
      else genesMinSlack ((groupByGenes t' skipLow pre).filterMap (fun r => r.log2.map (fun v => ratAbs (ratAbs v - thr))))
    let out := doGenemetrics t segs thr minProbes skipLow hapX isXX pre
    let spec ← (match impl with
      | none => pure Json.null
      | some ij => do
        match ij.getObjVal? "error" with
        | .ok _ => pure (arrJ [])
        | .error _ =>
          let rows ← getList getGRow ij
          let cl := if !wf then []
            else if bySeg then metricsSpecBySegment t' (segs'.getD []) thr minProbes skipLow rows
            else metricsSpecByGene t' thr minProbes skipLow rows
          pure (arrJ (cl.map strJ)))
    let outJ := match out with
      | .ok rows => arrJ (rows.map growJ)
      | .error e => errJ e
    pure (some (obj [("out", outJ), ("spec", spec), ("slack", ratJ slack), ("wf", boolJ wf)]))
  | "squash_genes" =>
    let t ← getList getGBin (← fld inp "rows")
    let ignore ← (match optFld inp "ignore" with
      | some j => getList getStr j
      | none => pure defaultIgnore)
    let squashAnti ← getBool (← fld inp "squash_antitarget")
    let f : Summary := match optFld inp "summary" with
      | some (Json.str "median") => .median
      | _ => .mean
    let pre ← (match optFld inp "prefix" with
      | some j => getBool j
      | none => pure false)
    let out := squashGenes f squashAnti ignore t pre
    let ign := fullIgnore ignore
    let wf := tableContiguousB ign t
    let spec ← (match impl with
      | none => pure Json.null
      | some ij => do
        let rows ← getList getSq ij
        pure (arrJ ((if wf then squashSpec ign squashAnti t rows else []).map strJ)))
    pure (some (obj [("out", arrJ (out.map sqJ)), ("spec", spec), ("wf", boolJ wf)]))
  | "breaks" =>
    let t ← getList getGBin (← fld inp "rows")
    let segs ← getList getGSeg (← fld inp "segs")
    let minProbes ← getNat (← fld inp "min_probes")
    let out := breakpoints t minProbes segs
    let spec ← (match impl with
      | none => pure Json.null
      | some ij => do
        let rows ← getList getBrk ij
        pure (arrJ ((breaksSpec t segs minProbes rows).map strJ)))
    pure (some (obj [("out", arrJ (out.map brkJ)), ("spec", spec)]))
  | _ => pure none

end CnvVerif.Drv.Genes