/-
  Model of cnvlib/call.py (do_call: clonal / threshold / none, purity rescaling, allelic copy
  numbers) in *ratio space*: a row carries `t`, the exact rational value of the double
  `2**log2` that Python computes, next to the exact rational `v` of the double `log2` itself.
  Core Lean only.
-/
import CnvVerif.Basic
import CnvVerif.Generated.Consts
import CnvVerif.Generated.CallConsts
import CnvVerif.Model.Interval
namespace CnvVerif

/-- a segment / bin row as `do_call` sees it -/
structure SegRow where
  chrom : String
  s : Int
  e : Int
  v : Option Rat      -- log2 (none = NaN)
  t : Rat             -- the double `2**log2` as an exact rational (anything when `v = none`)
  baf : Option Rat    -- b-allele frequency (none = NaN)
deriving Repr, Inhabited

structure CallCfg where
  ploidy : Nat
  purity : Option Rat
  hapX : Bool          -- is_haploid_x_reference
  female : Bool        -- is_sample_female
  par : Option String  -- diploid_parx_genome
  /-- the antilogs `2^thr` of the thresholds (exact doubles): on the purity path the threshold scan reads the
      RESCALED log2, which the model only has as a ratio, so it compares ratios -/
  thrPow2 : List Rat := []
deriving Repr, Inhabited

inductive CClass | auto | x | y | parx | pary
deriving Repr, DecidableEq, Inhabited

/-- look up one PAR interval in the generated table -/
def parRange (genome key : String) : Option (Int × Int) :=
  (Generated.PAR_TABLE.find? (fun r => r.1 == genome && r.2.1 == key)).map (fun r => (r.2.2.1, r.2.2.2))

/-- `((start >= par1_start) & (end <= par1_end)) | ((start >= par2_start) & (end <= par2_end))` -/
def inPar (genome k1 k2 : String) (s e : Int) : Bool :=
  let g := genome.toLower
  let hit (k : String) : Bool := match parRange g k with
    | some (lo, hi) => decide (s ≥ lo) && decide (e ≤ hi)
    | none => false
  hit k1 || hit k2

/-- `chr_x_label`: "chrX" if the first row's chromosome starts with "chr", else "X" -/
def xLabel (first : String) : String := if first.startsWith "chr" then "chrX" else "X"
def yLabel (first : String) : String := if first.startsWith "chr" then "chrY" else "Y"

/-- chromosome class on the purity-adjusted path (`chr_x_filter`, `chr_y_filter`, `pary_filter`) -/
def classOf (first : String) (par : Option String) (chrom : String) (s e : Int) : CClass :=
  if chrom == xLabel first then
    match par with
    | some g => if inPar g "PAR1X" "PAR2X" s e then .parx else .x
    | none => .x
  else if chrom == yLabel first then
    match par with
    | some g => if inPar g "PAR1Y" "PAR2Y" s e then .pary else .y
    | none => .y
  else .auto

/-- `get_as_dframe_and_set_reference_and_expect_copies`: (reference, expect) -/
def refExpect (ploidy : Nat) (hapX female : Bool) : CClass → Nat × Nat
  | .auto => (ploidy, ploidy)
  | .parx => (ploidy, ploidy)
  | .x => (if hapX then ploidy / 2 else ploidy, if female then ploidy else ploidy / 2)
  | .y => (ploidy / 2, if female then 0 else ploidy / 2)
  | .pary => (0, 0)

/-- `_reference_copies_pure` (case-insensitive, either naming style) -/
def refCopiesPure (chrom : String) (ploidy : Nat) (hapX : Bool) : Nat :=
  let c := chrom.toLower
  if c == "chry" || c == "y" || (hapX && (c == "chrx" || c == "x")) then ploidy / 2 else ploidy

/-- Python truthiness `purity and purity < 1.0` -/
def purityActive (p : Option Rat) : Option Rat :=
  match p with
  | some q => if q ≠ 0 ∧ q < 1 then some q else none
  | none => none

/-- `_log2_ratio_to_absolute` (repaired code, fix A: the purity-adjusted value is clipped at 0) -/
def absoluteOf (r x : Nat) (purity : Option Rat) (t : Rat) : Rat :=
  match purityActive purity with
  | some p => max 0 (((r : Rat) * t - (x : Rat) * (1 - p)) / p)
  | none => (r : Rat) * t

/-- the unclipped formula of the docstring, `n = (r*2^v - x*(1-p)) / p` -/
def absoluteRaw (r x : Nat) (p : Rat) (t : Rat) : Rat := ((r : Rat) * t - (x : Rat) * (1 - p)) / p

/-- numpy `round` (half to even) of any rational -/
def roundHE (q : Rat) : Int := roundHalfEven q

/-- `log2_ratios` in ratio space: `max(abs/ploidy, 1e-3)`, doubled on X for a haploid-X
    reference and on Y -/
def rescaledRatio (ploidy : Nat) (hapX : Bool) (cls : CClass) (a : Rat) (minAbs : Rat) : Rat :=
  let base := max (a / (ploidy : Rat)) minAbs
  let fx : Rat := if hapX && cls == .x then 2 else 1
  let fy : Rat := if cls == .y then 2 else 1
  base * fx * fy

/-- `absolute_threshold` for one row -/
def thresholdCall (thr : List Rat) (ploidy r : Nat) (v : Option Rat) (t : Rat) : Int :=
  match v with
  | none => (r : Int)
  | some v =>
    match thr.findIdx? (fun th => decide (v ≤ th)) with
    | some i => if r ≠ ploidy then ((i * r / ploidy : Nat) : Int) else (i : Int)
    | none => ((r : Rat) * t).ceil

/-- major/minor allelic copy numbers; `none` = NaN -/
def allelic (cn : Int) (a : Rat) (baf : Option Rat) : Option Int × Option Int :=
  let upper : Rat := match baf with
    | some b => (if b - 1/2 < 0 then -(b - 1/2) else b - 1/2) + 1/2
    | none => 1
  let c1 := min (max (roundHE (a * upper)) 0) cn
  -- numpy clip(lo, hi) = minimum(maximum(x, lo), hi)
  if baf.isNone && cn > 0 then (none, none) else (some c1, some (cn - c1))

inductive Method | threshold | clonal | none
deriving Repr, DecidableEq, Inhabited

structure CallOut where
  cn : Option Int          -- none when method = none
  ratio : Option Rat       -- rewritten log2 (as a ratio) when the purity path ran
  cn1 : Option Int
  cn2 : Option Int
  absolute : Rat           -- un-rounded absolute copy number (for the knife-edge rule)
deriving Repr, Inhabited

/-- `do_call` for one row (without filters / variants; `baf` column present iff `hasBaf`).
    On the purity path the threshold method re-reads the *rescaled* log2 (`cfg.thrPow2`). -/
def callRow (cfg : CallCfg) (m : Method) (thr : List Rat) (first : String) (hasBaf : Bool)
    (row : SegRow) : CallOut :=
  let cls := classOf first cfg.par row.chrom row.s row.e
  let (r, x) := refExpect cfg.ploidy cfg.hapX cfg.female cls
  let rp := refCopiesPure row.chrom cfg.ploidy cfg.hapX
  match purityActive cfg.purity with
  | some _ =>
    let a := absoluteOf r x cfg.purity row.t
    let ratio := rescaledRatio cfg.ploidy cfg.hapX cls a Generated.MIN_ABS_VAL
    match m with
    | .none => { cn := none, ratio := some ratio, cn1 := none, cn2 := none, absolute := a }
    | .clonal =>
      let cn := roundHE a
      let (c1, c2) := if hasBaf then allelic cn a row.baf else (none, none)
      { cn := some cn, ratio := some ratio, cn1 := c1, cn2 := c2, absolute := a }
    | .threshold =>
      -- `absolute_threshold` scans the log2 column just rewritten by `log2_ratios`: in ratio space, the
      -- rescaled ratio against the thresholds' antilogs; above the last one, ceil(r · ratio)
      let cn := thresholdCall cfg.thrPow2 cfg.ploidy rp (some ratio) ratio
      let (c1, c2) := if hasBaf then allelic cn (cn : Rat) row.baf else (none, none)
      { cn := some cn, ratio := some ratio, cn1 := c1, cn2 := c2, absolute := (cn : Rat) }
  | none =>
    match m with
    | .none => { cn := none, ratio := none, cn1 := none, cn2 := none, absolute := 0 }
    | .clonal =>
      let a := (rp : Rat) * row.t
      let cn := roundHE a
      let (c1, c2) := if hasBaf then allelic cn a row.baf else (none, none)
      { cn := some cn, ratio := none, cn1 := c1, cn2 := c2, absolute := a }
    | .threshold =>
      let cn := thresholdCall thr cfg.ploidy rp row.v row.t
      let (c1, c2) := if hasBaf then allelic cn (cn : Rat) row.baf else (none, none)
      { cn := some cn, ratio := none, cn1 := c1, cn2 := c2, absolute := (cn : Rat) }

def callTable (cfg : CallCfg) (m : Method) (thr : List Rat) (hasBaf : Bool) (rows : List SegRow) :
    List CallOut :=
  let first := (rows.head?.map (·.chrom)).getD ""
  rows.map (callRow cfg m thr first hasBaf)

/-- `rescale_baf(purity, observed_baf)` with the normal-sample BAF 0.5 -/
def callRescaleBaf (p b : Rat) : Rat := (b - (1/2) * (1 - p)) / p

/-- the BAF column `do_call` works with: values taken from the `variants` argument are rescaled for purity
    when the purity path runs; a `baf` column already present in the table is used as it is -/
def bafForCall (cfg : CallCfg) (fromVariants : Bool) (row : SegRow) : SegRow :=
  match purityActive cfg.purity with
  | some p => if fromVariants then { row with baf := row.baf.map (callRescaleBaf p) } else row
  | none => row

/-- `do_call` with b-allele frequencies (from the table, or from `variants`) -/
def callTableV (cfg : CallCfg) (m : Method) (thr : List Rat) (fromVariants : Bool) (rows : List SegRow) :
    List CallOut :=
  callTable cfg m thr true (rows.map (bafForCall cfg fromVariants))

/-- distance of `q` to the nearest half-integer (rounding boundary) -/
def halfSlack (q : Rat) : Rat :=
  let d := q - q.floor
  if d - 1/2 < 0 then 1/2 - d else d - 1/2

/-- distance of `q` to the nearest integer (ceil boundary) -/
def intSlack (q : Rat) : Rat :=
  let d := q - q.floor
  min d (1 - d)

end CnvVerif
