/-
  Model of the glue between the command line and `do_call` (growth round, C01): `commands._cmd_call` and
  `cmdutil.verify_sample_sex` as a decision structure — purity validation, which re-centring runs, which sample sex is
  handed on — in front of the `callTable` of Model/Call.lean.  Core Lean only.
-/
import CnvVerif.Model.Call
namespace CnvVerif

/-- what `_cmd_call` does to the log2 column before calling -/
inductive Recenter
  | shiftBy (c : Rat)            -- `--center-at c` with c ≠ 0: `cnarr["log2"] -= c`
  | estimator (name : String)    -- `--center [name]` (only when `--center-at` is absent or 0): `center_all`
  | none
deriving Repr, DecidableEq, Inhabited

structure CmdCallArgs where
  purity : Option Rat            -- `--purity` (absent = None)
  centerAt : Option Rat          -- `--center-at`
  center : Option String         -- `--center [estimator]`
  sampleSex : Option String      -- `-x/--sample-sex`, any accepted spelling
deriving Repr, Inhabited

/-- `if args.purity and not 0.0 < args.purity <= 1.0: raise RuntimeError("Purity must be between 0 and 1.")` -/
def cmdPurityRejected (purity : Option Rat) : Bool :=
  match purity with
  | some p => p != 0 && !(decide (0 < p) && decide (p ≤ 1))
  | none => false

/-- `if args.center_at: … elif args.center: …` (truthiness: a centre of 0.0 counts as absent) -/
def cmdRecenter (centerAt : Option Rat) (center : Option String) : Recenter :=
  match centerAt with
  | some c => if c != 0 then .shiftBy c else
      (match center with
       | some n => if n != "" then .estimator n else .none
       | none => .none)
  | none =>
      (match center with
       | some n => if n != "" then .estimator n else .none
       | none => .none)

/-- `verify_sample_sex`: a stated sex wins over the guess; every spelling but y / m / male (any case) is female -/
def cmdSexArgFemale (sexArg : String) : Bool :=
  let s := sexArg.toLower
  !(s == "y" || s == "m" || s == "male")

def cmdVerifySex (guessedFemale : Bool) (sexArg : Option String) : Bool :=
  match sexArg with
  | some s => if s != "" then cmdSexArgFemale s else guessedFemale
  | none => guessedFemale

/-- the `is_sample_female` argument `do_call` receives: the verified sex on the purity path, `None` (falsy) otherwise -/
def cmdSexHandoff (purity : Option Rat) (guessedFemale : Bool) (sexArg : Option String) : Bool :=
  match purityActive purity with
  | some _ => cmdVerifySex guessedFemale sexArg
  | none => false

/-- the decisions of `_cmd_call`: refuse, or (re-centring, configuration handed to `do_call`) -/
def cmdCallPlan (a : CmdCallArgs) (ploidy : Nat) (hapX : Bool) (par : Option String) (guessedFemale : Bool)
    (thrPow2 : List Rat) : Except String (Recenter × CallCfg) :=
  if cmdPurityRejected a.purity then .error "RuntimeError"
  else .ok (cmdRecenter a.centerAt a.center,
            { ploidy, purity := a.purity, hapX, female := cmdSexHandoff a.purity guessedFemale a.sampleSex, par, thrPow2 })

/-- the whole command for the re-centrings the model can execute (`shiftBy`: the rows arrive with the shifted log2 and its
    antilog, `rowsShifted`; `none`: as read).  `estimator` is C15's subject (`center_all`) and is not composed here. -/
def cmdCall (a : CmdCallArgs) (ploidy : Nat) (hapX : Bool) (par : Option String) (guessedFemale : Bool)
    (m : Method) (thr thrPow2 : List Rat) (hasBaf : Bool) (rows rowsShifted : List SegRow) :
    Except String (List CallOut) :=
  match cmdCallPlan a ploidy hapX par guessedFemale thrPow2 with
  | .error e => .error e
  | .ok (.shiftBy _, cfg) => .ok (callTable cfg m thr hasBaf rowsShifted)
  | .ok (.none, cfg) => .ok (callTable cfg m thr hasBaf rows)
  | .ok (.estimator _, _) => .error "estimator re-centring is outside this model"

end CnvVerif
