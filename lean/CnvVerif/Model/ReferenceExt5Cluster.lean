/-
  C05, round 5 -- the per-cluster columns of `reference --cluster` (`combine_probes` with `do_cluster`,
  `create_clusters`, `summarize_info(clust_matrix, [])`), bias corrections off.

  The k-means MEMBERSHIP (`cluster.kmeans`: PCA, whitening, scipy's k-means++ under a fixed numpy seed) is a
  parameter: a list of clusters, each a list of row numbers of the sample matrix, in the order `kmeans` returns them.
  Everything after it is modelled: the pseudo-sample row is dropped, the rows are the samples in file-name order
  (target block and antitarget block stacked side by side: sample i's row is its target values followed by its
  antitarget values), a cluster smaller than `min_cluster_size` is skipped but keeps its number, and cluster
  number i (counted from 1) contributes `log2_i` = biweight location and `spread_i` = biweight midvariance (started
  at that location) of every bin's column over the member rows.  Core Lean only.
-/
import CnvVerif.Model.Reference
namespace CnvVerif.Ref.C05Cl
open CnvVerif CnvVerif.Ref

/-- one block as `load_sample_block` hands it to `np.hstack`: the bins of the first file (file-name order) and one
    row of centred, sex-shifted log2 values per sample -- WITHOUT the pseudo-sample row.  A block whose first file is
    empty has no bins and one empty row per file. -/
def blockLogr (hapX : Bool) (par : Option String) (skipLow : Bool) (sexes : List (String × Bool))
    (samples : List Sample) : Except RefErr (List CovRow × List (List Rat)) :=
  match sortSamples samples with
  | [] => .ok ([], [])
  | first :: rest =>
    if first.rows.isEmpty then .ok ([], (first :: rest).map (fun _ => [])) else
    match rest.find? (fun s => s.rows.map binKey != first.rows.map binKey) with
    | some bad => .error (.binsDiffer bad.name)
    | none =>
      let flat := expectFlat hapX par (first.rows.map toC)
      .ok (first.rows, (first :: rest).map fun s =>
        sampleLogr hapX par skipLow ((sexes.find? (·.1 == s.name)).map (·.2)) flat s.rows)

/-- `np.hstack([all_logr, anti_logr])`: sample i's row is its target values followed by its antitarget values -/
def hstack (t a : List (List Rat)) : List (List Rat) :=
  match a with
  | [] => t
  | _ => (t.zip a).map fun p => p.1 ++ p.2

/-- the (log2_i, spread_i) cell of one bin: `summarize_info` on the bin's column over the member rows -/
def cellOf (col : List Rat) : Rat × Desc.ScaleOut :=
  let c := locOf col
  (c, spreadOf col c)

/-- `logr_matrix[clust_idx, :]`: the member rows, in the order of the index list -/
def memberRows (logr : List (List Rat)) (idx : List Nat) : List (List Rat) := idx.map fun j => logr.getD j []

/-- the column pair of ONE cluster over `n` bins -/
def clusterColumn (n : Nat) (logr : List (List Rat)) (idx : List Nat) : List (Rat × Desc.ScaleOut) :=
  (columns n (memberRows logr idx)).map cellOf

/-- `create_clusters` after `kmeans`: clusters numbered from 1 in the order given; one below `min_cluster_size` is
    skipped (its number is not reused) -/
def clusterCols (members : List (List Nat)) (minSize : Nat) (n : Nat) (logr : List (List Rat)) :
    List (Nat × List (Rat × Desc.ScaleOut)) :=
  members.zipIdx.filterMap fun p =>
    if p.1.length < minSize then none else some (p.2 + 1, clusterColumn n logr p.1)

structure ClusterTable where
  bins : List CovRow                                   -- target bins then antitarget bins, before the final sort
  cols : List (Nat × List (Rat × Desc.ScaleOut))       -- (cluster number, one cell per bin)
deriving Inhabited

/-- `combine_probes(..., do_cluster=True)` up to the final sort: the bins of both blocks and the cluster columns.
    (The row order after `ref_cna.sort()` is the pooled model's; the cluster cells travel with their bins.) -/
def doCluster (hapX : Bool) (par : Option String) (sexes : List (String × Bool))
    (targets : List Sample) (antitargets : Option (List Sample)) (members : List (List Nat)) (minSize : Nat) :
    Except RefErr ClusterTable := do
  match antitargets with
  | some a => if a.length ≠ targets.length && !a.isEmpty then throw .unequalCounts
  | none => pure ()
  let t ← blockLogr hapX par true sexes targets
  let a ← match antitargets with
    | some a => if a.isEmpty then pure ([], []) else blockLogr hapX par false sexes a
    | none => pure ([], [])
  let bins := t.1 ++ a.1
  pure { bins := bins, cols := clusterCols members minSize bins.length (hstack t.2 a.2) }

end CnvVerif.Ref.C05Cl
