/-
  Model of the glue around the segmenters in cnvlib/segmentation/__init__.py
  (_do_segmentation filters, transfer_fields, the per-arm split of GenomicArray.by_arm) and the
  decidable checker of property C03.  The segmenters themselves (haar, HMM) are black boxes that
  return a partition of the surviving bins of a unit (an arm, or the whole genome for the HMM
  methods) into consecutive runs; the model is parameterised by that partition (`runs`).
  Core Lean only.
-/
import CnvVerif.Basic
import CnvVerif.Generated.Consts
namespace CnvVerif

/-- a bin of the `.cnr` table handed to `do_segmentation`; `keep` = survived the filters -/
structure Bin where
  chrom : String
  s : Int
  e : Int
  gene : String
  log2 : Rat
  weight : Rat
  depth : Rat
  keep : Bool
deriving Repr, Inhabited, DecidableEq

/-- a reported segment -/
structure SegO where
  chrom : String
  s : Int
  e : Int
  gene : String
  log2 : Rat
  probes : Int
  weight : Rat
  depth : Rat
deriving Repr, Inhabited, DecidableEq

def sumQ (l : List Rat) : Rat := l.foldl (· + ·) 0

/-! ### filters of `_do_segmentation` -/

/-- `drop_low_coverage`: `log2 < NULL_LOG2_COVERAGE - MIN_REF_COVERAGE` or `depth == 0` -/
def isLowCoverage (log2 depth : Rat) : Bool :=
  decide (log2 < Generated.NULL_LOG2_COVERAGE - Generated.MIN_REF_COVERAGE) || decide (depth = 0)

/-- weight filter: `weight < min_weight` when a minimum is given, else `weight == 0` -/
def weightTooLow (minWeight : Rat) (w : Rat) : Bool :=
  if minWeight ≠ 0 then decide (w < minWeight) else decide (w = 0)

/-- survive mask of the deterministic filters (`outlier` = mask computed by the rolling-quantile
    filter, a parameter) -/
def surviveMask (skipLow : Bool) (minWeight : Rat) (outlier : Bool) (log2 depth w : Rat) : Bool :=
  !(skipLow && isLowCoverage log2 depth) && !outlier && !weightTooLow minWeight w

/-! ### `GenomicArray.by_arm` -/

/-- Python `round` (half to even) of `n / 10`, as `int(round(0.1 * n))` -/
def roundTenth (n : Nat) : Nat :=
  let q := n / 10
  let r := n % 10
  if r < 5 then q else if r > 5 then q + 1 else if q % 2 == 0 then q else q + 1

/-- index of the first maximum (`argmax`) -/
def argmaxGo : List Int → Nat → Nat → Int → Nat
  | [], _, best, _ => best
  | x :: xs, i, best, bv => if x > bv then argmaxGo xs (i + 1) i x else argmaxGo xs (i + 1) best bv

def argmax : List Int → Nat
  | [] => 0
  | x :: xs => argmaxGo xs 1 0 x

/-- split index of one chromosome's rows (`0` = no split): the largest gap between consecutive
    bins away from both ends by `margin`, if it is at least `minGap` -/
def cmereIdx (starts ends : List Int) (minGap : Int) (minArmBins : Nat) : Nat :=
  let n := starts.length
  let margin := max minArmBins (roundTenth n)
  if n > 2 * margin + 1 then
    let a := (starts.drop (margin + 1)).take (n - margin - (margin + 1))
    let b := (ends.drop margin).take (n - margin - 1 - margin)
    let gaps := (a.zip b).map (fun p => p.1 - p.2)
    let i := argmax gaps
    let size := gaps.getD i 0
    let idx := i + margin + 1
    if size ≥ minGap then idx else 0
  else 0

/-- arms of one chromosome's rows -/
def armsOfChrom {α} (rows : List α) (s e : α → Int) (minGap : Int) (minArmBins : Nat) : List (List α) :=
  let idx := cmereIdx (rows.map s) (rows.map e) minGap minArmBins
  if idx = 0 then [rows] else [rows.take idx, rows.drop idx]

/-- `by_arm()` over a table: chromosomes in order of first appearance, each split at most once -/
def byArm (t : List Bin) : List (List Bin) :=
  ((t.map (·.chrom)).eraseDups).flatMap fun c =>
    armsOfChrom (t.filter (fun b => b.chrom == c)) (·.s) (·.e) 100000 50

/-! ### assembling segments from a partition of the survivors -/

/-- split a list into consecutive runs of the given lengths (a final remainder is kept as one run) -/
def splitLens {α} : List α → List Nat → List (List α)
  | l, [] => if l.isEmpty then [] else [l]
  | l, n :: ns =>
    if l.isEmpty then [] else if n = 0 then splitLens l ns else l.take n :: splitLens (l.drop n) ns

/-- weighted mean of the surviving bins' log2 (`segment_mean` / `squash_region`) -/
def wmeanLog2 (run : List Bin) : Rat :=
  let w := sumQ (run.map (·.weight))
  if w > 0 then sumQ (run.map (fun b => b.log2 * b.weight)) / w
  else sumQ (run.map (·.log2)) / (run.length : Rat)

/-- segment of one run of surviving bins: first start to last end -/
def segOfRun (run : List Bin) : Option SegO :=
  match run with
  | [] => none
  | first :: _ =>
    let last := run.getLast?.getD first
    some { chrom := first.chrom, s := first.s, e := last.e, gene := "-", log2 := wmeanLog2 run,
           probes := run.length, weight := 0, depth := 0 }

def meaningful (g : String) : Bool :=
  !(Generated.IGNORE_GENE_NAMES.contains g) && !(Generated.ANTITARGET_ALIASES.contains g)

/-- the aggregation loop of `transfer_fields` for one segment: all input bins of the unit on the
    segment's chromosome that overlap its (stretched) span -/
def aggregate (unit : List Bin) (g : SegO) : SegO :=
  let sel := unit.filter (fun b => b.chrom == g.chrom && decide (b.e > g.s) && decide (b.s < g.e))
  let w := sumQ (sel.map (·.weight))
  let d := if w > 0 then sumQ (sel.map (fun b => b.depth * b.weight)) / w else 0
  let names := ((sel.map (·.gene)).eraseDups).filter meaningful
  { g with weight := w, depth := d, gene := if names.isEmpty then "-" else ",".intercalate names }

def setFirst {α} (f : α → α) : List α → List α
  | [] => []
  | x :: xs => f x :: xs

def setLast {α} (f : α → α) : List α → List α
  | [] => []
  | [x] => [f x]
  | x :: xs => x :: setLast f xs

/-- `transfer_fields` (repaired code, fixes C and R: the first / last segment is stretched to the
    unit's first / last input bin, when on the same chromosome) after the segmenter's partition -/
def assembleUnit (unit : List Bin) (runs : List Nat) : List SegO :=
  match unit with
  | [] => []
  | ufirst :: _ =>
    let ulast := unit.getLast?.getD ufirst
    let survivors := unit.filter (·.keep)
    if survivors.isEmpty then [] else
    let segs0 := (splitLens survivors runs).filterMap segOfRun
    let segs1 := setFirst (fun g => if g.chrom == ufirst.chrom then { g with s := ufirst.s } else g) segs0
    let segs2 := setLast (fun g => if g.chrom == ulast.chrom then { g with e := ulast.e } else g) segs1
    segs2.map (aggregate unit)

/-! ### the checker of C03 -/

def containedIn (b : Bin) (g : SegO) : Bool := b.chrom == g.chrom && decide (g.s ≤ b.s) && decide (b.e ≤ g.e)

def closeQ (a b : Rat) : Bool :=
  let d := if a - b < 0 then b - a else a - b
  let m := if b < 0 then -b else b
  decide (d ≤ (1 / 1000000000 : Rat) * max 1 m)

/-- clauses of C03 violated by the reported segments `segs` for the input `bins` (with their
    survive flags) grouped into `units`; `perArm` = the method runs per arm (none, haar);
    `checkLog2` = the method reports the weighted mean of its surviving bins (none, HMM) -/
def tileSpec (units : List (List Bin)) (perArm checkLog2 : Bool) (segs : List SegO) : List String :=
  let bins := units.flatten
  let chroms := ((bins.map (·.chrom)) ++ (segs.map (·.chrom))).eraseDups
  let perChrom (f : List Bin → List SegO → Bool) : Bool :=
    chroms.all fun c => f (bins.filter (·.chrom == c)) (segs.filter (·.chrom == c))
  let sortedDisjoint := perChrom fun _ sg =>
    sg.all (fun g => decide (g.s < g.e)) && ((sg.zip (sg.drop 1)).all fun p => decide (p.1.e ≤ p.2.s))
  let within := perChrom fun bs sg =>
    match bs with
    | [] => sg.isEmpty
    | b0 :: _ =>
      let lo := bs.foldl (fun m b => min m b.s) b0.s
      let hi := bs.foldl (fun m b => max m b.e) b0.e
      sg.all fun g => decide (lo ≤ g.s) && decide (g.e ≤ hi)
  let once := perChrom fun bs sg =>
    (bs.filter (·.keep)).all fun b => (sg.filter (containedIn b)).length == 1
  let probes := segs.all fun g => g.probes == ((bins.filter (fun b => b.keep && containedIn b g)).length : Int)
  let probesSum := sumInt' (segs.map (·.probes)) == ((bins.filter (·.keep)).length : Int)
  let armEnds := !perArm || units.all fun u =>
    match u with
    | [] => true
    | ufirst :: _ =>
      let ulast := u.getLast?.getD ufirst
      if (u.filter (·.keep)).isEmpty then true else
      -- the segments of this arm: those holding one of its surviving bins
      let sg := segs.filter fun g => (u.filter (·.keep)).any (fun b => containedIn b g)
      match sg with
      | [] => false
      | g0 :: _ =>
        sg.foldl (fun m g => min m g.s) g0.s == ufirst.s && sg.foldl (fun m g => max m g.e) g0.e == ulast.e
  let unitOf (g : SegO) : List Bin :=
    -- the unit whose bins the segment aggregates: the arm holding its surviving bins
    (units.find? fun u => u.any (fun b => b.keep && containedIn b g)).getD []
  let agg := segs.all fun g =>
    let a := aggregate (unitOf g) g
    closeQ g.weight a.weight && closeQ g.depth a.depth
  let genes := segs.all fun g => (aggregate (unitOf g) g).gene == g.gene
  let lg := !checkLog2 || segs.all fun g =>
    let run := (unitOf g).filter (fun b => b.keep && containedIn b g)
    run.isEmpty || closeQ g.log2 (wmeanLog2 run)
  (if sortedDisjoint then [] else ["sorted_positive_disjoint"]) ++
  (if within then [] else ["within_chromosome_span"]) ++
  (if once then [] else ["each_survivor_in_exactly_one_segment"]) ++
  (if probes then [] else ["probes_counts_survivors"]) ++
  (if probesSum then [] else ["probes_sum"]) ++
  (if armEnds then [] else ["arm_endpoints_stretched"]) ++
  (if agg then [] else ["weight_depth_of_spanned_bins"]) ++
  (if genes then [] else ["gene_names_in_order"]) ++
  (if lg then [] else ["log2_weighted_mean_of_survivors"])
where
  sumInt' (l : List Int) : Int := l.foldl (· + ·) 0

end CnvVerif
