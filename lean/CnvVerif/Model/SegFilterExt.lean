/-
  C14, round 4: the glue around the four filters.
  * `Tab` -- a segment table together with the set of its columns (what `"cn1" in cnarr`, `@require_column` and
    the column dropping of `squash_region` look at);
  * `Filt.run` -- one filter as `cnvkit call --filter` reaches it: the `require_column` guard (ValueError), the
    squash, the columns that survive it;
  * `doCallFiltersE` -- `cnvlib/call.py:do_call`'s handling of `filters`: the filters named in the generated
    `DO_CALL_PRE_FILTERS` ("ci", "sem") act first, in that fixed order, and are removed from a copy of the list
    (`list.remove`: first occurrence); then the table is called; then the remaining filters act in the order given.
  Core Lean only.
-/
import CnvVerif.Model.SegFilter
import CnvVerif.Generated.SegFilterConsts
namespace CnvVerif

inductive Filt
  | cn | ci | sem | ampdel
deriving DecidableEq, Repr, Inhabited

def Filt.name : Filt → String
  | .cn => "cn" | .ci => "ci" | .sem => "sem" | .ampdel => "ampdel"

def Filt.ofName : String → Option Filt
  | "cn" => some .cn | "ci" => some .ci | "sem" => some .sem | "ampdel" => some .ampdel | _ => none

def Filt.level : Filt → Seg → Option Rat
  | .cn => levelCn | .ci => levelCi | .sem => levelSem | .ampdel => levelAmpdel

/-- the rows a filter returns (`h` = the table carries allele-specific copy numbers) -/
def Filt.apply (h : Bool) : Filt → List Seg → List Seg
  | .cn => filterCn h | .ci => filterCi h | .sem => filterSem h | .ampdel => filterAmpdel h

/-- the columns `@require_column(...)` demands for this filter (read from the source) -/
def Filt.needs (f : Filt) : List String := (Generated.REQUIRE_COLUMNS.lookup f.name).getD []

/-- a table: its columns and its rows -/
structure Tab where
  cols : List String
  rows : List Seg
deriving Repr, Inhabited, DecidableEq

/-- `squash_region` builds each output row from scratch: an input column survives iff it is one of those written -/
def colsAfterSquash (cols : List String) : List String :=
  cols.filter (fun c => Generated.SQUASH_OUT_COLUMNS.contains c)

/-- one filter on a table: `ValueError` (the filter's name) when a required column is missing -/
def Filt.run (f : Filt) (t : Tab) : Except String Tab :=
  if f.needs.all (fun c => t.cols.contains c) then
    .ok { cols := colsAfterSquash t.cols, rows := f.apply (t.cols.contains "cn1") t.rows }
  else .error f.name

/-- filters applied one after the other, in the order given -/
def runChain : List Filt → Tab → Except String Tab
  | [], t => .ok t
  | f :: fs, t => match f.run t with
    | .ok t' => runChain fs t'
    | .error e => .error e

/-- the loop `for filt in ("ci", "sem"): if filt in filters: outarr = filt(outarr); filters.remove(filt)` -/
def preLoop : List Filt → Tab → List Filt → Except String (Tab × List Filt)
  | [], t, fs => .ok (t, fs)
  | p :: ps, t, fs =>
    if fs.contains p then
      match p.run t with
      | .ok t' => preLoop ps t' (fs.erase p)
      | .error e => .error e
    else preLoop ps t fs

/-- the pre-call filters of `do_call`, as named in the source -/
def preFilters : List Filt := Generated.DO_CALL_PRE_FILTERS.filterMap Filt.ofName

/-- `do_call(..., filters=fs)`: `call` is the calling step (C01/C02's subject: adds `cn`, maybe `cn1`/`cn2`) -/
def doCallFiltersE (call : Tab → Tab) (fs : List Filt) (t : Tab) : Except String Tab :=
  match preLoop preFilters t fs with
  | .error e => .error e
  | .ok (t1, rest) => runChain rest (call t1)

end CnvVerif
