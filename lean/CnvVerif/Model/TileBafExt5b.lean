/-
  C03 round 5b: the `variants=` branch of `_do_segmentation` for a method that is not an HMM
  (cnvlib/segmentation/__init__.py, `if variants and not method.startswith("hmm")`):

      newsegs = [hmm.variants_in_segment(subvarr, segment) for segment, subvarr in variants.by_ranges(segarr)]
      segarr = segarr.as_dataframe(pd.concat(newsegs))
      segarr["baf"] = variants.baf_by_ranges(segarr)
      segarr = transfer_fields(segarr, cnarr)

  composed from the tiling model (Model/Tile: the segmenter's partition `runs`, `transfer_fields`) and C18's model
  of `baf_by_ranges` (Model/Vcf).  `variants_in_segment` is a black box `pieces` (the rows it returns for one
  segment; `keepWhole` = what it returns for at most 50 SNVs: the segment itself).  The BAF column is computed on
  the ranges BEFORE `transfer_fields` stretches the first / last segment of the arm, and stays attached to its row
  through `transfer_fields` and `cnarr.concat(rets)`.  Core Lean only.
-/
import CnvVerif.Model.Tile
import CnvVerif.Model.Vcf
namespace CnvVerif.C03Baf
open CnvVerif CnvVerif.Vcf

/-- the segment table the segmenter hands back for one unit (before `transfer_fields`) -/
def rawSegs (unit : List Bin) (runs : List Nat) : List SegO :=
  (splitLens (unit.filter (·.keep)) runs).filterMap segOfRun

/-- the endpoint stretch of `transfer_fields` -/
def stretchEnds (unit : List Bin) (segs0 : List SegO) : List SegO :=
  match unit with
  | [] => []
  | ufirst :: _ =>
    let ulast := unit.getLast?.getD ufirst
    let segs1 := setFirst (fun g => if g.chrom == ufirst.chrom then { g with s := ufirst.s } else g) segs0
    setLast (fun g => if g.chrom == ulast.chrom then { g with e := ulast.e } else g) segs1

/-- the range of a segment as `baf_by_ranges` reads it -/
def rangeOf (g : SegO) : String × Int × Int := (g.chrom, g.s, g.e)

/-- `variants_in_segment` for at most `min_variants` = 50 SNVs in the segment: the segment itself, one row -/
def keepWhole (g : SegO) : List SegO := [g]

/-- the `variants` branch: re-segmented rows, each with the value of the `baf` column stored next to it -/
def variantsBranch (tb : VTable) (pieces : SegO → List SegO) (segs0 : List SegO) : List (SegO × Option Rat) :=
  let segs1 := segs0.flatMap pieces
  segs1.zip (bafByRanges tb (segs1.map rangeOf) none false)

/-- `transfer_fields` on a segment table that carries a `baf` column: the column is left as it is -/
def transferB (unit : List Bin) (sb : List (SegO × Option Rat)) : List (SegO × Option Rat) :=
  ((stretchEnds unit (sb.map (·.1))).map (aggregate unit)).zip (sb.map (·.2))

/-- `_do_segmentation(unit, …, variants=tb)` for a non-HMM method -/
def unitWithBaf (tb : VTable) (pieces : SegO → List SegO) (unit : List Bin) (runs : List Nat) :
    List (SegO × Option Rat) :=
  if (unit.filter (·.keep)).isEmpty then [] else transferB unit (variantsBranch tb pieces (rawSegs unit runs))

/-- `do_segmentation`: `cnarr.concat(rets)` over the arms -/
def doSegBaf (tb : VTable) (pieces : SegO → List SegO) (units : List (List Bin)) (runs : List (List Nat)) :
    List (SegO × Option Rat) :=
  (units.zip runs).flatMap fun p => unitWithBaf tb pieces p.1 p.2

/-- the property's wording for the column: the BAF of each reported segment is the BAF of ITS OWN range as the
    segmenter cut it (pre-stretch), per unit, in order -/
def ownBafs (tb : VTable) (units : List (List Bin)) (runs : List (List Nat)) : List (Option Rat) :=
  (units.zip runs).flatMap fun p =>
    if (p.1.filter (·.keep)).isEmpty then [] else
    (rawSegs p.1 p.2).map fun g => specBaf tb.paired false none tb.rows (rangeOf g)

end CnvVerif.C03Baf
