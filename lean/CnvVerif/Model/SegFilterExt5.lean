/-
  C14 (round 5): ALL the columns `segfilters.squash_region` writes -- chromosome, start, end, log2, gene, probes,
  weight and, where the table has them, depth, baf (weight-averaged, plain mean without weight), cn / cn1 (weighted
  median, plain median without weight), cn2 = cn - cn1, p_bintest (the maximum).  `squashCols` is the body of
  `squash_region` over the reductions vocabulary (`C14Sq.Reds`; proved equal to the source reading in
  Props/C14SrcSquash.lean); `redsOf` gives the reductions their meaning on a run of rows.  Core Lean only.
-/
import CnvVerif.Model.SegFilter
import CnvVerif.Model.SegFilterExt5Vocab
namespace CnvVerif.C14Sq
open CnvVerif

/-- a segment row with every column `squash_region` may read (a value is meaningful when the table has the column) -/
structure XRow where
  chrom : String
  s : Int
  e : Int
  gene : String
  log2 : Rat
  probes : Int
  weight : Rat
  depth : Rat := 0
  baf : Rat := 0
  cn : Rat := 0
  cn1 : Rat := 0
  pb : Rat := 0
deriving Repr, Inhabited

def numCol (c : String) (r : XRow) : Rat :=
  if c = "start" then (r.s : Rat) else if c = "end" then (r.e : Rat) else if c = "log2" then r.log2
  else if c = "probes" then (r.probes : Rat) else if c = "weight" then r.weight else if c = "depth" then r.depth
  else if c = "baf" then r.baf else if c = "cn" then r.cn else if c = "cn1" then r.cn1
  else if c = "p_bintest" then r.pb else 0

def strCol (c : String) (r : XRow) : String :=
  if c = "chromosome" then r.chrom else if c = "gene" then r.gene else ""

def rmax (a b : Rat) : Rat := if a ≤ b then b else a
def rmin (a b : Rat) : Rat := if b ≤ a then b else a
def maxL : List Rat → Rat
  | [] => 0
  | x :: xs => xs.foldl rmax x
def minL : List Rat → Rat
  | [] => 0
  | x :: xs => xs.foldl rmin x

/-- `weighted_median(values, weights)` as `Model/SegFilter.lean: squashRegion` reads it: the common value when all
    members agree, otherwise C19's model of the function on the pairs sorted by value -/
def wmedOf (vals ws : List Rat) : Rat :=
  match vals with
  | [] => 0
  | v :: _ =>
    if vals.all (fun x => x == v) then v
    else
      let pairs := (vals.zip ws).mergeSort (fun a b => decide (a.1 ≤ b.1))
      Desc.wmedSorted (Desc.wmedTol pairs) pairs

/-- the reductions of a run `rows` of a table with the columns `cols` -/
def redsOf (cols : List String) (rows : List XRow) : Reds where
  has c := cols.contains c
  len := (rows.length : Rat)
  firstS c := (rows.head?.map (strCol c)).getD ""
  lastS c := (rows.getLast?.map (strCol c)).getD ""
  first c := (rows.head?.map (numCol c)).getD 0
  last c := (rows.getLast?.map (numCol c)).getD 0
  sum c := sumRat (rows.map (numCol c))
  max c := maxL (rows.map (numCol c))
  min c := minL (rows.map (numCol c))
  mean c := sumRat (rows.map (numCol c)) / (rows.length : Rat)
  median c := Desc.median (rows.map (numCol c))
  wavg a b := sumRat (rows.map (fun r => numCol a r * numCol b r)) / sumRat (rows.map (numCol b))
  wmed a b := wmedOf (rows.map (numCol a)) (rows.map (numCol b))
  joinUniq sep c := sep.intercalate ((rows.map (strCol c)).eraseDups)
  joinAll sep c := sep.intercalate (rows.map (strCol c))

/-- the weight-averaged value of column `k` (`np.average(.., weights=..)`; `np.mean` when the run has no weight) -/
def wmeanCell (R : Reds) (k : String) : Rat :=
  if decide (R.sum "weight" > (0 : Rat)) then R.wavg k "weight" else R.mean k

/-- the weighted median of column `k` (`np.median` when the run has no weight) -/
def wmedCell (R : Reds) (k : String) : Rat :=
  if decide (R.sum "weight" > (0 : Rat)) then R.wmed k "weight" else R.median k

/-- the body of `squash_region`: the columns of the one-row result, in the order they are written -/
def squashCols (R : Reds) : List Col :=
  [("chromosome", true, .str (R.firstS "chromosome")),
   ("start", true, .num (R.first "start")),
   ("end", true, .num (R.last "end")),
   ("log2", true, .num (wmeanCell R "log2")),
   ("gene", true, .str (R.joinUniq "," "gene")),
   ("probes", true, .num (if R.has "probes" then R.sum "probes" else R.len)),
   ("weight", true, .num (R.sum "weight")),
   ("depth", R.has "depth", .num (wmeanCell R "depth")),
   ("baf", R.has "baf", .num (wmeanCell R "baf")),
   ("cn", R.has "cn", .num (wmedCell R "cn")),
   ("cn1", R.has "cn" && R.has "cn1", .num (wmedCell R "cn1")),
   ("cn2", R.has "cn" && R.has "cn1", .num (wmedCell R "cn" - wmedCell R "cn1")),
   ("p_bintest", R.has "p_bintest", .num (R.max "p_bintest"))]

/-- the cell of column `k` of a result, `none` when the result has no such column -/
def cellOf (k : String) (l : List Col) : Option Cell :=
  (l.find? (fun c => c.1 == k && c.2.1)).map (fun c => c.2.2)

/-- `squash_region(cnarr)` on the rows `rows` of a table with the columns `cols` -/
def squashRowX (cols : List String) (rows : List XRow) : List Col := squashCols (redsOf cols rows)

/-- the columns of the real result: the existing ones, in order -/
def presentCols (l : List Col) : List (String × Cell) := (l.filter (fun c => c.2.1)).map (fun c => (c.1, c.2.2))

/-- the row as the round-1 model `Seg` sees it (`h`: the table carries cn1 / cn2) -/
def toSeg (h : Bool) (r : XRow) : Seg :=
  { chrom := r.chrom, s := r.s, e := r.e, gene := r.gene, log2 := r.log2, probes := r.probes, weight := r.weight,
    cn := some r.cn, cn1 := if h then some r.cn1 else none, cn2 := if h then some (r.cn - r.cn1) else none }

end CnvVerif.C14Sq
