/-
  C14 (round 5): vocabulary of the reading of `segfilters.squash_region` (harness/squashtrans.py).
  `squash_region` turns a run of rows into ONE row whose cells are REDUCTIONS of the run's columns; a `Reds` value
  holds those reductions as functions of the column name, so that the generated definition
  (Generated/ExprsSquash.lean) says WHICH reduction of WHICH column fills WHICH cell, under which condition the
  cell exists.  `Model/SegFilterExt5.lean` gives the reductions their meaning on a list of rows.  Core Lean only.
-/
namespace CnvVerif.C14Sq

/-- one cell of the squashed row -/
inductive Cell where
  | num (q : Rat)
  | str (s : String)
deriving Repr, DecidableEq, Inhabited

/-- the reductions of one run of rows, by column name -/
structure Reds where
  /-- `"k" in cnarr` -/
  has : String → Bool
  /-- `len(cnarr)` -/
  len : Rat
  /-- `cnarr["k"].iat[0]` / `.iat[-1]` of a text column -/
  firstS : String → String
  lastS : String → String
  /-- `.iat[0]`, `.iat[-1]`, `.sum()`, `.max()`, `.min()`, `np.mean`, `np.median` of a numeric column -/
  first : String → Rat
  last : String → Rat
  sum : String → Rat
  max : String → Rat
  min : String → Rat
  mean : String → Rat
  median : String → Rat
  /-- `np.average(cnarr[a], weights=cnarr[b])`, `weighted_median(cnarr[a], cnarr[b])` -/
  wavg : String → String → Rat
  wmed : String → String → Rat
  /-- `sep.join(cnarr[k].drop_duplicates())`, `sep.join(cnarr[k])` -/
  joinUniq : String → String → String
  joinAll : String → String → String

/-- a column of the one-row result: name, "the column exists", the cell -/
abbrev Col := String × Bool × Cell

end CnvVerif.C14Sq
