/-
  C16 (round 5): the dict loop of `GenomicArray._get_gene_map` (skgenome/gary.py) inside the model.

  `Model/Genes.lean` describes the gene map `by_gene` iterates as a closed form (`firstByName (taggedFrom 0 rs)` for the
  keys in order of first appearance, `geneIdx` for each key's positions).  Here the map is BUILT the way the code builds
  it: an insertion-ordered dict, one `insert` per (row, name) pair, rows with a null name skipped.
  `Props/C16SrcGeneMap.lean` proves these definitions equal the ones re-read from the source text
  (`Generated/ExprsGeneMap.lean`), `Props/C16GeneMap.lean` that the dict so built IS the closed form.
  Core Lean only.
-/
import CnvVerif.Model.Genes
import CnvVerif.Model.PyDictExt5
namespace CnvVerif.GeneExt
open CnvVerif CnvVerif.Genes CnvVerif.PyDict16

/-- one visit of the inner loop: the name `g` of row `i`.  A known name gets `i` appended to its list (the dict keeps
    the key where it is), a new name is added at the end with the list `[i]`. -/
def insert (d : Dict) (i : Nat) (g : String) : Dict :=
  if has d g then d.map (fun p => if p.1 == g then (p.1, get d g ++ [i]) else p) else d ++ [(g, [i])]

/-- one row: a null name (`none`) is skipped, otherwise each comma-separated name is visited in order -/
def rowStep (d : Dict) (i : Nat) : Option String → Dict
  | none => d
  | some s => (splitComma [] s.toList).foldl (fun d g => insert d i g) d

/-- the loop over the `gene` column; rows are numbered from `k` -/
def loopFrom : Nat → Dict → List (Option String) → Dict
  | _, d, [] => d
  | k, d, s :: rest => loopFrom (k + 1) (rowStep d k s) rest

/-- `_get_gene_map()` of a table whose `gene` column is `gs` (index = position) -/
def geneMap (gs : List (Option String)) : Dict := loopFrom 0 [] gs

/-- `_get_gene_map()` on the rows of one chromosome, as `by_gene` calls it -/
def geneMapOfBins (rs : List Bin) : Dict := geneMap (rs.map (fun b => some b.gene))

/-- every visit of the loop on a column with nulls: `taggedFrom` of `Model/Genes.lean`, with null rows contributing
    nothing (they still count as a position) -/
def taggedOpt (k : Nat) : List (Option String) → List (Nat × String)
  | [] => []
  | none :: rest => taggedOpt (k + 1) rest
  | some s :: rest => (splitComma [] s.toList).map (fun g => (k, g)) ++ taggedOpt (k + 1) rest

/-- the closed form of `Model/Genes.lean`: keys by first appearance, each with its positions -/
def closedForm (T : List (Nat × String)) : Dict := (firstByName T).map (fun p => (p.2, geneIdx T p.2))

/-- the loop of `by_gene` over `gene_map.items()` of a dict: `Genes.goPos` with the positions read from the dict's
    own lists instead of the closed form -/
def goItems (rs : List Bin) (ign : List String) : Nat → Dict → List (String × List Bin)
  | prev, [] => if prev < rs.length then [(antitarget, rs.drop prev)] else []
  | prev, (g, idx) :: ks =>
    if ign.contains g then goItems rs ign prev ks
    else
      match idx.head?, idx.getLast? with
      | some st, some la =>
        (if prev < st then [(antitarget, slice rs prev st)] else [])
          ++ (g, slice rs st (la + 1)) :: goItems rs ign (la + 1) ks
      | _, _ => goItems rs ign prev ks

end CnvVerif.GeneExt
