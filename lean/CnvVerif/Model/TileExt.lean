/-
  Extensions of the C03 model (Model/Tile.lean), core Lean only.

  * `splitRunsBy` / `hmmRuns`: how the HMM methods turn a state sequence into the partition handed to the glue
    (`segment_hmm`: `squash_by_groups(cnarr, states, by_arm=True)` — a group is a maximal run of consecutive
    surviving bins carrying the same group number, and the group number changes whenever the state OR the arm
    changes; two bins of different chromosomes are never on the same arm).  The arm numbering itself is left
    abstract (`tags`): the property asks nothing about arms of the HMM methods.
  * `ByArmChoice`: the centromere choice of `GenomicArray.by_arm` as a specification (largest gap, first one on
    ties, among the admissible split positions), used by Lemmas/TileArm.lean.
-/
import CnvVerif.Model.Tile
namespace CnvVerif

/-- maximal runs of consecutive elements related by `same` (each element compared with its successor) -/
def splitRunsBy {α} (same : α → α → Bool) : List α → List (List α)
  | [] => []
  | a :: t =>
    match splitRunsBy same t with
    | (b :: g) :: gs => if same a b then (a :: b :: g) :: gs else [a] :: (b :: g) :: gs
    | _ => [[a]]

/-- the run lengths `squash_by_groups(survivors, states, by_arm=True)` produces: consecutive survivors stay
    together iff they are on the same chromosome and carry the same tag (state run and arm number) -/
def hmmRuns (survivors : List Bin) (tags : List Int) : List Nat :=
  (splitRunsBy (fun (p q : Bin × Int) => p.1.chrom == q.1.chrom && p.2 == q.2)
    (survivors.zipIdx.map fun (b, i) => (b, tags.getD i 0))).map List.length

/-- the split position `idx` of a chromosome with bin starts / ends `starts`, `ends` (`0` = not split) is the
    one `by_arm` must choose: with `n` bins and `margin` bins kept clear of both ends,
    a split happens only if `n > 2·margin + 1` and then at a position `margin + 1 ≤ idx ≤ n − margin − 1` whose
    gap `start[idx] − end[idx−1]` is at least `minGap`, is not exceeded by any admissible gap and strictly exceeds
    every admissible gap to its left; no split means the chromosome is too short or no admissible gap reaches
    `minGap` -/
def ByArmChoice (starts ends : List Int) (minGap : Int) (margin : Nat) (idx : Nat) : Prop :=
  let n := starts.length
  let gap (j : Nat) : Int := starts.getD j 0 - ends.getD (j - 1) 0
  let admissible (j : Nat) : Prop := margin + 1 ≤ j ∧ j + margin + 1 ≤ n
  (idx ≠ 0 → admissible idx ∧ minGap ≤ gap idx ∧ (∀ j, admissible j → gap j ≤ gap idx) ∧
      (∀ j, admissible j → j < idx → gap j < gap idx)) ∧
  (idx = 0 → ∀ j, admissible j → gap j < minGap)

end CnvVerif
