/-
  Model of skgenome/merge.py, subtract.py, subdivide.py and GenomicArray.resize_ranges /
  total_range_size.
-/
import CnvVerif.Basic
import CnvVerif.Model.Ranges
namespace CnvVerif

/-! ### merge -/

/-- `gap_sizes = start[1:] - end.cummax()[:-1]`, over the whole table as the code does -/
def gapSizes (t : Table) : List Int :=
  ((t.map (·.s)).drop 1).zip (cummax (t.map (·.e))) |>.map (fun p => p.1 - p.2)

/-- `_nonoverlapping_groups` + `_squash_tuples` for one chromosome, rows sorted by (start,end).
    `cur` is the squashed row so far (first row's fields, running max end), `genes` the gene
    labels of the group in reverse order.  A new group starts when `start - cummax(end) > -bp`.
    (The code's `cummax` runs over the whole chromosome; for rows sorted by start and `bp ≥ 0`
    the decision is the same as with the group's own maximum, which is what is kept here.) -/
def mergeGo (bp : Int) (cur : Row) (genes : List String) : List Row → List Row
  | [] => [{ cur with gene := joinStrings genes.reverse }]
  | x :: xs =>
    if x.s - cur.e > -bp then
      { cur with gene := joinStrings genes.reverse } :: mergeGo bp x [x.gene] xs
    else
      mergeGo bp { cur with e := max cur.e x.e } (x.gene :: genes) xs

def mergeChrom (bp : Int) : List Row → List Row
  | [] => []
  | x :: xs => mergeGo bp x [x.gene] xs

/-- `merge(table, bp)` -/
def mergeTable (bp : Int) (t : Table) : Table :=
  if t.isEmpty then t
  else if (gapSizes t).all (fun g => g > -bp) then t
  else
    let sorted := sortLex t
    resortChrom ((groupByChrom sorted).flatMap (fun g => mergeChrom bp g.2))

/-! ### flatten -/

/-- group rows (sorted by start,end) into runs that overlap or abut (`gap > 0` starts a new one) -/
def overlapGroupsGo (cur : List Row) (mx : Int) : List Row → List (List Row)
  | [] => [cur.reverse]
  | x :: xs =>
    if x.s - mx > 0 then cur.reverse :: overlapGroupsGo [x] x.e xs
    else overlapGroupsGo (x :: cur) (max mx x.e) xs

def overlapGroups : List Row → List (List Row)
  | [] => []
  | x :: xs => overlapGroupsGo [x] x.e xs

def sortDedupInts (l : List Int) : List Int := (l.mergeSort (· ≤ ·)).eraseDups

/-- `_flatten_tuples` for one group -/
def flattenGroup (rows : List Row) : List Row :=
  match rows with
  | [] => []
  | [r] => [r]
  | first :: _ =>
    let breaks := sortDedupInts (rows.flatMap (fun r => [r.s, r.e]))
    (breaks.zip (breaks.drop 1)).map fun (a, b) =>
      let inPlay := rows.filter (fun r => r.s ≤ a && r.e ≥ b)
      { first with s := a, e := b, gene := joinStrings (inPlay.map (·.gene)) }

/-- `flatten(table)` with the default combiners (gene: join_strings) -/
def flattenTable (t : Table) : Table :=
  if t.isEmpty then t
  else if (((t.map (·.s)).drop 1).zip (cummax (t.map (·.e)))).all (fun p => p.1 ≥ p.2) then t
  else
    let sorted := sortLex t
    resortChrom ((groupByChrom sorted).flatMap (fun g => (overlapGroups g.2).flatMap flattenGroup))

/-! ### subtract -/

/-- the four edge cases of `_subtraction` for one keeper and its overlapping excluded rows
    (in table order) -/
def subtractRow (keeper : Row) (ex : List Row) : List Row :=
  match ex with
  | [] => [keeper]
  | f :: _ =>
    let l := ex.getLast?.getD f
    let keepLeft := keeper.s < f.s
    let keepRight := keeper.e > l.e
    let exS := ex.map (·.s)
    let exE := ex.map (·.e)
    let pairs : List (Int × Int) :=
      if keepLeft && keepRight then (keeper.s :: exE).zip (exS ++ [keeper.e])
      else if keepLeft then (keeper.s :: exE.dropLast).zip exS
      else if keepRight then exE.zip (exS.drop 1 ++ [keeper.e])
      else if ex.length > 1 then exE.dropLast.zip (exS.drop 1)
      else []
    (pairs.filter (fun p => p.2 > p.1)).map (fun p => { keeper with s := p.1, e := p.2 })

/-- `subtract(table, other)` (repaired code, fix F: `other` is merged first so that
    overlapping / nested exclusions are handled by the edge-case logic). -/
def subtractTable (t other : Table) : Table :=
  if other.isEmpty then t
  else
    let om := mergeTable 0 other
    (byRangesDf om t .outer true).flatMap (fun p => subtractRow p.1 p.2)

/-! ### subdivide -/

/-- Python `round()` of a non-negative rational: half to even -/
def roundHalfEven (q : Rat) : Int :=
  let f := q.floor
  let d := q - f
  if d < 1/2 then f
  else if d > 1/2 then f + 1
  else if f % 2 == 0 then f else f + 1

/-- `n` consecutive bins of row `r`: bin `i` is `[start + ⌊i·span/n⌋, start + ⌊(i+1)·span/n⌋)`
    (`bin_end = row.start + int(i * bin_size)`; the last bin ends at `row.end`) -/
def splitInto (r : Row) (n : Nat) : List Row :=
  let span := r.e - r.s
  let cut (i : Nat) : Int := r.s + ((i : Int) * span) / (n : Int)
  (List.range n).map fun i => { r with s := cut i, e := cut (i + 1) }

/-- `_split_targets` for one merged row -/
def splitRow (avg : Rat) (minSize : Int) (r : Row) : List Row :=
  let span := r.e - r.s
  if span ≥ minSize then
    let nb0 := roundHalfEven ((span : Rat) / avg)
    let nbins : Nat := if nb0 == 0 then 1 else nb0.toNat
    if nbins == 1 then [r] else splitInto r nbins
  else []

def subdivideTable (avg : Rat) (minSize : Int) (t : Table) : Table :=
  (mergeTable 0 t).flatMap (splitRow avg minSize)

/-! ### resize_ranges / total_range_size -/

def clipInt (lo : Int) (hi : Option Int) (x : Int) : Int :=
  let y := max lo x
  match hi with
  | some h => min h y
  | none => y

/-- `resize_ranges(bp, chrom_sizes)`; `sizes c = none` when no chromosome sizes are given -/
def resizeTable (bp : Int) (sizes : String → Option Int) (t : Table) : Table :=
  let moved := t.map fun r =>
    { r with s := clipInt 0 (sizes r.chrom) (r.s - bp), e := clipInt 0 (sizes r.chrom) (r.e + bp) }
  if bp < 0 then moved.filter (fun r => r.e - r.s > 0) else moved

def totalRangeSize (t : Table) : Int :=
  if t.isEmpty then 0
  else
    let m := mergeTable 1 t
    (m.map (·.e)).sum - (m.map (·.s)).sum

end CnvVerif
