/-
  Model of the glue of cnvlib/coverage.py (growth round 5b, C09): `do_coverage` (the `processes` normalisation, the
  sortedness check, the index check, the hand-over to `interval_coverages`) and `interval_coverages` (the empty-regions-file
  exit, the `by_count` dispatch, the plumbing of `min_mapq` / `processes` into the chosen algorithm).  The two algorithms
  themselves are Model/Coverage.lean (+ CoverageSched for the pool, CoverageExt5Cols for the bedcov text); here an algorithm
  is a parameter (any function of the cut-off and the worker count).  What is modelled: WHICH external calls happen, in WHICH
  order, with WHICH option values -- `c09gTrace` -- and, next to it, the order of the statements' effects in the vocabulary
  of the step plans re-read from the source (Generated/ExprsCovGlue.lean) -- `c09gPlanDo`, `c09gPlanIv`.
  Core Lean only.
-/
import CnvVerif.Generated.ExprsCovGlue
namespace CnvVerif.C09Glue
open Generated (CovGlueStep)

/-- the options of `do_coverage` -/
structure C09gArgs where
  byCount : Bool
  minMapq : Int
  processes : Option Int     -- None / an integer (0 = `-p` without a number)
deriving Repr, DecidableEq, Inhabited

/-- `if processes is not None and processes < 1: processes = None`; `none` = one worker per CPU -/
def c09gWorkers (p : Option Int) : Option Int :=
  match p with
  | none => none
  | some n => if n < 1 then none else some n

inductive C09gAlgo | count | pileup
deriving Repr, DecidableEq, Inhabited

def c09gAlgo (byCount : Bool) : C09gAlgo := if byCount then .count else .pileup

/-- the calls `do_coverage` makes outside its own two functions, with the option values they receive -/
inductive C09gCall
  | ensureSorted
  | ensureIndex
  | openBed
  | run (algo : C09gAlgo) (minMapq : Int) (workers : Option Int)
deriving Repr, DecidableEq, Inhabited

inductive C09gResult
  | runtimeError            -- BAM not sorted by coordinates
  | emptyTable              -- regions file without a record: a table without rows, nothing is counted
  | table (algo : C09gAlgo) (minMapq : Int) (workers : Option Int)
deriving Repr, DecidableEq, Inhabited

/-- `sorted` = what `ensure_bam_sorted` answers, `bedBlank` = every line of the regions file is blank -/
def c09gResult (sorted bedBlank : Bool) (a : C09gArgs) : C09gResult :=
  if !sorted then .runtimeError
  else if bedBlank then .emptyTable
  else .table (c09gAlgo a.byCount) a.minMapq (c09gWorkers a.processes)

def c09gTrace (sorted bedBlank : Bool) (a : C09gArgs) : List C09gCall :=
  [.ensureSorted] ++
    (if !sorted then [] else
      [.ensureIndex, .openBed] ++
        (if bedBlank then [] else [.run (c09gAlgo a.byCount) a.minMapq (c09gWorkers a.processes)]))

/-- the value returned, for ANY pair of algorithms `cnt` / `pil` (functions of cut-off and worker count) -/
def c09gValue {β} (cnt pil : Int → Option Int → β) (empty : β) (sorted bedBlank : Bool) (a : C09gArgs) : Except String β :=
  match c09gResult sorted bedBlank a with
  | .runtimeError => .error "RuntimeError"
  | .emptyTable => .ok empty
  | .table .count q w => .ok (cnt q w)
  | .table .pileup q w => .ok (pil q w)

/-- hand-written order of `do_coverage`'s effects (`C09.c09g_plan_do_is_the_source`: equal to the plan read from the source) -/
def c09gPlanDo (procsGiven procsBelowOne bamSorted : Bool) : List CovGlueStep :=
  (if procsGiven && procsBelowOne then [.procsToAllCpus] else []) ++
    (if bamSorted then [.ensureIndex, .callIntervalCoverages, .returnTable] else [.raiseRuntimeError])

/-- ... and of `interval_coverages` -/
def c09gPlanIv (bedBlank byCount : Bool) : List CovGlueStep :=
  [.setMeta] ++
    (if bedBlank then [.returnEmptyTable]
     else (if byCount then [.runCount, .unzipResults, .tableFromRows] else [.runPileup, .dropBasecount, .tableFromFrame])
          ++ [.returnTable])

def c09gProcsGiven (p : Option Int) : Bool := p.isSome
def c09gProcsBelowOne (p : Option Int) : Bool := match p with | some n => decide (n < 1) | none => false

/-- the statements one call runs: `do_coverage`'s, with `interval_coverages`'s in place of the call -/
def c09gSteps (sorted bedBlank : Bool) (a : C09gArgs) : List CovGlueStep :=
  (c09gPlanDo (c09gProcsGiven a.processes) (c09gProcsBelowOne a.processes) sorted).flatMap fun s =>
    if s = .callIntervalCoverages then c09gPlanIv bedBlank a.byCount else [s]

end CnvVerif.C09Glue
