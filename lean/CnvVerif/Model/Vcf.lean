/-
  Model of skgenome/tabio/vcfio.py (read_vcf, _choose_samples, _parse_pedigrees, _parse_records,
  _extract_genotype, _get_alt_count, _get_end), of tabio.read(..., "vcf") (sort), of
  cnvlib/cmdutil.py load_het_snps, of cnvlib/vary.py (heterozygous, zygosity_from_freq,
  _mirrored_baf, baf_by_ranges, tumor_boost) and of cnvlib/call.py rescale_baf.

  The VCF header (sample names, PEDIGREE tags) and the records *as pysam presents them* are data;
  pysam's parsing of the text is a trusted contract exercised by the correspondence run.
  Numbers are exact (`Rat`/`Int`); a pandas NaN is `none` / `Freq.nan`.  Core Lean only.
-/
import CnvVerif.Basic
import CnvVerif.Model.Ranges
namespace CnvVerif.Vcf
open CnvVerif

/-! ## header and records as pysam presents them -/

/-- the kinds of exception the reader raises -/
inductive VErr | indexError | keyError | assertionError | valueError
  | typeError   -- `record.samples[None]` (a MuTect header naming no tumour sample, Model/VcfPairs.lean)
deriving Repr, DecidableEq, Inhabited

/-- a `sample_id` / `normal_id` argument: `None`, a name, or an integer position -/
inductive Sel
  | unset
  | name (s : String)
  | idx (i : Int)
deriving Repr, DecidableEq, Inhabited

/-- `sample["AD"]`: FORMAT key absent, a tuple (Number=R/.), or a scalar (Number=1, VarScan) -/
inductive AD
  | absent
  | tuple (l : List (Option Int))
  | scalar (v : Option Int)
deriving Repr, DecidableEq, Inhabited

/-- one sample column of one record -/
structure Smp where
  gt : List (Option Int)        -- `sample["GT"]`, `none` = "."
  hasDP : Bool                  -- `"DP" in sample`
  dp : Option Int               -- `sample["DP"]`
  ad : AD
deriving Repr, DecidableEq, Inhabited

/-- one VCF record -/
structure Rec where
  chrom : String
  pos : Int                     -- POS as written in the file (1-based)
  ref : String
  alts : List String            -- `record.alts` (empty when ALT is ".")
  filt : List String            -- `list(record.filter)`
  infoDP : Option Int           -- INFO/DP
  somatic : Bool                -- INFO/SOMATIC flag
  smps : List Smp               -- one per header sample, in header order
deriving Repr, DecidableEq, Inhabited

/-- a header `##PEDIGREE=<k=v,...>` line -/
abbrev PedTag := List (String × String)

/-! ## sample choice -/

/-- Python truthiness of an optional string -/
def truthy : Option String → Option String
  | some s => if s.isEmpty then none else some s
  | none => none

/-- `vcf_samples[i]` with Python's negative indexing -/
def pyIndex (l : List String) (i : Int) : Except VErr String :=
  let n : Int := l.length
  let j := if i < 0 then i + n else i
  if j < 0 ∨ j ≥ n then .error .indexError
  else match l[j.toNat]? with
    | some s => .ok s
    | none => .error .indexError

def resolveSel (samples : List String) : Sel → Except VErr (Option String)
  | .unset => .ok none
  | .name s => .ok (some s)
  | .idx i => do pure (some (← pyIndex samples i))

/-- `_parse_pedigrees` for PEDIGREE tags: every tag with a `Derived` key yields
    `(Derived, Original)`; a missing `Original` is a `KeyError` -/
def parsePedigrees : List PedTag → Except VErr (List (String × String))
  | [] => .ok []
  | tag :: rest =>
    match tag.lookup "Derived" with
    | none => parsePedigrees rest
    | some d =>
      match tag.lookup "Original" with
      | none => .error .keyError
      | some o => do
        let r ← parsePedigrees rest
        pure ((d, o) :: r)

/-- the candidate (tumour, normal) pairs before the `sample_id` filter -/
def candidatePairs (samples : List String) (peds : List (String × String)) (nid : Option String) :
    List (Option String × Option String) :=
  if !peds.isEmpty then peds.map (fun p => (some p.1, some p.2))
  else match truthy nid with
    | some n => (samples.filter (fun s => s != n)).map (fun o => (some o, some n))
    | none => samples.map (fun s => (some s, none))

def pairNames (pairs : List (Option String × Option String)) : List String :=
  pairs.flatMap (fun p => p.1.toList ++ p.2.toList)

/-- a given id must name a sample column (`IndexError` otherwise); `None` and "" pass -/
def selOk (samples : List String) (x : Option String) : Bool :=
  match truthy x with
  | some s => samples.contains s
  | none => true

/-- the body of `_choose_samples` once integer selectors are resolved and the PEDIGREE tags read.
    Repaired code (fix Y): when no pair is left and no `sample_id` was given either (a normal id on a
    file without any other sample), the `IndexError` the source always meant to raise is raised; its
    `except StopIteration` could never fire, and the reader went on with no sample at all, filling
    the rows from INFO. -/
def chooseNames (samples : List String) (peds : List (String × String)) (sid nid : Option String) :
    Except VErr (String × Option String) :=
  if !(selOk samples sid && selOk samples nid) then .error .indexError else
  let pairs0 := candidatePairs samples peds nid
  let pairs1 := match truthy sid with
    | some s => pairs0.filter (fun p => p.1 == some s)
    | none => pairs0
  if pairs1.isEmpty && (truthy sid).isNone then .error .indexError else
  let pairs := if pairs1.isEmpty then [(sid, (none : Option String))] else pairs1
  -- `_confirm_unique` for every name in the remaining pairs
  if !((pairNames pairs).all (fun nm => samples.count nm == 1)) then .error .indexError else
  match pairs.head? with
  | some (some s, n) => .ok (s, n)
  | _ => .error .indexError

/-- `_choose_samples` -/
def chooseSamples (samples : List String) (tags : List PedTag) (sidSel nidSel : Sel) :
    Except VErr (String × Option String) := do
  let sid ← resolveSel samples sidSel
  let nid ← resolveSel samples nidSel
  if !(selOk samples sid && selOk samples nid) then throw .indexError
  let peds ← parsePedigrees tags
  chooseNames samples peds sid nid

/-! ## one record -/

/-- `_safesum`: `sum(filter(None, tup))` -/
def safesum (l : List (Option Int)) : Int := (l.map (fun x => x.getD 0)).foldl (· + ·) 0

/-- depth of `_extract_genotype`: FORMAT DP, else the sum of a tuple AD, else INFO DP, else NaN -/
def depthOf (s : Smp) (r : Rec) : Option Int :=
  if s.hasDP then s.dp
  else match s.ad with
    | .tuple l => some (safesum l)
    | _ => r.infoDP

/-- zygosity of `_extract_genotype`: 0.5 when the genotype names more than one distinct allele
    (a "." counts as one), 0 when its only allele is the reference, 1 otherwise -/
def zygosityOf (gt : List (Option Int)) : Rat :=
  if gt.eraseDups.length > 1 then 1/2
  else if gt.head? == some (some 0) then 0
  else 1

/-- `_get_alt_count` (GT/AD/DP files: no CLCAD2 / AO fields): second entry of a tuple AD, 0 for a
    one-entry tuple, the scalar itself, NaN when AD is absent or entirely missing -/
def altCountOf (s : Smp) : Option Int :=
  match s.ad with
  | .absent => none
  | .scalar v => v
  | .tuple [none] => none
  | .tuple l => match l with
    | _ :: b :: _ => b
    | _ => some 0

/-- a float column entry after `fillna(0)` that may still be infinite, or (after TumorBoost) NaN -/
inductive Freq
  | fin (q : Rat)
  | inf
  | nan
deriving Repr, DecidableEq, Inhabited

/-- `alt_count / depth` followed by `fillna(0.0)` -/
def freqOf (ac dp : Option Int) : Freq :=
  match ac, dp with
  | some a, some d =>
    if d = 0 then (if a = 0 then .fin 0 else .inf) else .fin ((a : Rat) / (d : Rat))
  | _, _ => .fin 0

/-- the genotype columns of one sample in one row, after `fillna(0.0)`.  Repaired code (fix V): the
    columns are numeric whatever the file lacks (a field missing from every record used to leave an
    object-typed column behind, on which `_tumor_boost` raised `TypeError`). -/
structure Geno where
  zyg : Rat
  depth : Rat
  altCount : Rat
  altFreq : Freq
deriving Repr, DecidableEq, Inhabited

def genoOf (s : Smp) (r : Rec) : Geno :=
  let d := depthOf s r
  let a := altCountOf s
  { zyg := zygosityOf s.gt, depth := ((d.getD 0 : Int) : Rat), altCount := ((a.getD 0 : Int) : Rat),
    altFreq := freqOf a d }

/-- a row of the table `read_vcf` returns -/
structure VRow where
  chrom : String
  s : Int
  e : Int
  ref : String
  alt : String
  somatic : Bool
  t : Geno                      -- the chosen (tumour / test) sample
  n : Option Geno               -- the paired normal, if any
deriving Repr, DecidableEq, Inhabited

/-- `skip_reject`: some FILTER entry other than ".", "PASS", "KEEP" -/
def rejected (r : Rec) : Bool := r.filt.any (fun f => !(f == "." || f == "PASS" || f == "KEEP"))

/-- `_get_end` without INFO/END: `posn + len(alt)` -/
def endOf (start : Int) (alt : String) : Int := start + alt.length

/-- the rows `_parse_records` yields for one record: one per ALT allele (the gVCF placeholder
    `<NON_REF>` skipped), all carrying the same genotype columns; `record.start` = POS − 1 -/
def rowsOfRec (si : Nat) (ni : Option Nat) (r : Rec) : List VRow :=
  let ts := r.smps[si]?.getD default
  let tg := genoOf ts r
  let ng := ni.map (fun j => genoOf (r.smps[j]?.getD default) r)
  let start := r.pos - 1
  (r.alts.filter (fun a => a != "<NON_REF>")).map fun a =>
    { chrom := r.chrom, s := start, e := endOf start a, ref := r.ref, alt := a,
      somatic := r.somatic, t := tg, n := ng }

def parseRecords (si : Nat) (ni : Option Nat) (skipReject : Bool) (recs : List Rec) : List VRow :=
  (recs.filter (fun r => !(skipReject && rejected r))).flatMap (rowsOfRec si ni)

/-! ## the table -/

/-- the depth the `min_depth` filter looks at: the normal's when there is one -/
def filterDepth (r : VRow) : Rat := match r.n with
  | some g => g.depth
  | none => r.t.depth

/-- `if min_depth: if table["depth"].any(): table = table[table[dkey] >= min_depth]` -/
def depthFilter (minDepth : Option Int) (rows : List VRow) : List VRow :=
  match minDepth with
  | none => rows
  | some m =>
    if m = 0 then rows
    else if rows.any (fun r => r.t.depth != 0) then rows.filter (fun r => decide (filterDepth r ≥ (m : Rat)))
    else rows

def somaticFilter (skipSomatic : Bool) (rows : List VRow) : List VRow :=
  if skipSomatic then rows.filter (fun r => !r.somatic) else rows

def VRow.key (r : VRow) : Row := ⟨r.chrom, r.s, r.e, ""⟩

/-- `GenomicArray.sort()` as called by `tabio.read`: stable, by (chromosome key, start, end) -/
def sortV (rows : List VRow) : List VRow := rows.mergeSort (fun a b => sortLe a.key b.key)

/-- a `VariantArray`: whether the n_* columns exist, and the rows -/
structure VTable where
  paired : Bool
  rows : List VRow
deriving Repr, DecidableEq, Inhabited

structure ReadOpts where
  sid : Sel := .unset
  nid : Sel := .unset
  minDepth : Option Int := none
  skipReject : Bool := false
  skipSomatic : Bool := false
deriving Repr, Inhabited

/-- `tabio.read(fname, "vcf", sample_id, normal_id, min_depth, skip_reject, skip_somatic)` on a file
    with at least one sample column -/
def readVcf (samples : List String) (tags : List PedTag) (recs : List Rec) (o : ReadOpts) :
    Except VErr VTable := do
  let (sid, nid) ← chooseSamples samples tags o.sid o.nid
  let si := samples.idxOf sid
  let nidT := truthy nid
  let ni := nidT.map (fun n => samples.idxOf n)
  let rows0 := parseRecords si ni o.skipReject recs
  let rows := depthFilter o.minDepth rows0
  let rows := somaticFilter o.skipSomatic rows
  -- a table without any row has object-typed columns; `table[~table["somatic"]]` then selects no
  -- *columns*, and the blank VariantArray built from it has lost the n_* columns
  pure { paired := nidT.isSome && !(o.skipSomatic && rows0.isEmpty), rows := sortV rows }

/-! ## load_het_snps -/

/-- `zygosity_from_freq`: 0 below `het`, 1 from `hom` on, 0.5 between -/
def zygFromFreq (het hom : Rat) : Freq → Rat
  | .fin q => if q < het then 0 else if q ≥ hom then 1 else 1/2
  | .inf => 1
  | .nan => 1/2

def reZyg (het hom : Rat) (g : Geno) : Geno := { g with zyg := zygFromFreq het hom g.altFreq }

def zygosityFromFreq (het hom : Rat) (rows : List VRow) : List VRow :=
  rows.map (fun r => { r with t := reZyg het hom r.t, n := r.n.map (reZyg het hom) })

/-- the zygosity the germline genotype is read from: the normal's when there is one -/
def germZyg (r : VRow) : Rat := match r.n with
  | some g => g.zyg
  | none => r.t.zyg

def isHet (r : VRow) : Bool := germZyg r != 0 && germZyg r != 1

/-- `VariantArray.heterozygous()`: the heterozygous subset — unless it is empty, then everything -/
def heterozygous (rows : List VRow) : List VRow :=
  if rows.any isHet then rows.filter isHet else rows

/-- `_tumor_boost` for one locus; NaN (`none`) at n = 1 (where t = 1 as well) -/
def tumorBoost (t n : Rat) : Option Rat :=
  if t < n then (if n = 0 then none else some (t / (2 * n)))
  else if n = 1 then none
  else some (1 - (1 - t) / (2 * (1 - n)))

def Freq.toOpt : Freq → Option Rat
  | .fin q => some q
  | _ => none

def ofOpt : Option Rat → Freq
  | some q => .fin q
  | none => .nan

/-- the TumorBoost-ed frequency of one row.  Repaired code (fix W): the value belongs to the row
    it was computed from (the source assigned a freshly numbered Series to a filtered table, so
    pandas aligned row k of the result with the row *labelled* k). -/
def boostRow (r : VRow) : Freq :=
  match r.n with
  | none => r.t.altFreq
  | some g => match r.t.altFreq.toOpt, g.altFreq.toOpt with
    | some t, some n =>
      -- 1 − 0.5·(1 − t)/0 : NaN at t = 1, +∞ for a (mis-counted) tumour frequency above 1
      if n = 1 ∧ t > 1 then .inf else ofOpt (tumorBoost t n)
    | _, _ => .nan

structure HetOpts where
  sid : Sel := .unset
  nid : Sel := .unset
  minDepth : Option Int := some 20
  zygFreq : Option (Rat × Rat) := none     -- (zygosity_freq, 1 - zygosity_freq) as Python computes them
  tumorBoost : Bool := false
deriving Repr, Inhabited

/-- "the normal sample's genotypes are all 0/0 or missing": no row has a non-zero `n_zygosity` -/
def normalUntyped (rows : List VRow) : Bool :=
  !(rows.any (fun r => (r.n.map (fun g => g.zyg != 0)).getD false))

/-- the thresholds in force: those asked for, else 0.25 / 0.75 when the normal carries no genotype -/
def effectiveZygFreq (o : HetOpts) (tb : VTable) : Option (Rat × Rat) :=
  match o.zygFreq with
  | some z => some z
  | none => if tb.paired && normalUntyped tb.rows then some (1/4, 3/4) else none

/-- `zygosity_from_freq` when thresholds are in force (with its `assert`) -/
def retype (zf : Option (Rat × Rat)) (rows : List VRow) : Except VErr (List VRow) :=
  match zf with
  | some (het, hom) =>
    if 0 ≤ het ∧ het ≤ hom ∧ hom ≤ 1 then .ok (zygosityFromFreq het hom rows)
    else .error VErr.assertionError
  | none => .ok rows

/-- "somatic based on T/N genotypes": the tumour shows the variant, the normal is 0/0 -/
def keepTN (r : VRow) : Bool := !(r.t.zyg != 0 && (r.n.map (fun g => g.zyg == 0)).getD false)

/-- drop the T/N-somatic rows (paired tables), then take the heterozygous subset -/
def hetStage (paired : Bool) (rows : List VRow) : List VRow :=
  heterozygous (if paired then rows.filter keepTN else rows)

/-- `varr["alt_freq"] = varr.tumor_boost()` (needs the normal's columns) -/
def boostStage (boost paired : Bool) (rows : List VRow) : Except VErr (List VRow) :=
  if boost then
    if paired then .ok (rows.map (fun r => { r with t := { r.t with altFreq := boostRow r } }))
    else .error VErr.valueError
  else .ok rows

/-- `cmdutil.load_het_snps` -/
def loadHetSnps (samples : List String) (tags : List PedTag) (recs : List Rec) (o : HetOpts) :
    Except VErr VTable := do
  let tb ← readVcf samples tags recs
    { sid := o.sid, nid := o.nid, minDepth := o.minDepth, skipReject := false, skipSomatic := true }
  let rows ← retype (effectiveZygFreq o tb) tb.rows
  let rows ← boostStage o.tumorBoost tb.paired (hetStage tb.paired rows)
  pure { paired := tb.paired, rows := rows }

/-! ## BAF -/

def absQ (q : Rat) : Rat := if q < 0 then -q else q

def insertQ (x : Rat) : List Rat → List Rat
  | [] => [x]
  | y :: ys => if x ≤ y then x :: y :: ys else y :: insertQ x ys

def sortQ : List Rat → List Rat
  | [] => []
  | x :: xs => insertQ x (sortQ xs)

/-- `numpy.median` / `Series.median` of finite numbers: middle of the sorted values, the mean of
    the two middle ones for an even count; `none` (NaN) for no values -/
def median (l : List Rat) : Option Rat :=
  let s := sortQ l
  let n := s.length
  if n = 0 then none
  else if n % 2 = 1 then s[n / 2]?
  else match s[n / 2 - 1]?, s[n / 2]? with
    | some a, some b => some ((a + b) / 2)
    | _, _ => none

/-- NaN-skipping median (`Series.median()`, `np.nanmedian`) -/
def nanmedian (l : List (Option Rat)) : Option Rat := median (l.filterMap id)

/-- which side `_mirrored_baf` flips to: as told, else the side of the median (`> 0.5`) -/
def mirrorAbove (vals : List (Option Rat)) : Option Bool → Bool
  | some b => b
  | none => match nanmedian vals with
    | some m => decide (m > 1/2)
    | none => false

def mirrorOne (above : Bool) (v : Rat) : Rat :=
  if above then 1/2 + absQ (v - 1/2) else 1/2 - absQ (v - 1/2)

/-- `_mirrored_baf(vals, above_half)` -/
def mirroredBaf (vals : List (Option Rat)) (aboveHalf : Option Bool) : List (Option Rat) :=
  let above := mirrorAbove vals aboveHalf
  vals.map (fun v => v.map (mirrorOne above))

/-- `summarize` of `baf_by_ranges`: `np.nanmedian(_mirrored_baf(vals, above_half))` -/
def summarize (aboveHalf : Option Bool) (vals : List (Option Rat)) : Option Rat :=
  nanmedian (mirroredBaf vals aboveHalf)

/-- `series2value` of `into_ranges`: default for nothing, the value itself for one, else `summarize` -/
def series2value (aboveHalf : Option Bool) : List (Option Rat) → Option Rat
  | [] => none
  | [v] => v
  | vs => summarize aboveHalf vs

/-- the frequency `baf_by_ranges` aggregates for a row -/
def bafFreq (paired boost : Bool) (r : VRow) : Option Rat :=
  if boost && paired then (boostRow r).toOpt else r.t.altFreq.toOpt

/-- a variant row as a C07 table row; `gene` carries the row's position in the list, the way
    pandas index labels identify the selected rows -/
def tagRow (p : VRow × Nat) : Row := ⟨p.1.chrom, p.1.s, p.1.e, Nat.repr p.2⟩

def segRow (g : String × Int × Int) : Row := ⟨g.1, g.2.1, g.2.2, ""⟩

/-- values of the selected rows, looked up by their labels -/
def sliceValues (vals : List (Option Rat)) (sel : Table) : List (Option Rat) :=
  sel.filterMap (fun r => match r.gene.toNat? with
    | some i => vals[i]?
    | none => none)

/-- `VariantArray.baf_by_ranges(ranges, above_half=…, tumor_boost=…)`: one value per range,
    `none` = NaN.  `into_ranges(…, "alt_freq", NaN, summarize)` over the heterozygous rows. -/
def bafByRanges (tb : VTable) (segs : List (String × Int × Int)) (aboveHalf : Option Bool)
    (boost : Bool) : List (Option Rat) :=
  let hets := heterozygous tb.rows
  let vals := hets.map (bafFreq tb.paired boost)
  let src : Table := hets.zipIdx.map tagRow
  let dest : Table := segs.map segRow
  if src.isEmpty || dest.isEmpty then dest.map (fun _ => none)
  else (iterSlices src dest .outer true).map (fun sel => series2value aboveHalf (sliceValues vals sel))

/-- `VariantArray.mirrored_baf(above_half, tumor_boost)` over the whole array -/
def mirroredBafOf (tb : VTable) (aboveHalf : Option Bool) (boost : Bool) : List (Option Rat) :=
  mirroredBaf (tb.rows.map (bafFreq tb.paired boost)) aboveHalf

/-- `call.rescale_baf(purity, observed_baf, normal_baf=0.5)` -/
def rescaleBaf (purity obs : Rat) (normal : Rat := 1/2) : Rat :=
  (obs - normal * (1 - purity)) / purity

/-! ## the property's wording, as decidable checks (evaluated on the real output by the driver) -/

/-- "PEDIGREE-declared pairs first, else the given tumour and normal ids, else the first sample":
    `s`, `n` are the selectors resolved to names (`none` = not given).  A tumour id that no
    declared pair has as its tumour is read alone; a normal id that leaves no other sample to be
    the tumour admits no choice. -/
def specPair (samples : List String) (peds : List (String × String)) (s n : Option String) :
    Option (String × Option String) :=
  if !peds.isEmpty then
    match s with
    | some x => match peds.find? (fun p => p.1 == x) with
      | some p => some (p.1, some p.2)
      | none => some (x, none)
    | none => peds.head?.map (fun p => (p.1, some p.2))
  else match n with
    | some y => match s with
      | some x => if x != y then some (x, some y) else some (x, none)
      | none => (samples.find? (fun o => o != y)).map (fun o => (o, some y))
    | none => match s with
      | some x => some (x, none)
      | none => samples.head?.map (fun x => (x, none))

/-- zygosity "from the genotype": with every allele called, 0 = all reference, 1 = all the same
    non-reference allele, 0.5 = differing alleles; a genotype with a "." is only required to get one
    of the three values -/
def specZygOk (gt : List (Option Int)) (z : Rat) : Bool :=
  if gt.all (fun a => a.isSome) && !gt.isEmpty then
    if gt.all (fun a => a == some 0) then z == 0
    else if gt.all (fun a => a == gt.head?.getD none) then z == 1
    else z == 1/2
  else z == 0 || z == 1/2 || z == 1

/-- a record's row lies inside a range: same chromosome, intervals overlap -/
def overlaps (g : String × Int × Int) (r : VRow) : Bool :=
  r.chrom == g.1 && decide (r.e > g.2.1) && decide (r.s < g.2.2)

/-- the BAF of one range in the property's words: the heterozygous rows inside it, their
    frequencies mirrored to one side of 0.5, the median of those; `none` where there are none -/
def specBaf (paired boost : Bool) (aboveHalf : Option Bool) (rows : List VRow)
    (g : String × Int × Int) : Option Rat :=
  summarize aboveHalf (((rows.filter isHet).filter (overlaps g)).map (bafFreq paired boost))

end CnvVerif.Vcf
