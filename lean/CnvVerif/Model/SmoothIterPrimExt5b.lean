/-
  C19 round 5b: the whole-array primitives in which `Generated/ExprsCwIter.lean` (harness/cwloop.py) is written:
  element-by-element products of weight arrays (`List Rat`) and value arrays (`List (Option Rat)`, `none` = non-finite),
  and the quotient value / weight, non-finite where the divisor is 0.
-/
import CnvVerif.Model.Smoothing
namespace CnvVerif.C19Iter

def mulRR (a b : List Rat) : List Rat := (a.zip b).map (fun p => p.1 * p.2)
def mulRO (w : List Rat) (y : List (Option Rat)) : List (Option Rat) := (w.zip y).map (fun p => p.2.map (p.1 * ·))
def mulOR (y : List (Option Rat)) (w : List Rat) : List (Option Rat) := mulRO w y
def divOR (d : List (Option Rat)) (n : List Rat) : List (Option Rat) :=
  (d.zip n).map (fun p => if p.2 = 0 then none else p.1.map (· / p.2))

end CnvVerif.C19Iter
