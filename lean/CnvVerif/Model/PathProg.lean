/-
  C10 -- `cnvlib.core.ensure_path` as a PROGRAM: the statements of its body, re-read from the source on every run
  (harness/extractors/effects_path.py -> Generated/EffectsPath.lean) into the small command language below, an
  interpreter for that language on a file system WITH directories, and the hand-written model `ensurePathD`
  (= Model/Effects.lean's `ensurePath` on the files + the directory block).  Props/C10Src.lean proves that running
  the generated program equals the hand-written model for every directory content and every path.
-/
import CnvVerif.Model.Effects
namespace CnvVerif.Effects

/-- a directory as the list of its path components below the root; `[]` is the root -/
abbrev Dir := List String

/-- a file system with directories: the directories that exist, and the files (full name ↦ content) -/
structure FSD where
  dirs : List Dir
  files : FS
deriving Repr, Inhabited

def isDir (fs : FSD) (d : Dir) : Bool := fs.dirs.contains d

/-- all non-empty prefixes of `d`, shortest first, and the root -/
def ancestors (d : Dir) : List Dir := (List.range (d.length + 1)).map (fun k => d.take k)

/-- `os.makedirs(d)`: creates `d` and every missing ancestor -/
def makedirs (fs : FSD) (d : Dir) : FSD :=
  { fs with dirs := fs.dirs ++ (ancestors d).filter (fun a => !fs.dirs.contains a) }

/-- the path argument as the code sees it: the string, whether `"/" in os.path.normpath(fname)`, and
    `os.path.dirname(os.path.abspath(fname))` as components -/
structure PathArg where
  name : String
  slash : Bool
  dir : Dir
deriving Repr, Inhabited

/-- the directory block of `ensure_path` (hand-written model) -/
def ensureDir (fs : FSD) (p : PathArg) : FSD :=
  if p.slash && !isDir fs p.dir then makedirs fs p.dir else fs

/-- `cnvlib.core.ensure_path` on a file system with directories (hand-written model) -/
def ensurePathD (fs : FSD) (p : PathArg) : FSD :=
  let fs1 := ensureDir fs p
  { fs1 with files := ensurePath fs1.files p.name }

/-- `open(p, "w")`: fails when the directory of `p` does not exist -/
def writeFileD (fs : FSD) (p : PathArg) (c : String) : Except String FSD :=
  if isDir fs p.dir then .ok { fs with files := writeFile fs.files p.name c } else .error "FileNotFoundError"

def guardedWriteD (fs : FSD) (p : PathArg) (c : String) : Except String FSD := writeFileD (ensurePathD fs p) p c

def guardedWritesD (fs : FSD) (p : PathArg) : List String → Except String FSD
  | [] => .ok fs
  | c :: ws => match guardedWriteD fs p c with
    | .ok fs' => guardedWritesD fs' p ws
    | .error e => .error e

/-! ### the command language of the source -/

/-- string-valued expressions of the body -/
inductive PExpr where
  | fname          -- the parameter
  | bak            -- the local holding the backup name
deriving Repr, DecidableEq, Inhabited

inductive PCmd where
  | skip
  | seq (a b : PCmd)
  /-- `if "/" in os.path.normpath(fname): body` -/
  | ifSlash (body : PCmd)
  /-- `dname = os.path.dirname(os.path.abspath(fname))` -/
  | setDname
  /-- `if dname and not os.path.isdir(dname): body` (`neg = false`: the `not` is missing) -/
  | ifDir (neg : Bool) (body : PCmd)
  /-- `os.makedirs(dname)` (inside `try … except OSError: raise OSError(…)`) -/
  | makedirs
  /-- `if os.path.isfile(e): body` -/
  | ifFile (e : PExpr) (body : PCmd)
  /-- `while os.path.isfile(e): body` -/
  | whileFile (e : PExpr) (body : PCmd)
  /-- `cnt = n` -/
  | setCnt (n : Nat)
  /-- `cnt += k` -/
  | incCnt (k : Nat)
  /-- `bak_fname = f"{fname}.{cnt}"` -/
  | setBak
  /-- `os.rename(a, b)` -/
  | rename (a b : PExpr)
deriving Repr, Inhabited

structure PState where
  fs : FSD
  arg : PathArg
  cnt : Nat := 0
  bak : String := ""
  dname : Option Dir := none
deriving Repr, Inhabited

def PState.eval (s : PState) : PExpr → String
  | .fname => s.arg.name
  | .bak => s.bak

mutual
/-- the interpreter; `fuel` bounds the rounds of each `while` (Props/C10Src.lean: the number of files is enough) -/
def run (fuel : Nat) : PCmd → PState → PState
  | .skip, s => s
  | .seq a b, s => run fuel b (run fuel a s)
  | .ifSlash body, s => if s.arg.slash then run fuel body s else s
  | .setDname, s => { s with dname := some s.arg.dir }
  | .ifDir neg body, s => match s.dname with
    | some d => if (isDir s.fs d) != neg then run fuel body s else s
    | none => s
  | .makedirs, s => match s.dname with
    | some d => { s with fs := CnvVerif.Effects.makedirs s.fs d }
    | none => s
  | .ifFile e body, s => if isFile s.fs.files (s.eval e) then run fuel body s else s
  | .whileFile e body, s => loop fuel e body fuel s
  | .setCnt n, s => { s with cnt := n }
  | .incCnt k, s => { s with cnt := s.cnt + k }
  | .setBak, s => { s with bak := bakName s.arg.name s.cnt }
  | .rename a b, s => { s with fs := { s.fs with files := renameFile s.fs.files (s.eval a) (s.eval b) } }
def loop (fuel : Nat) (e : PExpr) (body : PCmd) : Nat → PState → PState
  | 0, s => s
  | k + 1, s => if isFile s.fs.files (s.eval e) then loop fuel e body k (run fuel body s) else s
end

/-- run a whole `ensure_path` body on a file system -/
def runEnsurePath (prog : PCmd) (fs : FSD) (p : PathArg) : FSD :=
  (run fs.files.length prog { fs := fs, arg := p }).fs

end CnvVerif.Effects
