/-
  Model of cnvlib/smoothing.py: window geometry (`_width2wing`, `_pad_array`), `rolling_median`,
  `convolve_unweighted` / `convolve_weighted`, `kaiser` (unweighted), `savgol` (with and without
  weights).  Core Lean only, exact rationals; `none` = NaN/inf.
  Third-party values are parameters: the window coefficients (`np.kaiser(2·wing+1, 14)`,
  `scipy.signal.savgol_coeffs(window_width, order)`).
-/
import CnvVerif.Generated.DescConsts
import CnvVerif.Model.Descriptives
namespace CnvVerif.Smooth
open CnvVerif.Generated CnvVerif.Desc

inductive WingErr | valueError | assertionError
deriving Repr, DecidableEq, Inhabited

/-- `_width2wing(width, x)` with `n = len(x)`: a fraction of the length, or an integer window
    width; at least `min_wing`, at most `n − 1`, and asserted ≥ 1 -/
def width2wing (width : Rat) (n : Nat) : Except WingErr Nat :=
  let raw : Except WingErr Int :=
    if 0 < width ∧ width < 1 then .ok ((n : Rat) * width * (1 / 2)).ceil
    else if 2 ≤ width ∧ width.isInt then .ok ((min width ((n : Rat) - 1)) / 2).floor
    else .error .valueError
  match raw with
  | .error e => .error e
  | .ok wing0 =>
    let wing := min (max wing0 (MIN_WING : Int)) ((n : Int) - 1)
    if wing ≥ 1 then .ok wing.toNat else .error .assertionError

/-- `_pad_array(x, wing)`: `x[wing-1::-1] ++ x ++ x[:-wing-1:-1]` (edges mirrored, edge value repeated) -/
def padArray {α} (x : List α) (wing : Nat) : List α :=
  (x.take wing).reverse ++ x ++ (x.reverse.take wing)

/-- `rolling_median(x, width)` (repaired: an array shorter than 2 is returned as it is).  Every kept
    position has a full window of `2·wing+1` padded values, whose middle order statistic is taken. -/
def rollingMedian (x : List Rat) (width : Rat) : Except WingErr (List Rat) :=
  if x.length < 2 then .ok x else
  match width2wing width x.length with
  | .error e => .error e
  | .ok wing =>
    let sig := padArray x wing
    .ok ((List.range x.length).map (fun i => median ((sig.drop i).take (2 * wing + 1))))

/-- the unrepaired function asserts `wing ≥ 1` also for a single value -/
def rollingMedianPrefix (x : List Rat) (width : Rat) : Except WingErr (List Rat) :=
  match width2wing width x.length with
  | .error e => .error e
  | .ok wing =>
    let sig := padArray x wing
    .ok ((List.range x.length).map (fun i => median ((sig.drop i).take (2 * wing + 1))))

def dot (a b : List Rat) : Rat := ((a.zip b).map (fun p => p.1 * p.2)).sum

/-- the signal extended by `wing` zeros on both sides -/
def zeroPad (wing : Nat) (y : List Rat) : List Rat := List.replicate wing 0 ++ y ++ List.replicate wing 0

/-- the `2·wing+1` values of the zero-extended signal `z` under the window centred at `k` -/
def windowAt (wing : Nat) (z : List Rat) (k : Nat) : List Rat := (z.drop k).take (2 * wing + 1)

/-- `np.convolve(window, y, mode="same")` for an odd window `2·wing+1 ≤ len(y)`:
    `out[k] = Σ_j window[j]·y[k + wing − j]`, the signal being zero outside its support -/
def convSame (window y : List Rat) : List Rat :=
  let wing := (window.length - 1) / 2
  let z := zeroPad wing y
  (List.range y.length).map (fun k => dot window (windowAt wing z k).reverse)

/-- the same for a signal that may hold non-finite entries (`none`): a window touching one gives a
    non-finite value (`nan·0 = nan`, `inf − inf = nan`) -/
def convSameOpt (window : List Rat) (y : List (Option Rat)) : List (Option Rat) :=
  let vals := convSame window (y.map (·.getD 0))
  if y.all (·.isSome) then vals.map some else
  let bad := convSame (window.map (fun _ => 1)) (y.map (fun v => if v.isNone then 1 else 0))
  (vals.zip bad).map (fun p => if p.2 = 0 then some p.1 else none)

def normalise (window : List Rat) : List Rat := window.map (· / window.sum)

/-- `y[wing:-wing]` -/
def unpad {α} (y : List α) (wing : Nat) : List α := (y.drop wing).take (y.length - 2 * wing)

/-- `convolve_unweighted(window, signal, wing)` with `n_iter = 1` -/
def convolveUnweighted (window sig : List Rat) (wing : Nat) : List Rat :=
  unpad (convSame (normalise window) sig) wing

/-- `kaiser(x, width)` without weights; `window` = `np.kaiser(2·wing+1, 14)` -/
def kaiser (x : List Rat) (width : Rat) (window : List Rat) : Except WingErr (List Rat) :=
  if x.length < 2 then .ok x else
  match width2wing width x.length with
  | .error e => .error e
  | .ok wing => .ok (convolveUnweighted window (padArray x wing) wing)

/-- the window geometry `savgol` derives: (total wing, window width, order, iterations) -/
def savgolGeometry (n : Nat) (totalWidth : Option Rat) (windowWidth order nIter : Nat) :
    Except WingErr (Nat × Nat × Nat × Nat) :=
  let tw : Rat := totalWidth.getD ((nIter * windowWidth : Nat) : Rat)
  match width2wing tw n with
  | .error e => .error e
  | .ok wing =>
    let total := 2 * wing + 1
    let ww := min windowWidth total
    let ord := min order (ww / 2)
    let it := max 1 (min SAVGOL_MAX_ITER (total / ww))
    .ok (wing, ww, ord, it)

def iterate {α} (f : α → α) : Nat → α → α
  | 0, x => x
  | k + 1, x => iterate f k (f x)

/-- `savgol(x, total_width)` without weights: `n_iter` passes of `savgol_filter(…, mode="interp")`
    over the padded signal.  Away from the edges a pass is the convolution with `coeffs`
    (`savgol_coeffs(window_width, order)`, not renormalised); the polynomial edge fits reach
    `n_iter·(window_width//2) ≤ wing` positions inwards and are cut off with the padding. -/
def savgol (x : List Rat) (totalWidth : Option Rat) (windowWidth order nIter : Nat) (coeffs : List Rat) :
    Except WingErr (List Rat) :=
  if x.length < 2 then .ok x else
  match savgolGeometry x.length totalWidth windowWidth order nIter with
  | .error e => .error e
  | .ok (wing, _, _, it) =>
    .ok (unpad (iterate (convSame coeffs) it (padArray x wing)) wing)

/-- `weights[:wing] *= linspace(1/wing, 1, wing); weights[-wing:] *= linspace(1, 1/wing, wing)` -/
def rollOff (wpad : List Rat) (wing : Nat) : List Rat :=
  let n := wpad.length
  (wpad.zip (List.range n)).map (fun p =>
    let i := p.2
    let f1 : Rat := if i < wing then ((i + 1 : Nat) : Rat) / (wing : Rat) else 1
    let f2 : Rat := if n - wing ≤ i then ((n - i : Nat) : Rat) / (wing : Rat) else 1
    p.1 * f1 * f2)

/-- one iteration of `convolve_weighted`: `y ← (w·y ⊛ win)/(w ⊛ win)`, `w ← win ⊛ w`;
    a zero denominator gives a non-finite value (`none`) -/
def cwStep (win : List Rat) (st : List (Option Rat) × List Rat) : List (Option Rat) × List Rat :=
  let (y, w) := st
  let D := convSameOpt win ((w.zip y).map (fun p => p.2.map (p.1 * ·)))
  let N := convSame win w
  ((D.zip N).map (fun p => if p.2 = 0 then none else p.1.map (· / p.2)), N)

/-- `savgol(x, total_width, weights=w)` -/
def savgolWeighted (x w : List Rat) (totalWidth : Option Rat) (windowWidth order nIter : Nat)
    (coeffs : List Rat) : Except WingErr (List (Option Rat)) :=
  if x.length < 2 then .ok (x.map some) else
  match savgolGeometry x.length totalWidth windowWidth order nIter with
  | .error e => .error e
  | .ok (wing, _, _, it) =>
    let sig := padArray x wing
    let wts := rollOff (padArray w wing) wing
    let win := normalise coeffs
    .ok (unpad (iterate (cwStep win) it (sig.map some, wts)).1 wing)

end CnvVerif.Smooth
