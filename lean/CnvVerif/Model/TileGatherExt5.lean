/-
  C03 (round 5): the glue of `do_segmentation` around the per-unit worker `_do_segmentation`.

      if method == "flasso" or method.startswith("hmm"):   cna = _do_segmentation(cnarr, method, ...)
      else:  with parallel.pick_pool(processes) as pool:
                 rets = list(pool.map(_ds, ((ca, method, ...) for _, ca in cnarr.by_arm())))
             cna = cnarr.concat(rets)

  The worker is a parameter (`worker : List Bin → List SegO`, modelled by `assembleUnit` after the filters, Model/Tile.lean);
  the pool is the small-step pool of Model/CoverageSched.lean (any number of workers, any schedule of take / finish
  events; `Executor.map` hands results back by submission index).  `concat` joins the per-arm tables in the order of
  `rets` (and then sorts by chromosome and position: Driver/Tile.lean's `segSortLe`; the arms are already in that order).
  Core Lean only.
-/
import CnvVerif.Model.Tile
import CnvVerif.Model.CoverageSched
namespace CnvVerif.C03Gather
open CnvVerif CnvVerif.Cov.Sched

/-- the methods `do_segmentation` runs ONCE on the whole table -/
def wholeTable (method : String) : Bool := method == "flasso" || method.startsWith "hmm"

/-- `cnarr.concat(list(pool.map(_ds, arms)))` under a schedule `evs` of a pool of `nw` workers; `none` while the
    pool has not finished -/
def gatherArms (mode : String) (worker : List Bin → List SegO) (arms : List (List Bin)) (nw : Nat) (evs : List Ev) :
    Option (List SegO) :=
  (schedMap mode worker arms nw evs).map List.flatten

/-- `do_segmentation` up to the final sort of rows and columns -/
def doSegmentation (method mode : String) (worker : List Bin → List SegO) (table : List Bin) (nw : Nat) (evs : List Ev) :
    Option (List SegO) :=
  if wholeTable method then some (worker table) else gatherArms mode worker (byArm table) nw evs

end CnvVerif.C03Gather
