/-
  C04 (round 5): the DECISIONS of `fix.load_adjust_coverages` as a table of their own — the "most bins have no coverage"
  test, which corrections run (flag × column present) in which order with which sort key — and `load_adjust_coverages`
  re-stated as "prepare, then run the plan".  `Lemmas/FixPlanExt5.lean` proves this equal to `loadAdjust` of Model/Fix.lean
  and to the decisions re-read from the source (Generated/ExprsFixPlan.lean).  Core Lean only.
-/
import CnvVerif.Model.Fix
namespace CnvVerif.C04x
open CnvVerif

/-- `"gc" in ref_matched`: the model's rows carry `none` in every row of a reference without the column -/
def hasGcCol (rf : List RRow) : Bool := rf.all (·.gc.isSome) && !rf.isEmpty
def hasRmaskCol (rf : List RRow) : Bool := rf.all (·.rmask.isSome) && !rf.isEmpty

/-- `(cnarr["log2"] > NULL_LOG2_COVERAGE - MIN_REF_COVERAGE).sum() <= len(cnarr) // 2` -/
def skipCorrections (log2s : List Rat) : Bool :=
  decide ((log2s.filter (fun x => decide (x > Generated.NULL_LOG2_COVERAGE - Generated.MIN_REF_COVERAGE))).length ≤ log2s.length / 2)

/-- the sort keys of the successive `center_by_window` calls -/
def correctionPlan (skip fixGc fixEdge fixRmask hasGc hasRmask : Bool) : List String :=
  if skip then [] else
    (if fixGc && hasGc then ["gc"] else []) ++ (if fixEdge then ["get_edge_bias"] else []) ++
    (if fixRmask && hasRmask then ["rmask"] else [])

/-- the edge-bias sort keys: the exact formula on the current rows, or the doubles numpy computed for it -/
def edgeKeysOf (edgeKeys : Option (List Rat)) (cn : List SRow) : List Rat :=
  match edgeKeys with
  | some ks => if ks.length == cn.length then ks else edgeBias cn Generated.INSERT_SIZE
  | none => edgeBias cn Generated.INSERT_SIZE

/-- one `center_by_window` call of the plan -/
def stepCorrection (perm : List Nat) (wing : Nat) (rf : List RRow) (ek : Option (List Rat)) (cn : List SRow) (k : String) :
    List SRow :=
  if k = "gc" then centerByWindow perm wing cn (rf.map (fun r => r.gc.getD 0))
  else if k = "get_edge_bias" then centerByWindow perm wing cn (edgeKeysOf ek cn)
  else if k = "rmask" then centerByWindow perm wing cn (rf.map (fun r => r.rmask.getD 0))
  else cn

def runPlan (perm : List Nat) (wing : Nat) (rf : List RRow) (ek : Option (List Rat)) (plan : List String) (cn : List SRow) :
    List SRow :=
  plan.foldl (stepCorrection perm wing rf ek) cn

/-- `load_adjust_coverages` as: sort, match, drop the bad bins, centre, then run the plan the decision table gives -/
def loadAdjustPlanned (samp : List SRow) (ref : List RRow) (skipLow fixGc fixEdge fixRmask : Bool)
    (par : Option String) (perm : List Nat) (wing : Nat) (ek : Option (List Rat)) :
    Except FixErr (List SRow × List RRow) :=
  if samp.isEmpty then .ok ([], []) else
  match matchRef ref (sortS samp) with
  | .error e => .error e
  | .ok refM =>
    let cn0 := (((sortS samp).zip (refM.map (fun r => !badBin r))).filter (·.2)).map (·.1)
    let rf := refM.filter (fun r => !badBin r)
    let cn1 := centerS skipLow par cn0
    .ok (runPlan perm wing rf ek
          (correctionPlan (skipCorrections (cn1.map (·.log2))) fixGc fixEdge fixRmask (hasGcCol rf) (hasRmaskCol rf)) cn1, rf)

/-- the verdicts alone (driver op `fix_plan`): skip?, plan -/
def decisions (samp : List SRow) (ref : List RRow) (skipLow fixGc fixEdge fixRmask : Bool) (par : Option String) :
    Except FixErr (Bool × List String) :=
  if samp.isEmpty then .ok (false, []) else
  match matchRef ref (sortS samp) with
  | .error e => .error e
  | .ok refM =>
    let cn0 := (((sortS samp).zip (refM.map (fun r => !badBin r))).filter (·.2)).map (·.1)
    let rf := refM.filter (fun r => !badBin r)
    let cn1 := centerS skipLow par cn0
    let sk := skipCorrections (cn1.map (·.log2))
    .ok (sk, correctionPlan sk fixGc fixEdge fixRmask (hasGcCol rf) (hasRmaskCol rf))

/-- the pooled-or-flat verdict on two columns (driver op `fix_pooled`) -/
def pooledCols (spread log2 : List Rat) : Bool :=
  spread.any (fun s => decide (s > Generated.WEIGHT_EPSILON)) &&
    log2.any (fun l => decide (absR (mod1 l) > Generated.WEIGHT_EPSILON))

end CnvVerif.C04x
