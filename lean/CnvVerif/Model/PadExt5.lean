/-
  C19 (round 5): Python's slice with step −1, `l[start:stop:-1]`, as numpy / list indexing defines it
  (PySlice_AdjustIndices for a negative step).  Vocabulary of harness/padslices.py; no Mathlib.
-/
namespace CnvVerif.C19Pad

/-- an explicit bound of a step −1 slice on a sequence of length `n`: negative counts from the end, then clipped to `[-1, n-1]` -/
def clipRev (n v : Int) : Int :=
  let v := if v < 0 then v + n else v
  if v < 0 then -1 else if v ≥ n then n - 1 else v

/-- `l[start:stop:-1]`: the elements at `s, s-1, .., e+1`, where an omitted start is `n-1` and an omitted stop is "before 0" -/
def sliceRev {α} (start stop : Option Int) (l : List α) : List α :=
  let n : Int := l.length
  let s : Int := match start with | none => n - 1 | some v => clipRev n v
  let e : Int := match stop with | none => -1 | some v => clipRev n v
  ((l.take (s + 1).toNat).drop (e + 1).toNat).reverse

end CnvVerif.C19Pad
