/-
  Primitives the dict-loop reader `harness/dicttrans.py` (C16, `_get_gene_map`) maps Python's insertion-ordered
  dict of lists to.  One line each; part of the trusted reading of the source.  Core Lean only.

    OrderedDict()            []
    k in d                   has d k
    d[k]                     get d k               (the reader only emits it where `k in d` holds)
    d[k] = v                 set d k v             (an existing key keeps its place, a new key goes to the end)
    d[k].append(x)           set d k (get d k ++ [x])
    s.split(c)               split s c             (one-character separator)
-/
namespace CnvVerif.PyDict16

/-- an insertion-ordered `dict` from names to lists of row positions: its items in order -/
abbrev Dict := List (String × List Nat)

/-- `k in d` -/
def has (d : Dict) (k : String) : Bool := d.any (fun p => p.1 == k)

/-- `d[k]` (the first item with that key; `[]` stands for the KeyError the reader never lets happen) -/
def get (d : Dict) (k : String) : List Nat :=
  match d.find? (fun p => p.1 == k) with
  | some p => p.2
  | none => []

/-- `d[k] = v` -/
def set (d : Dict) (k : String) (v : List Nat) : Dict :=
  if has d k then d.map (fun p => if p.1 == k then (p.1, v) else p) else d ++ [(k, v)]

/-- `list(d)`: the keys in insertion order -/
def keys (d : Dict) : List String := d.map (·.1)

/-- `str.split(sep)` for a one-character separator (`acc` = the piece being read, reversed); structural -/
def splitOn (sep : Char) : List Char → List Char → List String
  | acc, [] => [String.ofList acc.reverse]
  | acc, c :: cs =>
    if c == sep then String.ofList acc.reverse :: splitOn sep [] cs else splitOn sep (c :: acc) cs

/-- `s.split(sep)` -/
def split (s : String) (sep : Char) : List String := splitOn sep [] s.toList

end CnvVerif.PyDict16
