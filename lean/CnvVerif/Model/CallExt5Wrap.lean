/-
  Model of the public wrappers of cnvlib/call.py around the (reference, expect) table and the ratio rewriting (growth round 5,
  C01): `absolute_reference`, `absolute_expect` (each builds the whole table with the OTHER flag pinned to True and returns one
  column) and `log2_ratios` (ratio space).  Core Lean only.
-/
import CnvVerif.Model.Call
namespace CnvVerif

def c01wFirst (rows : List SegRow) : String := (rows.head?.map (·.chrom)).getD ""

/-- `absolute_reference(cnarr, ploidy, diploid_parx_genome, is_haploid_x_reference)`: `is_sample_female = True`, column `reference` -/
def c01wAbsoluteReference (ploidy : Nat) (par : Option String) (hapX : Bool) (rows : List SegRow) : List Nat :=
  rows.map (fun r => (refExpect ploidy hapX true (classOf (c01wFirst rows) par r.chrom r.s r.e)).1)

/-- `absolute_expect(cnarr, ploidy, diploid_parx_genome, is_sample_female)`: `is_haploid_x_reference = True`, column `expect` -/
def c01wAbsoluteExpect (ploidy : Nat) (par : Option String) (female : Bool) (rows : List SegRow) : List Nat :=
  rows.map (fun r => (refExpect ploidy true female (classOf (c01wFirst rows) par r.chrom r.s r.e)).2)

/-- `log2_ratios(cnarr, absolutes, ploidy, is_haploid_x_reference, diploid_parx_genome)` as ratios `2^result`
    (`round_to_int=False`, `min_abs_val` = the source's default) -/
def c01wLog2Ratios (ploidy : Nat) (hapX : Bool) (par : Option String) (rows : List SegRow) (abs : List Rat) : List Rat :=
  (rows.zip abs).map (fun ra =>
    rescaledRatio ploidy hapX (classOf (c01wFirst rows) par ra.1.chrom ra.1.s ra.1.e) ra.2 Generated.MIN_ABS_VAL)

end CnvVerif
