/-
  C19 round 5b: `smoothing.convolve_weighted(window, signal, weights, n_iter)` as a whole, for every `n_iter`
  (0 passes return the inputs): the length assertion, `window /= window.sum()`, then `n_iter` times the one-pass
  map `cwStep` (`y ← (w·y ⊛ win)/(w ⊛ win)`, `w ← win ⊛ w`).  Returns the pair `(y, w)`.
-/
import CnvVerif.Model.Smoothing
namespace CnvVerif.C19Iter
open CnvVerif.Smooth

def convolveWeighted (window y w : List Rat) (nIter : Nat) : Except WingErr (List (Option Rat) × List Rat) :=
  if w.length ≠ y.length then .error .assertionError
  else .ok (iterate (cwStep (normalise window)) nIter (y.map some, w))

/-- the window sums (denominators `N`) of pass `j+1`, for `j = 0 .. nIter-1` -/
def denominators (window w : List Rat) (nIter : Nat) : List (List Rat) :=
  (List.range nIter).map (fun j => iterate (convSame (normalise window)) (j + 1) w)

/-- no denominator of any pass vanishes -/
def densNonzero (window w : List Rat) (nIter : Nat) : Bool :=
  (denominators window w nIter).all (fun l => l.all (fun N => N != 0))

end CnvVerif.C19Iter
