/-
  Model of cnvlib/descriptives.py (robust estimators of location and scale) over exact
  rationals.  Core Lean only.  `Option Rat`: `none` = NaN.  Square roots are never taken: an
  estimator that ends in `np.sqrt` returns the radicand (`ScaleOut.root`).
  Third-party values are parameters: the permutation returned by `ndarray.argsort` (numpy's
  default sort is not stable, so the order of tied values is whatever numpy says) and the
  Gaussian KDE densities of `modal_location`.
  The functions model the code *as repaired* by proposed_fixes/C19-{N,O,T,U}.diff; the
  behaviour of the unrepaired functions is kept under the names `…Prefix`.
-/
import CnvVerif.Generated.DescConsts
namespace CnvVerif.Desc
open CnvVerif.Generated

def absR (q : Rat) : Rat := if q < 0 then -q else q
def sq (x : Rat) : Rat := x * x
def nth (l : List Rat) (i : Nat) : Rat := l.getD i 0

/-- `np.sort` of a float array without NaN (values only: tie order is unobservable) -/
def sortR (l : List Rat) : List Rat := l.mergeSort (fun a b => decide (a ≤ b))

/-- `np.median`: middle order statistic, or the mean of the two middle ones -/
def median (l : List Rat) : Rat :=
  let s := sortR l
  let n := s.length
  if n % 2 = 1 then nth s (n / 2) else (nth s (n / 2 - 1) + nth s (n / 2)) / 2

/-- `np.percentile(a, 100·q)` (default "linear" method) on an already sorted list:
    virtual index `q·(n−1)`, linear interpolation between its neighbours -/
def quantileSorted (s : List Rat) (q : Rat) : Rat :=
  let n := s.length
  let pos := q * ((n : Rat) - 1)
  let lo := pos.floor.toNat
  let g := pos - (lo : Rat)
  nth s lo + g * (nth s (min (lo + 1) (n - 1)) - nth s lo)

def quantile (l : List Rat) (q : Rat) : Rat := quantileSorted (sortR l) q

/-- `ndarray.argmax`: index of the first maximal entry -/
def argmaxGo : List Rat → Rat → Nat → Nat → Nat
  | [], _, bi, _ => bi
  | x :: xs, best, bi, i => if best < x then argmaxGo xs x i (i + 1) else argmaxGo xs best bi (i + 1)

def argmax : List Rat → Nat
  | [] => 0
  | x :: xs => argmaxGo xs x 0 1

/-! ### decorators -/

/-- `on_array(default)`: drop NaN; empty → NaN; one value → itself (or `default`) -/
def onArray (dflt : Option Rat) (f : List Rat → Option Rat) (a : List (Option Rat)) : Option Rat :=
  match a.filterMap id with
  | [] => none
  | [x] => some (dflt.getD x)
  | l => f l

/-- `on_weighted_array`, the part before the length-1 shortcut: pairs (value, weight) with the
    NaN values dropped and NaN weights replaced by 0 -/
def cleanPairs (a w : List (Option Rat)) : List (Rat × Rat) :=
  (a.zip w).filterMap (fun p => p.1.map (fun x => (x, p.2.getD 0)))

inductive WOut
  | valueError                -- unequal lengths
  | val (v : Option Rat)
deriving Repr, Inhabited

/-- `on_weighted_array(default)` -/
def onWeighted (dflt : Option Rat) (f : List (Rat × Rat) → Option Rat) (a w : List (Option Rat)) : WOut :=
  if a.length ≠ w.length then .valueError
  else match cleanPairs a w with
    | [] => .val none
    | [p] => .val (some (dflt.getD p.1))
    | l => .val (f l)

/-! ### biweight location -/

/-- one step of `biweight_location` (`biloc_iter`), repaired: the outlier mask is `|u| < 1` and is
    taken before the weights `(1 − u²)²` are formed -/
def bilocIter (c eps : Rat) (a : List Rat) (init : Rat) : Rat :=
  let d := a.map (· - init)
  let mad := median (d.map absR)
  let s := max (c * mad) eps
  let kept := d.filter (fun x => decide (absR (x / s) < 1))
  let wts := kept.map (fun x => sq (1 - sq (x / s)))
  let ws := wts.sum
  if ws = 0 then init else init + ((kept.zip wts).map (fun p => p.1 * p.2)).sum / ws

/-- the unrepaired step: `w ← (1 − u²)²` first, then `mask = w < 1` -/
def bilocIterPrefix (c eps : Rat) (a : List Rat) (init : Rat) : Rat :=
  let d := a.map (· - init)
  let mad := median (d.map absR)
  let s := max (c * mad) eps
  let kept := d.filter (fun x => decide (sq (1 - sq (x / s)) < 1))
  let wts := kept.map (fun x => sq (1 - sq (x / s)))
  let ws := wts.sum
  if ws = 0 then init else init + ((kept.zip wts).map (fun p => p.1 * p.2)).sum / ws

/-- `for _i in range(max_iter): result = step(initial); if |result − initial| <= eps: break;
    initial = result` — `fuel + 1` iterations at most -/
def bilocLoop (step : Rat → Rat) (eps : Rat) : Nat → Rat → Rat
  | 0, init => step init
  | fuel + 1, init =>
    let r := step init
    if absR (r - init) ≤ eps then r else bilocLoop step eps fuel r

/-- body of `biweight_location` on a NaN-free array of length ≥ 2 (`max_iter ≥ 1`) -/
def biweightLocationCore (prefix_ : Bool) (a : List Rat) (initial : Option Rat) : Rat :=
  let step := if prefix_ then bilocIterPrefix BILOC_C BILOC_EPS a else bilocIter BILOC_C BILOC_EPS a
  bilocLoop step BILOC_EPS (BILOC_MAX_ITER - 1) (initial.getD (median a))

/-- `biweight_location(a)` -/
def biweightLocation (a : List (Option Rat)) (initial : Option Rat := none) (prefix_ : Bool := false) : Option Rat :=
  onArray none (fun l => some (biweightLocationCore prefix_ l initial)) a

/-! ### mode -/

/-- `modal_location` on the sorted values and the KDE density at each of them (a parameter):
    the value where the density peaks (first maximum).  Repaired: constant data have no density
    estimate and return their value. -/
def modalCore (sarr dens : List Rat) : Rat := nth sarr (argmax dens)

/-! ### weighted median -/

/-- least `i < n` with `p i`, else `n` (`searchsorted` on a monotone array) -/
def firstIdx (p : Nat → Bool) (n : Nat) : Nat := (List.range n).findIdx p

/-- `weights.cumsum()[i]` -/
def cumAt (w : List Rat) (i : Nat) : Rat := (w.take (i + 1)).sum

/-- `sys.float_info.epsilon` -/
def FLOAT_EPS : Rat := 1 / 4503599627370496

/-- the allowance `weighted_median` grants the cumulative sum for rounding: `midpoint·n·ε` -/
def wmedTol (p : List (Rat × Rat)) : Rat := (p.map (·.2)).sum / 2 * (p.length : Rat) * FLOAT_EPS

/-- body of `weighted_median` once values and weights are permuted by `argsort` (repaired):
    a point holding more than half the weight wins; otherwise the mean of the lower weighted
    median (first prefix weight ≥ midpoint) and the upper one (first prefix weight > midpoint),
    the two comparisons being taken with tolerance `tol` -/
def wmedSorted (tol : Rat) (p : List (Rat × Rat)) : Rat :=
  let a := p.map (·.1)
  let w := p.map (·.2)
  let mid := w.sum / 2
  if w.any (fun x => decide (mid < x)) then nth a (argmax w)
  else
    let lo := firstIdx (fun i => decide (mid - tol ≤ cumAt w i)) w.length
    let hi := min (firstIdx (fun i => decide (mid + tol < cumAt w i)) w.length) (w.length - 1)
    (nth a lo + nth a hi) / 2

/-- the unrepaired body: `searchsorted(midpoint)`, then "midpoint of 2 array values" whenever the
    *previous* cumulative weight is below `midpoint + ε` (which it always is) -/
def wmedSortedPrefix (p : List (Rat × Rat)) : Rat :=
  let a := p.map (·.1)
  let w := p.map (·.2)
  let mid := w.sum / 2
  if w.any (fun x => decide (mid < x)) then nth a (argmax w)
  else
    let idx := firstIdx (fun i => decide (mid ≤ cumAt w i)) w.length
    if idx > 0 ∧ cumAt w (idx - 1) - mid < FLOAT_EPS then (nth a (idx - 1) + nth a idx) / 2
    else nth a idx

/-- permute by the `argsort` answer -/
def permute {α} [Inhabited α] (order : List Nat) (l : List α) : List α := order.map (fun i => l.getD i default)

/-- `order` is a permutation of `0..n-1` that sorts the values up to `slop` (the order was computed
    on doubles; when the exact values are within rounding distance it may differ from theirs) -/
def validOrder (order : List Nat) (vals : List Rat) (slop : Rat) : Bool :=
  order.length == vals.length &&
  (order.mergeSort (fun a b => decide (a ≤ b)) == List.range vals.length) &&
  (let s := order.map (nth vals)
   (s.zip s.tail).all (fun q => decide (q.1 ≤ q.2 + slop)))

def weightedMedianCore (prefix_ : Bool) (order : List Nat) (p : List (Rat × Rat)) : Rat :=
  let sp := permute order p
  if prefix_ then wmedSortedPrefix sp else wmedSorted (wmedTol sp) sp

/-! ### scale estimators -/

inductive ScaleOut
  | direct (v : Rat)          -- the returned value
  | root (radicand : Rat)     -- `np.sqrt(radicand)`
  | undefined                 -- a division by zero: inf / NaN
deriving Repr, Inhabited

/-- `median_absolute_deviation` -/
def madCore (a : List Rat) (scaleToSd : Bool := true) : Rat :=
  let m := median a
  let mad := median (a.map (fun x => absR (x - m)))
  if scaleToSd then mad * MAD_SCALE else mad

/-- `interquartile_range` -/
def iqrCore (a : List Rat) : Rat :=
  quantile a ((IQR_Q_HI : Rat) / 100) - quantile a ((IQR_Q_LO : Rat) / 100)

/-- gaps between consecutive entries -/
def diffs (s : List Rat) : List Rat := (s.zip s.tail).map (fun p => p.2 - p.1)

/-- `gapper_scale` without its factor `√π`: `Σ gapᵢ·i·(n−i) / (n(n−1))` -/
def gapperCore (a : List Rat) : Rat :=
  let s := sortR a
  let n := s.length
  let g := diffs s
  let terms := (g.zip (List.range g.length)).map (fun p => p.1 * (((p.2 + 1) * (n - (p.2 + 1)) : Nat) : Rat))
  terms.sum / ((n * (n - 1) : Nat) : Rat)

/-- `|x_i − x_j|, i < j` in the order the loops of `q_n` produce them -/
def pairDiffs : List Rat → List Rat
  | [] => []
  | x :: xs => xs.map (fun y => absR (x - y)) ++ pairDiffs xs

/-- `Cn` of `q_n` -/
def qnScale (n : Nat) : Rat :=
  if n ≤ QN_N_SMALL then QN_SCALE_SMALL
  else if QN_N_MID_LO < n ∧ n < QN_N_LARGE then QN_SCALE_MID_BASE + (QN_NUM : Rat) / (n : Rat)
  else QN_SCALE_LARGE

/-- `q_n` -/
def qnCore (a : List Rat) : Rat := quantile (pairDiffs a) ((QN_Q : Rat) / 100) / qnScale a.length

/-- `biweight_midvariance` on a NaN-free array of length ≥ 2 -/
def bivarCore (prefix_ : Bool) (a : List Rat) (initial : Option Rat) : ScaleOut :=
  let init := initial.getD (biweightLocationCore prefix_ a none)
  let d := a.map (· - init)
  let mad := median (d.map absR)
  let s := max (BIVAR_C * mad) BIVAR_EPS
  let kept := d.filter (fun x => decide (absR (x / s) < 1))
  if (kept.map (· / s)).sum = 0 then .direct (mad * MAD_SCALE_BIVAR)
  else
    let n : Rat := (kept.length : Rat)
    let num := (kept.map (fun x => sq x * sq (sq (1 - sq (x / s))))).sum
    let den := (kept.map (fun x => (1 - sq (x / s)) * (1 - 5 * sq (x / s)))).sum
    if den = 0 then .undefined else .root (n * num / sq den)

/-- `weighted_mad` body (both medians taken with the orders numpy produced) -/
def weightedMadCore (prefix_ : Bool) (order1 order2 : List Nat) (p : List (Rat × Rat)) (scaleToSd : Bool := true) : Rat :=
  let m := weightedMedianCore prefix_ order1 p
  let dev := p.map (fun q => (absR (q.1 - m), q.2))
  let mad := weightedMedianCore prefix_ order2 dev
  if scaleToSd then mad * MAD_SCALE_WEIGHTED else mad

/-- `np.average(a, weights=w)`; `none` when the weights sum to zero (`ZeroDivisionError`) -/
def wavg (p : List (Rat × Rat)) : Option Rat :=
  let tot := (p.map (·.2)).sum
  if tot = 0 then none else some ((p.map (fun q => q.1 * q.2)).sum / tot)

/-- `weighted_std` body: the variance whose root is returned -/
def weightedVarCore (p : List (Rat × Rat)) : Option Rat :=
  match wavg p with
  | none => none
  | some mean => wavg (p.map (fun q => (sq (q.1 - mean), q.2)))

end CnvVerif.Desc
