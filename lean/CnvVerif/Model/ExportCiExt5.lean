/-
  C20 (round 5): the confidence-limit branch of `export.segments2vcf` (`"ci_left" in segments and "ci_right" in
  segments`): four further columns, two of them shifted by one ROW of the table, printed as `CIPOS=(l,r)` /
  `CIEND=(l,r)` after the seven INFO fields of each emitted record.  The model mirrors the code AS IT IS:
    left_margin  = ci_left - start          right_margin = end - ci_right
    ci_pos_left  = np.r_[0, -right_margin[:-1]]      ci_pos_right = left_margin
    ci_end_left  = right_margin                      ci_end_right = np.r_[left_margin[1:], 0]
  (the shift goes over the rows of the TABLE, whatever their chromosome and whether or not they are emitted; the
  original `start` enters, not the POS with 0 replaced by 1).  Core Lean only.
-/
import CnvVerif.Model.Export
namespace CnvVerif.Export.C20Ci
open CnvVerif CnvVerif.Export

/-- what the branch reads of one row of the segment table -/
structure CiRow where
  s : Int
  e : Int
  ciLeft : Int
  ciRight : Int
deriving Repr, DecidableEq, Inhabited

def leftMargin (r : CiRow) : Int := r.ciLeft - r.s
def rightMargin (r : CiRow) : Int := r.e - r.ciRight

/-- the four numbers printed in `CIPOS=(posL,posR);CIEND=(endL,endR)` -/
structure CiVals where
  posL : Int
  posR : Int
  endL : Int
  endR : Int
deriving Repr, DecidableEq, Inhabited

/-- ROW-wise reading of the four columns: `prev` is the row above (none for the first row of the table) -/
def ciColsAux (prev : Option CiRow) : List CiRow → List CiVals
  | [] => []
  | r :: rest =>
    { posL := match prev with
        | none => 0
        | some p => -(rightMargin p),
      posR := leftMargin r,
      endL := rightMargin r,
      endR := match rest.head? with
        | none => 0
        | some n => leftMargin n } :: ciColsAux (some r) rest

def ciCols (rows : List CiRow) : List CiVals := ciColsAux none rows

/-- numpy's spelling of the two shifts -/
def shiftDown (c : Int) (xs : List Int) : List Int := (c :: xs).dropLast      -- np.r_[c, xs[:-1]]
def shiftUp (xs : List Int) (c : Int) : List Int := xs.drop 1 ++ [c]          -- np.r_[xs[1:], c]

/-- COLUMN-wise reading, as the source computes it -/
def posLCol (rows : List CiRow) : List Int := shiftDown 0 (rows.map (fun r => -(rightMargin r)))
def posRCol (rows : List CiRow) : List Int := rows.map leftMargin
def endLCol (rows : List CiRow) : List Int := rows.map rightMargin
def endRCol (rows : List CiRow) : List Int := shiftUp (rows.map leftMargin) 0

def ciRowsOf (rows : List Seg) (ci : List (Int × Int)) : List CiRow :=
  List.zipWith (fun (r : Seg) (c : Int × Int) => { s := r.s, e := r.e, ciLeft := c.1, ciRight := c.2 }) rows ci

/-- `segments2vcf` on a table with `ci_left` / `ci_right` columns: the records of the plain branch, each with the
    four confidence numbers of ITS row -/
def segments2vcfCi (cfg : Cfg) (rows : List Seg) (ci : List (Int × Int)) : List (VcfRec × CiVals) :=
  let first := firstChrom rows
  (List.zip (rows.map (vcfCols cfg first)) (ciCols (ciRowsOf rows ci))).filterMap
    (fun p => (vcfEmit cfg p.1).map (fun rec => (rec, p.2)))

def infoKeysCi : List String := infoKeys ++ ["CIPOS", "CIEND"]

/-- the text of the two extra INFO fields -/
def ciText (v : CiVals) : List String :=
  ["CIPOS=(" ++ toString v.posL ++ "," ++ toString v.posR ++ ")",
   "CIEND=(" ++ toString v.endL ++ "," ++ toString v.endR ++ ")"]

/-- consecutive rows state the limits of the breakpoint between them consistently: the lower CIPOS limit of the
    lower row is minus the row above's `ci_end_left`, the upper CIEND limit of the upper row is the row below's
    `ci_pos_right` -/
def adjacentOk : List CiVals → Bool
  | a :: b :: rest => (b.posL == -a.endL) && (a.endR == b.posR) && adjacentOk (b :: rest)
  | _ => true

end CnvVerif.Export.C20Ci
