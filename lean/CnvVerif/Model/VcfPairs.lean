/-
  Header-declared tumour/normal pairs of skgenome/tabio/vcfio.py `_parse_pedigrees`, all three conventions with
  the `if / elif / elif` precedence of the source, and `_choose_samples` / `read_vcf` / `load_het_snps` on top of them
  (property C18).  `Model/Vcf.lean` knows PEDIGREE tags only; this file adds

    (a) `##GATKCommandLine=<ID=MuTect,…,CommandLineOptions="… tumor_sample_name=T normal_sample_name=N …">`
        (legacy MuTect): `(options.get("tumor_sample_name"), options["normal_sample_name"])` for every such record;
    (b) `##GATKCommandLine.MuTect2=<…>` with exactly two sample columns: `("TUMOR", "NORMAL")` when the columns are
        `("NORMAL", "TUMOR")`, else the two ids in file order.

  The header as pysam presents it is data: the PEDIGREE records (`"PEDIGREE" in meta` iff there is one), the
  `GATKCommandLine` records (their `ID` item and the whitespace tokens of the `"`-stripped `CommandLineOptions` item,
  each token cut at its first "=": `(key, some value)`, or `(token, none)` for a token without "="), and whether a
  `GATKCommandLine.MuTect2` record exists.  Core Lean only.
-/
import CnvVerif.Model.Vcf
namespace CnvVerif.Vcf
open CnvVerif

/-- a `##GATKCommandLine=<…>` record -/
structure GatkTag where
  id : Option String                                   -- `tag.get("ID")`
  opts : Option (List (String × Option String))        -- `none`: no `CommandLineOptions` item (`KeyError`)
deriving Repr, DecidableEq, Inhabited

/-- the header records `_parse_pedigrees` looks at -/
structure Hdr where
  tags : List PedTag := []          -- `meta["PEDIGREE"]`
  gatk : List GatkTag := []         -- `meta["GATKCommandLine"]`
  mutect2 : Bool := false           -- `"GATKCommandLine.MuTect2" in meta`
deriving Repr, DecidableEq, Inhabited

/-- a declared pair: the tumour may be `None` (MuTect without `tumor_sample_name`), the normal is always a string -/
abbrev DPair := Option String × String

/-- `dict(kv.split("=", 1) for kv in … if "=" in kv)` -/
def optionsDict (toks : List (String × Option String)) : List (String × String) :=
  toks.filterMap (fun kv => kv.2.map (fun v => (kv.1, v)))

/-- lookup in a `dict` built from a sequence of items: the last item of a key wins -/
def dictGet (d : List (String × String)) (k : String) : Option String := d.reverse.lookup k

/-- the `GATKCommandLine` branch: every record with `ID == "MuTect"` yields
    `(options.get("tumor_sample_name"), options["normal_sample_name"])` -/
def mutectPairs : List GatkTag → Except VErr (List DPair)
  | [] => .ok []
  | t :: rest =>
    if t.id == some "MuTect" then
      match t.opts with
      | none => .error .keyError
      | some toks =>
        match dictGet (optionsDict toks) "normal_sample_name" with
        | none => .error .keyError
        | some n => do
          let r ← mutectPairs rest
          pure ((dictGet (optionsDict toks) "tumor_sample_name", n) :: r)
    else mutectPairs rest

/-- the `GATKCommandLine.MuTect2` branch: only with exactly two sample columns -/
def mutect2Pairs : List String → List DPair
  | [a, b] => if a == "NORMAL" && b == "TUMOR" then [(some "TUMOR", "NORMAL")] else [(some a, b)]
  | _ => []

def pedPairs (tags : List PedTag) : Except VErr (List DPair) :=
  match parsePedigrees tags with
  | .ok l => .ok (l.map (fun p => (some p.1, p.2)))
  | .error e => .error e

/-- `list(_parse_pedigrees(vcf_reader))`: `if "PEDIGREE" in meta … elif "GATKCommandLine" in meta … elif
    "GATKCommandLine.MuTect2" in meta …` -/
def headerPairs (samples : List String) (h : Hdr) : Except VErr (List DPair) :=
  if !h.tags.isEmpty then pedPairs h.tags
  else if !h.gatk.isEmpty then mutectPairs h.gatk
  else if h.mutect2 then .ok (mutect2Pairs samples)
  else .ok []

/-- the candidate pairs: the declared ones if there are any, else as without a declaration -/
def candidatePairsH (samples : List String) (dp : List DPair) (nid : Option String) :
    List (Option String × Option String) :=
  if !dp.isEmpty then dp.map (fun p => (p.1, some p.2)) else candidatePairs samples [] nid

/-- `_choose_samples` after the selectors are resolved and the header read (cf. `chooseNames`): the first
    remaining pair, whose tumour is `None` when a MuTect record names no tumour and no `sample_id` is given -/
def chooseNamesH (samples : List String) (dp : List DPair) (sid nid : Option String) :
    Except VErr (Option String × Option String) :=
  if !(selOk samples sid && selOk samples nid) then .error .indexError else
  let pairs0 := candidatePairsH samples dp nid
  let pairs1 := match truthy sid with
    | some s => pairs0.filter (fun p => p.1 == some s)
    | none => pairs0
  if pairs1.isEmpty && (truthy sid).isNone then .error .indexError else
  let pairs := if pairs1.isEmpty then [(sid, (none : Option String))] else pairs1
  if !((pairNames pairs).all (fun nm => samples.count nm == 1)) then .error .indexError else
  match pairs.head? with
  | some p => .ok p
  | none => .error .indexError

/-- `_choose_samples` -/
def chooseSamplesH (samples : List String) (h : Hdr) (sidSel nidSel : Sel) :
    Except VErr (Option String × Option String) := do
  let sid ← resolveSel samples sidSel
  let nid ← resolveSel samples nidSel
  if !(selOk samples sid && selOk samples nid) then throw .indexError
  let dp ← headerPairs samples h
  chooseNamesH samples dp sid nid

/-- `read_vcf` / `tabio.read` once the sample and its normal are chosen (the body of `readVcf`) -/
def readWith (samples : List String) (sid : String) (nid : Option String) (recs : List Rec) (o : ReadOpts) :
    VTable :=
  let si := samples.idxOf sid
  let nidT := truthy nid
  let ni := nidT.map (fun n => samples.idxOf n)
  let rows0 := parseRecords si ni o.skipReject recs
  let rows := depthFilter o.minDepth rows0
  let rows := somaticFilter o.skipSomatic rows
  { paired := nidT.isSome && !(o.skipSomatic && rows0.isEmpty), rows := sortV rows }

/-- `tabio.read(fname, "vcf", …)` on a file with any of the three header conventions.  A chosen tumour `None`
    makes `record.samples[None]` raise `TypeError` at the first record that is not skipped; a file without
    such a record is read to an empty table. -/
def readVcfH (samples : List String) (h : Hdr) (recs : List Rec) (o : ReadOpts) : Except VErr VTable := do
  let (sid, nid) ← chooseSamplesH samples h o.sid o.nid
  match sid with
  | some s => pure (readWith samples s nid recs o)
  | none =>
    if (recs.filter (fun r => !(o.skipReject && rejected r))).isEmpty then pure (readWith samples "" nid recs o)
    else throw .typeError

/-- `cmdutil.load_het_snps` -/
def loadHetSnpsH (samples : List String) (h : Hdr) (recs : List Rec) (o : HetOpts) : Except VErr VTable := do
  let tb ← readVcfH samples h recs
    { sid := o.sid, nid := o.nid, minDepth := o.minDepth, skipReject := false, skipSomatic := true }
  let rows ← retype (effectiveZygFreq o tb) tb.rows
  let rows ← boostStage o.tumorBoost tb.paired (hetStage tb.paired rows)
  pure { paired := tb.paired, rows := rows }

/-! ## the property's wording -/

/-- "header-declared pairs first, else the given tumour and normal ids, else the first sample" (cf. `specPair`).
    A declaration whose first pair names no tumour, read without a tumour id, admits no choice. -/
def specPairH (samples : List String) (dp : List DPair) (s n : Option String) :
    Option (String × Option String) :=
  if dp.isEmpty then specPair samples [] s n
  else match s with
    | some x => match dp.find? (fun p => p.1 == some x) with
      | some p => some (x, some p.2)
      | none => some (x, none)
    | none => match dp.head? with
      | some (some t, o) => some (t, some o)
      | _ => none

end CnvVerif.Vcf
