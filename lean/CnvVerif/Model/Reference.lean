/-
  Model of cnvlib/reference.py with the bias corrections switched off: load_sample_block,
  bias_correct_logr (centring + shift_sex_chroms), summarize_info (Tukey biweight location and
  midvariance per bin over the samples plus one neutral pseudo-sample), combine_probes, and
  do_reference_flat.  The estimators are the exact models of C19 (Model/Descriptives.lean); the
  sample sexes are a parameter (given, or inferred by the real guess_xx).  Core Lean only.
-/
import CnvVerif.Basic
import CnvVerif.Model.Center
import CnvVerif.Model.Descriptives
namespace CnvVerif.Ref
open CnvVerif

/-- one bin of a `*.targetcoverage.cnn` / `*.antitargetcoverage.cnn` file -/
structure CovRow where
  chrom : String
  s : Int
  e : Int
  gene : String
  log2 : Rat
  depth : Rat
deriving Repr, Inhabited, DecidableEq

/-- a coverage file: sample id (`core.fbase` of the file name) and its rows -/
structure Sample where
  name : String
  rows : List CovRow
deriving Repr, Inhabited

structure RefOut where
  chrom : String
  s : Int
  e : Int
  gene : String
  log2 : Rat
  depth : Rat
  spread : Desc.ScaleOut
deriving Repr, Inhabited

inductive RefErr | binsDiffer (file : String) | unequalCounts
deriving Repr, DecidableEq, Inhabited

def toC (r : CovRow) : CBin := { chrom := r.chrom, s := r.s, e := r.e, log2 := r.log2, depth := some r.depth }

/-- `shift_sex_chroms` for one bin: add the flat reference level, then a female sample's Y is set
    to −1 and a male (or unknown-sex) sample's X and Y get +1 -/
def sexAdjust (isXX : Bool) (cls : CClass) (flat v : Rat) : Rat :=
  let w := v + flat
  if isXX then (if cls == .y then -1 else w)
  else (if cls == .x || cls == .y then w + 1 else w)

/-- `bias_correct_logr` with all corrections off: centre (median of chromosome medians over the
    autosomes, null-coverage bins skipped for targets), then shift the sex chromosomes.
    `isXX = sexes.get(sample_id)`: an unknown sample is treated like a male one. -/
def sampleLogr (hapX : Bool) (par : Option String) (skipLow : Bool) (isXX : Option Bool)
    (flat : List Rat) (rows : List CovRow) : List Rat :=
  let first := (rows.head?.map (·.chrom)).getD ""
  let sh := centerShift medianR true skipLow par (rows.map toC)
  (rows.zip flat).map fun (r, f) =>
    sexAdjust (isXX == some true) (classOf first par r.chrom r.s r.e) f (r.log2 + sh)

/-- Python `sorted(filenames, key=core.fbase)` -/
def sortSamples (l : List Sample) : List Sample := l.mergeSort (fun a b => decide (a.name ≤ b.name))

def binKey (r : CovRow) : String × Int × Int × String := (r.chrom, r.s, r.e, r.gene)

/-- transpose a list of equally long rows into columns -/
def columns (n : Nat) (mat : List (List Rat)) : List (List Rat) :=
  (List.range n).map fun j => mat.map (fun row => row.getD j 0)

/-- `biweight_location` of a column through its `on_array` wrapper (no NaN here) -/
def locOf (col : List Rat) : Rat :=
  match col with
  | [] => 0
  | [x] => x
  | _ => Desc.biweightLocationCore false col none

/-- `biweight_midvariance(col, initial=center)` through `on_array(0)` -/
def spreadOf (col : List Rat) (center : Rat) : Desc.ScaleOut :=
  match col with
  | [] => .direct 0
  | [_] => .direct 0
  | _ => Desc.bivarCore false col (some center)

/-- `load_sample_block` + `summarize_info` for one class of bins -/
def refBlock (hapX : Bool) (par : Option String) (skipLow : Bool) (sexes : List (String × Bool))
    (samples : List Sample) : Except RefErr (List RefOut) :=
  match sortSamples samples with
  | [] => .ok []
  | first :: rest =>
    if first.rows.isEmpty then .ok [] else
    match rest.find? (fun s => s.rows.map binKey != first.rows.map binKey) with
    | some bad => .error (.binsDiffer bad.name)
    | none =>
      let flat := expectFlat hapX par (first.rows.map toC)
      let all := first :: rest
      let logr := all.map fun s =>
        sampleLogr hapX par skipLow ((sexes.find? (·.1 == s.name)).map (·.2)) flat s.rows
      let n := first.rows.length
      let lcols := columns n (flat :: logr)          -- pseudo-sample first
      let dcols := columns n (all.map (fun s => s.rows.map (·.depth)))
      .ok (((first.rows.zip lcols).zip dcols).map fun ((r, lc), dc) =>
        let c := locOf lc
        { chrom := r.chrom, s := r.s, e := r.e, gene := r.gene, log2 := c, depth := locOf dc,
          spread := spreadOf lc c })

def outSortLe (a b : RefOut) : Bool :=
  let ka := sorterChrom a.chrom
  let kb := sorterChrom b.chrom
  chromKeyLt ka kb || (ka == kb && (a.s < b.s || (a.s == b.s && a.e ≤ b.e)))

/-- `do_reference` (corrections off, no clustering): targets, optional antitargets, sorted -/
def doReference (hapX : Bool) (par : Option String) (sexes : List (String × Bool))
    (targets : List Sample) (antitargets : Option (List Sample)) : Except RefErr (List RefOut) := do
  match antitargets with
  | some a => if a.length ≠ targets.length && !a.isEmpty then throw .unequalCounts
  | none => pure ()
  let t ← refBlock hapX par true sexes targets
  let a ← match antitargets with
    | some a => if a.isEmpty then pure [] else refBlock hapX par false sexes a
    | none => pure []
  pure ((t ++ a).mergeSort outSortLe)

/-- `do_reference_flat`: 0 on autosomes, −1 on Y, −1 on X only for a male reference; spread 0 -/
def flatReference (hapX : Bool) (par : Option String) (bins : List CovRow) : List (CovRow × Rat) :=
  let sorted := bins.mergeSort (fun a b =>
    let ka := sorterChrom a.chrom
    let kb := sorterChrom b.chrom
    chromKeyLt ka kb || (ka == kb && (a.s < b.s || (a.s == b.s && a.e ≤ b.e))))
  sorted.zip (expectFlat hapX par (sorted.map toC))

/-- `calculate_gc_lo`: gc = (G+C, either case) / (A+C+G+T, either case); rmask = lowercase a/c/g/t over
    the same total of unambiguous bases; (0,0) for an empty or all-ambiguous sequence -/
def gcRmask (seq : List Char) : Rat × Rat :=
  let cnt (p : Char → Bool) : Nat := seq.countP p
  let gc := cnt (fun c => c == 'G' || c == 'C' || c == 'g' || c == 'c')
  let at_ := cnt (fun c => c == 'A' || c == 'T' || c == 'a' || c == 't')
  let lo := cnt (fun c => c == 'a' || c == 'c' || c == 'g' || c == 't')
  let tot := gc + at_
  let fgc : Rat := if tot = 0 then 0 else (gc : Rat) / (tot : Rat)
  let frm : Rat := if tot = 0 then 0 else (lo : Rat) / (tot : Rat)
  (fgc, frm)

end CnvVerif.Ref
