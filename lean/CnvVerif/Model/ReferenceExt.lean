/-
  Extension of Model/Reference.lean (round 4): the bias corrections of `bias_correct_logr` INSIDE the model.
  After centring and the sex shift every sample goes, unless most of its bins have no coverage, through
  `fix.center_by_window` (C04's model `centerByWindow`: seeded shuffle, stable sort by the bias key, rolling
  median subtracted, genomic re-sort) for GC, then RepeatMasker, then the edge ("density") bias -- each only when
  its key column exists for the block and its flag is on.  Also: the decision of `do_reference` about the
  sample sexes (given for all / inferred per file, antitargets preferred), and the name-order independence helpers.
  Parameters supplied by the harness as in C04: numpy's seeded permutation, the rolling-median half window
  (`_width2wing(0.1, n)`) and the key columns (gc / rmask fractions of the first file's bins, edge-bias keys).
  Core Lean only.
-/
import CnvVerif.Model.Reference
import CnvVerif.Model.Fix
namespace CnvVerif.Ref
open CnvVerif

/-- what `load_sample_block` knows about one block of bins (targets or antitargets) when corrections are on:
    the key columns are positional (row i of the first file), `none` = that correction does not run
    (flag off, or no such column: no FASTA and no gc column in the first file; rmask: antitargets only;
    edge: targets only) -/
structure CorrCfg where
  gc : Option (List Rat)
  rmask : Option (List Rat)
  edge : Option (List Rat)
  perm : List Nat
  wing : Nat
deriving Repr, Inhabited

def CorrCfg.off : CorrCfg := { gc := none, rmask := none, edge := none, perm := [], wing := 1 }

def toS (r : CovRow) (v : Rat) : SRow :=
  { chrom := r.chrom, s := r.s, e := r.e, gene := r.gene, log2 := v, depth := r.depth }

/-- one optional `center_by_window` step -/
def corrStep (cfg : CorrCfg) (keys : Option (List Rat)) (t : List SRow) : List SRow :=
  match keys with
  | some k => centerByWindow cfg.perm cfg.wing t k
  | none => t

/-- the second half of `bias_correct_logr`: skipped when at most half of the bins are above
    `NULL_LOG2_COVERAGE - MIN_REF_COVERAGE`; otherwise GC, RepeatMasker, edge, in this order -/
def correctLogr (cfg : CorrCfg) (rows : List CovRow) (logr : List Rat) : List Rat :=
  let nOk := (logr.filter (fun v => decide (v > Generated.NULL_LOG2_COVERAGE - Generated.MIN_REF_COVERAGE))).length
  if nOk ≤ logr.length / 2 then logr else
  let t0 := (rows.zip logr).map (fun p => toS p.1 p.2)
  ((corrStep cfg cfg.edge (corrStep cfg cfg.rmask (corrStep cfg cfg.gc t0))).map (·.log2))

/-- `bias_correct_logr`: centre, shift the sex chromosomes, correct -/
def sampleLogrOn (cfg : CorrCfg) (hapX : Bool) (par : Option String) (skipLow : Bool) (isXX : Option Bool)
    (flat : List Rat) (rows : List CovRow) : List Rat :=
  correctLogr cfg rows (sampleLogr hapX par skipLow isXX flat rows)

/-- `load_sample_block` + `summarize_info` for one class of bins, corrections as configured -/
def refBlockOn (cfg : CorrCfg) (hapX : Bool) (par : Option String) (skipLow : Bool) (sexes : List (String × Bool))
    (samples : List Sample) : Except RefErr (List RefOut) :=
  match sortSamples samples with
  | [] => .ok []
  | first :: rest =>
    if first.rows.isEmpty then .ok [] else
    match rest.find? (fun s => s.rows.map binKey != first.rows.map binKey) with
    | some bad => .error (.binsDiffer bad.name)
    | none =>
      let flat := expectFlat hapX par (first.rows.map toC)
      let all := first :: rest
      let logr := all.map fun s =>
        sampleLogrOn cfg hapX par skipLow ((sexes.find? (·.1 == s.name)).map (·.2)) flat s.rows
      let n := first.rows.length
      let lcols := columns n (flat :: logr)          -- pseudo-sample first (never corrected)
      let dcols := columns n (all.map (fun s => s.rows.map (·.depth)))
      .ok (((first.rows.zip lcols).zip dcols).map fun ((r, lc), dc) =>
        let c := locOf lc
        { chrom := r.chrom, s := r.s, e := r.e, gene := r.gene, log2 := c, depth := locOf dc,
          spread := spreadOf lc c })

/-- `do_reference` with corrections (no clustering): targets with `cfgT` (GC, edge), antitargets with `cfgA`
    (GC, RepeatMasker) -/
def doReferenceOn (cfgT cfgA : CorrCfg) (hapX : Bool) (par : Option String) (sexes : List (String × Bool))
    (targets : List Sample) (antitargets : Option (List Sample)) : Except RefErr (List RefOut) := do
  match antitargets with
  | some a => if a.length ≠ targets.length && !a.isEmpty then throw .unequalCounts
  | none => pure ()
  let t ← refBlockOn cfgT hapX par true sexes targets
  let a ← match antitargets with
    | some a => if a.isEmpty then pure [] else refBlockOn cfgA hapX par false sexes a
    | none => pure []
  pure ((t ++ a).mergeSort outSortLe)

/-! ### which corrections run on which block (`combine_probes` / `load_sample_block`) -/

/-- what the harness hands over for one block: the candidate key columns of the FIRST file's bins (`none` = not
    available: no FASTA given / no gc column in the file) and numpy's parameters -/
structure BlockKeys where
  fastaGc : Option (List Rat)
  fastaRm : Option (List Rat)
  fileGc : Option (List Rat)
  edge : List Rat
  perm : List Nat
  wing : Nat
deriving Repr, Inhabited

/-- the decision table: `combine_probes` passes `(fix_gc, fix_edge, False)` for the targets and
    `(fix_gc, False, fix_rmask)` for the antitargets; `load_sample_block` takes gc / rmask from the FASTA when one
    is given and one of the two flags of the block is on (gc only under `fix_gc`, rmask only under `fix_rmask`),
    otherwise reuses a gc column of the first file under `fix_gc`; `bias_correct_logr` runs a correction when its
    column is there and its flag is on -/
def blockCfg (isTarget doGc doEdge doRmask : Bool) (k : BlockKeys) : CorrCfg :=
  let fixEdge := isTarget && doEdge
  let fixRmask := !isTarget && doRmask
  let haveFasta := k.fastaGc.isSome || k.fastaRm.isSome
  let gcCol : Option (List Rat) :=
    if haveFasta && (fixRmask || doGc) then (if doGc then k.fastaGc else none)
    else if doGc then k.fileGc else none
  let rmCol : Option (List Rat) :=
    if haveFasta && (fixRmask || doGc) then (if fixRmask then k.fastaRm else none) else none
  { gc := if doGc then gcCol else none,
    rmask := if fixRmask then rmCol else none,
    edge := if fixEdge then some k.edge else none,
    perm := k.perm, wing := k.wing }

/-- `do_reference(.., do_gc, do_edge, do_rmask)` -/
def doReferenceOpts (doGc doEdge doRmask : Bool) (kT kA : BlockKeys) (hapX : Bool) (par : Option String)
    (sexes : List (String × Bool)) (targets : List Sample) (antitargets : Option (List Sample)) :
    Except RefErr (List RefOut) :=
  doReferenceOn (blockCfg true doGc doEdge doRmask kT) (blockCfg false doGc doEdge doRmask kA) hapX par sexes
    targets antitargets

/-! ### the same, driven by what the translator reads off the source (Generated/RefConsts.lean) -/

/-- the key column a step of `bias_correct_logr` refers to -/
def stepKey (cfg : CorrCfg) : String → Option (List Rat)
  | "gc" => cfg.gc
  | "rmask" => cfg.rmask
  | "edge" => cfg.edge
  | _ => none

/-- `correctLogr` with the order of the steps, the coverage threshold and the divisor of the skip test as data -/
def correctLogrBy (order : List String) (thr : Rat) (div : Nat) (cfg : CorrCfg) (rows : List CovRow)
    (logr : List Rat) : List Rat :=
  let nOk := (logr.filter (fun v => decide (v > thr))).length
  if nOk ≤ logr.length / div then logr else
  let t0 := (rows.zip logr).map (fun p => toS p.1 p.2)
  (order.foldl (fun t nm => corrStep cfg (stepKey cfg nm) t) t0).map (·.log2)

/-- the value of a flag argument of `load_sample_block` as written in `combine_probes` -/
def flagOf (doGc doEdge doRmask : Bool) : String → Bool
  | "True" => true
  | "fix_gc" => doGc
  | "fix_edge" => doEdge
  | "fix_rmask" => doRmask
  | _ => false

/-- `blockCfg` with the block's flag arguments (skip_low, fix_gc, fix_edge, fix_rmask) as data -/
def blockCfgBy (flags : List String) (doGc doEdge doRmask : Bool) (k : BlockKeys) : CorrCfg :=
  let fixGc := flagOf doGc doEdge doRmask (flags.getD 1 "")
  let fixEdge := flagOf doGc doEdge doRmask (flags.getD 2 "")
  let fixRmask := flagOf doGc doEdge doRmask (flags.getD 3 "")
  let haveFasta := k.fastaGc.isSome || k.fastaRm.isSome
  let gcCol : Option (List Rat) :=
    if haveFasta && (fixRmask || fixGc) then (if fixGc then k.fastaGc else none)
    else if fixGc then k.fileGc else none
  let rmCol : Option (List Rat) :=
    if haveFasta && (fixRmask || fixGc) then (if fixRmask then k.fastaRm else none) else none
  { gc := if fixGc then gcCol else none,
    rmask := if fixRmask then rmCol else none,
    edge := if fixEdge then some k.edge else none,
    perm := k.perm, wing := k.wing }

/-! ### which sex each sample is taken to have (`do_reference`) -/

/-- `do_reference`'s `sexes` dictionary.  `given = some f`: every TARGET file's sample id is mapped to `f`.
    `given = none`: the sexes inferred from the target files (`infer_sexes`: one entry per file where `guess_xx`
    gave an answer), overridden / completed by those inferred from the antitarget files.
    `tInf` / `aInf`: per file, in the order given, the sample id and `guess_xx`'s answer (`none` = the file is
    empty or has no answer).  The result is the dictionary as an association list, later entries for the same id
    having replaced earlier ones. -/
def dictSet (d : List (String × Bool)) (k : String) (v : Bool) : List (String × Bool) :=
  if d.any (·.1 == k) then d.map (fun p => if p.1 == k then (k, v) else p) else d ++ [(k, v)]

def inferSexes (inf : List (String × Option Bool)) : List (String × Bool) :=
  inf.foldl (fun d p => match p.2 with | some b => dictSet d p.1 b | none => d) []

def resolveSexes (given : Option Bool) (targetIds : List String) (tInf aInf : List (String × Option Bool)) :
    List (String × Bool) :=
  match given with
  | some f => targetIds.foldl (fun d k => dictSet d k f) []
  | none => (inferSexes aInf).foldl (fun d p => dictSet d p.1 p.2) (inferSexes tInf)

end CnvVerif.Ref
