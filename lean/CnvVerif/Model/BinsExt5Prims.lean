/-
  C12 (round 5): the Python primitives that `harness/shortentrans.py` reads the bodies of
  `cnvlib/target.py:shorten_labels` and `shortest_name` into (Generated/ExprsShorten.lean).  One line each; part of
  the trusted reading, like `Model/PyPrims.lean`.  A Python `set` of names is a duplicate-free `List String` in
  order of first appearance (its iteration order is not defined: see `pyMinsByLen`).
-/
import CnvVerif.Model.Access
namespace CnvVerif.C12N

/-- `s.rstrip()` -/
def pyRstrip (s : String) : String := String.ofList (rstripChars s.toList)

def splitGo (sep : Char) (cur : List Char) : List Char → List (List Char)
  | [] => [cur.reverse]
  | c :: cs => if c = sep then cur.reverse :: splitGo sep [] cs else splitGo sep (c :: cur) cs

/-- `s.split(sep)` for a one-character separator -/
def pySplit (sep : Char) (s : String) : List String := (splitGo sep [] s.toList).map String.ofList

/-- `set(xs)` -/
def pySet (xs : List String) : List String := xs.eraseDups

/-- `a.intersection(b)` -/
def pyInter (a b : List String) : List String := a.filter (fun n => b.contains n)

/-- `len(s)` -/
def pyLen (s : String) : Nat := s.toList.length

/-- `sep in s[1:-1]` -/
def pyInnerContains (sep : Char) (s : String) : Bool := ((s.toList.drop 1).dropLast).contains sep

/-- `s.split(sep)[-1]`: the text after the last `sep` (all of `s` when there is none) -/
def pySplitLast (sep : Char) (s : String) : String :=
  String.ofList ((s.toList.reverse.takeWhile (· != sep)).reverse)

/-- `min(S, key=len)` over a set `S`: which of several shortest elements Python returns depends on the set's
    iteration order, so the reading is the list of ALL elements of minimal length -/
def pyMinsByLen (f : List String) : List String :=
  let m := (f.map String.length).foldl min (f.headD "").length
  f.filter (fun n => n.length == m)

end CnvVerif.C12N
