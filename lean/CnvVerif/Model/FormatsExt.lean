/-
  C08 (extension) — the SPELLING of `float_format='%.6g'` and the lines a written table becomes when it
  has float columns.

  `Model/Formats.lean` stops at the value a float cell is rounded to (`sixg`) and leaves the characters
  printed for it outside the model.  Here the characters are modelled too: `fmtG p q` is C's / Python's
  `'%.{p}g' % q` for a finite `q` (exact rational = the double's exact value): the `p` significant digits
  after round-half-even on the exact value, fixed notation when the decimal exponent `X` satisfies
  `-4 ≤ X < p`, otherwise `d.ddde±XX` with at least two exponent digits; trailing zeros (and a bare point)
  removed.  `Lemmas/FormatsSpell.lean` proves that the tab reader's number parser (`parseDec`) reads these
  characters back to exactly `sixg q`, and that printing the value read back gives the same characters.
  Core Lean only (the JSON driver imports this file).
-/
import CnvVerif.Model.Formats
namespace CnvVerif.Fmt
open CnvVerif CnvVerif.Generated

/-- remove trailing `'0'` characters -/
def stripZ (l : List Char) : List Char := (l.reverse.dropWhile (· == '0')).reverse

/-- the `p` significant digits `m` (`10^(p-1) ≤ m < 10^p`) and the decimal exponent `X` of `a > 0`
    after rounding: the printed value is `m · 10^(X-(p-1))`.  A mantissa that rounds up to `10^p`
    moves to the next decade. -/
def sigParts (p : Nat) (a : Rat) : Nat × Int :=
  let X := dexp a
  let m := (roundHE (a / pow10 (X - ((p : Int) - 1)))).toNat
  if m == 10 ^ p then (10 ^ (p - 1), X + 1) else (m, X)

/-- `.ddd` — nothing at all when no digit is left after the point -/
def dotPart (fp : List Char) : List Char := if fp.isEmpty then [] else '.' :: fp

/-- exponent digits: at least two -/
def expDigits (n : Nat) : List Char :=
  let d := Nat.toDigits 10 n
  if d.length < 2 then '0' :: d else d

/-- `%.{p}g` of a positive number -/
def spellPos (p : Nat) (a : Rat) : List Char :=
  let mx := sigParts p a
  let ds := Nat.toDigits 10 mx.1
  let X := mx.2
  if X < -4 ∨ (p : Int) ≤ X then
    ds.take 1 ++ dotPart (stripZ (ds.drop 1)) ++ ('e' :: (if X < 0 then '-' else '+') :: expDigits X.natAbs)
  else if X < 0 then
    ['0'] ++ dotPart (List.replicate ((-X).toNat - 1) '0' ++ stripZ ds) ++ []
  else
    ds.take (X.toNat + 1) ++ dotPart (stripZ (ds.drop (X.toNat + 1))) ++ []

/-- `'%.{p}g' % q` -/
def fmtGL (p : Nat) (q : Rat) : List Char :=
  if q == 0 then ['0'] else if q < 0 then '-' :: spellPos p (-q) else spellPos p q

def fmtG (p : Nat) (q : Rat) : String := String.ofList (fmtGL p q)

/-- the characters `tabio.write` prints for a float cell (`float_format='%.6g'`) -/
def fmt6g (q : Rat) : String := fmtG SIG_DIGITS q

/-- the field a cell of a written frame becomes in the file, floats included (`na_rep=''`) -/
def renderCellF : Cell → String
  | .int i => toString i
  | .str s => s
  | .na => ""
  | .flt q => fmt6g q

/-- the lines of fields a written frame becomes (float cells spelled by `%.6g`).  `writeTab` & co. have
    already rounded the float cells (`cellOut`); `fmt6g` of a rounded value spells the same characters
    (`fmt6g_sixg`). -/
def renderLinesF (ls : List (List Cell)) : List Line := ls.map (fun l => l.map renderCellF)

/-- the numeric value of a cell (integer and float columns) -/
def cellVal : Cell → Option Rat
  | .int i => some (i : Rat)
  | .flt q => some q
  | _ => none

end CnvVerif.Fmt
