/-
  Model of cnvlib/segmetrics.py (do_segmetrics, make_pi_func, calc_intervals,
  confidence_interval_bootstrap, _smooth_samples_by_weight), cnvlib/bintest.py (do_bintest, z_prob,
  p_adjust_bh), CopyNumArray.residuals / drop_low_coverage (cnvlib/cnary.py) and the estimators of
  cnvlib/descriptives.py that segmetrics calls (on_array wrapper, median_absolute_deviation,
  mean_squared_error, interquartile_range, biweight_location, biweight_midvariance) together with
  numpy mean / median / std / percentile(linear) and scipy sem / ttest_1samp up to the t statistic.

  Exact rationals throughout.  Square roots are never taken: a statistic that is a square root is
  returned as `Val.sqrtOf v`.  Third-party numerics are parameters: the Student-t tail (only `t²` and
  the degrees of freedom are computed here), the normal tail `tail : z² ↦ 2Φ(−|z|)`, the bootstrap
  index draws and the Gaussian noise of the smoothed bootstrap.
  Core Lean only.
-/
import CnvVerif.Basic
import CnvVerif.Model.Ranges
import CnvVerif.Generated.Consts
import CnvVerif.Generated.StatsConsts
namespace CnvVerif.Stats
open CnvVerif

/-! ## numpy / scipy primitives on lists of exact numbers -/

def rabs (q : Rat) : Rat := if q < 0 then -q else q

/-- `np.sort` -/
def sortR (l : List Rat) : List Rat := l.mergeSort (fun a b => decide (a ≤ b))

/-- `np.mean` (0 on the empty list; callers guard) -/
def meanR (l : List Rat) : Rat := l.sum / (l.length : Rat)

/-- middle of a sorted list: the middle element, or the mean of the two middle elements -/
def medianSorted (s : List Rat) : Rat :=
  let n := s.length
  if n % 2 = 1 then s.getD (n / 2) 0 else (s.getD (n / 2 - 1) 0 + s.getD (n / 2) 0) / 2

/-- `np.median` -/
def median (l : List Rat) : Rat := medianSorted (sortR l)

/-- `np.percentile(a, q)` (default "linear" method) on an already sorted list:
    virtual index `q/100·(n−1)`, linear interpolation between the neighbours. -/
def percentileSorted (s : List Rat) (q : Rat) : Rat :=
  let n := s.length
  let vi : Rat := q / 100 * ((n : Rat) - 1)
  let lo : Nat := vi.floor.toNat
  let g : Rat := vi - (lo : Rat)
  let a := s.getD lo 0
  let b := s.getD (min (lo + 1) (n - 1)) 0
  a + (b - a) * g

def percentile (l : List Rat) (q : Rat) : Rat := percentileSorted (sortR l) q

/-- sum of squared deviations from the mean -/
def sumSqDev (l : List Rat) : Rat :=
  let m := meanR l
  (l.map (fun x => (x - m) * (x - m))).sum

/-- population variance (`np.std(a)**2`, ddof 0) -/
def varP (l : List Rat) : Rat := sumSqDev l / (l.length : Rat)
/-- sample variance (ddof 1) -/
def var1 (l : List Rat) : Rat := sumSqDev l / ((l.length : Rat) - 1)
/-- mean of squares (error from zero) -/
def meanSq (l : List Rat) : Rat := meanR (l.map (fun x => x * x))

/-- a statistic's value -/
inductive Val
  | nan
  | num (v : Rat)
  | sqrtOf (v : Rat)                    -- the statistic is `√v`
  | tTail (df : Nat) (tsq : Rat)        -- two-sided Student-t tail probability of `t² = tsq` with `df`
deriving Repr, DecidableEq, Inhabited

/-- value, the other branch's value when an exact-zero test is within rounding distance, and the
    distance to the nearest discontinuity met on the way -/
structure StatOut where
  val : Val
  alt : Option Val := none
  slack : Rat := 1
deriving Repr, Inhabited

/-! ## cnvlib/descriptives.py -/

/-- `@on_array(default)`: empty → NaN, one element → `default` (or the element itself) -/
def onArray (default : Option Rat) (f : List Rat → StatOut) (a : List Rat) : StatOut :=
  match a with
  | [] => { val := .nan }
  | [x] => { val := .num (default.getD x) }
  | _ => f a

/-- `median_absolute_deviation(a)` body, `scale_to_sd=True` -/
def madBody (a : List Rat) : Rat :=
  let m := median a
  median (a.map (fun x => rabs (x - m))) * Generated.MAD_SCALE

/-- `mean_squared_error(a)` body (repaired code: the error is taken from zero, as its docstring
    says; before fix M `initial=None` became `a.mean()` and this was the variance) -/
def mseBody (a : List Rat) : Rat := meanSq a

/-- `mean_squared_error` before fix M: `initial = a.mean(); if initial: a = a - initial` -/
def mseBodyPrefix (a : List Rat) : Rat := varP a

/-- `interquartile_range(a)` body -/
def iqrBody (a : List Rat) : Rat :=
  percentile a (Generated.IQR_PERCENTILES.getD 0 0) - percentile a (Generated.IQR_PERCENTILES.getD 1 0)

/-- one pass of `biloc_iter(a, initial)`; second component: distance to a discontinuity (the
    outlier mask, `weightsum == 0`).  The mask follows the source: `abs(u) < 1` taken before the
    weights are formed (repaired code, fix O) or `w < 1` on the transformed weights (as originally
    coded), see `Generated.BILOC_MASK_ON_ABS_U`. -/
def bilocIter (a : List Rat) (initial : Rat) : Rat × Rat :=
  let d := a.map (· - initial)
  let mad := median (d.map rabs)
  let den := max (Generated.BILOC_C * mad) Generated.BILOC_EPSILON
  let u := d.map (· / den)
  let w := u.map (fun x => (1 - x * x) * (1 - x * x))
  let keep : List Bool :=
    if Generated.BILOC_MASK_ON_ABS_U then u.map (fun x => decide (rabs x < 1))
    else w.map (fun x => decide (x < 1))
  let kept := (((d.zip w).zip keep).filter (·.2)).map (·.1)
  let wsum := (kept.map (·.2)).sum
  let sMask :=
    if Generated.BILOC_MASK_ON_ABS_U then u.foldl (fun s x => min s (rabs (rabs x - 1))) 1
    else (w.filter (· ≠ 1)).foldl (fun s x => min s (rabs (x - 1))) 1
  if wsum == 0 then (initial, if kept.isEmpty then sMask else 0)
  else (initial + (kept.map (fun p => p.1 * p.2)).sum / wsum, min sMask wsum)

/-- the `for _i in range(max_iter)` loop of `biweight_location` -/
def bilocLoop (a : List Rat) : Nat → Rat → Rat → Rat × Rat
  | 0, initial, s => (initial, s)
  | k + 1, initial, s =>
    let (r, s1) := bilocIter a initial
    let gap := rabs (r - initial)
    let s2 := min (min s s1) (rabs (gap - Generated.BILOC_EPSILON))
    if gap ≤ Generated.BILOC_EPSILON || k == 0 then (r, s2) else bilocLoop a k r s2

/-- `biweight_location(a)` for `len(a) ≥ 2` with its default arguments -/
def bilocBody (a : List Rat) : Rat × Rat :=
  bilocLoop a Generated.BILOC_MAX_ITER (median a) 1

/-- `biweight_midvariance(a)` body with its default arguments -/
def bivarBody (a : List Rat) : StatOut :=
  let (initial, s0) := bilocBody a
  let d := a.map (· - initial)
  let mad := median (d.map rabs)
  let den := max (Generated.BIVAR_C * mad) Generated.BIVAR_EPSILON
  let w := d.map (· / den)
  let kept := (d.zip w).filter (fun p => rabs p.2 < 1)
  let sMask := w.foldl (fun s x => min s (rabs (rabs x - 1))) 1
  let wsum := (kept.map (·.2)).sum
  let fallback : Val := .num (mad * Generated.BIVAR_MAD_SCALE)
  let n : Rat := (kept.length : Rat)
  let num := n * (kept.map (fun p => let w2 := p.2 * p.2; p.1 * p.1 * ((1 - w2) * (1 - w2) * (1 - w2) * (1 - w2)))).sum
  let dsum := (kept.map (fun p => let w2 := p.2 * p.2; (1 - w2) * (1 - 5 * w2))).sum
  let main : Val := if dsum == 0 then .nan else .sqrtOf (num / (dsum * dsum))
  let s := min (min s0 sMask) (if dsum == 0 then 0 else rabs dsum)
  let tiny : Bool := rabs wsum < 1 / 1000000000
  if wsum == 0 then { val := fallback, alt := some main, slack := s }
  else { val := main, alt := if tiny then some fallback else none, slack := s }

/-! ## the statistics table of `do_segmetrics` (`stat_funcs`) -/

def statMean (a : List Rat) : StatOut := if a.isEmpty then { val := .nan } else { val := .num (meanR a) }
def statMedian (a : List Rat) : StatOut := if a.isEmpty then { val := .nan } else { val := .num (median a) }

/-- `stats.ttest_1samp(a, 0.0)[1]` up to the t statistic: `t² = mean²·n / var1` -/
def statTtest (a : List Rat) : StatOut :=
  if a.length < 2 then { val := .nan }
  else
    let m := meanR a
    let v := var1 a
    if v == 0 then (if m == 0 then { val := .nan } else { val := .num 0 })
    else { val := .tTail (a.length - 1) (m * m * (a.length : Rat) / v) }

def statStdev (a : List Rat) : StatOut := if a.isEmpty then { val := .nan } else { val := .sqrtOf (varP a) }
def statMad : List Rat → StatOut := onArray (some 0) (fun a => { val := .num (madBody a) })
def statMse : List Rat → StatOut := onArray (some 0) (fun a => { val := .num (mseBody a) })
def statMsePrefix : List Rat → StatOut := onArray (some 0) (fun a => { val := .num (mseBodyPrefix a) })
def statIqr : List Rat → StatOut := onArray (some 0) (fun a => { val := .num (iqrBody a) })
def statBivar : List Rat → StatOut := onArray (some 0) bivarBody
/-- `scipy.stats.sem` (ddof 1): `√(var1 / n)` -/
def statSem (a : List Rat) : StatOut :=
  if a.length < 2 then { val := .nan } else { val := .sqrtOf (var1 a / (a.length : Rat)) }

def locationStat (name : String) : Option (List Rat → StatOut) :=
  match name with
  | "mean" => some statMean
  | "median" => some statMedian
  | "p_ttest" => some statTtest
  | _ => none

def spreadStat (name : String) : Option (List Rat → StatOut) :=
  match name with
  | "stdev" => some statStdev
  | "mad" => some statMad
  | "mse" => some statMse
  | "iqr" => some statIqr
  | "bivar" => some statBivar
  | "sem" => some statSem
  | _ => none

/-! ## bins and segments -/

/-- a bin of the `.cnr` table.  `row.gene` carries the **index label** of the row (unique), so that a
    selection returned by `iterSlices` (rows standing for labels) picks out bins by label. -/
structure Bin where
  row : Row
  gene : String
  log2 : Rat
  weight : Rat
  depth : Option Rat := none
deriving Repr, DecidableEq, Inhabited

structure Seg where
  row : Row
  log2 : Rat
deriving Repr, DecidableEq, Inhabited

/-- `CopyNumArray.drop_low_coverage`: drops `log2 < NULL_LOG2_COVERAGE − MIN_REF_COVERAGE` and, when
    there is a depth column, `depth == 0` -/
def dropLow (bins : List Bin) : List Bin :=
  let minCvg := Generated.NULL_LOG2_COVERAGE - Generated.MIN_REF_COVERAGE
  bins.filter (fun b => !(decide (b.log2 < minCvg) || b.depth == some 0))

/-- `Series[labels]`: the bins whose label is in the selection, in table order -/
def pick (bins : List Bin) (sel : Table) : List Bin := bins.filter (fun b => sel.contains b.row)

def modeOfString (s : String) : Mode := if s == "inner" then .inner else if s == "trim" then .trim else .outer

/-- the mode `do_segmetrics` passes to `iter_ranges_of` (read from the source) -/
def segmetricsMode : Mode := modeOfString (Generated.SEGMETRICS_RANGE_MODES.headD "outer")

/-- `list(cnarr.iter_ranges_of(segarr, "log2", mode, True))`: one group of bins per segment, **in the
    order `iter_slices` yields them** (segments grouped by chromosome in order of first appearance) -/
def segBins (bins : List Bin) (segs : List Seg) (mode : Mode) : List (List Bin) :=
  (iterSlices (bins.map (·.row)) (segs.map (·.row)) mode true).map (pick bins)

/-! ## intervals -/

/-- `np.average(val, weights=wt)` -/
def wavg (v w : List Rat) : Rat := ((v.zip w).map (fun p => p.1 * p.2)).sum / w.sum

/-- one bootstrap replicate: the drawn positions and (smoothed bootstrap only) the additive noise
    `bw·√(1−w)·randn` already evaluated by the harness -/
structure BootRow where
  idx : List Nat
  noise : List Rat
deriving Repr, Inhabited

/-- number of replicates actually used: `if bootstraps <= 2/alpha: bootstraps = ceil(2/alpha)`.
    `q` is the double `2 / alpha`. -/
def bootCount (bootstraps : Nat) (q : Rat) : Nat :=
  if (bootstraps : Rat) ≤ q then q.ceil.toNat else bootstraps

/-- replicate mean: `np.average(np.take(values, idx) + noise, weights=np.take(weights, idx))` -/
def replicateMean (vals wts : List Rat) (r : BootRow) : Rat :=
  let v := (r.idx.zip (r.noise ++ List.replicate r.idx.length 0)).map (fun p => vals.getD p.1 0 + p.2)
  let w := r.idx.map (fun i => wts.getD i 0)
  wavg v w

/-- `confidence_interval_bootstrap(values, weights, alpha, bootstraps, smoothed)` for `len ≥ 1`,
    given the draws -/
def ciBoot (vals wts : List Rat) (alpha : Rat) (boot : List BootRow) : Rat × Rat :=
  if vals.length < 2 then (vals.getD 0 0, vals.getD 0 0)
  else
    let dist := boot.map (replicateMean vals wts)
    (percentile dist (100 * (alpha / 2)), percentile dist (100 * (1 - alpha / 2)))

/-- `make_pi_func(alpha)` -/
def piFunc (vals : List Rat) (alpha : Rat) : Rat × Rat :=
  (percentile vals (100 * alpha / 2), percentile vals (100 * (1 - alpha / 2)))

/-! ## do_segmetrics -/

structure Cfg where
  loc : List String
  spread : List String
  ci : Bool
  pi : Bool
  alpha : Rat
  skipLow : Bool
deriving Repr, Inhabited

/-- the new columns of one output row -/
structure SegStats where
  seg : Seg
  nbins : Nat
  stats : List (String × StatOut)
  ci : Option (Rat × Rat)        -- `none` = NaN (no bins) or not requested
  pi : Option (Rat × Rat)
deriving Repr, Inhabited

/-- statistics of one segment given its bins -/
def segRow (cfg : Cfg) (sg : Seg) (bs : List Bin) (boot : List BootRow) : SegStats :=
  let lg := bs.map (·.log2)
  let dev := lg.map (· - sg.log2)
  let wt := bs.map (·.weight)
  { seg := sg
    nbins := bs.length
    stats :=
      cfg.loc.filterMap (fun nm => (locationStat nm).map (fun f => (nm, f lg))) ++
      cfg.spread.filterMap (fun nm => (spreadStat nm).map (fun f => (nm, f dev)))
    ci := if cfg.ci && !bs.isEmpty then some (ciBoot lg wt cfg.alpha boot) else none
    pi := if cfg.pi && !bs.isEmpty then some (piFunc lg cfg.alpha) else none }

/-- `do_segmetrics(cnarr, segarr, location_stats, spread_stats, interval_stats, alpha, bootstraps,
    smoothed, skip_low)`; `boots` = the bootstrap draws per output position.  The groups of bins are
    attached to the segments **positionally**, as `np.fromiter(map(func, bins_log2s), …)` does. -/
def doSegmetrics (cfg : Cfg) (bins : List Bin) (segs : List Seg) (boots : List (List BootRow)) :
    List SegStats :=
  let bins' := if cfg.skipLow then dropLow bins else bins
  let groups := segBins bins' segs segmetricsMode
  (segs.zip (groups.zip (boots ++ List.replicate segs.length []))).map
    (fun (sg, bs, boot) => segRow cfg sg bs boot)

/-! ## bintest -/

/-- position of `i` in the descending order (`by_orig = by_descend.argsort()`) -/
def bhScan (n : Nat) : Rat → List Rat → List Rat
  | _, [] => []
  | cur, x :: xs =>
    let c := min cur ((n : Rat) / ((xs.length + 1 : Nat) : Rat) * x)
    c :: bhScan n c xs

/-- `np.minimum.accumulate(steps * p[by_descend])` on the descending-sorted values:
    `steps[i] = n / (n − i)` and `n − i` is the number of values not yet consumed -/
def bhAccumulate (n : Nat) : List Rat → List Rat
  | [] => []
  | x :: xs =>
    let c := (n : Rat) / ((xs.length + 1 : Nat) : Rat) * x
    c :: bhScan n c xs

/-- `p.argsort()[::-1]` as (value, original index) pairs, largest first -/
def bhDescending (p : List Rat) : List (Rat × Nat) :=
  p.zipIdx.mergeSort (fun a b => decide (b.1 ≤ a.1))

/-- `p_adjust_bh(p)` -/
def padjustBH (p : List Rat) : List Rat :=
  let n := p.length
  let sorted := bhDescending p
  let q := (bhAccumulate n (sorted.map (·.1))).map (fun x => min 1 x)
  let byDescend := sorted.map (·.2)
  (List.range n).map (fun i => q.getD (byDescend.idxOf i) 0)

/-- `cnarr.residuals(segments)` when `segments` has a log2 column: for every segment (in
    `iter_slices` order, zipped positionally with `segments["log2"]`) the bins **inside** it, with
    `log2 − segment log2`; concatenated -/
def residuals (bins : List Bin) (segs : List Seg) : List (Bin × Rat) :=
  ((segBins bins segs .inner).zip segs).flatMap
    (fun (bs, sg) => bs.map (fun b => (b, b.log2 - sg.log2)))

/-- `resid[~resid.index.duplicated()]`: first occurrence of every label -/
def dedupFirst : List (Bin × Rat) → List (Bin × Rat)
  | [] => []
  | x :: xs => x :: (dedupFirst xs).filter (fun y => y.1.row != x.1.row)

/-- the rows `do_bintest` goes on with: residual per bin, duplicates dropped, bins outside every
    segment dropped; row order is the table's when every bin got exactly one residual, otherwise
    the order of `resid` -/
def bintestRows (bins : List Bin) (segs : List Seg) : List (Bin × Rat) :=
  let r0 := residuals bins segs
  let uniq := (r0.map (·.1.row)).eraseDups.length == r0.length
  let r1 := if uniq then r0 else dedupFirst r0
  if uniq && bins.length == r0.length then
    bins.filterMap (fun b => (r1.find? (fun y => y.1.row == b.row)))
  else r1

/-- two-sided p of one bin (`z_prob` before the adjustment): `2Φ(−|z|)`, `z = resid/√(1−w)`, given
    `tail : z² ↦ 2Φ(−|z|)`.  Repaired code (finding W): a zero residual is `z = 0` whatever the
    weight; a non-zero residual with weight 1 is `z = ±∞`, `p = 0`. -/
def pRaw (tail : Rat → Rat) (resid w : Rat) : Rat :=
  if resid == 0 then tail 0
  else if w == 1 then 0
  else tail (resid * resid / (1 - w))

structure Hit where
  bin : Bin
  resid : Rat
  q : Rat
deriving Repr, Inhabited

/-- every tested bin with its adjusted p -/
def bintestAll (tail : Rat → Rat) (bins : List Bin) (segs : List Seg) (targetOnly : Bool) : List Hit :=
  let rows := bintestRows bins segs
  let rows := if targetOnly then rows.filter (fun r => !Generated.ANTITARGET_ALIASES.contains r.1.gene) else rows
  let q := padjustBH (rows.map (fun r => pRaw tail r.2 r.1.weight))
  (rows.zip q).map (fun (r, q) => { bin := r.1, resid := r.2, q := q })

/-- `do_bintest(cnarr, segments, alpha, target_only)` -/
def doBintest (tail : Rat → Rat) (bins : List Bin) (segs : List Seg) (alpha : Rat) (targetOnly : Bool) :
    List Hit :=
  (bintestAll tail bins segs targetOnly).filter (fun h => h.q < alpha)

/-! ## the property's wording, used by the spec checker on the implementation's output -/

/-- the spread statistics in the property's words, with the numbers the definitions name (IQR = 75th −
    25th percentile, MAD scaled to a standard deviation by 1.4826) rather than the constants read
    from the source; everything else is the estimator itself -/
def specSpreadStat (name : String) : Option (List Rat → StatOut) :=
  match name with
  | "mad" => some (onArray (some 0) (fun a =>
      { val := .num (median (a.map (fun x => rabs (x - median a))) * (7413 / 5000)) }))
  | "iqr" => some (onArray (some 0) (fun a => { val := .num (percentile a 75 - percentile a 25) }))
  | _ => spreadStat name

/-- the bins overlapping a segment: same chromosome, `end > seg.start`, `start < seg.end` -/
def overlapping (bins : List Bin) (sg : Seg) : List Bin :=
  bins.filter (fun b => b.row.chrom == sg.row.chrom && decide (b.row.e > sg.row.s) && decide (b.row.s < sg.row.e))

/-- Benjamini–Hochberg in closed form:
    `q_i = min(1, min_{j : p_j ≥ p_i} n·p_j / #{k | p_k ≤ p_j})` -/
def bhTerm (p : List Rat) (x : Rat) : Rat :=
  (p.length : Rat) * x / ((p.countP (fun y => y ≤ x) : Nat) : Rat)

def bhClosedAt (p : List Rat) (v : Rat) : Rat :=
  ((p.filter (fun x => v ≤ x)).map (bhTerm p)).foldl min 1

def bhClosed (p : List Rat) : List Rat := p.map (bhClosedAt p)

/-- the same list, computing every term once (what the driver evaluates) -/
def bhClosedFast (p : List Rat) : List Rat :=
  let terms := p.zip (p.map (bhTerm p))
  p.map (fun v => ((terms.filter (fun e => v ≤ e.1)).map (·.2)).foldl min 1)

end CnvVerif.Stats
