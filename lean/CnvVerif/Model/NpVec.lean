/-
  The reading of the numpy vector vocabulary used by `harness/vectrans.py` (Generated/ExprsDesc.lean): the few array
  operations that are not a plain `List.map` / `List.zipWith` / `List.sum`.  Core Lean only.  These definitions are
  part of the trusted reading of the source (listed at the top of harness/vectrans.py); the correspondence run
  exercises them through the model functions they are proved equal to.
-/
import CnvVerif.Model.Descriptives
namespace CnvVerif.Np
open CnvVerif.Desc

/-- `v[mask]` for a Boolean mask of the same length: the entries where the mask holds, in order -/
def sel (v : List Rat) (mask : List Bool) : List Rat := ((v.zip mask).filter (·.2)).map (·.1)

/-- `w.cumsum()` -/
def cumsum (w : List Rat) : List Rat := (List.range w.length).map (cumAt w)

/-- `c.searchsorted(v, side="left")` on a non-decreasing array: the first index whose entry is `≥ v` (else `len(c)`) -/
def searchLeft (c : List Rat) (v : Rat) : Nat := c.findIdx (fun x => decide (v ≤ x))

/-- `c.searchsorted(v, side="right")` on a non-decreasing array: the first index whose entry is `> v` (else `len(c)`) -/
def searchRight (c : List Rat) (v : Rat) : Nat := c.findIdx (fun x => decide (v < x))

/-- `np.arange(lo, hi)` as an array of numbers -/
def arange (lo hi : Nat) : List Rat := (List.range' lo (hi - lo)).map (fun (i : Nat) => (i : Rat))

/-- `np.average(a, weights=w)` (the caller makes sure that the weights do not sum to zero) -/
def average (a w : List Rat) : Rat := (List.zipWith (fun u v => u * v) a w).sum / w.sum

/-- `a[order]` for an index array -/
def take (a : List Rat) (order : List Nat) : List Rat := order.map (fun i => a.getD i 0)

end CnvVerif.Np
