/-
  C10 -- effects rather than values.  Executable models (core Lean only) of

  (i)   the file system seen by `cnvlib.core.ensure_path` + `tabio.write` (a finite map name ↦ content),
  (ii)  the global numpy generator as a state machine, the op skeletons of the functions that reach
        `np.random.*` (the skeletons themselves are generated from the source by
        harness/extractors/effects.py) and the abstract "re-seeds before the first draw" analysis,
  (iii) the ordered gather of `Executor.map` over any completion order,
  (iv)  the caller-owned list arguments of `do_call` (filters) and of `by_gene` / `squash_genes` /
        `transfer_fields` / `get_gene_intervals` / `gene_coords_by_range` (ignore) as a heap of list
        objects threaded through the calls: the code as it was (`…Prefix`, fix J not applied) and as it is,
  (v)   a history of pipeline steps on shared argument objects: the result of a step is a function of its
        arguments only (value supplied by the harness from a call on fresh copies), the heap is threaded.
-/
namespace CnvVerif.Effects

/-! ## (i) file system: `core.ensure_path`, `open(path, "w")` -/

/-- name ↦ content; the first entry of a name is the file (writes keep names unique) -/
abbrev FS := List (String × String)

/-- `os.path.isfile` -/
def isFile (fs : FS) (n : String) : Bool := fs.any (fun f => f.1 == n)

def readFile (fs : FS) (n : String) : Option String := (fs.find? (fun f => f.1 == n)).map (·.2)

def removeFile (fs : FS) (n : String) : FS := fs.filter (fun f => f.1 != n)

/-- `open(n, "w")` + write + close: create or truncate -/
def writeFile (fs : FS) (n c : String) : FS := (n, c) :: removeFile fs n

/-- `os.rename(a, b)`: replaces `b` if it exists; no-op model when `a` is missing -/
def renameFile (fs : FS) (a b : String) : FS :=
  match readFile fs a with
  | none => fs
  | some c => (b, c) :: removeFile (removeFile fs a) b

/-- `f"{fname}.{cnt}"` -/
def bakName (p : String) (k : Nat) : String := p ++ "." ++ toString k

/-- `cnt = 1; while os.path.isfile(bak_fname): cnt += 1` -- the loop ends within `fuel` rounds because
    only finitely many files exist (proved in Lemmas/Effects.lean: `firstFree_free`) -/
def firstFree (fs : FS) (p : String) : Nat → Nat → Nat
  | 0, cnt => cnt
  | fuel + 1, cnt => if isFile fs (bakName p cnt) then firstFree fs p fuel (cnt + 1) else cnt

/-- `cnvlib.core.ensure_path` (the directory part is outside the model: one directory) -/
def ensurePath (fs : FS) (p : String) : FS :=
  if isFile fs p then renameFile fs p (bakName p (firstFree fs p fs.length 1)) else fs

/-- `core.ensure_path(p); tabio.write(table, p)` -/
def guardedWrite (fs : FS) (p c : String) : FS := writeFile (ensurePath fs p) p c

/-- k guarded writes to one path -/
def guardedWrites (fs : FS) (p : String) (ws : List String) : FS :=
  ws.foldl (fun fs c => guardedWrite fs p c) fs

/-- an unguarded writer (what `ensure_path` protects against), for the contrast theorem -/
def plainWrites (fs : FS) (p : String) (ws : List String) : FS :=
  ws.foldl (fun fs c => writeFile fs p c) fs

def contents (fs : FS) : List String := fs.map (·.2)
def names (fs : FS) : List String := fs.map (·.1)

/-! ## (ii) the global random generator -/

/-- one call into `np.random`: `seed(c)` with a literal constant (`some c`), `seed(<anything else>)`
    (`none`), or a draw (`permutation`, `randint`, `randn`, `shuffle`, …) -/
inductive ROp where
  | seed (c : Option Nat)
  | draw (kind : String)
deriving Repr, DecidableEq, Inhabited

/-- control-flow skeleton of a function body restricted to its RNG operations (calls into the package
    are inlined by the extractor): sequence, branch, loop -/
inductive Sk where
  | nop
  | op (o : ROp)
  | seq (a b : Sk)
  | alt (a b : Sk)
  | star (a : Sk)
deriving Repr, Inhabited

/-- a generator: state after `seed(c)`, the state an unknown re-seeding leaves (may depend on anything,
    in particular on the state before), and one draw -/
structure Gen (σ ν : Type) where
  reseed : Nat → σ
  other : σ → σ
  draw : String → σ → ν × σ

/-- the values drawn along a straight-line op sequence started in state `s` -/
def draws {σ ν : Type} (g : Gen σ ν) : List ROp → σ → List ν
  | [], _ => []
  | .seed (some c) :: r, _ => draws g r (g.reseed c)
  | .seed none :: r, s => draws g r (g.other s)
  | .draw k :: r, s => (g.draw k s).1 :: draws g r (g.draw k s).2

/-- the generator state left behind -/
def finalState {σ ν : Type} (g : Gen σ ν) : List ROp → σ → σ
  | [], s => s
  | .seed (some c) :: r, _ => finalState g r (g.reseed c)
  | .seed none :: r, s => finalState g r (g.other s)
  | .draw k :: r, s => finalState g r (g.draw k s).2

/-- abstract state: has the generator been set to a constant seed on this path? -/
def flagAfter : List ROp → Bool → Bool
  | [], b => b
  | .seed (some _) :: r, _ => flagAfter r true
  | .seed none :: r, _ => flagAfter r false
  | .draw _ :: r, b => flagAfter r b

/-- every draw of the sequence happens after a constant re-seeding (`b` = seeded on entry) -/
def safeOps : List ROp → Bool → Bool
  | [], _ => true
  | .seed (some _) :: r, _ => safeOps r true
  | .seed none :: r, _ => safeOps r false
  | .draw _ :: r, b => b && safeOps r b

/-- the same analysis on the control-flow skeleton, for all paths at once: `none` = some path draws before
    a constant re-seeding, `some b` = safe, and `b` tells whether every path leaves the generator seeded -/
def safeSk : Sk → Bool → Option Bool
  | .nop, b => some b
  | .op (.seed (some _)), _ => some true
  | .op (.seed none), _ => some false
  | .op (.draw _), b => if b then some true else none
  | .seq x y, b => match safeSk x b with
    | none => none
    | some b1 => safeSk y b1
  | .alt x y, b => match safeSk x b, safeSk y b with
    | some b1, some b2 => some (b1 && b2)
    | _, _ => none
  | .star x, b => match safeSk x b with
    | none => none
    | some b1 => match safeSk x (b && b1) with
      | none => none
      | some _ => some (b && b1)

/-- the complete op sequences a skeleton can produce -/
inductive Path : Sk → List ROp → Prop where
  | nop : Path .nop []
  | op (o : ROp) : Path (.op o) [o]
  | seq {a b l₁ l₂} : Path a l₁ → Path b l₂ → Path (.seq a b) (l₁ ++ l₂)
  | altL {a b l} : Path a l → Path (.alt a b) l
  | altR {a b l} : Path b l → Path (.alt a b) l
  | starNil {a} : Path (.star a) []
  | starCons {a l₁ l₂} : Path a l₁ → Path (.star a) l₂ → Path (.star a) (l₁ ++ l₂)

/-- does a recorded op equal the op of the skeleton? -/
def opMatches (o x : ROp) : Bool := o == x

/-- loop matcher, breadth first: `seen` = the remainders reached so far, `frontier` = those reached in the last
    round; a round that reaches nothing new ends the search (remainders are suffixes of the trace, so there are at
    most `length + 1` of them and the search is polynomial, whatever the trace) -/
def starLoop (f : List ROp → List (List ROp)) : Nat → List (List ROp) → List (List ROp) → List (List ROp)
  | 0, _, seen => seen
  | n + 1, frontier, seen =>
    let next := ((frontier.flatMap f).eraseDups).filter (fun r => !seen.contains r)
    if next.isEmpty then seen else starLoop f n next (seen ++ next)

/-- all remainders after 0..n passes through `f` -/
def starRes (f : List ROp → List (List ROp)) (n : Nat) (t : List ROp) : List (List ROp) :=
  starLoop f (n + 1) [t] [t]

/-- remainders of a recorded trace after one pass through the skeleton; a trace that ends early (return,
    exception) matches: run-time traces are prefixes of paths -/
def residuals : Sk → List ROp → List (List ROp)
  | _, [] => [[]]
  | .nop, t => [t]
  | .op o, x :: t => if opMatches o x then [t] else []
  | .seq a b, t => ((residuals a t).flatMap (residuals b)).eraseDups
  | .alt a b, t => (residuals a t ++ residuals b t).eraseDups
  | .star a, t => (starRes (residuals a) t.length t).eraseDups

/-- the recorded trace is a prefix of a path of the skeleton -/
def accepts (sk : Sk) (trace : List ROp) : Bool := (residuals sk trace).contains []

/-! ## (iii) ordered gather (`Executor.map`) -/

/-- results are collected by task index, whatever the order in which workers finish -/
def gatherOrdered {β : Type} (n : Nat) (done : List (Nat × β)) : List (Option β) :=
  (List.range n).map (fun i => (done.find? (fun d => d.1 == i)).map (·.2))

/-- `pool.map(f, xs)` when the tasks finish in the order `order` -/
def poolMap {α β : Type} (f : α → β) (xs : List α) (order : List Nat) : List (Option β) :=
  gatherOrdered xs.length (order.filterMap (fun i => xs[i]?.map (fun x => (i, f x))))

/-- the unordered alternative (`as_completed`): results in completion order -/
def asCompleted {α β : Type} (f : α → β) (xs : List α) (order : List Nat) : List (Option β) :=
  order.map (fun i => xs[i]?.map f)

/-! ## (iv) caller-owned list arguments -/

/-- object store of Python lists: a reference is a position -/
abbrev Heap := List (List String)

def hget (h : Heap) (r : Nat) : List String := h.getD r []
def hset (h : Heap) (r : Nat) (v : List String) : Heap := h.set r v
/-- `list(x)`: a new object at the end of the store -/
def halloc (h : Heap) (v : List String) : Heap × Nat := (h ++ [v], h.length)

/-- the loop `for filt in ("ci", "sem"): if filt in filters: apply; filters.remove(filt)` on the object at
    `r`: returns the heap and the filters applied before calling -/
def earlyFilters (h : Heap) (r : Nat) : Heap × List String :=
  ["ci", "sem"].foldl (fun (st : Heap × List String) filt =>
    if (hget st.1 r).contains filt then (hset st.1 r ((hget st.1 r).erase filt), st.2 ++ [filt]) else st) (h, [])

/-- what `do_call` does with its `filters` argument (a list object at `arg`, or `None`):
    (heap afterwards, filters applied before calling, filters applied after calling).
    As the code is (fix J): `filters = list(filters)` first. -/
def doCallFilters (h : Heap) (arg : Option Nat) : Heap × List String × List String :=
  match arg with
  | none => (h, [], [])
  | some r =>
    if (hget h r).isEmpty then (h, [], []) else
    let (h1, loc) := halloc h (hget h r)
    let (h2, early) := earlyFilters h1 loc
    (h2, early, hget h2 loc)

/-- the code before fix J: the loop runs on the caller's object -/
def doCallFiltersPrefix (h : Heap) (arg : Option Nat) : Heap × List String × List String :=
  match arg with
  | none => (h, [], [])
  | some r =>
    if (hget h r).isEmpty then (h, [], []) else
    let (h2, early) := earlyFilters h r
    (h2, early, hget h2 r)

/-- `params.ANTITARGET_ALIASES` -/
def antitargetAliases : List String := ["Antitarget", "Background"]

/-- an `ignore` argument: a list object, or an immutable tuple -/
inductive IgnoreArg where
  | list (r : Nat)
  | tuple (v : List String)
deriving Repr, Inhabited

/-- `ignore = tuple(ignore) + params.ANTITARGET_ALIASES` (as the code is): heap untouched, local value -/
def extendIgnore (h : Heap) : IgnoreArg → Heap × List String
  | .list r => (h, hget h r ++ antitargetAliases)
  | .tuple v => (h, v ++ antitargetAliases)

/-- `ignore += params.ANTITARGET_ALIASES` (before fix J): in-place `list.extend` on a list object -/
def extendIgnorePrefix (h : Heap) : IgnoreArg → Heap × List String
  | .list r => (hset h r (hget h r ++ antitargetAliases), hget h r ++ antitargetAliases)
  | .tuple v => (h, v ++ antitargetAliases)

/-! ## (v) histories on shared arguments -/

/-- how a step uses a small list argument -/
inductive Role where
  | filters      -- `do_call(filters=<list at ref>)`
  | ignoreList   -- `by_gene` / `squash_genes` / `transfer_fields` / `get_gene_intervals` (ignore=<list at ref>)
  | ignoreTuple  -- the same with a tuple
  | readOnly     -- any other list argument (thresholds, statistic names)
deriving Repr, DecidableEq, Inhabited

structure Use where
  role : Role
  ref : Nat
deriving Repr, Inhabited

structure Step where
  name : String
  procs : Nat              -- worker processes asked for
  uses : List Use
  fresh : String           -- the value of this call on fresh copies of the arguments (from the harness)
deriving Repr, Inhabited

def useHeap (pre : Bool) (h : Heap) (u : Use) : Heap :=
  match u.role with
  | .filters => if pre then (doCallFiltersPrefix h (some u.ref)).1.take h.length else (doCallFilters h (some u.ref)).1.take h.length
  | .ignoreList => if pre then (extendIgnorePrefix h (.list u.ref)).1 else (extendIgnore h (.list u.ref)).1
  | .ignoreTuple => (extendIgnore h (.tuple (hget h u.ref))).1
  | .readOnly => h

/-- the caller-visible heap after one step (`.take h.length`: objects the callee allocated are its own) -/
def stepHeap (pre : Bool) (h : Heap) (s : Step) : Heap := s.uses.foldl (useHeap pre) h

/-- the model of a history: every step returns the value it has on fresh copies; the heap is threaded -/
def runHistory (pre : Bool) : Heap → List Step → List (String × Heap)
  | _, [] => []
  | h, s :: rest => (s.fresh, stepHeap pre h s) :: runHistory pre (stepHeap pre h s) rest

end CnvVerif.Effects
