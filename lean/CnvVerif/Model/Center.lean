/-
  Model of CopyNumArray.center_all, autosomes, drop_low_coverage, shift_xx, expect_flat_log2 and
  the decision logic of compare_sex_chromosomes / guess_xx (cnvlib/cnary.py, skgenome/gary.py).
  The estimators `median` and `mean` are modelled exactly over `Rat`; `biweight` and `mode` (and
  scipy's Mood median-test statistic) are parameters.  Core Lean only.
-/
import CnvVerif.Basic
import CnvVerif.Generated.Consts
import CnvVerif.Model.Call
namespace CnvVerif

structure CBin where
  chrom : String
  s : Int
  e : Int
  log2 : Rat
  depth : Option Rat := none   -- `none` = the table has no depth column
  weight : Option Rat := none
deriving Repr, Inhabited, DecidableEq

/-- the regular expression `(chr)?\d+$` applied with `str.match` (anchored at the start) -/
def isAutosomeName (c : String) : Bool :=
  let rest := if c.startsWith "chr" then (c.drop 3).toString else c
  -- note: "chr" itself followed by no digit does not match; a name like "chr" + digits does
  (!rest.isEmpty && rest.all Char.isDigit) ||
  -- without the optional prefix the whole name must be digits
  (!c.isEmpty && c.all Char.isDigit)

/-- `GenomicArray.autosomes(also=mask)` / `CopyNumArray.autosomes(diploid_parx_genome)`:
    if no name looks like an autosome the whole table is returned (before `also` is consulted) -/
def autosomesOf (first : String) (par : Option String) (t : List CBin) : List CBin :=
  if !(t.any (fun b => isAutosomeName b.chrom)) then t
  else t.filter fun b =>
    isAutosomeName b.chrom ||
    (match par with
     | some g => b.chrom == xLabel first && inPar g "PAR1X" "PAR2X" b.s b.e
     | none => false)

/-- `drop_low_coverage` -/
def dropLow (t : List CBin) : List CBin :=
  t.filter fun b =>
    !(decide (b.log2 < Generated.NULL_LOG2_COVERAGE - Generated.MIN_REF_COVERAGE) ||
      (match b.depth with | some d => decide (d = 0) | none => false))

def sumR (l : List Rat) : Rat := l.foldl (· + ·) 0

def meanR (l : List Rat) : Rat := sumR l / (l.length : Rat)

/-- `pd.Series.median` / `np.median`: middle element, or the mean of the two middle ones -/
def medianR (l : List Rat) : Rat :=
  let s := l.mergeSort (· ≤ ·)
  let n := s.length
  if n = 0 then 0
  else if n % 2 = 1 then s.getD (n / 2) 0
  else (s.getD (n / 2 - 1) 0 + s.getD (n / 2) 0) / 2

/-- values fed to the estimator: per-chromosome estimates (chromosomes in order of first
    appearance, `groupby(sort=False)`) or all log2 values -/
def centerValues (est : List Rat → Rat) (byChrom : Bool) (sel : List CBin) : List Rat :=
  if byChrom then
    ((sel.map (·.chrom)).eraseDups).map fun c => est ((sel.filter (·.chrom == c)).map (·.log2))
  else sel.map (·.log2)

/-- the shift `center_all` adds to every bin (`0` when no bin is selected) -/
def centerShift (est : List Rat → Rat) (byChrom skipLow : Bool) (par : Option String) (t : List CBin) : Rat :=
  let first := (t.head?.map (·.chrom)).getD ""
  let sel := autosomesOf first par (if skipLow then dropLow t else t)
  if sel.isEmpty then 0 else -(est (centerValues est byChrom sel))

/-- `center_all`: one constant added to every bin -/
def centerAll (est : List Rat → Rat) (byChrom skipLow : Bool) (par : Option String) (t : List CBin) : List CBin :=
  let sh := centerShift est byChrom skipLow par t
  t.map fun b => { b with log2 := b.log2 + sh }

/-- the estimate `center_all` zeroes, recomputed on a table -/
def centerEstimate (est : List Rat → Rat) (byChrom skipLow : Bool) (par : Option String) (t : List CBin) : Rat :=
  -(centerShift est byChrom skipLow par t)

/-! ### chromosomal sex -/

/-- `shift_xx(is_haploid_x_reference, is_xx)` -/
def shiftXX (hapX isXX : Bool) (t : List CBin) : List CBin :=
  let first := (t.head?.map (·.chrom)).getD ""
  let d : Rat := if isXX && hapX then -1 else if !isXX && !hapX then 1 else 0
  t.map fun b => if b.chrom == xLabel first then { b with log2 := b.log2 + d } else b

/-- `expect_flat_log2(is_haploid_x_reference, diploid_parx_genome)` -/
def expectFlat (hapX : Bool) (par : Option String) (t : List CBin) : List Rat :=
  let first := (t.head?.map (·.chrom)).getD ""
  t.map fun b =>
    let cls := classOf first par b.chrom b.s b.e
    if hapX then (if cls == .x || cls == .y then -1 else 0)
    else (if b.chrom == yLabel first then -1 else 0)

/-- result of `compare_to_auto`: Mood statistic (`none` = the test failed or was degenerate) and
    the absolute difference of (weighted) medians -/
structure AutoCmp where
  stat : Option Rat
  diff : Rat
deriving Repr, Inhabited

/-- `compare_chrom`: female statistic over male statistic (floored at 0.01), falling back to
    the ratio of median differences -/
def compareChrom (f m : AutoCmp) : Rat :=
  match f.stat, m.stat with
  | some fs, some ms => fs / max ms (1/100)
  | _, _ => f.diff / max m.diff (1/100)

/-- `compare_sex_chromosomes`: is the sample male?  `y = none` when there are no Y bins -/
def isMale (xF xM : AutoCmp) (y : Option (AutoCmp × AutoCmp)) : Bool :=
  let sx := compareChrom xF xM
  let score := match y with
    | some (yF, yM) => sx * compareChrom yF yM
    | none => sx
  decide (score > 1)

/-- the shifts `compare_sex_chromosomes` applies to chrX before comparing with the autosomes:
    (female_x_shift, male_x_shift) -/
def xShifts (hapX : Bool) : Rat × Rat := if hapX then (-1, 0) else (0, 1)
/-- … and to chrY -/
def yShifts : Rat × Rat := (3, 0)

def absR (q : Rat) : Rat := if q < 0 then -q else q

/-- the median-difference comparison of noise-free levels: autosomes at `a`, the chromosome at `v` -/
def idealCmp (a v shift : Rat) : AutoCmp := { stat := none, diff := absR (a - (v + shift)) }

end CnvVerif
