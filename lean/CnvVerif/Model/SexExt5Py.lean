/-
  C15, round 5b: how the model's values look from Python (the pair `compare_sex_chromosomes` returns, the statistics
  dict, the literal of a report cell) -- used by the source ties Props/C15SrcGlue*.lean.  Core Lean only.
-/
import CnvVerif.Model.SexExt5
namespace CnvVerif.C15x
open CnvVerif

/-- what Python sees of the model's result: `(None, {})` for `none` (the empty dict is `none`), else the pair -/
def c15PyPair (r : Option (Bool × SexStats)) : Option Bool × Option SexStats :=
  match r with
  | none => (none, none)
  | some (b, st) => (some b, some st)

/-- `stats[key]` for the five keys of the statistics dict (`none` = NaN; an unknown key also reads as `none`) -/
def c15StatsGet (st : SexStats) (k : String) : Option Rat :=
  if k = "chrx_ratio" then st.chrxRatio
  else if k = "chry_ratio" then st.chryRatio
  else if k = "combined_score" then st.combined
  else if k = "chrx_male_lr" then st.chrxLr
  else if k = "chry_male_lr" then st.chryLr
  else none

/-- the only literal a ratio column may show is "NA" (anything else is not a `Cell`) -/
def c15CellLit (s : String) : Option Cell := if s = "NA" then some .na else none

end CnvVerif.C15x
