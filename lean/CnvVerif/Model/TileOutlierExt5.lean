/-
  C03 (round 5): the outlier filter of `segment`, so far a PARAMETER of the model (a mask handed in by the harness).

  * `isOutlier`: the decision rule of `smoothing.rolling_outlier_quantile` at one element:
    `|x − trend| > quants · m` (strict), with the smoothed trend (`savgol`) and the rolling quantile of the absolute
    residuals as parameters (their numerics stay black boxes);
  * `outlierMask`: the whole function on one chromosome: an array of at most `width` elements has no outlier at all;
  * `dropMask` / `dropOutliers`: `segmentation.drop_outliers` -- the rule is applied per chromosome (`by_chromosome`:
    maximal runs of consecutive rows with the same name, for the sorted tables C03 quantifies over), the masks are
    concatenated in that order and the rows whose element is set are removed;
  * `filterKeep`: the survive mask of `_do_segmentation` with the outlier element computed by the rule instead of
    handed in (`surviveMask`, Model/Tile.lean).
  Core Lean only.
-/
import CnvVerif.Model.Tile
import CnvVerif.Model.TileExt
namespace CnvVerif.C03Outl
open CnvVerif

/-- `np.abs` on a rational -/
def absQ (e : Rat) : Rat := if e < 0 then -e else e

/-- one element of `dists > quants * m`, `dists = np.abs(x - savgol(x, width))` -/
def isOutlier (m x trend quants : Rat) : Bool := decide (absQ (x - trend) > quants * m)

/-- a row of one chromosome as the rule sees it: its log2, the trend and the rolling quantile there -/
structure Pt where
  x : Rat
  trend : Rat
  quants : Rat
deriving Repr

/-- `rolling_outlier_quantile(x, width, q, m)` on one chromosome -/
def outlierMask (width : Nat) (m : Rat) (pts : List Pt) : List Bool :=
  if pts.length ≤ width then List.replicate pts.length false
  else pts.map fun p => isOutlier m p.x p.trend p.quants

/-- `by_chromosome` of a table whose chromosomes are contiguous: maximal runs of equal names -/
def chromRuns (rows : List (String × Pt)) : List (List (String × Pt)) :=
  splitRunsBy (fun a b => a.1 == b.1) rows

/-- the concatenated mask of `drop_outliers` -/
def dropMask (width : Nat) (factor : Rat) (rows : List (String × Pt)) : List Bool :=
  (chromRuns rows).flatMap fun g => outlierMask width factor (g.map (·.2))

/-- `cnarr[~outlier_mask]` -/
def dropOutliers {α} (mask : List Bool) (rows : List α) : List α :=
  ((rows.zip mask).filter fun p => !p.2).map (·.1)

/-- the survive flags of one unit handed to `_do_segmentation` (an arm, or the genome for the HMM methods) with the
    outlier element computed by the rule.  `skipOutliers = 0` switches the filter off (`if skip_outliers:`).
    (The real code applies the outlier rule to the rows that survived `drop_low_coverage`; the trend and quantile
    of those rows are what `pts` carries; a row dropped before has no element and `none`.) -/
def filterKeep (skipLow : Bool) (minWeight skipOutliers : Rat) (outl : Option Bool) (b : Bin) : Bool :=
  surviveMask skipLow minWeight (skipOutliers != 0 && outl.getD false) b.log2 b.depth b.weight

end CnvVerif.C03Outl
