/-
  Extension of the C11 model (cnvlib/segmentation/haar.py): the WEIGHTED path of `haarSeg` -- the one
  `segment_haar` / `one_chrom` really take (`W = cnarr["weight"].values`) -- and the closed form of the weighted
  `HaarConv` response to a noise-free step.

  `HaarConv(signal, weight, h)` keeps four running sums; at position `k` they are the sums of `weight` and of
  `signal * weight` over the low window (extended indices `k-h .. k-1`) and the high window (`k .. k+h-1`) of the
  signal extended by mirroring at both ends (`lowEnd < 0 -> -lowEnd - 1`, `highEnd >= n -> 2n - 1 - highEnd`).
  `lowWin` / `highWin` state those window sums through prefix sums; `Lemmas/HaarW.lean` proves that the loop
  computes exactly them.  Core Lean only.
-/
import CnvVerif.Model.Haar
namespace CnvVerif.Haar

/-- prefix sums `x 0 + ... + x (i-1)` -/
def pre (x : Nat → Rat) : Nat → Rat
  | 0 => 0
  | i + 1 => pre x i + x i

/-- sum of `x` over the low window of `HaarConv` at position `k`: indices `k-h .. k-1`, the negative ones mirrored
(`-j-1`) -/
def lowWin (x : Nat → Rat) (h k : Nat) : Rat :=
  if k ≤ h then pre x k + pre x (h - k) else pre x k - pre x (k - h)

/-- sum of `x` over the high window at position `k`: indices `k .. k+h-1`, those `>= n` mirrored (`2n-1-j`) -/
def highWin (x : Nat → Rat) (n h k : Nat) : Rat :=
  if k + h ≤ n then pre x (k + h) - pre x k else 2 * pre x n - pre x k - pre x (2 * n - k - h)

/-- the part of the weights that lies on the upper plateau of a step at `b` -/
def upperW (w : Nat → Rat) (b : Nat) : Nat → Rat := fun i => if b ≤ i then w i else 0

/-- share of the high window's weight that lies at or beyond `b`, minus the same share of the low window: the
weighted `HaarConv` response to a unit step at `b`, before the factor `sqrt(h/2)` -/
def stepShareW (w : Nat → Rat) (b n h k : Nat) : Rat :=
  highWin (upperW w b) n h k / highWin w n h k - lowWin (upperW w b) h k / lowWin w h k

/-- the weights as a function of the bin index (0 beyond the end) -/
def wfun (wt : List Rat) : Nat → Rat := fun i => wt.getD i 0

/-- closed form of `HaarConv(step, W, h)` for the noise-free step `lo | hi` at `b` -/
def stepRespW (fac lo hi : Rat) (wt : List Rat) (b n h : Nat) : List Rat :=
  (List.range n).map fun k => fac * (hi - lo) * stepShareW (wfun wt) b n h k

/-- `haarSeg(I, q, W)` with weights, as `one_chrom` calls it: every level uses `HaarConv(I, W, 2**level)`
(`fac h` = the double `math.sqrt(h / 2)`), the thresholds come from `FDRThres`, the segment means are the weighted
means.  A zero weight sum (numpy: inf / nan) leaves the level without a convolution. -/
def haarSegW (rnd : Rat → Rat) (fac : Nat → Rat) (p : Nat → List Rat) (q : Rat) (I W : List Rat) : SegTable :=
  haarSegWith (fun _ h => (haarConvW (fac h) I W h).getD []) (fun lv x => fdrThres rnd x q (p lv))
    Generated.HAAR_LEVEL_TABLE I (some W)

/-! ### one iteration of the `HaarConv` loop, as the model runs it (tied to the source text in Props/C11Src.lean) -/

/-- `result[k] = result[k-1] + signal[highEnd] + signal[lowEnd] - 2*signal[k-1]` -/
def rawUpdate (prev sHi sLo sK : Rat) : Rat := prev + sHi + sLo - 2 * sK

/-- the four running sums after one iteration of the weighted branch -/
def wStep (acc : WAcc) (sLo wLo sHi wHi sK wK : Rat) : WAcc :=
  { lowN := acc.lowN + (sLo * wLo - sK * wK), highN := acc.highN + (sHi * wHi - sK * wK),
    lowW := acc.lowW + (wK - wLo), highW := acc.highW + (wHi - wK) }

/-- `result[k] = sqrt(h/2) * (lowNonNormed / lowWeightSum + highNonNormed / highWeightSum)` -/
def wValue (fac : Rat) (acc : WAcc) : Rat := fac * (acc.lowN / acc.lowW + acc.highN / acc.highW)

/-! ### the initial HMM of `hmm_get_model` (Generated/HmmConsts.lean), as decidable shape predicates -/

def sumQ (l : List Rat) : Rat := l.foldl (· + ·) 0

/-- start probabilities: a distribution, symmetric under exchanging losses and gains, every state possible, the
middle (neutral) state strictly the likeliest -/
def startPrefersNeutral (s : List Rat) : Bool :=
  let mid := s.length / 2
  decide (s.length % 2 = 1) && decide (sumQ s = 1) && (s == s.reverse) && s.all (fun x => decide (0 < x)) &&
    (List.range s.length).all (fun i => i == mid || decide (s.getD i 0 < s.getD mid 0))

/-- transition weights: square, one common diagonal value `d`, one common positive off-diagonal value `o`, and
staying is at least `k` times as likely as any single move (`k * o <= d`) -/
def stickyMatrix (k : Rat) (t : List (List Rat)) : Bool :=
  let n := t.length
  let d := (t.headD []).headD 0
  let o := (t.headD []).getD 1 0
  t.all (fun r => r.length == n) && decide (0 < o) && decide (k * o ≤ d) &&
    (List.range n).all (fun i => (List.range n).all (fun j =>
      let v := (t.getD i []).getD j 0
      if i == j then v == d else v == o))

end CnvVerif.Haar
