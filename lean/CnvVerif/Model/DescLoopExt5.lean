/-
  C19 (round 5): the trace of the outer loop of `biweight_location` -- every value the variable `result` takes while
  `Desc.bilocLoop step eps fuel init` runs.  (No Mathlib: used by the driver.)
-/
import CnvVerif.Model.Descriptives
namespace CnvVerif.C19Loop
open CnvVerif CnvVerif.Desc

/-- every value `result` takes while `bilocLoop step eps fuel init` runs, in order -/
def trace (step : Rat → Rat) (eps : Rat) : Nat → Rat → List Rat
  | 0, init => [step init]
  | fuel + 1, init =>
    let r := step init
    if absR (r - init) ≤ eps then [r] else r :: trace step eps fuel r

/-- `biweight_location(a, initial, c, epsilon, max_iter)` on a NaN-free vector of length ≥ 2 with ALL its options:
    `none` for `max_iter = 0` (the name `result` is never bound) -/
def biweightLocationOpts (a : List Rat) (initial : Option Rat) (c eps : Rat) (maxIter : Nat) : Option Rat :=
  match maxIter with
  | 0 => none
  | n + 1 => some (bilocLoop (bilocIter c eps a) eps n (initial.getD (median a)))

end CnvVerif.C19Loop
