/-
  The handful of Python `str` / `int` operations that the string functions translated from the source use
  (`harness/extractors/exprs_chromsort.py`), each as ONE Lean primitive.  Reading of the Python subset —
  part of the trusted base, stated here and at the top of the extractor:
    s[k:]                               pySliceFrom s k      (k a non-negative int)
    s.lower()                           pyLower s            (ASCII: the property's names are ASCII)
    s.startswith(p)                     pyStartsWith s p
    "".join(takewhile(str.isdigit, s))  pyLeadingDigits s    (ASCII digits)
    len(s)                              pyLen s
    int(s)   (s a run of digits)        pyInt s
    truth value of a str                pyTruthy s           (non-empty)
    f"{a}:{b}"                          a ++ ":" ++ toString b
  Core Lean only.
-/
namespace CnvVerif.PyStr

def pySliceFrom (s : String) (k : Nat) : String := (s.drop k).toString
def pyLower (s : String) : String := s.toLower
def pyStartsWith (s p : String) : Bool := s.startsWith p
def pyLeadingDigits (s : String) : String := (s.takeWhile Char.isDigit).toString
def pyLen (s : String) : Nat := s.length
def pyInt (s : String) : Nat := s.toNat?.getD 0
def pyTruthy (s : String) : Bool := !s.isEmpty

end CnvVerif.PyStr
