/-
  Model of the gene-level grouping of cnvkit (property C16):

    skgenome/gary.py   GenomicArray._get_gene_map, by_chromosome, by_ranges (outer selection)
    cnvlib/cnary.py    CopyNumArray.by_gene, squash_genes, shift_xx, drop_low_coverage
    cnvlib/segmetrics.py  segment_mean
    cnvlib/reports.py  group_by_genes, gene_metrics_by_gene, gene_metrics_by_segment,
                       do_genemetrics, get_gene_intervals, get_breakpoints, do_breaks

  Rows carry their pandas index label explicitly (`Bin.label`): the code before fix L sliced
  with label-based, end-inclusive `.loc[a:b]` (`byGeneLoc…`, kept for the counterexample);
  the repaired code slices by position inside each chromosome (`byGene…`).
  Core Lean only; exact arithmetic in `Rat`.
-/
import CnvVerif.Basic
import CnvVerif.Generated.Consts
namespace CnvVerif.Genes
open CnvVerif

/-- a row of a `.cnr` table: index label, chromosome, start, end, gene, log2, depth, weight -/
structure Bin where
  label : Int
  chrom : String
  s : Int
  e : Int
  gene : String
  log2 : Rat
  depth : Rat
  weight : Rat
deriving Repr, DecidableEq, Inhabited

/-- `params.ANTITARGET_NAME` -/
abbrev antitarget : String := Generated.ANTITARGET_NAME

/-- `ignore += params.ANTITARGET_ALIASES` -/
def fullIgnore (ignore : List String) : List String := ignore ++ Generated.ANTITARGET_ALIASES

/-- the default of `by_gene(ignore=params.IGNORE_GENE_NAMES)` -/
def defaultIgnore : List String := Generated.IGNORE_GENE_NAMES

/-- `str.split(",")` on the characters of the string (`acc` = the piece being read, reversed);
    structural, so that concrete examples reduce in the kernel -/
def splitComma : List Char → List Char → List String
  | acc, [] => [String.ofList acc.reverse]
  | acc, c :: cs =>
    if c == ',' then String.ofList acc.reverse :: splitComma [] cs else splitComma (c :: acc) cs

/-- `genestr.split(",")` -/
def names (b : Bin) : List String := splitComma [] b.gene.toList

/-- insertion into an (ordered) dict: of the entries with the same name only the first stays,
    in order of first appearance -/
def firstByName : List (Nat × String) → List (Nat × String)
  | [] => []
  | a :: as => a :: (firstByName as).filter (fun x => x.2 != a.2)

/-- every `(idx, gene)` pair the loop of `_get_gene_map` visits, in order; `idx` counts rows
    from `k` (the repaired code numbers the rows of one chromosome 0, 1, 2, …) -/
def taggedFrom (k : Nat) : List Bin → List (Nat × String)
  | [] => []
  | b :: rs => (names b).map (fun g => (k, g)) ++ taggedFrom (k + 1) rs

/-- `genes[gene]`: the indices appended for `gene`, in order -/
def geneIdx (T : List (Nat × String)) (g : String) : List Nat :=
  (T.filter (fun x => x.2 == g)).map (·.1)

/-- `table.iloc[a:b]` -/
def slice {α} (rs : List α) (a b : Nat) : List α := (rs.take b).drop a

/-- the loop of `by_gene` over the gene map of one chromosome (repaired code: positions).
    `prev` is `prev_idx`; the keys still to visit are the second argument. -/
def goPos (rs : List Bin) (ign : List String) (T : List (Nat × String)) :
    Nat → List (Nat × String) → List (String × List Bin)
  | prev, [] =>
    -- `if prev_idx < len(subgary)`: the telomere
    if prev < rs.length then [(antitarget, rs.drop prev)] else []
  | prev, (_, g) :: ks =>
    if ign.contains g then goPos rs ign T prev ks
    else
      let idx := geneIdx T g
      match idx.head?, idx.getLast? with
      | some st, some la =>
        (if prev < st then [(antitarget, slice rs prev st)] else [])
          ++ (g, slice rs st (la + 1)) :: goPos rs ign T (la + 1) ks
      | _, _ => goPos rs ign T prev ks   -- "Specified gene name somehow missing"

/-- `by_gene` on the rows of one chromosome; `ignore` is the caller's argument -/
def byGeneChrom (ignore : List String) (rs : List Bin) : List (String × List Bin) :=
  let T := taggedFrom 0 rs
  goPos rs (fullIgnore ignore) T 0 (firstByName T)

/-- keys of `groupby(..., sort=False)`: first appearance -/
def firstKeys : List String → List String
  | [] => []
  | a :: as => a :: (firstKeys as).filter (· != a)

/-- `by_chromosome()` -/
def byChrom (t : List Bin) : List (String × List Bin) :=
  (firstKeys (t.map (·.chrom))).map (fun c => (c, t.filter (fun b => b.chrom == c)))

/-- `CopyNumArray.by_gene(ignore)` (repaired code) -/
def byGene (ignore : List String) (t : List Bin) : List (String × List Bin) :=
  (byChrom t).flatMap (fun p => byGeneChrom ignore p.2)

/-! ### the code before fix L: label-based, end-inclusive `.loc` slices -/

/-- `data.loc[a:b]` on a monotone integer index: labels `a ≤ · ≤ b` -/
def locSlice (rs : List Bin) (a b : Int) : List Bin := rs.filter (fun r => a ≤ r.label && r.label ≤ b)

def taggedLabels : List Bin → List (Int × String)
  | [] => []
  | b :: rs => (names b).map (fun g => (b.label, g)) ++ taggedLabels rs

def firstByNameL : List (Int × String) → List (Int × String)
  | [] => []
  | a :: as => a :: (firstByNameL as).filter (fun x => x.2 != a.2)

def goLoc (rs : List Bin) (ign : List String) (T : List (Int × String)) :
    Int → List (Int × String) → List (String × List Bin)
  | prev, [] =>
    -- `if prev_idx < len(subgary) - 1`: a label compared with a length
    if prev < (rs.length : Int) - 1 then [(antitarget, rs.filter (fun r => prev ≤ r.label))] else []
  | prev, (_, g) :: ks =>
    if ign.contains g then goLoc rs ign T prev ks
    else
      let idx := (T.filter (fun x => x.2 == g)).map (·.1)
      match idx.head?, idx.getLast? with
      | some st, some la =>
        (if prev < st then [(antitarget, locSlice rs prev st)] else [])
          ++ (g, locSlice rs st (la + 1)) :: goLoc rs ign T (la + 1) ks
      | _, _ => goLoc rs ign T prev ks

/-- `by_gene` as it was before fix L (index labels strictly increasing, as after filtering) -/
def byGeneLoc (ignore : List String) (t : List Bin) : List (String × List Bin) :=
  (byChrom t).flatMap (fun p =>
    let T := taggedLabels p.2
    goLoc p.2 (fullIgnore ignore) T 0 (firstByNameL T))

/-- development switch of the driver: `pre = true` selects the code before fix L -/
def byGeneV (pre : Bool) (ignore : List String) (t : List Bin) : List (String × List Bin) :=
  if pre then byGeneLoc ignore t else byGene ignore t

/-! ### genemetrics -/

def sumRat (l : List Rat) : Rat := l.foldr (· + ·) 0
def ratAbs (q : Rat) : Rat := if q < 0 then -q else q

/-- `params.NULL_LOG2_COVERAGE - params.MIN_REF_COVERAGE` -/
def minCvg : Rat := Generated.NULL_LOG2_COVERAGE - Generated.MIN_REF_COVERAGE

/-- `drop_low_coverage` keeps the rows that are not `log2 < min_cvg` and not `depth == 0` -/
def keptLow (b : Bin) : Bool := !(decide (b.log2 < minCvg) || b.depth == 0)

/-- `segment_mean(rows, skip_low)`; `none` = NaN (no bins left) -/
def segmentMean (rows : List Bin) (skipLow : Bool) : Option Rat :=
  let kept := if skipLow then rows.filter keptLow else rows
  if kept.isEmpty then none
  else if kept.any (fun b => b.weight != 0) then
    some (sumRat (kept.map (fun b => b.log2 * b.weight)) / sumRat (kept.map (·.weight)))
  else some (sumRat (kept.map (·.log2)) / (kept.length : Rat))

/-- a row of the genemetrics table; `depth = none` records that
    `np.average(depth, weights=weight)` raised (the weights sum to zero) -/
structure GRow where
  gene : String
  chrom : String
  s : Int
  e : Int
  log2 : Option Rat
  depth : Option Rat
  weight : Rat
  probes : Nat
  segWeight : Option Rat := none
  segProbes : Option Int := none
deriving Repr, DecidableEq, Inhabited

/-- one output row of `group_by_genes` for the group `(gene, rows)` -/
def groupRow (gene : String) (rows : List Bin) (skipLow : Bool) : Option GRow :=
  match rows, rows.getLast? with
  | first :: _, some last =>
    let w := sumRat (rows.map (·.weight))
    some { gene := gene, chrom := first.chrom, s := first.s, e := last.e,
           log2 := segmentMean rows skipLow,
           depth := if w == 0 then none else some (sumRat (rows.map (fun b => b.depth * b.weight)) / w),
           weight := w, probes := rows.length }
  | _, _ => none

/-- the names `group_by_genes` skips: `("", nan) + ANTITARGET_ALIASES` -/
def skipNames : List String := "" :: Generated.ANTITARGET_ALIASES

/-- `group_by_genes(cnarr, skip_low)` -/
def groupByGenes (t : List Bin) (skipLow : Bool) (pre : Bool := false) : List GRow :=
  ((byGeneV pre defaultIgnore t).filter (fun p => !p.2.isEmpty && !skipNames.contains p.1)).filterMap
    (fun p => groupRow p.1 p.2 skipLow)

/-- `chr_x_label` -/
def xLabel (firstChrom : Option String) : String :=
  match firstChrom with
  | some c => if c.startsWith "chr" then "chrX" else "X"
  | none => ""

/-- the amount `shift_xx` adds to the log2 of the X chromosome's rows;
    `isXX = none` is the falsy `None` that `guess_xx` returns without sex chromosomes -/
def xShift (hapX : Bool) (isXX : Option Bool) : Rat :=
  let xx := isXX.getD false
  if xx && hapX then -1 else if !xx && !hapX then 1 else 0

def shiftBins (t : List Bin) (hapX : Bool) (isXX : Option Bool) : List Bin :=
  let x := xLabel (t.head?.map (·.chrom))
  t.map (fun b => if b.chrom == x then { b with log2 := b.log2 + xShift hapX isXX } else b)

/-- a row of a segment table (`.cns`); `probes` / `weight` columns may be absent -/
structure SegRow where
  chrom : String
  s : Int
  e : Int
  gene : String
  log2 : Rat
  probes : Option Int
  weight : Option Rat
deriving Repr, DecidableEq, Inhabited

def shiftSegs (t : List SegRow) (hapX : Bool) (isXX : Option Bool) : List SegRow :=
  let x := xLabel (t.head?.map (·.chrom))
  t.map (fun b => if b.chrom == x then { b with log2 := b.log2 + xShift hapX isXX } else b)

/-- `abs(log2) >= threshold`; NaN compares false -/
def reaches (v : Option Rat) (thr : Rat) : Bool :=
  match v with
  | some x => decide (ratAbs x ≥ thr)
  | none => false

/-- `gene_metrics_by_gene`: the rows it yields -/
def metricsByGene (t : List Bin) (thr : Rat) (skipLow : Bool) (pre : Bool := false) : List GRow :=
  (groupByGenes t skipLow pre).filter (fun r => reaches r.log2 thr && r.gene != "")

/-- the bins `cnarr.by_ranges(segments)` hands out for one segment: outer selection on the
    segment's chromosome (contract proved for the slicing code in C07: `C07.outer_exact`) -/
def binsOfSegment (t : List Bin) (sg : SegRow) : List Bin :=
  t.filter (fun b => b.chrom == sg.chrom && decide (b.e > sg.s) && decide (b.s < sg.e))

/-- segments in the order `by_ranges` visits them: chromosome by chromosome (first appearance) -/
def segsInOrder (segs : List SegRow) : List SegRow :=
  (firstKeys (segs.map (·.chrom))).flatMap (fun c => segs.filter (fun sg => sg.chrom == c))

/-- the rows `gene_metrics_by_segment` yields for one segment -/
def segmentPart (t : List Bin) (skipLow : Bool) (pre : Bool) (sg : SegRow) : List GRow :=
  (groupByGenes (binsOfSegment t sg) skipLow pre).map
    (fun r => { r with log2 := some sg.log2, segWeight := sg.weight, segProbes := sg.probes })

/-- `gene_metrics_by_segment` -/
def metricsBySegment (t : List Bin) (segs : List SegRow) (thr : Rat) (skipLow : Bool)
    (pre : Bool := false) : List GRow :=
  ((segsInOrder segs).filter (fun sg => decide (ratAbs sg.log2 ≥ thr))).flatMap (segmentPart t skipLow pre)

/-- the `min_probes` filter at the end of `do_genemetrics`: on `segment_probes` when that
    column exists, else on `probes` -/
def minProbesFilter (rows : List GRow) (minProbes : Nat) : List GRow :=
  if minProbes == 0 || rows.isEmpty then rows
  else if rows.any (fun r => r.segProbes.isSome) then
    rows.filter (fun r => match r.segProbes with
      | some p => decide (p ≥ (minProbes : Int))
      | none => false)
  else rows.filter (fun r => decide (r.probes ≥ minProbes))

inductive Err | zeroDivision
deriving Repr, DecidableEq

/-- `do_genemetrics(cnarr, segments, threshold, min_probes, skip_low, is_haploid_x_reference,
    is_sample_female)`; `isXX` is the given or guessed sex (guessing is C15's subject).
    The call raises when `group_by_genes` meets a group whose weights sum to zero. -/
def doGenemetrics (t : List Bin) (segs : Option (List SegRow)) (thr : Rat) (minProbes : Nat)
    (skipLow hapX : Bool) (isXX : Option Bool) (pre : Bool := false) : Except Err (List GRow) :=
  let t' := shiftBins t hapX isXX
  let bySeg := match segs with
    | some sg => !sg.isEmpty
    | none => false
  -- every row `group_by_genes` computes on the way, and the rows that are reported
  let computed := if bySeg then metricsBySegment t' (shiftSegs (segs.getD []) hapX isXX) thr skipLow pre
    else groupByGenes t' skipLow pre
  let rows := if bySeg then computed else metricsByGene t' thr skipLow pre
  if computed.any (fun r => r.depth.isNone) then .error .zeroDivision
  else .ok (minProbesFilter rows minProbes)

/-! ### squash_genes -/

/-- a `summary_func` of `squash_genes` with an exact value: numpy mean / median -/
inductive Summary | mean | median
deriving Repr, DecidableEq

def meanRat (l : List Rat) : Rat := sumRat l / (l.length : Rat)

def medianRat (l : List Rat) : Rat :=
  let srt := l.mergeSort (fun a b => decide (a ≤ b))
  let n := srt.length
  if n % 2 == 1 then srt.getD (n / 2) 0 else (srt.getD (n / 2 - 1) 0 + srt.getD (n / 2) 0) / 2

def Summary.apply : Summary → List Rat → Rat
  | .mean, l => meanRat l
  | .median, l => medianRat l

/-- `squash_rows(name, rows)` -/
def squashRows (f : Summary) (name : String) (rows : List Bin) : Option Bin :=
  match rows, rows.getLast? with
  | [r], _ => some r
  | first :: _, some last =>
    some { label := 0, chrom := first.chrom, s := first.s, e := last.e, gene := name,
           log2 := f.apply (rows.map (·.log2)), depth := f.apply (rows.map (·.depth)),
           weight := f.apply (rows.map (·.weight)) }
  | _, _ => none

/-- the rows one group contributes to `squash_genes` -/
def squashGroup (f : Summary) (squashAnti : Bool) (p : String × List Bin) : List Bin :=
  if p.2.isEmpty then []
  else if Generated.ANTITARGET_ALIASES.contains p.1 && !squashAnti then p.2
  else (squashRows f p.1 p.2).toList

/-- `squash_genes(summary_func, squash_antitarget, ignore)` (rows get a fresh index) -/
def squashGenes (f : Summary) (squashAnti : Bool) (ignore : List String) (t : List Bin)
    (pre : Bool := false) : List Bin :=
  (byGeneV pre ignore t).flatMap (squashGroup f squashAnti)

/-! ### breaks -/

/-- `(gene name, sorted starts, end)` -/
structure GeneIv where
  gene : String
  starts : List Int
  stop : Int
deriving Repr, DecidableEq, Inhabited

def maxInt : List Int → Int
  | [] => 0
  | x :: xs => xs.foldl max x

/-- Python list comparison `a <= b` -/
def lexLeInt : List Int → List Int → Bool
  | [], _ => true
  | _ :: _, [] => false
  | a :: as, b :: bs => a < b || (a == b && lexLeInt as bs)

/-- `get_gene_intervals(probes)[chrom]`: whole gene strings (no comma split), ignored names and
    Antitarget aliases dropped, first appearance, then sorted by the list of starts (stable) -/
def geneIntervals (t : List Bin) (chrom : String) : List GeneIv :=
  let ign := fullIgnore defaultIgnore
  let rows := t.filter (fun b => b.chrom == chrom && !ign.contains b.gene)
  let ivs := (firstKeys (rows.map (·.gene))).map (fun g =>
    let mine := rows.filter (fun b => b.gene == g)
    { gene := g, starts := (mine.map (·.s)).mergeSort (fun a b => decide (a ≤ b)),
      stop := maxInt (mine.map (·.e)) : GeneIv })
  ivs.mergeSort (fun a b => lexLeInt a.starts b.starts)

/-- a row of the `breaks` table -/
structure Brk where
  gene : String
  chrom : String
  loc : Int
  change : Rat
  left : Nat
  right : Nat
deriving Repr, DecidableEq, Inhabited

/-- the genes broken at the boundary after segment `cur` (next segment `nxt`) -/
def breaksAt (t : List Bin) (minProbes : Nat) (cur nxt : SegRow) : List Brk :=
  if nxt.chrom != cur.chrom then []
  else (geneIntervals t cur.chrom).filterMap (fun g =>
    if decide (g.starts.headD 0 < cur.e) && decide (cur.e < g.stop) then
      let l := g.starts.countP (fun s => decide (s < cur.e))
      let r := g.starts.countP (fun s => decide (s ≥ cur.e))
      if l ≥ minProbes && r ≥ minProbes then
        some { gene := g.gene, chrom := cur.chrom, loc := cur.e, change := nxt.log2 - cur.log2,
               left := l, right := r }
      else none
    else none)

/-- `get_breakpoints` before its final sort (the order of the report is not part of C16) -/
def breakpoints (t : List Bin) (minProbes : Nat) : List SegRow → List Brk
  | cur :: nxt :: rest => breaksAt t minProbes cur nxt ++ breakpoints t minProbes (nxt :: rest)
  | _ => []

/-! ## The property's wording as decidable checks (evaluated on the implementation's output) -/

/-- the names of a bin that count as genes: not Antitarget, not an ignored name -/
def named (ign : List String) (b : Bin) : List String := (names b).filter (fun g => !ign.contains g)

/-- The property's hypothesis for one chromosome, in its own words: "every named gene's bins
    are consecutive (possibly interrupted only by Antitarget or ignored-name bins)" -- between
    two bins carrying the gene `g`, no bin carries the name of another gene. -/
def Contiguous (ign : List String) (rs : List Bin) : Prop :=
  ∀ (i j k : Nat) (bi bj bk : Bin), i ≤ j → j ≤ k → rs[i]? = some bi → rs[j]? = some bj → rs[k]? = some bk →
    ∀ g, g ∈ named ign bi → g ∈ named ign bk → ∀ h, h ∈ named ign bj → h = g

/-- index of the last element satisfying `p` -/
def lastIdxWith {α} (p : α → Bool) : List α → Option Nat
  | [] => none
  | x :: xs =>
    match lastIdxWith p xs with
    | some k => some (k + 1)
    | none => if p x then some 0 else none

/-- "every named gene's bins are consecutive (possibly interrupted only by Antitarget or
    ignored-name bins)": from each bin carrying `g` up to the last bin carrying `g`, no bin
    carries another gene's name -/
def contiguousB (ign : List String) : List Bin → Bool
  | [] => true
  | b :: rest =>
    (named ign b).all (fun g =>
      let upto := match lastIdxWith (fun x => (named ign x).contains g) rest with
        | some k => b :: rest.take (k + 1)
        | none => [b]
      upto.all (fun y => (named ign y).all (· == g)))
    && contiguousB ign rest

/-- the hypothesis for a whole table: chromosome by chromosome -/
def tableContiguousB (ign : List String) (t : List Bin) : Bool :=
  (byChrom t).all (fun p => contiguousB ign p.2)

/-- a gene's own bins on one chromosome: from its first to its last bin -/
def geneSpan (ign : List String) (rs : List Bin) (g : String) : List Bin :=
  let has := fun (x : Bin) => (named ign x).contains g
  match lastIdxWith has rs with
  | some la => slice rs (rs.findIdx has) (la + 1)
  | none => []

/-- the named genes of one chromosome in genomic order, each with its own bins -/
def expectedGenes (ign : List String) (rs : List Bin) : List (String × List Bin) :=
  (firstKeys (rs.flatMap (named ign))).map (fun g => (g, geneSpan ign rs g))

/-- the grouping the property describes, by a direct scan of one chromosome: a stretch of
    other bins is labelled Antitarget, a gene runs from its first to its last bin -/
def idealScan (ign : List String) : Nat → List Bin → List (String × List Bin)
  | 0, _ => []
  | _, [] => []
  | fuel + 1, b :: rest =>
    match (named ign b).head? with
    | none =>
      let k := (b :: rest).findIdx (fun x => !(named ign x).isEmpty)
      (antitarget, (b :: rest).take k) :: idealScan ign fuel ((b :: rest).drop k)
    | some g =>
      let k := match lastIdxWith (fun x => (named ign x).contains g) (b :: rest) with
        | some la => la + 1
        | none => 1
      (g, (b :: rest).take k) :: idealScan ign fuel ((b :: rest).drop k)

def idealGroups (ign : List String) (t : List Bin) : List (String × List Bin) :=
  (byChrom t).flatMap (fun p => idealScan ign p.2.length p.2)

/-! ### vocabulary of the theorems -/

/-- no two consecutive groups are both labelled Antitarget -/
def NoTwoAT : List (String × List Bin) → Prop
  | a :: b :: rest => ¬(a.1 = antitarget ∧ b.1 = antitarget) ∧ NoTwoAT (b :: rest)
  | _ => True

/-- replace the index labels of a table -/
def relabel (f : Bin → Int) (b : Bin) : Bin := { b with label := f b }

/-- a table is contiguous when each chromosome's rows are -/
def TableContiguous (ign : List String) (t : List Bin) : Prop :=
  ∀ p ∈ byChrom t, Contiguous ign p.2

/-- `cur` is immediately followed by `nxt` in the segment table -/
def Consecutive (cur nxt : SegRow) (segs : List SegRow) : Prop :=
  ∃ l1 l2, segs = l1 ++ cur :: nxt :: l2

/-- the bins of the gene (whole gene string) `g` on chromosome `c` -/
def geneBins (t : List Bin) (c g : String) : List Bin :=
  t.filter (fun b => b.chrom == c && b.gene == g)

/-- the rows of every chromosome are adjacent in the table (what a sorted table satisfies) -/
def ChromGrouped (t : List Bin) : Prop :=
  ∀ (i j k : Nat) (bi bj bk : Bin), i ≤ j → j ≤ k → t[i]? = some bi → t[j]? = some bj → t[k]? = some bk →
    bi.chrom = bk.chrom → bj.chrom = bi.chrom

end CnvVerif.Genes
