/-
  C10 -- "it leaves the arrays, lists and dicts passed to it unchanged": a may-alias (taint) analysis of the
  name-binding / in-place-operation skeleton of a function body, and the concrete semantics it is sound for.

  The skeletons are generated from the source (harness/extractors/effects_alias.py -> Generated/EffectsAlias.lean):
  per function, which names are (re)bound to a NEW object or to (a view of) the object another name holds, where an
  object is operated on in place (`x[...] = v`, `x.attr = v`, `x.sort()`, `x += v`, `inplace=True`, a call of a
  package function whose summary says it writes that parameter), and what is returned.  Objects are numbers; the
  objects the CALLER owns are those below `n`.
-/
namespace CnvVerif.Alias

/-- what is done with an object: written in place / handed back to the caller -/
inductive Kind where
  | mut
  | ret
deriving Repr, DecidableEq, Inhabited

/-- a local name of one function; the generated table numbers them (parameters first) and keeps the spelling in a comment -/
abbrev Name := Nat

/-- skeleton of a function body restricted to bindings and uses -/
inductive ASt where
  | nop
  /-- `x = e`: `ys` = the names whose object `e` may evaluate to (or be a view of); `[]` = a new object -/
  | bind (x : Name) (ys : List Name)
  /-- an in-place write to / a return of the object one of `ys` holds -/
  | use (k : Kind) (ys : List Name)
  | seq (a b : ASt)
  | alt (a b : ASt)
  | star (a : ASt)
deriving Repr, Inhabited

/-! ### concrete semantics -/

structure St where
  env : Name → Nat          -- the object every name holds
  next : Nat                  -- allocation counter: objects ≥ next do not exist yet
  events : List (Kind × Nat)  -- writes and returns so far, latest first

def St.set (s : St) (x : Name) (v : Nat) : St :=
  { s with env := fun y => if y = x then v else s.env y }

/-- all runs of a skeleton (every branch, any number of loop rounds, any choice among the possible aliases) -/
inductive Exec : ASt → St → St → Prop where
  | nop (s) : Exec .nop s s
  | bindFresh (x ys s) : Exec (.bind x ys) s { (s.set x s.next) with next := s.next + 1 }
  | bindAlias (x ys y s) : y ∈ ys → Exec (.bind x ys) s (s.set x (s.env y))
  | use (k ys y s) : y ∈ ys → Exec (.use k ys) s { s with events := (k, s.env y) :: s.events }
  | useOther (k ys s) : Exec (.use k ys) s s
  | seq {a b s₁ s₂ s₃} : Exec a s₁ s₂ → Exec b s₂ s₃ → Exec (.seq a b) s₁ s₃
  | altL {a b s₁ s₂} : Exec a s₁ s₂ → Exec (.alt a b) s₁ s₂
  | altR {a b s₁ s₂} : Exec b s₁ s₂ → Exec (.alt a b) s₁ s₂
  | starNil {a s} : Exec (.star a) s s
  | starCons {a s₁ s₂ s₃} : Exec a s₁ s₂ → Exec (.star a) s₂ s₃ → Exec (.star a) s₁ s₃

/-! ### the analysis -/

/-- names that may hold an object of the caller -/
abbrev Taint := List Name

def subset (a b : Taint) : Bool := a.all (fun x => b.contains x)

/-- loop rule: find a set `I ⊇ T` that one more round of the body does not enlarge (checked, so any fuel is sound) -/
def starFix (f : Taint → Option Taint) : Nat → Taint → Option Taint
  | 0, I => match f I with
    | some I' => if subset I' I then some I else none
    | none => none
  | fuel + 1, I => match f I with
    | some I' => if subset I' I then some I else starFix f fuel (I ++ I')
    | none => none

/-- number of bindings (each unsuccessful loop round taints at least one more bound name) -/
def binds : ASt → Nat
  | .bind _ _ => 1
  | .seq a b => binds a + binds b
  | .alt a b => binds a + binds b
  | .star a => binds a
  | _ => 0

/-- `chk k` = uses of kind `k` must not touch a caller object.  `none` = some run may do so;
    `some T'` = no run does, and afterwards only the names in `T'` may hold a caller object -/
def taint (chk : Kind → Bool) : ASt → Taint → Option Taint
  | .nop, T => some T
  | .bind x ys, T => some (if ys.any (fun y => T.contains y) then x :: T else T.filter (fun y => y != x))
  | .use k ys, T => if chk k && ys.any (fun y => T.contains y) then none else some T
  | .seq a b, T => match taint chk a T with
    | none => none
    | some T₁ => taint chk b T₁
  | .alt a b, T => match taint chk a T, taint chk b T with
    | some T₁, some T₂ => some (T₁ ++ T₂)
    | _, _ => none
  | .star a, T => starFix (taint chk a) (binds a + 1) T

/-! ### one table row per function (generated) -/

structure Fn where
  name : String
  /-- a pipeline step / public array method: the property speaks about it directly -/
  entry : Bool
  /-- parameter 0 is the receiver (`self`) -/
  isMethod : Bool
  params : List Name
  /-- the spelling of every parameter of the signature, scalars included (`none` = left out of `params`) -/
  paramNames : List (String × Option Name)
  /-- summary: the parameters the function may write in place (used at its call sites) -/
  writes : List Name
  /-- summary: the parameters whose object the function may return -/
  returns : List Name
  body : ASt
deriving Repr, Inhabited

def without (ps qs : List Name) : Taint := ps.filter (fun p => !qs.contains p)

/-- the body writes no parameter outside `writes` and returns no parameter outside `returns` -/
def Fn.respectsSummary (f : Fn) : Bool :=
  (taint (fun k => k == .mut) f.body (without f.params f.writes)).isSome &&
  (taint (fun k => k == .ret) f.body (without f.params f.returns)).isSome

/-- a pipeline step writes none of its arguments; an array method at most its receiver -/
def Fn.entryOk (f : Fn) : Bool := !f.entry || f.writes.all (fun p => f.isMethod && p == 0)

end CnvVerif.Alias
