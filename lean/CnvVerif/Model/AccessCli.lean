/-
  Model of the `access` sub-command (`cnvlib/commands.py:_cmd_access` + its argparse declarations):
  `do_access(args.fa_fname, args.exclude, args.min_gap_size)` — the exclude files in the order of the `-x` options
  (`action="append"`, none when `-x` is left out), the minimum gap of `-s` or the command line's OWN default, and
  `skip_noncanonical` left to do_access's default — then `tabio.write(..., "bed3")`.
-/
import CnvVerif.Model.Access
import CnvVerif.Generated.AccessCliConsts
namespace CnvVerif

/-- what the parser hands to `_cmd_access`: one table per `-x` in command-line order; `-s` given or not -/
structure AccessArgs where
  exclude : List Table
  minGap : Option Int

/-- the value `args.min_gap_size` holds -/
def AccessArgs.gap (a : AccessArgs) : Int := a.minGap.getD Generated.ACCESS_CLI_DEFAULT_MIN_GAP

/-- `_cmd_access(args)`: the table that is written -/
def cmdAccess (lines : List FLine) (a : AccessArgs) : Except String Table :=
  doAccess lines a.exclude (some a.gap) Generated.ACCESS_DEFAULT_SKIP_NONCANONICAL

end CnvVerif
