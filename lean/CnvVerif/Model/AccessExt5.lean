/-
  C13 (round 5): the body of `cnvlib/access.py:do_access` read as a PROGRAM.

  `harness/extractors/access_prog.py` re-reads the statements of `do_access` on every run into a term
  `Generated.DO_ACCESS_PROG : C13P.AStmt` of the small command language below (assignment of a call / method call
  to a local, `if <flag>:`, `for <v> in <file list>:`, `return <expr>`).  Variables are numbered by the reader
  (parameters 0..3 in declaration order, locals 4.. in order of first binding), so the names of locals are not part
  of the term.  `C13P.runDoAccess` interprets such a term with the library calls read as the existing model
  functions (`get_regions` = `getRegions`, `drop_noncanonical_contigs` = `keepRegions true`, `GA.from_rows` = the
  rows as a table, `tabio.read(f, "bed3")` = the file's rows sorted, `.subtract` = `subtractTable`, `join_regions` =
  `joinRegions`).  Props/C13Prog.lean proves that the interpreted source program EQUALS the hand-written `doAccess`.

  Generators are evaluated eagerly: `get_regions` / `join_regions` raise when `GA.from_rows` consumes them, and no
  effect of `do_access` lies between the creation of a generator and its consumption, so the exception and the
  moment relative to the other statements (before any exclude file is read / after all of them) are the same.
-/
import CnvVerif.Model.Access
namespace CnvVerif.C13P

/-- the callables `do_access` may use -/
inductive AFn
  | getRegions        -- get_regions
  | dropNoncanonical  -- drop_noncanonical_contigs
  | fromRows          -- GA.from_rows
  | tabioRead         -- tabio.read
  | joinRegions       -- join_regions
deriving Repr, DecidableEq

inductive AExpr
  | var (n : Nat)
  | str (s : String)
  | call1 (f : AFn) (a : AExpr)
  | call2 (f : AFn) (a b : AExpr)
  | subtract (o a : AExpr)              -- `o.subtract(a)`
deriving Repr

inductive AStmt
  | assign (v : Nat) (e : AExpr)
  | ifVar (c : Nat) (body : AStmt)        -- `if <name>:` without else
  | forIn (v it : Nat) (body : AStmt)     -- `for v in <name>:` (no `return` / `break` inside: the reader refuses them)
  | seq (a b : AStmt)
  | ret (e : AExpr)
deriving Repr

inductive AVal
  | fasta (lines : List FLine)        -- the FASTA file behind `fa_fname`
  | bedFile (t : Table)               -- one exclude file: its rows in file order
  | files (l : List Table)            -- `exclude_fnames`
  | gap (g : Option Int)              -- `min_gap_size`
  | flag (b : Bool)                   -- `skip_noncanonical`
  | text (s : String)
  | regs (r : List Region)            -- a stream of (chrom, start, end) with natural coordinates
  | rows (t : Table)                  -- the stream `join_regions` yields
  | table (t : Table)                 -- a GenomicArray

abbrev Env := List (Nat × AVal)

def callFn : AFn → List AVal → Except String AVal
  | .getRegions, [.fasta ls] => do let r ← getRegions ls; pure (.regs r)
  | .dropNoncanonical, [.regs r] => pure (.regs (keepRegions true r))
  | .fromRows, [.regs r] => pure (.table (r.map regionRow))
  | .fromRows, [.rows t] => pure (.table t)
  | .tabioRead, [.bedFile t, .text s] => if s = "bed3" then pure (.table (sortTable t)) else .error "unmodelled format"
  | .joinRegions, [.table t, .gap g] => do let o ← joinRegions g t; pure (.rows o)
  | _, _ => .error "TypeError: unmodelled call"

def evalE (env : Env) : AExpr → Except String AVal
  | .var n => match env.lookup n with
    | some v => pure v
    | none => .error "NameError"
  | .str s => pure (.text s)
  | .call1 f a => do let x ← evalE env a; callFn f [x]
  | .call2 f a b => do let x ← evalE env a; let y ← evalE env b; callFn f [x, y]
  | .subtract o a => do
    let x ← evalE env o
    let y ← evalE env a
    match x, y with
    | .table t, .table u => pure (.table (subtractTable t u))
    | _, _ => .error "AttributeError: subtract"

/-- run a statement: the environment afterwards and the returned value, if a `return` was reached -/
def execS : AStmt → Env → Except String (Env × Option AVal)
  | .assign v e, env => do let x ← evalE env e; pure ((v, x) :: env, none)
  | .ifVar c b, env =>
    match env.lookup c with
    | some (.flag true) => execS b env
    | some (.flag false) => pure (env, none)
    | _ => .error "if: not a flag"
  | .forIn v it b, env =>
    match env.lookup it with
    | some (.files l) => do
      let env' ← l.foldlM (fun e x => do let r ← execS b ((v, .bedFile x) :: e); pure r.1) env
      pure (env', none)
    | _ => .error "for: not a list of files"
  | .seq a b, env => do
    let r ← execS a env
    match r.2 with
    | some _ => pure r
    | none => execS b r.1
  | .ret e, env => do let x ← evalE env e; pure (env, some x)

/-- `do_access(fa_fname, exclude_fnames, min_gap_size, skip_noncanonical)` as the interpreted program `p` -/
def runDoAccess (p : AStmt) (lines : List FLine) (excludes : List Table) (minGap : Option Int) (skip : Bool) :
    Except String Table := do
  let r ← execS p [(0, .fasta lines), (1, .files excludes), (2, .gap minGap), (3, .flag skip)]
  match r.2 with
  | some (.table t) => pure t
  | _ => .error "do_access did not return a table"

end CnvVerif.C13P
