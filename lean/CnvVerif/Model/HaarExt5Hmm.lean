/-
  The state tables of `cnvlib/segmentation/hmm.py:hmm_get_model`, per method branch (`hmm-germline`, `hmm-tumor`,
  the `else` branch = `hmm`), assembled from the constants the translator reads from the source text, and the shape
  predicate the obligations of Props/C11HmmM.lean put on them.  Core Lean only.
-/
import CnvVerif.Generated.HaarConsts
import CnvVerif.Generated.HmmConsts
namespace CnvVerif.HaarHmmM

structure HmmzTable where
  names : List String
  means : List Rat
  frozen : List Bool
  start : List Rat
  trans : List (List Rat)

/-- the `if method == "hmm-germline" / elif method == "hmm-tumor" / else` chain -/
def hmmTableOf (method : String) : HmmzTable :=
  if method = "hmm-germline" then
    ⟨Generated.HMM_GERMLINE_STATES, Generated.HMM_GERMLINE_MEANS, Generated.HMM_GERMLINE_FROZEN,
     Generated.HMM_START_3, Generated.HMM_TRANS_3⟩
  else if method = "hmm-tumor" then
    ⟨Generated.HMM_TUMOR_STATES, Generated.HMM_TUMOR_MEANS, Generated.HMM_TUMOR_FROZEN,
     Generated.HMM_START_5, Generated.HMM_TRANS_5⟩
  else
    ⟨Generated.HMM_FLEX_STATES, Generated.HMM_FLEX_MEANS, Generated.HMM_FLEX_FROZEN,
     Generated.HMM_START_3, Generated.HMM_TRANS_3⟩

/-- a well-formed state table: one name, one mean, one flag, one start probability and one matrix row per state; an
odd number of states with distinct names; means strictly increasing (states ordered from the deepest loss to the
highest gain); the middle state is called "neutral" and sits at log2 = 0 -/
def hmmzTableOk (t : HmmzTable) : Bool :=
  let n := t.means.length
  (t.names.length == n) && (t.frozen.length == n) && (t.start.length == n) && (t.trans.length == n) &&
  decide (n % 2 = 1) && decide t.names.Nodup && decide (t.means.Pairwise (· < ·)) &&
  (t.names.getD (n / 2) "" == "neutral") && (t.means.getD (n / 2) 1 == 0)

end CnvVerif.HaarHmmM
