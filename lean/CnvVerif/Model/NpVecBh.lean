/-
  C17 (round 5): the numpy vector vocabulary that `harness/vectrans_bh.py` adds to `harness/vectrans.py` /
  `Model/NpVec.lean` for `cnvlib/bintest.py: p_adjust_bh` (Generated/ExprsBh.lean).  Core Lean only.  These definitions
  are part of the trusted reading of the source (listed at the top of harness/vectrans_bh.py).
-/
import CnvVerif.Model.NpVec
namespace CnvVerif.NpBh

/-- `np.arange(hi, lo, -1)` as an array of numbers: `hi, hi-1, …, lo+1` (empty when `hi ≤ lo`) -/
def arangeDown : Nat → Nat → List Rat
  | 0, _ => []
  | hi + 1, lo => if lo < hi + 1 then ((hi + 1 : Nat) : Rat) :: arangeDown hi lo else []

/-- the running minimum after the first entry: `cur` = the minimum so far -/
def minScan : Rat → List Rat → List Rat
  | _, [] => []
  | cur, x :: xs => min cur x :: minScan (min cur x) xs

/-- `np.minimum.accumulate(v)`: entry `i` is the minimum of `v[0..i]` -/
def minAccumulate : List Rat → List Rat
  | [] => []
  | x :: xs => x :: minScan x xs

/-- `perm.argsort()` for an index array that is a permutation of `0..n-1` (no ties, so the result does not depend on
    the sorting algorithm): the inverse permutation, `result[i]` = the position of `i` in `perm` -/
def invPerm (perm : List Nat) : List Nat := (List.range perm.length).map (fun i => perm.idxOf i)

end CnvVerif.NpBh
