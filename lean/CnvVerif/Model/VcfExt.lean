/-
  Glue between the command line and `load_het_snps` (property C18): the five commands that read a VCF (`segment -v`,
  `call -v`, `scatter -v`, `export theta -v`, `export nexus-ogt`) parse the options sample-id (-i), normal-id (-n),
  min-variant-depth and zygosity-freq (-z) and hand the parsed values to `cmdutil.load_het_snps` positionally.
  The model is DRIVEN by the tables the translator reads off the source on every run (Generated/VcfConsts.lean): the
  parameter list of `load_het_snps`, the argument list of each command's call, the argparse default / const of each
  option.  Core Lean only.
-/
import CnvVerif.Model.Vcf
import CnvVerif.Generated.VcfConsts
namespace CnvVerif.Vcf
open CnvVerif

/-- what the command line says about the VCF -/
structure CliVcfArgs where
  sampleId : Option String := none          -- `-i NAME`
  normalId : Option String := none          -- `-n NAME`
  minVariantDepth : Option Int := none      -- `--min-variant-depth N`; `none`: option left out
  zygosityFreq : Option (Option Rat) := none  -- `none`: left out; `some none`: bare `-z`; `some (some f)`: `-z f`
deriving Repr, DecidableEq, Inhabited

/-- the option arguments `load_het_snps` receives after the file name -/
structure LhsArgs where
  sampleId : Option String
  normalId : Option String
  minVariantDepth : Option Int
  zygosityFreq : Option Rat
  tumorBoost : Bool
deriving Repr, DecidableEq, Inhabited

/-- for one command: the source text of the argument each option parameter of `load_het_snps` receives (`none`: not
    passed, the function's own default applies), and the parser's default / const of the two numeric options -/
structure Binding where
  sampleId : Option String
  normalId : Option String
  minVariantDepth : Option String
  zygosityFreq : Option String
  tumorBoost : Option String
  depthDefault : Option Int
  zygConst : Option Rat
  zygDefaultIsNone : Bool
  idsDefaultNone : Bool
deriving Repr, DecidableEq, Inhabited

/-- positional binding first, keywords after (Python's call rule) -/
def boundArg (cmd param : String) : Option String :=
  let pos := (Generated.cliLoadHetSnpsArgs.lookup cmd).getD []
  let kws := (Generated.cliLoadHetSnpsKeywords.lookup cmd).getD []
  match (Generated.lhsParams.zip pos).lookup param with
  | some t => some t
  | none => kws.lookup param

def cliBinding (cmd : String) : Option Binding :=
  if !Generated.cliVcfCommands.contains cmd then none else
  some { sampleId := boundArg cmd "sample_id", normalId := boundArg cmd "normal_id",
         minVariantDepth := boundArg cmd "min_variant_depth", zygosityFreq := boundArg cmd "zygosity_freq",
         tumorBoost := boundArg cmd "tumor_boost",
         depthDefault := (Generated.cliMinVariantDepthDefault.lookup cmd).getD none,
         zygConst := (Generated.cliZygosityFreqConst.lookup cmd).getD none,
         zygDefaultIsNone := (Generated.cliZygosityFreqDefault.lookup cmd) == some none,
         idsDefaultNone := (Generated.cliSampleIdDefault.lookup cmd) == some none &&
                           (Generated.cliNormalIdDefault.lookup cmd) == some none }

/-- the parsed namespace (`args.*`) for the VCF options -/
structure VcfNamespace where
  sample_id : Option String
  normal_id : Option String
  min_variant_depth : Option Int
  zygosity_freq : Option Rat
deriving Repr, DecidableEq, Inhabited

/-- argparse: a given value as given, an option left out = its default, a bare `-z` (nargs "?") = its const -/
def parseVcfOptions (b : Binding) (a : CliVcfArgs) : VcfNamespace :=
  { sample_id := a.sampleId, normal_id := a.normalId,
    min_variant_depth := match a.minVariantDepth with
      | some m => some m
      | none => b.depthDefault,
    zygosity_freq := match a.zygosityFreq with
      | none => none
      | some none => b.zygConst
      | some (some f) => some f }

def strAttr (ns : VcfNamespace) : String → Option (Option String)
  | "args.sample_id" => some ns.sample_id
  | "args.normal_id" => some ns.normal_id
  | _ => none

def intAttr (ns : VcfNamespace) : String → Option (Option Int)
  | "args.min_variant_depth" => some ns.min_variant_depth
  | _ => none

def ratAttr (ns : VcfNamespace) : String → Option (Option Rat)
  | "args.zygosity_freq" => some ns.zygosity_freq
  | _ => none

/-- the call `load_het_snps(args.vcf, …)` of a command: every option parameter takes the value of the namespace
    attribute its argument names, or the function's own default when it is not passed; `none`: the command or an
    argument expression is outside the model -/
def cliLhsArgs (cmd : String) (a : CliVcfArgs) : Option LhsArgs := do
  let b ← cliBinding cmd
  if !(b.zygDefaultIsNone && b.idsDefaultNone) then none
  let ns := parseVcfOptions b a
  let sid ← (match b.sampleId with
    | some t => strAttr ns t
    | none => some none)
  let nid ← (match b.normalId with
    | some t => strAttr ns t
    | none => some none)
  let md ← (match b.minVariantDepth with
    | some t => intAttr ns t
    | none => some (some Generated.lhsMinVariantDepthDefault))
  let zf ← (match b.zygosityFreq with
    | some t => ratAttr ns t
    | none => some none)
  if b.tumorBoost.isSome then none
  pure { sampleId := sid, normalId := nid, minVariantDepth := md, zygosityFreq := zf, tumorBoost := false }

def nameSel : Option String → Sel
  | some s => .name s
  | none => .unset

/-- `load_het_snps`' arguments as the options of the model (`hom = 1 - zygosity_freq`) -/
def lhsHetOpts (l : LhsArgs) : HetOpts :=
  { sid := nameSel l.sampleId, nid := nameSel l.normalId, minDepth := l.minVariantDepth,
    zygFreq := l.zygosityFreq.map (fun z => (z, 1 - z)), tumorBoost := l.tumorBoost }

/-- the documented meaning of the options: ids as given, minimum depth 20 unless asked otherwise, genotypes from the
    file unless `-z` (0.25 when given without a number), frequencies not TumorBoost-ed -/
def cliDocumented (a : CliVcfArgs) : LhsArgs :=
  { sampleId := a.sampleId, normalId := a.normalId, minVariantDepth := some (a.minVariantDepth.getD 20),
    zygosityFreq := match a.zygosityFreq with
      | none => none
      | some none => some (1/4)
      | some (some f) => some f,
    tumorBoost := false }

end CnvVerif.Vcf
