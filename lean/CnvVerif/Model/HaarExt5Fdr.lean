/-
  Model of `cnvlib/segmentation/haar.py:FDRThres` AS WRITTEN, with `scipy.stats.norm.cdf` a parameter
  (`cdf v loc` = `stats.norm.cdf(v, loc)`; the code passes `stdev` in the position of `loc`, observation Z), and of
  the keep test `np.abs(convRes.take(peakLoc)) >= T` that `haarSeg` applies to its result.

  `Model/Haar.lean:fdrThres` takes the p-values as an input; here they are formed as the source forms them,
  `p = 2 * (1 - stats.norm.cdf(x_sorted, stdev))`.  `rnd` = the float rounding (`fl64` in the driver, `id` = real
  arithmetic).  Core Lean only.
-/
import CnvVerif.Model.Haar
namespace CnvVerif.HaarFdr
open CnvVerif.Haar

/-- `x_sorted = np.sort(np.abs(x))[::-1]` -/
def xSorted (x : List Rat) : List Rat := sortDesc (x.map absQ)

/-- `p = 2 * (1 - stats.norm.cdf(x_sorted, stdev))` -/
def pvals (rnd : Rat → Rat) (cdf : Rat → Rat → Rat) (xs : List Rat) (sd : Rat) : List Rat :=
  xs.map fun v => rnd (2 * rnd (1 - cdf v sd))

/-- element `i` of `m * q`, `m = np.arange(1, M + 1) / M` -/
def mq (rnd : Rat → Rat) (M : Nat) (q : Rat) (i : Nat) : Rat :=
  rnd (rnd (((i + 1 : Nat) : Rat) / (M : Rat)) * q)

/-- `p[i] <= (m * q)[i]` -/
def passes (rnd : Rat → Rat) (cdf : Rat → Rat → Rat) (x : List Rat) (q sd : Rat) (i : Nat) : Bool :=
  decide ((pvals rnd cdf (xSorted x) sd).getD i 1 ≤ mq rnd x.length q i)

/-- `indices = np.nonzero(p <= m * q)[0]` -/
def passing (rnd : Rat → Rat) (cdf : Rat → Rat → Rat) (x : List Rat) (q sd : Rat) : List Nat :=
  (List.range x.length).filter (passes rnd cdf x q sd)

/-- `x_sorted[0]`: the largest absolute peak value -/
def top (x : List Rat) : Rat := (xSorted x).headD 0

/-- `FDRThres(x, q, stdev)`: `M < 2 -> 0`; `T = x_sorted[indices[-1]]` if any p-value passes, else
`x_sorted[0] + 1e-16` -/
def fdrThresCdf (rnd : Rat → Rat) (cdf : Rat → Rat → Rat) (x : List Rat) (q sd : Rat) : Rat :=
  if x.length < Generated.HAAR_FDR_MIN_M then Generated.HAAR_FDR_SMALL_T else
  match (passing rnd cdf x q sd).getLast? with
  | some i => (xSorted x).getD i 0
  | none => rnd (top x + Generated.HAAR_FDR_EPS)

/-- `np.abs(x) >= T`, element-wise (the mask `haarSeg` hands to `np.extract`) -/
def keepMask (x : List Rat) (T : Rat) : List Bool := x.map fun v => decide (T ≤ absQ v)

/-- a `cdf` given as a table over the sorted values (driver: the doubles scipy returned) -/
def cdfTable (xs c : List Rat) : Rat → Rat → Rat := fun v _ =>
  match (xs.zip c).find? (fun e => e.1 == v) with
  | some e => e.2
  | none => 0

end CnvVerif.HaarFdr
