/-
  Model of cnvlib/access.py (`get_regions`, `join_regions`, `drop_noncanonical_contigs`,
  `do_access`) and of the contig-name rule `cnvlib/antitarget.py:is_canonical_contig_name`.
  The interval subtraction `GenomicArray.subtract` is the model of Model/Interval.lean.

  Repaired code (fix T, proposed_fixes/C13-T.diff): a line that is empty after `rstrip()` is
  skipped.  Before the fix a blank line met while no run was open opened a run of length zero
  (`run_start = cursor`), which the next 'N', header or end of file emitted as `(c, k, k)`.
-/
import CnvVerif.Basic
import CnvVerif.Model.Ranges
import CnvVerif.Model.Interval
import CnvVerif.Model.IntervalSpec
import CnvVerif.Generated.AccessConsts
namespace CnvVerif

/-! ### the FASTA scanner `get_regions` -/

/-- a run of sequence positions, 0-based half-open -/
abbrev Run := Nat × Nat

/-- scanner state inside one sequence: `cursor`, `run_start` -/
structure Scan where
  cursor : Nat
  runStart : Option Nat
deriving Repr, DecidableEq

/-- positions `k + i` with `line[i] == 'N'` -/
def nIdxFrom (k : Nat) : List Char → List Nat
  | [] => []
  | c :: cs => if c = 'N' then k :: nIdxFrom (k + 1) cs else nIdxFrom (k + 1) cs

/-- `np.where(line_chars == b"N")[0]` -/
abbrev nIndices (line : List Char) : List Nat := nIdxFrom 0 line

/-- `if run_start is not None: yield (chrom, run_start, end)` -/
def emitOpen (rs : Option Nat) (e : Nat) : List Run :=
  match rs with
  | some s => [(s, e)]
  | none => []

/-- one sequence line (already `rstrip`ped) of `get_regions`, branch for branch -/
def stepLine (st : Scan) (line : List Char) : List Run × Scan :=
  if line.isEmpty then ([], st)                       -- fix T: blank line skipped
  else if line.contains 'N' then
    if line.all (· == 'N') then
      -- shortcut: the line is all N
      (emitOpen st.runStart st.cursor, ⟨st.cursor + line.length, none⟩)
    else
      -- slow route: mixed line
      let idx := nIndices line
      let n0 := idx.headD 0
      let nl := idx.getLastD 0
      let first : List Run :=
        match st.runStart with
        | some s => [(s, st.cursor + n0)]
        | none => if n0 != 0 then [(st.cursor, st.cursor + n0)] else []
      let mid : List Run :=
        ((idx.zip (idx.drop 1)).filter (fun p => p.2 - p.1 > 1)).map
          (fun p => (p.1 + 1 + st.cursor, p.2 + st.cursor))
      let rs := if nl + 1 < line.length then some (st.cursor + nl + 1) else none
      (first ++ mid, ⟨st.cursor + line.length, rs⟩)
  else
    ([], ⟨st.cursor + line.length,
          match st.runStart with
          | none => some st.cursor
          | some s => some s⟩)

/-- the lines of one sequence, in order -/
def scanLines (st : Scan) : List (List Char) → List Run × Scan
  | [] => ([], st)
  | l :: ls =>
    let r := stepLine st l
    let r' := scanLines r.2 ls
    (r.1 ++ r'.1, r'.2)

/-- all runs reported for one sequence given as lines (any widths) -/
def scanSeq (lines : List (List Char)) : List Run :=
  let r := scanLines ⟨0, none⟩ lines
  r.1 ++ emitOpen r.2.runStart r.2.cursor

/-- a line of the FASTA file: header (`>name ...`) or sequence text (after `rstrip`) -/
inductive FLine
  | header (name : String)
  | body (chars : List Char)
deriving Repr

abbrev Region := String × Nat × Nat

/-- the whole file loop of `get_regions`.  A non-blank sequence line before the first header
    raises `TypeError` (`cursor` is `None`). -/
def scanFile (chrom : Option String) (st : Scan) : List FLine → Except String (List Region)
  | [] => pure ((emitOpen st.runStart st.cursor).map (fun r => (chrom.getD "", r.1, r.2)))
  | .header name :: rest => do
    let tail ← scanFile (some name) ⟨0, none⟩ rest
    pure ((emitOpen st.runStart st.cursor).map (fun r => (chrom.getD "", r.1, r.2)) ++ tail)
  | .body line :: rest =>
    if line.isEmpty then scanFile chrom st rest
    else
      match chrom with
      | none => throw "TypeError"
      | some c =>
        let r := stepLine st line
        do
          let tail ← scanFile chrom r.2 rest
          pure (r.1.map (fun x => (c, x.1, x.2)) ++ tail)

def getRegions (lines : List FLine) : Except String (List Region) := scanFile none ⟨0, none⟩ lines

/-! #### text → lines (`for line in infile`, `startswith(">")`, `split(None, 1)[0][1:]`, `rstrip()`) -/

/-- ASCII characters for which `str.isspace()` holds -/
def isPySpace (c : Char) : Bool :=
  c == ' ' || c == '\t' || c == '\n' || c == '\r' || c.toNat == 11 || c.toNat == 12 ||
  (28 ≤ c.toNat && c.toNat ≤ 31)

def rstripChars (l : List Char) : List Char := (l.reverse.dropWhile isPySpace).reverse

/-- split at `'\n'`; the text after the last newline is a line only when it is not empty -/
def splitLinesGo (cur : List Char) : List Char → List (List Char)
  | [] => if cur.isEmpty then [] else [cur.reverse]
  | c :: cs => if c = '\n' then cur.reverse :: splitLinesGo [] cs else splitLinesGo (c :: cur) cs

def splitLines (text : List Char) : List (List Char) := splitLinesGo [] text

def parseLine (l : List Char) : FLine :=
  match l with
  | '>' :: rest => .header (String.ofList (rest.takeWhile (fun c => !isPySpace c)))
  | _ => .body (rstripChars l)

def parseFasta (text : String) : List FLine := (splitLines text.toList).map parseLine

/-! ### contig-name rule -/

/-- one atom of the rule against one character: `some x` = the literal `x`, `none` = `\d` -/
def atomOk (a : Option Char) (c : Char) : Bool :=
  match a with
  | some x => c == x
  | none => c.isDigit

/-- do the atoms match a prefix of `s`?  returns the rest -/
def matchAtoms : List (Option Char) → List Char → Option (List Char)
  | [], s => some s
  | _ :: _, [] => none
  | a :: as, c :: cs => if atomOk a c then matchAtoms as cs else none

/-- the suffixes of `s`, longest first (`re.search` tries every start position) -/
def suffixes : List Char → List (List Char)
  | [] => [[]]
  | c :: cs => (c :: cs) :: suffixes cs

def altMatches (alt : Bool × List (Option Char) × Bool) (name : List Char) : Bool :=
  let starts := if alt.1 then [name] else suffixes name
  starts.any fun s =>
    match matchAtoms alt.2.1 s with
    | some rest => !alt.2.2 || rest.isEmpty
    | none => false

def ruleMatches (rule : List (Bool × List (Option Char) × Bool)) (name : List Char) : Bool :=
  rule.any (fun alt => altMatches alt name)

/-- `is_canonical_contig_name(name) = not re_noncanonical.search(name)` -/
def isCanonicalName (name : String) : Bool := !ruleMatches Generated.NONCANONICAL_RULE name.toList

/-! ### `join_regions` -/

/-- the loop over one chromosome's rows; `prev` = (`prev_start`, `prev_end`) -/
def joinGo (minGap : Int) (prev : Row) : List Row → List Row
  | [] => [prev]
  | x :: xs =>
    if x.s - prev.e < minGap then joinGo minGap { prev with e := x.e } xs
    else prev :: joinGo minGap x xs

def joinChrom (minGap : Int) : List Row → List Row
  | [] => []
  | x :: xs => joinGo minGap x xs

/-- `assert gap > 0` for every pair of consecutive rows (`prev_end` is always the previous
    row's end) -/
def gapsPositive : List Row → Bool
  | a :: b :: t => decide (b.s - a.e > 0) && gapsPositive (b :: t)
  | _ => true

/-- `join_regions(regions, min_gap_size)`; `min_gap_size or 0` -/
def joinRegions (minGap : Option Int) (t : Table) : Except String Table :=
  let g := minGap.getD 0
  let groups := groupByChrom t
  if groups.all (fun p => gapsPositive p.2) then
    .ok (groups.flatMap (fun p => joinChrom g p.2))
  else .error "AssertionError"

/-! ### `do_access` -/

def regionRow (r : Region) : Row := ⟨r.1, (r.2.1 : Int), (r.2.2 : Int), ""⟩

/-- `if skip_noncanonical: fa_regions = drop_noncanonical_contigs(fa_regions)` -/
def keepRegions (skip : Bool) (regs : List Region) : List Region :=
  if skip then regs.filter (fun r => isCanonicalName r.1) else regs

/-- `excludes` are the BED rows in file order; `tabio.read` sorts them -/
def doAccess (lines : List FLine) (excludes : List Table) (minGap : Option Int) (skip : Bool) :
    Except String Table := do
  let regs ← getRegions lines
  let t : Table := (keepRegions skip regs).map regionRow
  let t' := excludes.foldl (fun acc ex => subtractTable acc (sortTable ex)) t
  joinRegions minGap t'

/-! ### one chromosome, as the theorems see it -/

/-- the rows of the merged exclusion table `b` that the `outer` query of keeper `k` selects -/
def overlapping (k : Row) (b : List Row) : List Row := b.filter (fun x => x.e > k.s && x.s < k.e)

/-- `subtract` restricted to one chromosome: `b` = that chromosome's rows of one exclude file,
    sorted by start -/
def subtractChrom (t b : List Row) : List Row :=
  t.flatMap (fun k => subtractRow k (overlapping k (mergeChrom 0 b)))

/-- scan → subtract every exclude file → join, for one sequence -/
def accessChrom (name : String) (lines : List (List Char)) (excl : List (List Row)) (minGap : Int) :
    List Row :=
  let runs : List Row := (scanSeq lines).map (fun r => regionRow (name, r.1, r.2))
  joinChrom minGap (excl.foldl subtractChrom runs)

/-! ### the property's wording, decidable, evaluated on the implementation's output

    Ground truth comes from the generator: `seqs` = (name, sequence) before it was rendered as
    text with some line width.  Nothing below uses the scanner, `subtract` or `join`. -/

def charAt (w : List Char) (p : Nat) : Option Char := w[p]?

/-- is position `p` of `w` a character other than 'N'? -/
def nonN (w : List Char) (p : Nat) : Bool :=
  match w[p]? with
  | some c => c != 'N'
  | none => false

/-- `(s, e)` is a maximal run of characters other than 'N' in `w` -/
def isMaxRunB (w : List Char) (s e : Nat) : Bool :=
  decide (s < e) && ((List.range (e - s)).all fun i => nonN w (s + i)) &&
  (s == 0 || !nonN w (s - 1)) && !nonN w e

def posRange (s e : Int) : List Int := (List.range (e - s).toNat).map (fun (i : Nat) => s + (i : Int))

/-- clauses for `get_regions`, per sequence (the order in which sequences are listed is not
    constrained by the property) -/
def scanSpecB (seqs : List (String × List Char)) (out : List Region) : List String :=
  let names := seqs.map (·.1)
  let perSeq (f : String → List Char → List Region → Bool) : Bool :=
    seqs.all fun sq => f sq.1 sq.2 (out.filter (fun r => r.1 == sq.1))
  (if out.all (fun r => names.contains r.1) then [] else ["scan_known_sequences"]) ++
  (if perSeq (fun _ w rs => rs.all (fun r => isMaxRunB w r.2.1 r.2.2)) then []
   else ["scan_each_is_maximal_run"]) ++
  (if perSeq (fun _ _ rs => pairwiseB (fun a b => a.2.2 < b.2.1) rs) then []
   else ["scan_sorted_separated"]) ++
  (if perSeq (fun _ w rs => (List.range w.length).all fun p =>
        !nonN w p || rs.any (fun r => r.2.1 ≤ p && p < r.2.2)) then []
   else ["scan_covers_every_nonN"])

structure AccessIn where
  seqs : List (String × List Char)
  excl : List Table
  minGap : Int
  skip : Bool

/-- base `p` of sequence `c` is neither 'N' nor in a region of any exclude file -/
def accessibleB (inp : AccessIn) (c : String) (w : List Char) (p : Int) : Bool :=
  decide (0 ≤ p) && nonN w p.toNat && inp.excl.all (fun t => !covb t c p)

/-- maximal runs of accessible bases of one sequence, by position -/
def accRunsGo (f : Nat → Bool) : Nat → Nat → Option Nat → List Run
  | 0, pos, rs => emitOpen rs pos
  | k + 1, pos, rs =>
    if f pos then accRunsGo f k (pos + 1) (match rs with | none => some pos | some s => some s)
    else emitOpen rs pos ++ accRunsGo f k (pos + 1) none

def accRuns (inp : AccessIn) (c : String) (w : List Char) : List Run :=
  accRunsGo (fun p => accessibleB inp c w (p : Int)) w.length 0 none

def consecPairs {α} (l : List α) : List (α × α) := l.zip (l.drop 1)

/-- the classes of names the property itself lists as non-canonical (alt, random, Un, HLA, EBV,
    mitochondrial), written out independently of the rule read from the source -/
def propertyNoncanonicalClasses : List (Bool × List (Option Char) × Bool) :=
  [(false, "_alt".toList.map some, true), (false, "_random".toList.map some, true),
   (false, "Un_".toList.map some, false), (true, "HLA-".toList.map some, false),
   (true, "chrEBV".toList.map some, true), (false, "chrM".toList.map some, false),
   (false, "MT".toList.map some, false)]

/-- clauses for `do_access` -/
def accessSpecB (inp : AccessIn) (out : Table) : List String :=
  let kept := inp.seqs.filter (fun sq => !inp.skip || isCanonicalName sq.1)
  let dropped := inp.seqs.filter (fun sq => inp.skip && !isCanonicalName sq.1)
  let rowsFor (c : String) := out.filter (fun r => r.chrom == c)
  let perKept (f : String → List Char → List Run → List Row → Bool) : Bool :=
    kept.all fun sq => f sq.1 sq.2 (accRuns inp sq.1 sq.2) (rowsFor sq.1)
  let smallGap (runs : List Run) (p : Int) : Bool :=
    (consecPairs runs).any fun ab =>
      ((ab.1.2 : Int) ≤ p && p < (ab.2.1 : Int)) && ((ab.2.1 : Int) - (ab.1.2 : Int) < inp.minGap)
  (if out.all (fun r => r.s < r.e) then [] else ["access_regions_nonempty"]) ++
  (if inp.seqs.all (fun sq => pairwiseB (fun a b => a.e < b.s) (rowsFor sq.1)) then []
   else ["access_sorted_separated"]) ++
  (if out.all (fun r => inp.seqs.any (fun sq => sq.1 == r.chrom && 0 ≤ r.s && r.e ≤ (sq.2.length : Int)))
   then [] else ["access_inside_known_sequences"]) ++
  (if dropped.all (fun sq => (rowsFor sq.1).isEmpty) then [] else ["access_noncanonical_dropped_iff_on"]) ++
  (if inp.seqs.all (fun sq => !(inp.skip && ruleMatches propertyNoncanonicalClasses sq.1.toList) ||
        (rowsFor sq.1).isEmpty) then [] else ["access_named_classes_dropped"]) ++
  (if perKept (fun c w runs rows => rows.all fun r => (posRange r.s r.e).all fun p =>
        accessibleB inp c w p || smallGap runs p) then []
   else ["access_no_N_or_excluded_unless_bridged"]) ++
  (if perKept (fun _ _ runs rows => runs.all fun a =>
        rows.any (fun r => r.s ≤ (a.1 : Int) && (a.2 : Int) ≤ r.e)) then []
   else ["access_covers_all_accessible"]) ++
  (if perKept (fun _ _ runs rows => (consecPairs runs).all fun ab =>
        !((ab.2.1 : Int) - (ab.1.2 : Int) < inp.minGap) ||
        rows.any (fun r => r.s ≤ (ab.1.1 : Int) && (ab.2.2 : Int) ≤ r.e)) then []
   else ["access_small_gaps_joined"]) ++
  (if perKept (fun _ _ runs rows => (consecPairs runs).all fun ab =>
        ((ab.2.1 : Int) - (ab.1.2 : Int) < inp.minGap) ||
        rows.all (fun r => !(r.s < (ab.2.1 : Int) && (ab.1.2 : Int) < r.e))) then []
   else ["access_large_gaps_kept"])

end CnvVerif
