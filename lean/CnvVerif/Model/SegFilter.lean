/-
  Model of cnvlib/segfilters.py: enumerate_changes, squash_by_groups, squash_region and the
  level functions of the `cn`, `ci`, `sem`, `ampdel` filters.  Core Lean only.
-/
import CnvVerif.Basic
import CnvVerif.Generated.CallConsts
import CnvVerif.Model.Descriptives
namespace CnvVerif

/-- a segment row (`.cns`) with the columns the filters read -/
structure Seg where
  chrom : String
  s : Int
  e : Int
  gene : String
  log2 : Rat
  probes : Int
  weight : Rat
  cn : Option Rat := none      -- integer calls; a squashed row may carry a weighted median
  cn1 : Option Rat := none
  cn2 : Option Rat := none
  ciLo : Option Rat := none
  ciHi : Option Rat := none
  sem : Option Rat := none
deriving Repr, Inhabited, DecidableEq

def ratAbs (q : Rat) : Rat := if q < 0 then -q else q

/-- `enumerate_changes` as it was before the repair proposed in
    `proposed_fixes/C14-fractional-levels-merged.diff`:
    `levels.diff().fillna(0).abs().cumsum().astype(int)` -- the SIZES of the changes are accumulated and the
    sum is truncated, so levels less than 1 apart (a weighted-median cn of 5.5 next to 5) share a key.
    Kept for `Props/C14.lean: enumerate_changes_prefix_counterexample`. -/
def enumChangesPrefixGo (acc : Rat) (prev : Option Rat) : List (Option Rat) → List Int
  | [] => []
  | x :: xs =>
    let d : Rat := match prev, x with
      | some a, some b => ratAbs (b - a)
      | _, _ => 0
    let acc' := acc + d
    -- astype(int): truncation toward zero of a non-negative number = floor
    acc'.floor :: enumChangesPrefixGo acc' x xs

def enumChangesPrefix : List (Option Rat) → List Int
  | [] => []
  | x :: xs => 0 :: enumChangesPrefixGo 0 x xs

/-- `enumerate_changes` (repaired): `levels.diff().fillna(0).ne(0).cumsum()` -- the running COUNT of the
    changes; a missing value (NaN) makes the differences next to it NaN, which `fillna(0)` turns into
    "no change" -/
def enumChangesGo (acc : Int) (prev : Option Rat) : List (Option Rat) → List Int
  | [] => []
  | x :: xs =>
    let d : Int := match prev, x with
      | some a, some b => if a = b then 0 else 1
      | _, _ => 0
    (acc + d) :: enumChangesGo (acc + d) x xs

def enumChanges : List (Option Rat) → List Int
  | [] => []
  | x :: xs => 0 :: enumChangesGo 0 x xs

/-- position of the row's chromosome among `cnarr["chromosome"].unique()` -/
def chromOrdinal (names : List String) (c : String) : Int := (names.idxOf c : Nat)

/-- pandas `groupby(keys, sort=False)`: groups in order of first appearance of the key,
    members in table order (not assumed consecutive) -/
def groupByKey {α κ} [BEq κ] (key : α → κ) (l : List α) : List (List α) :=
  ((l.map key).eraseDups).map (fun k => l.filter (fun x => key x == k))

def sumRat (l : List Rat) : Rat := l.foldl (· + ·) 0
def sumInt (l : List Int) : Int := l.foldl (· + ·) 0

/-- `squash_region` (columns chromosome, start, end, log2, gene, probes, weight, and `cn`/`cn1` as the
    weighted median of the run's values) -/
def squashRegion (rows : List Seg) : Option Seg :=
  match rows with
  | [] => none
  | first :: _ =>
    let last := rows.getLast?.getD first
    let w := sumRat (rows.map (·.weight))
    let log2 := if w > 0 then sumRat (rows.map (fun r => r.log2 * r.weight)) / w
                else sumRat (rows.map (·.log2)) / (rows.length : Rat)
    -- `weighted_median(values, weights)` (np.median when the run carries no weight): the common value when all
    -- members agree (every filter but `ampdel` only squashes such runs); otherwise C19's model of the repaired
    -- function on the pairs sorted by value (any order among equal values gives the same answer:
    -- C19 `wmedian_tie_order_unobservable`); missing when a member has no value
    let agree (f : Seg → Option Rat) : Option Rat :=
      if rows.all (fun r => f r == f first) then f first
      else match rows.mapM f with
        | none => none
        | some vals =>
          if w > 0 then
            let pairs := (vals.zip (rows.map (·.weight))).mergeSort (fun a b => decide (a.1 ≤ b.1))
            some (Desc.wmedSorted (Desc.wmedTol pairs) pairs)
          else some (Desc.median vals)
    let cn := agree (·.cn)
    let cn1 := agree (·.cn1)
    some { chrom := first.chrom, s := first.s, e := last.e,
           gene := joinStrings (rows.map (·.gene)), log2 := log2,
           probes := sumInt (rows.map (·.probes)), weight := w,
           cn := cn, cn1 := cn1,
           cn2 := match cn, cn1 with | some a, some b => some (a - b) | _, _ => none }

/-- `squash_by_groups(cnarr, levels)` (by_arm = False).  Repaired code (fix T): a missing
    allele-specific copy number (`fillna(-1)`) is a level of its own. -/
def squashByGroups (hasCn1 : Bool) (t : List Seg) (levels : List (Option Rat)) : List Seg :=
  let names := (t.map (·.chrom)).eraseDups
  let change := enumChanges levels
  let keys : List Int := (change.zip t).map (fun p => p.1 + chromOrdinal names p.2.chrom)
  let g1 := if hasCn1 then enumChanges (t.map (fun r => some (r.cn1.getD (-1)))) else t.map (fun _ => 0)
  let g2 := if hasCn1 then enumChanges (t.map (fun r => some (r.cn2.getD (-1)))) else t.map (fun _ => 0)
  let tagged : List ((Int × Int × Int) × Seg) := (keys.zip (g1.zip g2)).zip t
  (groupByKey (·.1) tagged).filterMap (fun g => squashRegion (g.map (·.2)))

/-! ### level functions -/

def levelCn (r : Seg) : Option Rat := r.cn

/-- `ci`: 1 when ci_lo > 0, −1 when ci_hi < 0 (the second assignment wins), else 0 -/
def levelCi (r : Seg) : Option Rat :=
  let lo := r.ciLo.getD 0
  let hi := r.ciHi.getD 0
  some (if hi < 0 then -1 else if lo > 0 then 1 else 0)

/-- `sem`: log2 ± zscore·sem, zscore read from the source (round 4: a missing sem gives the neutral level, as numpy's
    comparisons with NaN do; before, the model read it as sem = 0) -/
def levelSem (r : Seg) : Option Rat :=
  match r.sem with
  | none => some 0     -- a missing sem (NaN): both comparisons `log2 ± NaN ≷ 0` are False, the row stays neutral
  | some s =>
    let m := s * Generated.SEM_ZSCORE
    some (if r.log2 + m < 0 then -1 else if r.log2 - m > 0 then 1 else 0)

/-- `ampdel`: −1 for cn = 0, +1 for cn ≥ 5 (cut-offs read from the source), else 0 -/
def levelAmpdel (r : Seg) : Option Rat :=
  let c := r.cn.getD 0
  let amp := Generated.AMPDEL_AMP_MIN.all (fun k => decide (c ≥ (k : Rat)))
  let del := Generated.AMPDEL_DEL_EQ.all (fun k => decide (c = (k : Rat)))
  some (if amp then 1 else if del then -1 else 0)

def filterCn (h : Bool) (t : List Seg) : List Seg := squashByGroups h t (t.map levelCn)
def filterCi (h : Bool) (t : List Seg) : List Seg := squashByGroups h t (t.map levelCi)
def filterSem (h : Bool) (t : List Seg) : List Seg := squashByGroups h t (t.map levelSem)

/-- `ampdel` squashes by level and keeps the runs whose level is not neutral (every member of a
    kept run has cn = 0, resp. cn ≥ 5, hence so has their weighted median) -/
def filterAmpdel (hasCn1 : Bool) (t : List Seg) : List Seg :=
  let names := (t.map (·.chrom)).eraseDups
  let levels := t.map levelAmpdel
  let change := enumChanges levels
  let keys : List Int := (change.zip t).map (fun p => p.1 + chromOrdinal names p.2.chrom)
  let g1 := if hasCn1 then enumChanges (t.map (fun r => some (r.cn1.getD (-1)))) else t.map (fun _ => 0)
  let g2 := if hasCn1 then enumChanges (t.map (fun r => some (r.cn2.getD (-1)))) else t.map (fun _ => 0)
  let tagged : List ((Int × Int × Int) × Seg) := (keys.zip (g1.zip g2)).zip t
  (groupByKey (·.1) tagged).filterMap (fun g =>
    match g with
    | [] => none
    | x :: _ => if levelAmpdel x.2 == some 0 then none else squashRegion (g.map (·.2)))

/-! ### specification in the property's words -/

/-- maximal runs of consecutive rows on one chromosome sharing the level `lv` -/
def splitRuns {κ} [BEq κ] (lv : Seg → κ) : List Seg → List (List Seg)
  | [] => []
  | x :: xs =>
    match splitRuns lv xs with
    | [] => [[x]]
    | (y :: ys) :: rest =>
      if x.chrom == y.chrom && lv x == lv y then (x :: y :: ys) :: rest else [x] :: (y :: ys) :: rest
    | [] :: rest => [x] :: rest

/-- full level of a row for a filter: the filter's own level plus the allele-specific copy
    numbers when the table carries them -/
def fullLevel (hasCn1 : Bool) (f : Seg → Option Rat) (r : Seg) : Option Rat × Option Rat × Option Rat :=
  if hasCn1 then (f r, r.cn1, r.cn2) else (f r, none, none)

def specSquash (hasCn1 : Bool) (f : Seg → Option Rat) (t : List Seg) : List Seg :=
  (splitRuns (fullLevel hasCn1 f) t).filterMap squashRegion

/-- what `ampdel` makes of one group: nothing when its first row is neutral, the squashed run otherwise -/
def ampdelPick (g' : List Seg) : Option Seg :=
  match g' with
  | [] => none
  | x :: _ => if levelAmpdel x == some 0 then none else squashRegion g'

/-- a run `ampdel` keeps: its first (hence every) member is deleted or amplified -/
def ampdelKeep (g : List Seg) : Bool :=
  match g with
  | [] => false
  | x :: _ => levelAmpdel x != some 0

/-- the run-based wording of `ampdel`: the maximal runs of equal amplified / deleted / neutral status (and equal
    allele-specific copy numbers), the neutral ones dropped, each of the others squashed to one row -/
def specAmpdel (h : Bool) (t : List Seg) : List Seg :=
  ((splitRuns (fullLevel h levelAmpdel) t).filter ampdelKeep).filterMap squashRegion

end CnvVerif
