/-
  Extension of Model/Center.lean (C15): `compare_to_auto` / `compare_chrom` / `compare_sex_chromosomes`
  (cnvlib/cnary.py) computed FROM THE BIN VALUES instead of from pre-digested comparison records:

  * the contingency table `scipy.stats.median_test(auto, vals, ties="ignore")` builds (exact integer counts
    around the grand median of the pooled values), and the cases in which that call raises `ValueError`
    (a zero row: "All values are above/below the grand median"; a zero column: "All values in sample k are
    equal to the grand median") — then `compare_to_auto` has no statistic and `compare_chrom` falls back to the
    ratio of median differences;
  * scipy's G statistic itself (log-likelihood ratio with Yates' correction) stays a parameter `G`;
  * the unweighted median difference, exact.

  Core Lean only.
-/
import CnvVerif.Model.Center
namespace CnvVerif

/-- contingency table of Mood's median test for the two samples (autosomes, the sex chromosome):
    counts strictly above / strictly below the grand median; ties are ignored -/
structure MoodTable where
  aAbove : Nat
  aBelow : Nat
  vAbove : Nat
  vBelow : Nat
deriving Repr, DecidableEq, Inhabited

/-- `median_test(auto_l, vals, ties="ignore")`: the table before any statistic is computed -/
def moodTable (auto vals : List Rat) : MoodTable :=
  let g := medianR (auto ++ vals)
  { aAbove := auto.countP (fun v => decide (g < v)), aBelow := auto.countP (fun v => decide (v < g)),
    vAbove := vals.countP (fun v => decide (g < v)), vBelow := vals.countP (fun v => decide (v < g)) }

/-- `median_test` raises `ValueError` (caught by `compare_to_auto`: `stat = None`) when a row or a column of
    the table is all zero -/
def MoodTable.degenerate (t : MoodTable) : Bool :=
  (t.aAbove + t.vAbove == 0) || (t.aBelow + t.vBelow == 0) ||
  (t.aAbove + t.aBelow == 0) || (t.vAbove + t.vBelow == 0)

/-- `0 in cont` -/
def MoodTable.hasZero (t : MoodTable) : Bool :=
  (t.aAbove == 0) || (t.aBelow == 0) || (t.vAbove == 0) || (t.vBelow == 0)

/-- `compare_to_auto(vals, None)` for tables without a weight column; `G` = scipy's statistic of a
    non-degenerate table -/
def compareToAuto (G : MoodTable → Rat) (auto vals : List Rat) : AutoCmp :=
  let t := moodTable auto vals
  let stat : Option Rat :=
    if t.degenerate then none
    else if G t == 0 && t.hasZero then none else some (G t)
  { stat := stat, diff := absR (medianR auto - medianR vals) }

/-- the record `compare_to_auto` yields when Mood's test gives no statistic -/
def fallbackCmp (auto vals : List Rat) : AutoCmp :=
  { stat := none, diff := absR (medianR auto - medianR vals) }

/-- `vals + shift` -/
def shiftVals (vals : List Rat) (shift : Rat) : List Rat := vals.map (· + shift)

/-- `compare_chrom(vals, None, female_shift, male_shift)` with the helper `compare_to_auto` abstract -/
def compareChromOf {α : Type} (cta : α → AutoCmp) (shift : α → Rat → α) (vals : α)
    (femaleShift maleShift : Rat) : Rat :=
  compareChrom (cta (shift vals femaleShift)) (cta (shift vals maleShift))

/-- `combined_score` of `compare_sex_chromosomes`: the chrY ratio is multiplied in when chrY has bins -/
def sexScore (chrxLr : Rat) (chryLr : Option Rat) : Rat :=
  match chryLr with
  | some y => chrxLr * y
  | none => chrxLr

/-- `compare_sex_chromosomes` on the log2 values of the autosomes, chrX and chrY (no weight column):
    is the sample male? -/
def sexIsMale (G : MoodTable → Rat) (hapX : Bool) (auto xs ys : List Rat) : Bool :=
  let cta := compareToAuto G auto
  let sx := compareChromOf cta shiftVals xs (xShifts hapX).1 (xShifts hapX).2
  let sy := if ys.isEmpty then none else some (compareChromOf cta shiftVals ys yShifts.1 yShifts.2)
  decide (sexScore sx sy > 1)

/-- the same decision when no Mood statistic is available for any of the comparisons -/
def sexIsMaleFallback (hapX : Bool) (auto xs ys : List Rat) : Bool :=
  let cta := fallbackCmp auto
  let sx := compareChromOf cta shiftVals xs (xShifts hapX).1 (xShifts hapX).2
  let sy := if ys.isEmpty then none else some (compareChromOf cta shiftVals ys yShifts.1 yShifts.2)
  decide (sexScore sx sy > 1)

/-- all four comparisons are degenerate for Mood's test (flat autosomes, tiny tables …) -/
def allDegenerate (hapX : Bool) (auto xs ys : List Rat) : Bool :=
  (moodTable auto (shiftVals xs (xShifts hapX).1)).degenerate &&
  (moodTable auto (shiftVals xs (xShifts hapX).2)).degenerate &&
  (ys.isEmpty || ((moodTable auto (shiftVals ys yShifts.1)).degenerate &&
                  (moodTable auto (shiftVals ys yShifts.2)).degenerate))

/-- every value within `d` of `level` -/
def withinOf (level d : Rat) (l : List Rat) : Bool := l.all fun v => decide (absR (v - level) ≤ d)

/-- the bounded-noise hypothesis of the margin theorem, decidable: autosomes within `d` of `a`, chrX within `d`
    of the level expected for the sex, chrY within `d` of `a` (male) or at least 2 below `a` (female: "deep
    negative"), and `0 ≤ d < 1/4` -/
def withinMargin (hapX female : Bool) (a d : Rat) (auto xs ys : List Rat) : Bool :=
  decide (0 ≤ d) && decide (4 * d < 1) && !auto.isEmpty && !xs.isEmpty &&
  withinOf a d auto &&
  withinOf (a + ((if female then 0 else -1) + (if hapX then 1 else 0))) d xs &&
  (if female then ys.all (fun v => decide (v ≤ a - 2)) else withinOf a d ys)

/-- the decision of `compare_sex_chromosomes` on the median-difference path, from the location estimates alone:
    `A` of the autosomes, `XF` / `XM` of chrX shifted for the female / male hypothesis, and the same pair for chrY
    when it has bins (whatever estimator produced them: `np.median`, or `descriptives.weighted_median` when the table
    has a weight column) -/
def sexIsMaleOfEstimates (A XF XM : Rat) (Y : Option (Rat × Rat)) : Bool :=
  decide (sexScore (absR (A - XF) / max (absR (A - XM)) (1/100))
            (Y.map fun p => absR (A - p.1) / max (absR (A - p.2)) (1/100)) > 1)

end CnvVerif
