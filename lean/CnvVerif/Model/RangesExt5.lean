/-
  Extension 5 of Model/Ranges.lean (C07): `GenomicArray.in_ranges(chrom, starts, ends, mode)` on the argument
  forms DESIGN 9.11 left outside the model -- `starts` / `ends` arrays of UNEQUAL length and EMPTY arrays -- as the
  real code behaves on them (skgenome/gary.py:439, skgenome/intersect.py:136-217), errors included:

  * an EMPTY array is "not given" for every `len(...)` truthiness test of `idx_ranges` / `_irange_simple` /
    `_irange_nested`, but it is not `None`: with both arrays empty or absent-and-empty the binary-search path is
    taken whatever the table looks like (the nested test needs a non-empty array); there `starts` becomes
    `np.zeros(len(ends) if ends is not None else 1)`: `ends = []` gives ZERO queries and `pd.concat` of nothing
    raises `ValueError`, `ends = None` (so `starts = []`) gives the one whole-table query;
  * arrays of unequal length: the binary-search path `zip`s them (truncation to the shorter one), the mask path
    (table whose `end` column is not monotone) stops at `assert len(starts) == len(ends) > 0`;
  * an empty (or, after the chromosome filter, empty) table short-cuts to itself before any of this.
  Core Lean only.
-/
import CnvVerif.Model.RangesExt
namespace CnvVerif

/-- the two exceptions `in_ranges` can leave with on these argument forms -/
inductive C07Err
  | valueError      -- `pd.concat([])`: "No objects to concatenate"
  | assertionError  -- `_irange_nested`: `assert len(starts) == len(ends) > 0`
deriving Repr, DecidableEq, Inhabited

/-- `x is not None and len(x)`: an empty array counts as not given -/
def c07Given : Option (List Int) → Option (List Int)
  | some [] => none
  | x => x

/-- `len(starts) == len(ends)` fails (both arrays given and non-empty) -/
def c07LenMismatch : Option (List Int) → Option (List Int) → Bool
  | some ss, some es => ss.length != es.length
  | _, _ => false

/-- the rows `iter_ranges` works on: `if chrom: table = table[table.chromosome == chrom]` -/
def c07ChromRows (t : Table) (chrom : Option String) : Table :=
  match chrom with
  | some c => if c.isEmpty then t else t.filter (fun r => r.chrom == c)
  | none => t

/-- `GenomicArray.in_ranges(chrom, starts, ends, mode)` for ANY two optional arrays -/
def c07InRangesRaw (t : Table) (chrom : Option String) (starts ends : Option (List Int)) (mode : Mode) :
    Except C07Err Table :=
  let t' := c07ChromRows t chrom
  if t'.isEmpty then .ok t'                                   -- idx_ranges: `not len(table)` → slice(None)
  else match starts, ends with
    | none, none => .ok t'                                    -- idx_ranges: both None → slice(None)
    | _, _ =>
      match c07Given starts, c07Given ends with
      | none, none =>
        -- `_irange_simple` with nothing to search for: `np.zeros(len(ends) if ends is not None else 1)` queries
        if ends.isSome then .error .valueError else .ok t'
      | s', e' =>
        if !isMonotone (t'.map (·.e)) && c07LenMismatch s' e' then .error .assertionError
        else .ok ((zipBounds s' e').map (fun q => selectRange t' q.1 q.2 mode)).flatten

end CnvVerif
