/-
  Glue of cnvlib/segmetrics.py `do_segmetrics` and cnvlib/commands.py `_cmd_segmetrics` around the statistics of
  Model/Stats.lean: which columns the result has and what they hold (pandas `frame[name] = values`: an existing
  column is overwritten in place, a new one is appended), in the order the code assigns them (location statistics,
  spread statistics, `ci_lo`/`ci_hi`, `pi_lo`/`pi_hi` -- whatever the order inside `interval_stats`), and the
  decisions of the command function (alpha guard, nothing to do, output name).  Core Lean only.
-/
import CnvVerif.Model.Stats
namespace CnvVerif.Stats

/-- a table as its columns: name and content, in column order -/
abbrev Frame (α : Type) := List (String × α)

/-- `frame[name] = v` -/
def Frame.assign {α} (f : Frame α) (name : String) (v : α) : Frame α :=
  if f.any (fun c => c.1 == name) then f.map (fun c => if c.1 == name then (name, v) else c)
  else f ++ [(name, v)]

def Frame.assignAll {α} (f : Frame α) (as : List (String × α)) : Frame α :=
  as.foldl (fun g a => g.assign a.1 a.2) f

/-- `frame[name]` -/
def Frame.get? {α} (f : Frame α) (name : String) : Option α := (f.find? (fun c => c.1 == name)).map (·.2)

def Frame.names {α} (f : Frame α) : List String := f.map (·.1)

/-- the column assignments `do_segmetrics` makes, in its order.  `locVal nm` / `spreadVal nm` stand for the array
    the statistic `nm` yields over the segments' bins / deviations; `"ci" in interval_stats` is a membership test. -/
def segmetricsAssigns {α} (loc spread interval : List String) (locVal spreadVal : String → α)
    (ciLo ciHi piLo piHi : α) : List (String × α) :=
  loc.map (fun nm => (nm, locVal nm)) ++ spread.map (fun nm => (nm, spreadVal nm)) ++
    (if interval.contains "ci" then [("ci_lo", ciLo), ("ci_hi", ciHi)] else []) ++
    (if interval.contains "pi" then [("pi_lo", piLo), ("pi_hi", piHi)] else [])

/-- the frame `do_segmetrics` returns, given the segment table's columns -/
def segmetricsFrame {α} (segs : Frame α) (loc spread interval : List String) (locVal spreadVal : String → α)
    (ciLo ciHi piLo piHi : α) : Frame α :=
  segs.assignAll (segmetricsAssigns loc spread interval locVal spreadVal ciLo ciHi piLo piHi)

/-- what `_cmd_segmetrics` does with its arguments -/
inductive CmdOutcome
  | refuse                    -- RuntimeError("alpha must be between 0 and 1.")
  | nothing                   -- "No stats specified": returns without reading or writing anything
  | write (path : String)     -- runs `do_segmetrics` and writes the table there
deriving Repr, DecidableEq, Inhabited

/-- `_cmd_segmetrics(args)`: `0.0 < alpha <= 1.0` or refuse; no statistic in any of the three lists: nothing;
    output = `args.output or segarr.sample_id + ".segmetrics.cns"` (an empty `-o ""` is falsy) -/
def cmdSegmetrics (alpha : Rat) (loc spread interval : List String) (output : Option String)
    (sampleId : String) : CmdOutcome :=
  if !(decide (0 < alpha) && decide (alpha ≤ 1)) then .refuse
  else if loc.isEmpty && spread.isEmpty && interval.isEmpty then .nothing
  else .write (match output with
    | some o => if o.isEmpty then sampleId ++ ".segmetrics.cns" else o
    | none => sampleId ++ ".segmetrics.cns")

/-- `confidence_interval_bootstrap` is where `do_segmetrics` itself looks at alpha: only when a CI is asked for
    and some segment has a bin (`calc_intervals` skips empty groups) -/
def segmetricsAlphaError (alpha : Rat) (interval : List String) (anyBins : Bool) : Bool :=
  interval.contains "ci" && anyBins && !(decide (0 < alpha) && decide (alpha < 1))

end CnvVerif.Stats
