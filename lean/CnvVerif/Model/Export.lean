/-
  Model of cnvlib/export.py (export_bed, export_vcf/segments2vcf, export_seg, merge_samples,
  fmt_cdt, fmt_jtv, export_nexus_basic) and skgenome/tabio/seg.py (write_seg, format_seg,
  create_chrom_ids), as the code is after the two proposed repairs U (export_bed takes the reference
  copies from the class table, like export_vcf) and V (merge_samples keeps sample columns apart from
  the bin columns); the pre-repair behaviour is kept as `ncopiesBedPrefix`, `mergeSamplesPrefix`,
  `fmtJtvPrefix`.  The copy-number tables (chromosome class, reference and
  expected copies, half-even rounding) are those of Model/Call.lean.  Ratio space: a segment
  carries `t`, the exact rational of the double `2**log2`, next to `v`, the double `log2`.
  Core Lean only.
-/
import CnvVerif.Basic
import CnvVerif.Model.Call
import CnvVerif.Generated.ExportConsts
namespace CnvVerif.Export
open CnvVerif

/-! ### segment tables -/

/-- one row of a segment table (.cns) as the exporters see it -/
structure Seg where
  chrom : String
  s : Int
  e : Int
  gene : String
  v : Rat          -- log2
  t : Rat          -- the double `2**log2` as an exact rational
  probes : Int     -- read only when the table has a `probes` column
  cn : Int         -- read only when the table has a `cn` column
deriving Repr, Inhabited, DecidableEq

/-- the arguments shared by `export_bed` and `export_vcf`, plus which optional columns exist -/
structure Cfg where
  ploidy : Nat
  hapX : Bool            -- is_haploid_x_reference
  female : Bool          -- is_sample_female
  par : Option String    -- diploid_parx_genome
  hasCn : Bool           -- `"cn" in segments`
  hasProbes : Bool       -- `"probes" in segments`
deriving Repr, Inhabited

/-- the first row's chromosome decides the naming style (`chr_x_label`) -/
def firstChrom (rows : List Seg) : String := (rows.head?.map (·.chrom)).getD ""

/-- `call.absolute_expect`: the `expect` column of
    `get_as_dframe_and_set_reference_and_expect_copies` (called with a haploid-X reference:
    the reference sex does not enter the expected copies) -/
def expectOf (cfg : Cfg) (first : String) (r : Seg) : Int :=
  ((refExpect cfg.ploidy true cfg.female (classOf first cfg.par r.chrom r.s r.e)).2 : Nat)

def expectCol (cfg : Cfg) (rows : List Seg) : List Int :=
  rows.map (expectOf cfg (firstChrom rows))

/-! ### export_bed -/

inductive ShowMode | all | ploidy | variant
deriving Repr, DecidableEq, Inhabited

structure BedRow where
  chrom : String
  s : Int
  e : Int
  label : String
  ncopies : Int
deriving Repr, DecidableEq, Inhabited

/-- the copy number both exporters state: `segments["cn"]` when the table has that column, else
    `absolute_clonal(segments, ploidy, 1.0, ...)` / `absolute_dataframe(...)["absolute"]` rounded
    half-even: `r * 2^log2` with `r` the reference copies of the segment's class (naming style of the
    first row, PAR).  (Repaired code, fix U: `export_bed` used to take `r` from the chromosome name
    alone, `ncopiesBedPrefix`.) -/
def ncopiesOf (cfg : Cfg) (first : String) (r : Seg) : Int :=
  if cfg.hasCn then r.cn
  else
    let re := refExpect cfg.ploidy cfg.hapX cfg.female (classOf first cfg.par r.chrom r.s r.e)
    roundHE (absoluteOf re.1 re.2 (some 1) r.t)

/-- `export_bed` before fix U: `absolute_pure(segments, ploidy, is_haploid_x_reference)` knows
    nothing of the PAR genome the same call uses for the expected copies -/
def ncopiesBedPrefix (cfg : Cfg) (r : Seg) : Int :=
  if cfg.hasCn then r.cn
  else roundHE ((refCopiesPure r.chrom cfg.ploidy cfg.hapX : Rat) * r.t)

/-- `label if label else segments["gene"]` (Python truthiness: `None` and `""` fall through) -/
def bedLabel (label : Option String) (r : Seg) : String :=
  match label with
  | some l => if l.isEmpty then r.gene else l
  | none => r.gene

def bedRowOf (cfg : Cfg) (first : String) (label : Option String) (r : Seg) : BedRow :=
  { chrom := r.chrom, s := r.s, e := r.e, label := bedLabel label r, ncopies := ncopiesOf cfg first r }

/-- boolean-mask row selection `frame[mask]` -/
def maskSelect {α} : List α → List Bool → List α
  | a :: as, b :: bs => if b then a :: maskSelect as bs else maskSelect as bs
  | _, _ => []

/-- `export_bed`: build the five columns, then drop rows by the `show` mode -/
def exportBed (cfg : Cfg) (label : Option String) (sh : ShowMode) (rows : List Seg) : List BedRow :=
  let out := rows.map (bedRowOf cfg (firstChrom rows) label)
  match sh with
  | .all => out
  | .ploidy => maskSelect out (out.map (fun b => b.ncopies != (cfg.ploidy : Int)))
  | .variant =>
    let exp := expectCol cfg rows
    maskSelect out (List.zipWith (fun (b : BedRow) x => b.ncopies != x) out exp)

/-! ### export_vcf / segments2vcf -/

structure VcfRec where
  chrom : String
  pos : Int
  id : String
  ref : String
  alt : String
  qual : String
  filt : String
  infoKeys : List String
  svtype : String
  endp : Int
  svlen : Int
  fold : Rat
  foldLog : Rat
  probes : Int
  formatKeys : List String
  sample : List String
deriving Repr, DecidableEq, Inhabited

/-- the per-row columns `segments2vcf` prepares before its loop -/
structure VcfCols where
  seg : Seg
  start' : Int      -- `segments.start.replace(0, 1)`
  ncopies : Int
  expect : Int
  loss : Bool       -- idx_losses
  svlen : Int
  svtype : String
  format : List String
deriving Repr, Inhabited

/-- with a `cn` column `abs_expect = absolute_expect(...)`, else the `expect` column of the same
    dataframe the absolute value came from -/
def expectVcf (cfg : Cfg) (first : String) (r : Seg) : Int :=
  if cfg.hasCn then expectOf cfg first r
  else ((refExpect cfg.ploidy cfg.hapX cfg.female (classOf first cfg.par r.chrom r.s r.e)).2 : Nat)

def vcfCols (cfg : Cfg) (first : String) (r : Seg) : VcfCols :=
  let nc := ncopiesOf cfg first r
  let ex := expectVcf cfg first r
  let loss := decide (nc < ex)
  { seg := r
    start' := if r.s == Generated.VCF_POS_REPLACE_FROM then Generated.VCF_POS_REPLACE_TO else r.s
    ncopies := nc
    expect := ex
    loss := loss
    svlen := if loss then (r.e - r.s) * Generated.VCF_SVLEN_LOSS_FACTOR else r.e - r.s
    svtype := if loss then Generated.VCF_SVTYPE_LOSS else Generated.VCF_SVTYPE_GAIN
    format := if loss then Generated.VCF_FORMAT_LOSS else Generated.VCF_FORMAT_GAIN }

/-- `str(out_row.probes).isdigit()`: an integer prints as digits only iff it is not negative; a
    table without the column has NaN there after `reindex` -/
def probesDigit (cfg : Cfg) (r : Seg) : Bool := cfg.hasProbes && decide (0 ≤ r.probes)

def infoKeys : List String :=
  ["IMPRECISE", "SVTYPE", "END", "SVLEN", "FOLD_CHANGE", "FOLD_CHANGE_LOG", "PROBES"]

/-- the body of the loop in `segments2vcf` for one row -/
def vcfEmit (cfg : Cfg) (c : VcfCols) : Option VcfRec :=
  if c.ncopies == c.expect || !(probesDigit cfg c.seg) then none
  else
    let genotype : List String :=
      if c.ncopies > c.expect then ["0/1", "0", toString c.ncopies, toString c.seg.probes]
      else if c.ncopies < c.expect then
        [if c.ncopies == 0 then "1/1" else "0/1", toString c.seg.probes]
      else []
    some { chrom := c.seg.chrom, pos := c.start', id := ".", ref := "N",
           alt := "<" ++ c.svtype ++ ">", qual := ".", filt := ".",
           infoKeys := infoKeys, svtype := c.svtype, endp := c.seg.e, svlen := c.svlen,
           fold := c.seg.t, foldLog := c.seg.v, probes := c.seg.probes,
           formatKeys := c.format, sample := genotype }

def segments2vcf (cfg : Cfg) (rows : List Seg) : List VcfRec :=
  let first := firstChrom rows
  (rows.map (vcfCols cfg first)).filterMap (vcfEmit cfg)

/-- the last header column of `export_vcf`: `sample_id or segments.sample_id` -/
def vcfSampleColumn (sampleArg : Option String) (segId : String) : String :=
  match sampleArg with
  | some s => if s.isEmpty then segId else s
  | none => segId

/-! ### export_seg / write_seg -/

structure SegSample where
  id : String
  hasProbes : Bool
  rows : List Seg
deriving Repr, Inhabited

structure SegOut where
  id : String
  chrom : String          -- renumbered chromosomes are rendered with `str`
  start : Int
  endp : Int
  probes : Option Int     -- none: the sample has no `probes` column (NaN after `concat`)
  mean : Rat
deriving Repr, DecidableEq, Inhabited

/-- `create_chrom_ids`: chromosomes in order of first appearance numbered from 1, leaving out a
    chromosome whose name already is its number -/
def createChromIds (first : List Seg) : List (String × Nat) :=
  ((first.map (·.chrom)).eraseDups.zipIdx).filterMap
    (fun (c, i) => if toString (i + 1) != c then some (c, i + 1) else none)

/-- `Series.replace(mapping)`: names not in the mapping stay -/
def renameChrom (ids : List (String × Nat)) (c : String) : String :=
  match ids.find? (fun p => p.1 == c) with
  | some p => toString p.2
  | none => c

/-- `format_seg` -/
def formatSeg (ids : List (String × Nat)) (sm : SegSample) : List SegOut :=
  sm.rows.map fun r =>
    { id := sm.id, chrom := renameChrom ids r.chrom, start := r.s + Generated.SEG_START_SHIFT, endp := r.e,
      probes := if sm.hasProbes then some r.probes else none, mean := r.v }

/-- `export_seg` → `write_seg(dframes, sample_ids, chrom_ids)`; `chrom_ids` is `False` or `True`
    (`--enumerate-chroms`): `True` numbers the chromosomes of the *first* sample -/
def exportSeg (enumerate : Bool) (samples : List SegSample) : List SegOut :=
  match samples with
  | [] => []
  | first :: _ =>
    let ids := if enumerate then createChromIds first.rows else []
    samples.flatMap (formatSeg ids)

/-! ### merge_samples, fmt_cdt, fmt_jtv, export_nexus_basic -/

structure Bin where
  chrom : String
  s : Int
  e : Int
  gene : String
  v : Rat
deriving Repr, DecidableEq, Inhabited

structure BinSample where
  id : String
  bins : List Bin
deriving Repr, Inhabited

inductive Cell
  | str (s : String)
  | int (i : Int)
  | num (q : Rat)
deriving Repr, DecidableEq, Inhabited

/-- a DataFrame with the default index: named columns in order -/
abbrev Frame := List (String × List Cell)

def Frame.has (f : Frame) (k : String) : Bool := f.any (fun c => c.1 == k)

def Frame.col (f : Frame) (k : String) : Option (List Cell) :=
  (f.find? (fun c => c.1 == k)).map (·.2)

/-- `frame[k] = column`: overwrite in place when the name exists, else append -/
def Frame.set (f : Frame) (k : String) (col : List Cell) : Frame :=
  if f.has k then f.map (fun c => if c.1 == k then (k, col) else c) else f ++ [(k, col)]

/-- `frame.drop(names, axis=1)` -/
def Frame.drop (f : Frame) (ks : List String) : Frame := f.filter (fun c => !(ks.contains c.1))

/-- `label_with_gene`: `f"{chromosome}:{start}-{end}:{gene}"` -/
def labelWithGene (b : Bin) : String :=
  b.chrom ++ ":" ++ toString b.s ++ "-" ++ toString b.e ++ ":" ++ b.gene

/-- `rangelabel.to_label`: `f"{chromosome}:{start + 1}-{end}"` -/
def toLabel (b : Bin) : String :=
  b.chrom ++ ":" ++ toString (b.s + 1) ++ "-" ++ toString b.e

def reservedCols : List String := ["chromosome", "start", "end", "gene", "label"]

inductive MergeErr
  | mismatch (fileIdx : Nat)     -- ValueError("Mismatched row coordinates in ...")
  | duplicate (id : String)      -- ValueError("Duplicate sample ID: ...")
deriving Repr, DecidableEq, Inhabited

def log2Col (sm : BinSample) : List Cell := sm.bins.map (fun b => Cell.num b.v)
def labelCol (sm : BinSample) : List Cell := sm.bins.map (fun b => Cell.str (labelWithGene b))

/-- the loop of `merge_samples` over the second and later samples; `labels` is
    `out_table["label"]`, `cols` the sample columns collected so far (repaired code, fix V: they
    are kept apart from the five bin columns, so a sample named "gene" or "start" is still a sample) -/
def mergeLoop (labels : List Cell) : Frame → Nat → List BinSample → Except MergeErr Frame
  | cols, _, [] => .ok cols
  | cols, k, sm :: rest =>
    -- `len(cnarr) == len(out_table) and (label_with_gene(cnarr) == out_table["label"]).all()`
    if labels != labelCol sm then .error (.mismatch k)
    else if cols.has sm.id then .error (.duplicate sm.id)
    else mergeLoop labels (cols ++ [(sm.id, log2Col sm)]) (k + 1) rest

/-- the five bin columns of the merged table -/
def binCols (first : BinSample) : Frame :=
  [("chromosome", first.bins.map (fun b => Cell.str b.chrom)),
   ("start", first.bins.map (fun b => Cell.int b.s)),
   ("end", first.bins.map (fun b => Cell.int b.e)),
   ("gene", first.bins.map (fun b => Cell.str b.gene)),
   ("label", labelCol first)]

/-- `merge_samples` (at least one file): bin columns, then one column per sample -/
def mergeSamples : List BinSample → Except MergeErr Frame
  | [] => .ok []
  | first :: rest =>
    match mergeLoop (labelCol first) [(first.id, log2Col first)] 1 rest with
    | .ok cols => .ok (binCols first ++ cols)
    | .error e => .error e

/-- `merge_samples` before fix V: every sample column was written into the one table *by name*
    (`out_table[sample_id] = log2`), after the five bin columns -/
def mergeLoopPrefix : Frame → Nat → List BinSample → Except MergeErr Frame
  | f, _, [] => .ok f
  | f, k, sm :: rest =>
    if (f.col "label") != some (labelCol sm) then .error (.mismatch k)
    else if f.has sm.id then .error (.duplicate sm.id)
    else mergeLoopPrefix (f.set sm.id (log2Col sm)) (k + 1) rest

def mergeSamplesPrefix : List BinSample → Except MergeErr Frame
  | [] => .ok []
  | first :: rest => mergeLoopPrefix ((binCols first).set first.id (log2Col first)) 1 rest

/-- number of rows of a frame (all columns are equally long) -/
def Frame.nrows (f : Frame) : Nat := (f.head?.map (·.2.length)).getD 0

/-- `itertuples(index=False)` of the listed columns -/
def rowsOf (n : Nat) (cols : List (List Cell)) : List (List Cell) :=
  (List.range n).map fun i => cols.map fun c => c.getD i (Cell.str "")

/-- `fmt_jtv`: (header, rows) -/
def fmtJtv (ids : List String) (f : Frame) : List String × List (List Cell) :=
  let n := f.nrows
  let name := ((f[4]?).map (·.2)).getD []      -- `table.iloc[:, 4]`
  let rest := (List.drop 5 f).map (·.2)        -- `table.iloc[:, 5:]`
  (["CloneID", "Name"] ++ ids,
   rowsOf n ([List.replicate n (Cell.str "IMAGE:"), name] ++ rest))

/-- `fmt_jtv` before fix V: bin columns found and dropped *by name* -/
def fmtJtvPrefix (ids : List String) (f : Frame) : List String × List (List Cell) :=
  let n := f.nrows
  let name := (f.col "label").getD []
  let rest := (f.drop reservedCols).map (·.2)
  (["CloneID", "Name"] ++ ids,
   rowsOf n ([List.replicate n (Cell.str "IMAGE:"), name] ++ rest))

/-- `str(i).zfill(3)` -/
def zfill3 (i : Nat) : String :=
  let s := toString i
  String.ofList (List.replicate (3 - s.length) '0') ++ s

/-- `fmt_cdt`: (header, rows); the first two rows are the AID / EWEIGHT header rows -/
def fmtCdt (ids : List String) (f : Frame) : List String × List (List Cell) :=
  let n := f.nrows
  let name := ((f[4]?).map (·.2)).getD []
  let rest := (List.drop 5 f).map (·.2)
  let gid := (List.range n).map (fun i => Cell.str ("GENE" ++ toString i ++ "X"))
  let clid := (List.range n).map (fun i => Cell.str ("IMAGE:" ++ toString i))
  let header2 := (["AID", "", "", ""] ++ (List.range ids.length).map (fun i => "ARRY" ++ zfill3 i ++ "X")).map Cell.str
  let header3 := (["EWEIGHT", "", "", ""] ++ List.replicate ids.length "1").map Cell.str
  (["GID", "CLID", "NAME", "GWEIGHT"] ++ ids,
   [header2, header3] ++ rowsOf n ([gid, clid, name, List.replicate n (Cell.int 1)] ++ rest))

/-- `export_nexus_basic`: chromosome, start, end, gene, log2, probe (= `labels()`) -/
def nexusBasic (bins : List Bin) : List (List Cell) :=
  bins.map fun b => [Cell.str b.chrom, Cell.int b.s, Cell.int b.e, Cell.str b.gene, Cell.num b.v,
                     Cell.str (toLabel b)]

/-! ### the property's wording, as decidable specifications (evaluated by the driver on the
    implementation's output, and proved of the model in Lemmas/Export.lean) -/

/-- the copy number expected for the segment's chromosome and the sample's sex -/
def expectedCopies (cfg : Cfg) (first : String) (r : Seg) : Int :=
  match classOf first cfg.par r.chrom r.s r.e with
  | .auto => cfg.ploidy
  | .parx => cfg.ploidy
  | .x => if cfg.female then (cfg.ploidy : Int) else ((cfg.ploidy / 2 : Nat) : Int)
  | .y => if cfg.female then 0 else ((cfg.ploidy / 2 : Nat) : Int)
  | .pary => 0

/-- BED: every segment / those whose copy number differs from the ploidy / from the expected one -/
def bedKeep (cfg : Cfg) (first : String) (sh : ShowMode) (r : Seg) : Bool :=
  match sh with
  | .all => true
  | .ploidy => ncopiesOf cfg first r != (cfg.ploidy : Int)
  | .variant => ncopiesOf cfg first r != expectedCopies cfg first r

def bedSpec (cfg : Cfg) (label : Option String) (sh : ShowMode) (rows : List Seg) : List BedRow :=
  (rows.filter (bedKeep cfg (firstChrom rows) sh)).map (bedRowOf cfg (firstChrom rows) label)

/-- VCF: a segment is reported iff its copy number differs from the expected one -/
def vcfKeep (cfg : Cfg) (first : String) (r : Seg) : Bool :=
  ncopiesOf cfg first r != expectedCopies cfg first r

/-- the record the property describes for a reported segment -/
def vcfRecOf (cfg : Cfg) (first : String) (r : Seg) : VcfRec :=
  let nc := ncopiesOf cfg first r
  let loss := decide (nc < expectedCopies cfg first r)
  let ty := if loss then "DEL" else "DUP"
  { chrom := r.chrom, pos := if r.s = 0 then 1 else r.s, id := ".", ref := "N",
    alt := "<" ++ ty ++ ">", qual := ".", filt := ".", infoKeys := infoKeys, svtype := ty,
    endp := r.e, svlen := if loss then -(r.e - r.s) else r.e - r.s,
    fold := r.t, foldLog := r.v, probes := r.probes,
    formatKeys := if loss then ["GT", "GQ"] else ["GT", "GQ", "CN", "CNQ"],
    sample := if loss then [if nc = 0 then "1/1" else "0/1", toString r.probes]
              else ["0/1", "0", toString nc, toString r.probes] }

def vcfSpec (cfg : Cfg) (rows : List Seg) : List VcfRec :=
  (rows.filter (vcfKeep cfg (firstChrom rows))).map (vcfRecOf cfg (firstChrom rows))

/-- the value of a FORMAT key in the sample field -/
def sampleField (r : VcfRec) (key : String) : Option String :=
  ((r.formatKeys.zip r.sample).find? (fun p => p.1 == key)).map (·.2)

/-- SEG: every sample's segments, in order, under its ID, start + 1 -/
def segSpecRow (sm : SegSample) (r : Seg) : SegOut :=
  { id := sm.id, chrom := r.chrom, start := r.s + 1, endp := r.e,
    probes := if sm.hasProbes then some r.probes else none, mean := r.v }

def segSpec (samples : List SegSample) : List SegOut :=
  samples.flatMap (fun sm => sm.rows.map (segSpecRow sm))

/-- bins of two samples agree (coordinates and gene) -/
def sameBins (a b : BinSample) : Bool :=
  a.bins.map (fun x => (x.chrom, x.s, x.e, x.gene)) == b.bins.map (fun x => (x.chrom, x.s, x.e, x.gene))

/-- the table rows the property describes: one per bin of the first sample, carrying the bin's
    label and every sample's log2 of that bin, in sample order -/
def tableBody (samples : List BinSample) : List (String × List Rat) :=
  match samples with
  | [] => []
  | first :: _ =>
    first.bins.zipIdx.map fun (b, i) =>
      (labelWithGene b, samples.map (fun sm => ((sm.bins.map (·.v)).getD i 0)))

end CnvVerif.Export
