/-
  C09, round 5: the text side of `bedcov` (cnvlib/coverage.py) -- `detect_bedcov_columns` and the `pd.read_csv` call
  that turns the text samtools bedcov prints into the table (chromosome, start, end, gene?, fillers.., basecount).

  Text = `List Char`.  What samtools prints (the trusted contract, exercised for real by op "cov") is, per line of the
  regions file, the line itself followed by a TAB and the base count, each line terminated by '\n': `bedcovOutput`.

  The code, as it is:
    * `if not raw: raise ValueError(..)`                                  -> `Err.empty`
    * `firstline = text[: text.index("\n")]` (ValueError without a '\n')     -> `Err.noNewline`
    * `tabcount = firstline.count("\t")`; `< 3` raises RuntimeError          -> `Err.badLine`
    * 3 -> 4 names, 4 -> 5 names (with `gene`), more -> `gene`, `_1` .. `_{tabcount-4}`, `basecount`
    * `read_csv(sep="\t", names=columns, usecols=columns, keep_default_na=.., na_values=..)`: the text is cut at '\n',
      empty lines are skipped, each line is cut at TAB, padded with missing cells / truncated to the number of names,
      a cell whose text is a missing-value marker is missing.  (Quote characters are outside this model: the
      generator does not produce them.)
  No Mathlib.
-/
namespace CnvVerif.C09Cols

/-- the three ways `bedcov` refuses a text -/
inductive Err where
  | empty       -- ValueError: chromosome names don't match any in the BAM file
  | noNewline   -- ValueError: substring not found (`text.index("\n")`)
  | badLine     -- RuntimeError: Bad line from bedcov
  deriving DecidableEq, Repr

/-- the Python exception class of each refusal -/
def Err.pyName : Err → String
  | .empty => "ValueError"
  | .noNewline => "ValueError"
  | .badLine => "RuntimeError"

/-- `s.split(c)` of Python on a character list: always at least one piece -/
def splitOn (c : Char) : List Char → List (List Char)
  | [] => [[]]
  | x :: xs =>
    if x = c then [] :: splitOn c xs
    else match splitOn c xs with
      | h :: t => (x :: h) :: t
      | [] => [[x]]

/-- `c.join(pieces)` -/
def joinWith (c : Char) : List (List Char) → List Char
  | [] => []
  | [f] => f
  | f :: g :: r => f ++ c :: joinWith c (g :: r)

/-- `text[: text.index("\n")]`; `none` = ValueError -/
def firstLine (t : List Char) : Option (List Char) :=
  if '\n' ∈ t then some (t.takeWhile (· ≠ '\n')) else none

/-- the names `_1 .. _k` -/
def fillers (k : Nat) : List String := (List.range k).map (fun (i : Nat) => "_" ++ toString ((i : Int) + 1))

/-- `detect_bedcov_columns` as a function of the number of TABs in the first line -/
def columnsOf (tabcount : Nat) : Except Err (List String) :=
  if tabcount < 3 then .error .badLine
  else if tabcount = 3 then .ok ["chromosome", "start", "end", "basecount"]
  else if tabcount = 4 then .ok ["chromosome", "start", "end", "gene", "basecount"]
  else .ok (["chromosome", "start", "end", "gene"] ++ fillers (tabcount - 4) ++ ["basecount"])

/-- `detect_bedcov_columns(text)` -/
def detect (t : List Char) : Except Err (List String) :=
  match firstLine t with
  | none => .error .noNewline
  | some l => columnsOf (l.count '\t')

/-- pandas' default missing-value markers (`keep_default_na=True`) -/
def defaultNA : List (List Char) :=
  ["", "#N/A", "#N/A N/A", "#NA", "-1.#IND", "-1.#QNAN", "-NaN", "-nan", "1.#IND", "1.#QNAN", "<NA>", "N/A", "NA",
   "NULL", "NaN", "None", "n/a", "nan", "null"].map String.toList

/-- reader settings of the `read_csv` call (the values in the source are `Generated.BEDCOV_*`) -/
structure Reader where
  keepDefaultNa : Bool
  naValues : List (List Char)
  deriving Repr

/-- one cell: missing when its text is a missing-value marker, else its text -/
def cell (rd : Reader) (s : List Char) : Option (List Char) :=
  if rd.naValues.contains s || (rd.keepDefaultNa && defaultNA.contains s) then none else some s

/-- one line cut into `ncols` cells: short lines are padded with missing cells, long lines truncated -/
def rowOf (rd : Reader) (ncols : Nat) (fields : List (List Char)) : List (Option (List Char)) :=
  ((fields.map some ++ List.replicate (ncols - fields.length) none).take ncols).map (fun (o : Option (List Char)) => o.bind (cell rd))

/-- the non-empty lines of the text (`skip_blank_lines`) -/
def linesOf (t : List Char) : List (List Char) := (splitOn '\n' t).filter (fun l => !l.isEmpty)

/-- `bedcov` after the samtools call: the names and the table of cells -/
def parse (rd : Reader) (raw : List Char) : Except Err (List String × List (List (Option (List Char)))) :=
  if raw.isEmpty then .error .empty
  else match detect raw with
    | .error e => .error e
    | .ok cols => .ok (cols, (linesOf raw).map (fun l => rowOf rd cols.length (splitOn '\t' l)))

/-- what samtools bedcov prints for regions lines given by their fields, each paired with the text of its count: every
    line with the count appended, TAB-joined, '\n'-ended -/
def bedcovOutput (rows : List (List (List Char) × List Char)) : List Char :=
  (rows.map (fun p => joinWith '\t' (p.1 ++ [p.2]) ++ ['\n'])).flatten

/-- the record `interval_coverages_pileup` goes on with: the first three cells, the `gene` cell when there is such a
    column, the LAST cell as base count -/
structure Rec where
  chrom : Option (List Char)
  start : Option (List Char)
  stop : Option (List Char)
  gene : Option (List Char)
  basecount : Option (List Char)
  deriving DecidableEq, Repr

def recOf (cols : List String) (row : List (Option (List Char))) : Rec :=
  { chrom := (row[0]?).join, start := (row[1]?).join, stop := (row[2]?).join,
    gene := if cols.contains "gene" then (row[3]?).join else none,
    basecount := (row[cols.length - 1]?).join }

end CnvVerif.C09Cols
