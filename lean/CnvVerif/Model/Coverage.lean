/-
  Model of cnvlib/coverage.py (do_coverage -> interval_coverages -> interval_coverages_count /
  interval_coverages_pileup, region_depth_count, bedcov post-processing) and of
  cnvlib/parallel.py (to_chunks), as the code is.

  Contracts taken from third parties (exercised for real by the correspondence, not proved):
    * htslib: reference positions of a CIGAR (`AlignedSegment.positions`, reference_end),
      `AlignmentFile.fetch(contig, start, end)` = the records whose reference span meets [start, end),
      `samtools bedcov` = per input line, the number of (position, read) pairs with the position in
      [start, end) and inside the reference span of a read that passes htslib's default filter
      (UNMAP, SECONDARY, QCFAIL, DUP) and `-Q`;  deletions and reference skips count as covered (no `-j`).
    * concurrent.futures `Executor.map`: results come back in submission order whatever the
      completion order of the workers.
  Core Lean only; exact arithmetic (`Int`, `Rat`).
-/
import CnvVerif.Basic
import CnvVerif.Generated.Consts
import CnvVerif.Generated.CoverageConsts
namespace CnvVerif.Cov
open CnvVerif

/-! ## reads -/

/-- one BAM record as data: contig id, leftmost reference position, CIGAR as (op, length) with the
    BAM op codes 0 M, 1 I, 2 D, 3 N, 4 S, 5 H, 6 P, 7 =, 8 X, FLAG and MAPQ -/
structure Read where
  tid : Nat
  pos : Int
  cigar : List (Nat × Nat)
  flag : Nat
  mapq : Nat
deriving Repr, DecidableEq, Inhabited

/-- CIGAR ops that align a read base to a reference base (M, =, X) -/
def isAlignOp (op : Nat) : Bool := op == 0 || op == 7 || op == 8
/-- CIGAR ops that consume reference without a read base (D, N) -/
def isGapOp (op : Nat) : Bool := op == 2 || op == 3

/-- aligned blocks of a CIGAR starting at `p` (`AlignedSegment.get_blocks`): half-open reference
    intervals of the M/=/X operations; `read.positions` enumerates exactly their positions -/
def blocksFrom (p : Int) : List (Nat × Nat) → List (Int × Int)
  | [] => []
  | (op, l) :: t =>
    if isAlignOp op then (p, p + (l : Int)) :: blocksFrom (p + (l : Int)) t
    else if isGapOp op then blocksFrom (p + (l : Int)) t
    else blocksFrom p t

/-- reference length of a CIGAR (`bam_cigar2rlen`): M, D, N, =, X -/
def refLen : List (Nat × Nat) → Nat
  | [] => 0
  | (op, l) :: t => (if isAlignOp op || isGapOp op then l else 0) + refLen t

/-- a record with its alignment worked out once: reference span `[s, e)` and aligned blocks -/
structure ARead where
  tid : Nat
  s : Int
  e : Int
  blocks : List (Int × Int)
  flag : Nat
  mapq : Nat
deriving Repr, DecidableEq, Inhabited

def align (r : Read) : ARead :=
  { tid := r.tid, s := r.pos, e := r.pos + (refLen r.cigar : Int),
    blocks := blocksFrom r.pos r.cigar, flag := r.flag, mapq := r.mapq }

/-- FLAG bit test; `bit` is a power of two -/
def flagSet (flag bit : Nat) : Bool := (flag / bit) % 2 == 1

/-- the pysam `AlignedSegment` flag properties -/
def attrBit : String → Option Nat
  | "is_paired" => some 1
  | "is_proper_pair" => some 2
  | "is_unmapped" => some 4
  | "mate_is_unmapped" => some 8
  | "is_reverse" => some 16
  | "mate_is_reverse" => some 32
  | "is_read1" => some 64
  | "is_read2" => some 128
  | "is_secondary" => some 256
  | "is_qcfail" => some 512
  | "is_duplicate" => some 1024
  | "is_supplementary" => some 2048
  | _ => none

def attrSet (flag : Nat) (a : String) : Bool :=
  match attrBit a with
  | some b => flagSet flag b
  | none => false

/-- a Python comparison operator by its `ast` name -/
def cmpOp (op : String) (a b : Nat) : Bool :=
  match op with
  | "Lt" => a < b
  | "LtE" => a ≤ b
  | "Gt" => a > b
  | "GtE" => a ≥ b
  | _ => false

/-- `region_depth_count.filter_read` with the attribute list and comparison read from the source -/
def countedBy (attrs : List String) (op : String) (q flag mapq : Nat) : Bool :=
  !(attrs.any (attrSet flag) || cmpOp op mapq q)

/-- `filter_read(read)` of the working tree -/
def counted (q : Nat) (r : ARead) : Bool :=
  countedBy Generated.COUNT_FILTER_ATTRS Generated.COUNT_MAPQ_OP q r.flag r.mapq

/-- htslib's filter inside `samtools bedcov [-Q q]`: default excluded flags UNMAP, SECONDARY, QCFAIL, DUP;
    a record with `qual < min_mapQ` is skipped -/
def bedcovCounted (q : Nat) (r : ARead) : Bool :=
  !(flagSet r.flag 4 || flagSet r.flag 256 || flagSet r.flag 512 || flagSet r.flag 1024) && !(r.mapq < q)

/-- the filter in the property's words: not duplicate / secondary / unmapped / QC-fail, and mapping
    quality not below the cut-off -/
def propCounted (q : Nat) (r : ARead) : Bool :=
  !flagSet r.flag 1024 && !flagSet r.flag 256 && !flagSet r.flag 4 && !flagSet r.flag 512 && decide (q ≤ r.mapq)

/-! ## interval arithmetic -/

/-- number of integers in `[a, b) ∩ [s, e)` -/
def ovl (a b s e : Int) : Int := max 0 (min b e - max a s)

/-- `sum(1 for p in read.positions if start <= p < end)` in closed form (see `Lemmas/Coverage.lean`,
    `basesIn_eq_count_positions`) -/
def basesIn (r : ARead) (s e : Int) : Int := (r.blocks.map (fun b => ovl b.1 b.2 s e)).sum

/-- reference positions of `[s, e)` inside the span of the read -/
def spanIn (r : ARead) (s e : Int) : Int := ovl r.s r.e s e

/-- `bamfile.fetch(reference=chrom, start=start, end=end)`: the records on the contig whose
    reference span meets `[start, end)`; an unknown contig never gets here (see `validate`) -/
def fetch (reads : List ARead) (tid : Option Nat) (s e : Int) : List ARead :=
  match tid with
  | none => []
  | some t => reads.filter (fun r => r.tid == t && decide (r.s < e) && decide (s < r.e))

def tidOf (contigs : List (String × Nat)) (name : String) : Option Nat :=
  contigs.findIdx? (fun c => c.1 == name)

/-! ## regions file -/

/-- one record of the BED file: the three coordinates and the remaining columns -/
structure BedRec where
  chrom : String
  s : Int
  e : Int
  rest : List String
deriving Repr, DecidableEq, Inhabited

/-- a line of the regions file: a `#` comment or a record -/
inductive BedLine
  | comment
  | record (r : BedRec)
deriving Repr, DecidableEq, Inhabited

def BedLine.isComment : BedLine → Bool
  | .comment => true
  | .record _ => false

def BedLine.rec? : BedLine → Option BedRec
  | .comment => none
  | .record r => some r

/-- the records of a file, comments dropped -/
def records (lines : List BedLine) : List BedRec := lines.filterMap BedLine.rec?

/-- name column: `fields[3]` when present, else `"-"` (`read_bed`; `table["gene"] = "-"` in the pileup path).
    (Repaired code, fix C09-W: `bedcov` reads the name column as text; before, `read_csv` turned names such as
    `007`, `12`, `1e3`, `NA` into `7.0`, `12.0`, `1000.0`, `-`, and differently from chunk to chunk.) -/
def BedRec.gene (r : BedRec) : String := r.rest.head?.getD "-"

def BedRec.toRow (r : BedRec) : Row := { chrom := r.chrom, s := r.s, e := r.e, gene := r.gene }

/-! ## output rows -/

structure OutRow where
  chrom : String
  s : Int
  e : Int
  gene : String
  depth : Rat
  /-- `some NULL_LOG2_COVERAGE` for an empty bin; `none` stands for the real number `log2(depth)` -/
  log2 : Option Rat
deriving Repr, DecidableEq, Inhabited

def OutRow.key (o : OutRow) : Row := { chrom := o.chrom, s := o.s, e := o.e, gene := o.gene }

/-- `math.log(depth, 2) if depth else NULL_LOG2_COVERAGE` / the `depth > 0` mask of the pileup path -/
def mkRow (b : Row) (depth : Rat) : OutRow :=
  { chrom := b.chrom, s := b.s, e := b.e, gene := b.gene, depth := depth,
    log2 := if depth == 0 then some Generated.NULL_LOG2_COVERAGE else none }

/-- `bases / (end - start) if end > start else 0` -/
def depthOf (bases : Int) (s e : Int) : Rat :=
  if e > s then (bases : Rat) / ((e - s : Int) : Rat) else 0

/-! ## --count -/

/-- `region_depth_count`: fetch, filter, count the aligned positions inside the bin -/
def countBases (reads : List ARead) (q : Nat) (tid : Option Nat) (s e : Int) : Int :=
  (((fetch reads tid s e).filter (counted q)).map (fun r => basesIn r s e)).sum

def regionDepthCount (reads : List ARead) (q : Nat) (tid : Option Nat) (b : Row) : OutRow :=
  mkRow b (depthOf (countBases reads q tid b.s b.e) b.s b.e)

/-- `_rdc_chunk`: the bins of one chromosome, in table order -/
def rdcChunk (contigs : List (String × Nat)) (reads : List ARead) (q : Nat) (sub : Table) : List OutRow :=
  sub.map (fun b => regionDepthCount reads q (tidOf contigs b.chrom) b)

/-! ## ordered gather of a process pool -/

/-- the order in which workers finish: any rearrangement of the (index, result) pairs; `order` is an
    arbitrary priority list supplied from outside (stable sort by `order[i]`, missing = 0) -/
def completion {β} (order : List Nat) (xs : List (Nat × β)) : List (Nat × β) :=
  xs.mergeSort (fun a b => order.getD a.1 0 ≤ order.getD b.1 0)

/-- `Executor.map` hands results back by submission index -/
def orderedGather {β} (n : Nat) (done : List (Nat × β)) : List β :=
  (List.range n).filterMap (fun i => (done.find? (fun p => p.1 == i)).map (·.2))

/-- `pool.map(f, xs)` with workers finishing in the order given by `order` -/
def poolMap {α β} (f : α → β) (xs : List α) (order : List Nat) : List β :=
  orderedGather xs.length (completion order ((List.range xs.length).zip (xs.map f)))

/-- `interval_coverages_count`: regions read with `tabio.read_auto` (sorted by chromosome key, start,
    end), one task per chromosome in order of appearance, rows yielded task by task.
    (Repaired code, fix C09-X: `read_bed` skips `#` lines, as `to_chunks` and samtools do.) -/
def countTable (contigs : List (String × Nat)) (reads : List ARead) (q : Nat) (lines : List BedLine)
    (procs : Nat) (order : List Nat) : List OutRow :=
  let regions := sortTable ((records lines).map BedRec.toRow)
  let groups := (groupByChrom regions).map (·.2)
  if procs == 1 then groups.flatMap (rdcChunk contigs reads q)
  else (poolMap (rdcChunk contigs reads q) groups order).flatten

/-! ## pileup -/

/-- `to_chunks(bed_fname, chunk_size)`: the generator, line by line.  `k` = records written so far,
    `cur` = the open chunk (reversed).  A chunk is yielded when `k % chunk_size == 0`, the last partial
    chunk when `k % chunk_size` is non-zero at the end. -/
def toChunksGo {α} (isC : α → Bool) (size : Nat) : Nat → List α → List α → List (List α)
  | k, cur, [] => if k % size != 0 then [cur.reverse] else []
  | k, cur, x :: xs =>
    if isC x then toChunksGo isC size k cur xs
    else if (k + 1) % size == 0 then (x :: cur).reverse :: toChunksGo isC size (k + 1) [] xs
    else toChunksGo isC size (k + 1) (x :: cur) xs

def toChunks {α} (isC : α → Bool) (size : Nat) (lines : List α) : List (List α) :=
  toChunksGo isC size 0 [] lines

/-- base count of one region by `samtools bedcov` in closed form (see `bedcovCount_eq_pileup_sum`) -/
def bedcovCount (reads : List ARead) (q : Nat) (tid : Option Nat) (s e : Int) : Int :=
  match tid with
  | none => 0
  | some t => ((reads.filter (fun r => r.tid == t && bedcovCounted q r)).map (fun r => spanIn r s e)).sum

/-- `bedcov(bed_fname, bam_fname, min_mapq)`: one row per non-comment line, input order, base count appended -/
def bedcov (contigs : List (String × Nat)) (reads : List ARead) (q : Nat) (lines : List BedLine) :
    List (BedRec × Int) :=
  (records lines).map (fun r => (r, bedcovCount reads q (tidOf contigs r.chrom) r.s r.e))

/-- the tail of `interval_coverages_pileup`: name column filled, `depth = basecount / span` where the
    span is positive, `log2` where depth is positive -/
def pileupPost (p : BedRec × Int) : OutRow :=
  mkRow p.1.toRow (depthOf p.2 p.1.s p.1.e)

/-- `interval_coverages_pileup`: the whole file in one `bedcov` call, or one call per chunk gathered in
    chunk order and concatenated -/
def pileupTable (contigs : List (String × Nat)) (reads : List ARead) (q : Nat) (lines : List BedLine)
    (procs size : Nat) (order : List Nat) : List OutRow :=
  let raw :=
    if procs == 1 then bedcov contigs reads q lines
    else (poolMap (bedcov contigs reads q) (toChunks BedLine.isComment size lines) order).flatten
  raw.map pileupPost

/-! ## the command -/

inductive Algo | count | pileup
deriving Repr, DecidableEq, Inhabited

/-- what makes both `pysam.fetch` and `samtools bedcov` refuse a regions file (both surface as
    `ValueError`): a record with `end < start`, a contig the BAM header does not have; and a file with
    lines but no record at all -/
def validate (contigs : List (String × Nat)) (lines : List BedLine) : Option String :=
  let recs := records lines
  if recs.any (fun r => r.e < r.s) then some "reversed"
  else if recs.any (fun r => (tidOf contigs r.chrom).isNone) then some "unknown_contig"
  else if recs.isEmpty && !lines.isEmpty then some "no_records"
  else none

/-- `do_coverage(bed, bam, by_count, min_mapq, processes)` -/
def coverage (contigs : List (String × Nat)) (reads : List Read) (q : Nat) (lines : List BedLine)
    (algo : Algo) (procs size : Nat) (order : List Nat) : Except String (List OutRow) :=
  match validate contigs lines with
  | some e => .error e
  | none =>
    let ar := reads.map align
    match algo with
    | .count => .ok (countTable contigs ar q lines procs order)
    | .pileup => .ok (pileupTable contigs ar q lines procs size order)

/-! ## the property's own words, for the checker that is evaluated on the real output -/

/-- aligned bases of the counted reads (property's filter, every read of the BAM on that contig —
    no reliance on `fetch`) that fall inside `[s, e)` -/
def alignedBasesInBin (contigs : List (String × Nat)) (reads : List ARead) (q : Nat)
    (chrom : String) (s e : Int) : Int :=
  match tidOf contigs chrom with
  | none => 0
  | some t => ((reads.filter (fun r => r.tid == t && propCounted q r)).map (fun r => basesIn r s e)).sum

/-- the same with reference spans instead of aligned blocks (what a pileup sees when reads carry
    deletions or reference skips) -/
def spannedBasesInBin (contigs : List (String × Nat)) (reads : List ARead) (q : Nat)
    (chrom : String) (s e : Int) : Int :=
  match tidOf contigs chrom with
  | none => 0
  | some t => ((reads.filter (fun r => r.tid == t && propCounted q r)).map (fun r => spanIn r s e)).sum

/-- depth the property demands for a bin -/
def truthDepth (contigs : List (String × Nat)) (reads : List ARead) (q : Nat) (b : Row) : Rat :=
  depthOf (alignedBasesInBin contigs reads q b.chrom b.s b.e) b.s b.e

/-- no deletion / reference skip in the CIGAR (insertions and clips do not move reference positions) -/
def noRefGap (cigar : List (Nat × Nat)) : Bool := cigar.all (fun c => !isGapOp c.1)

end CnvVerif.Cov
