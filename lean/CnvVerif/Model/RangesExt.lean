/-
  Extension of Model/Ranges.lean (C07, growth round):
  * `into_ranges` with every summary kind of skgenome/intersect.py:51-82 and the combiners of
    skgenome/combiners.py (`join_strings`, `first_of`, `last_of`, `merge_strands`, `make_const`), on a column
    of cells (`Val`: string, float, NaN, integer);
  * `in_ranges` with `starts` / `ends` possibly `None` (`zip(starts, ends)` of `_irange_simple` /
    `_irange_nested`: a missing array leaves that side open for every query).
  Core Lean only.
-/
import CnvVerif.Model.Ranges
namespace CnvVerif

/-- one cell of a pandas column: `str`, `float` (finite), `float('nan')`, `int` / `bool` -/
inductive Val
  | str (s : String)
  | num (q : Rat)
  | nan
  | int (n : Int)
deriving Repr, DecidableEq, Inhabited

/-- the text of a string cell (`join_strings` is only chosen for / applied to string columns) -/
def Val.text : Val → String
  | .str s => s
  | _ => ""

/-- the finite float in a cell, if any (`np.nanmedian` ignores NaN) -/
def Val.finite? : Val → Option Rat
  | .num q => some q
  | _ => none

/-! ### skgenome/combiners.py -/

/-- `first_of(elems)`: `elems.iat[0]` / `elems[0]` (position, not label: finding BD) -/
def firstOf (vs : List Val) : Val := vs.headD .nan
/-- `last_of(elems)` -/
def lastOf (vs : List Val) : Val := vs.getLastD .nan
/-- `join_strings(elems)`: `",".join(pd.unique(pd.Series(elems)))` -/
def joinVals (vs : List Val) : Val := .str (joinStrings (vs.map Val.text))
/-- `make_const(val)`: the function that ignores its argument -/
def makeConst (v : Val) : List Val → Val := fun _ => v
/-- `merge_strands(elems)`: `"."` when more than one distinct strand, else the first element -/
def mergeStrands (l : List String) : String := if l.eraseDups.length > 1 then "." else l.headD ""

/-- `np.sort` of finite floats (tie order unobservable) -/
def sortQ (l : List Rat) : List Rat := l.mergeSort (fun a b => decide (a ≤ b))

/-- `np.median` of a non-empty list of finite floats -/
def medianQ (l : List Rat) : Rat :=
  let s := sortQ l
  let n := s.length
  if n % 2 = 1 then s.getD (n / 2) 0 else (s.getD (n / 2 - 1) 0 + s.getD (n / 2) 0) / 2

/-- `np.nanmedian(ser)`: the median of the non-NaN values; NaN when there is none -/
def nanMedian (vs : List Val) : Val :=
  match vs.filterMap Val.finite? with
  | [] => .nan
  | xs => .num (medianQ xs)

/-! ### `into_ranges` -/

/-- the `summary_func` argument: `None`, a non-callable value, or a callable -/
inductive Summary
  | auto
  | const (v : Val)
  | func (f : List Val → Val)

/-- the summary function `into_ranges` ends up with; `first` = `source[src_col].iat[0]`:
    `None` → by the type of the first element (`str` → `join_strings`, `float` → `np.nanmedian`, anything else
    → `first_of`); a non-callable → `make_const`; a callable → itself -/
def pickSummary (s : Summary) (first : Val) : List Val → Val :=
  match s with
  | .auto =>
    match first with
    | .str _ => joinVals
    | .num _ => nanMedian
    | .nan => nanMedian
    | .int _ => firstOf
  | .const v => makeConst v
  | .func f => f

/-- `series2value(ser)`: the default for no hit, the value itself for one, the summary otherwise -/
def seriesToValue (default : Val) (summary : List Val → Val) (vs : List Val) : Val :=
  match vs with
  | [] => default
  | [v] => v
  | _ => summary vs

/-- `into_ranges(source, dest, src_col, default, summary_func)`; `col` reads the cell of column `src_col` off a
    row (rows stand for their index labels, as in `iterSlices`). -/
def intoRanges (source dest : Table) (col : Row → Val) (default : Val) (s : Summary) : List Val :=
  match source with
  | [] => dest.map (fun _ => default)
  | r0 :: _ =>
    if dest.isEmpty then []
    else
      (iterSlices source dest .outer true).map
        (fun sel => seriesToValue default (pickSummary s (col r0)) (sel.map col))

/-- `GenomicArray.into_ranges(other, column, default, summary_func)`: a missing column gives the default for
    every range -/
def intoRangesGA (source dest : Table) (col : Option (Row → Val)) (default : Val) (s : Summary) : List Val :=
  match col with
  | none => dest.map (fun _ => default)
  | some c => intoRanges source dest c default s

/-! ### `in_ranges` with open sides -/

/-- the `(start_val, end_val)` pairs the slicing paths iterate over: `zip(starts, ends)`, a missing array
    replaced by `[None] * len(other)` (mask path) / zeros resp. `len(table)` (binary-search path, same selection);
    both missing: the single whole-table slice of `idx_ranges` -/
def zipBounds (starts ends : Option (List Int)) : List (Option Int × Option Int) :=
  match starts, ends with
  | some ss, some es => (ss.zip es).map (fun p => (some p.1, some p.2))
  | some ss, none => ss.map (fun s => (some s, none))
  | none, some es => es.map (fun e => (none, some e))
  | none, none => [(none, none)]

/-- `GenomicArray.in_ranges(chrom, starts, ends, mode)`: concatenation of the per-query subtables.
    (An empty table gives the one whole-table slice, i.e. itself.) -/
def inRangesOpt (t : Table) (chrom : Option String) (starts ends : Option (List Int)) (mode : Mode) : Table :=
  let t' := match chrom with
    | some c => if c.isEmpty then t else t.filter (fun r => r.chrom == c)
    | none => t
  if t'.isEmpty then t'
  else ((zipBounds starts ends).map (fun q => selectRange t' q.1 q.2 mode)).flatten

end CnvVerif
