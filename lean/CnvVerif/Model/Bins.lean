/-
  Model of cnvlib/target.py (`do_target`, `shorten_labels`, `filter_names`, `shortest_name`) and
  cnvlib/antitarget.py (`do_antitarget`, `get_antitargets`, `drop_noncanonical_contigs`,
  `compare_chrom_names`, `guess_chromosome_regions`).  The interval operations are the models of
  Model/Interval.lean (`mergeTable`, `subtractTable`, `subdivideTable`, `resizeTable`), the contig-name
  rule is `isCanonicalName` of Model/Access.lean, `into_ranges` is `intoRangesStr` of Model/Ranges.lean.

  Repaired code (fix U, proposed_fixes/C12-U.diff): `do_target` resets the row index after dropping
  zero-width baits, so the labels returned by `into_ranges` (a fresh 0..n-1 index) are assigned by
  position.  Before the fix they were aligned on the *old* row labels: every bait after a dropped
  zero-width row received the label of a later row, the last ones NaN, and `--short-names` then died
  with `AttributeError: 'float' object has no attribute 'rstrip'`.
-/
import CnvVerif.Basic
import CnvVerif.Model.Ranges
import CnvVerif.Model.Interval
import CnvVerif.Model.IntervalSpec
import CnvVerif.Model.Access
import CnvVerif.Generated.Consts
import CnvVerif.Generated.BinsConsts
namespace CnvVerif

/-! ### `shorten_labels` -/

/-- `str.split(",")` on characters -/
def splitCommaGo (cur : List Char) : List Char → List (List Char)
  | [] => [cur.reverse]
  | c :: cs => if c = ',' then cur.reverse :: splitCommaGo [] cs else splitCommaGo (c :: cur) cs

/-- `set(label.rstrip().split(","))` as a duplicate-free list -/
def labelNames (label : String) : List String :=
  ((splitCommaGo [] (rstripChars label.toList)).map String.ofList).eraseDups

/-- `filter_names(names, exclude=("mRNA",))` -/
def filterNames (names : List String) : List String :=
  if names.length > 1 then
    let ok := names.filter (fun n => !(Generated.SHORTEN_EXCLUDE.any (fun ex => n.startsWith ex)))
    if ok.isEmpty then names else ok
  else names

/-- `name.split("|")[-1]` -/
def lastPipeSegment (cs : List Char) : List Char :=
  (cs.reverse.takeWhile (· != '|')).reverse

/-- the tail of `shortest_name`: `if len(name) > 2 and "|" in name[1:-1]: name = name.split("|")[-1]` -/
def pipeTrim (name : String) : String :=
  let cs := name.toList
  if cs.length > 2 && ((cs.drop 1).dropLast).contains '|' then String.ofList (lastPipeSegment cs)
  else name

/-- `shortest_name(names)`: `min(filter_names(names), key=len)` iterates a Python `set`, whose order
    is not defined; the model returns every name of minimal length (after the `|` trimming), the
    implementation's answer has to be one of them. -/
def shortestNames (names : List String) : List String :=
  let f := filterNames names
  let m := (f.map String.length).foldl min (f.headD "").length
  ((f.filter (fun n => n.length == m)).map pipeTrim).eraseDups

/-- the loop of `shorten_labels`: `cur` = `curr_names`, `cnt` = `curr_gene_count`.  One candidate
    list per input label. -/
def shortenGo (cur : List String) (cnt : Nat) : List String → List (List String)
  | [] => List.replicate cnt (shortestNames cur)
  | label :: rest =>
    let next := labelNames label
    let ov := cur.filter (fun n => next.contains n)
    if !ov.isEmpty then shortenGo (filterNames ov) (cnt + 1) rest
    else List.replicate cnt (shortestNames cur) ++ shortenGo next 1 rest

def shortenLabels (labels : List String) : List (List String) := shortenGo [] 0 labels

/-! ### `do_target` -/

/-- `compare_chrom_names(a, b)` raises `ValueError` when `a` has chromosomes and shares none with `b` -/
def chromNamesClash (a b : Table) : Bool :=
  let ac := chromsInOrder a
  let bc := chromsInOrder b
  !ac.isEmpty && ac.all (fun c => !bc.contains c)

/-- `tgt_arr[tgt_arr.start != tgt_arr.end]` then optional `subdivide(avg_size, 0)`:
    the bins, before any relabelling -/
def doTargetCore (baits : Table) (split : Bool) (avg : Rat) : Table :=
  let t := baits.filter (fun r => r.s != r.e)
  if split then subdivideTable avg Generated.TARGET_SPLIT_MIN t else t

/-- `tgt_arr["gene"] = values`: pandas raises `ValueError` unless there is one value per row -/
def setGenes (t : Table) (genes : List String) : Except String Table :=
  if genes.length == t.length then
    pure ((t.zip genes).map (fun p => { p.1 with gene := p.2 }))
  else throw "ValueError"

/-- `do_target(bait_arr, annotate, do_short_names, do_split, avg_size)`; `annot` = the rows of the
    annotation file as `tabio.read_auto` returns them.  Second component: for `--short-names` the
    candidate labels per bin (see `shortestNames`); the rows carry the first candidate. -/
def doTarget (baits : Table) (annot : Option Table) (short split : Bool) (avg : Rat) :
    Except String (Table × Option (List (List String))) := do
  let t0 := doTargetCore baits split avg
  let t1 ← match annot with
    | none => pure t0
    | some a =>
      if chromNamesClash t0 a then throw "ValueError"
      else setGenes t0 (intoRangesStr (sortTable a) t0 "-")
  if short then
    let cands := shortenLabels (t1.map (·.gene))
    let t2 ← setGenes t1 (cands.map (fun c => c.headD ""))
    pure (t2, some cands)
  else pure (t1, none)

/-! ### `do_antitarget` -/

/-- `drop_noncanonical_contigs(accessible, targets)` -/
def dropNoncanonical (acc tg : Table) : Except String Table :=
  if chromNamesClash acc tg then throw "ValueError"
  else
    let ac := chromsInOrder acc
    let tc := chromsInOrder tg
    let untgt := ac.filter (fun c => !tc.contains c)
    let skip :=
      if tc.any isCanonicalName then untgt.filter (fun c => !isCanonicalName c)
      else
        -- `max(map(len, target_chroms))`; `tc` is not empty here (an empty one clashes above)
        let mx := (tc.map String.length).foldl max 0
        untgt.filter (fun c => c.length > mx)
    pure (acc.filter (fun r => !skip.contains r.chrom))

/-- `guess_chromosome_regions(targets, TELOMERE_SIZE)`: per chromosome (order of first appearance)
    from `TELOMERE_SIZE` to the end of its *last* row -/
def guessRegions (tg : Table) : Table :=
  (groupByChrom tg).map fun g =>
    { chrom := g.1, s := Generated.TELOMERE_SIZE, e := (g.2.getLast?.map (·.e)).getD 0, gene := "" }

def noSizes : String → Option Int := fun _ => none

/-- the accessible table `get_antitargets` works on: `if accessible:` is false for `None` and for an
    empty table -/
def effectiveAccess (tg : Table) (acc : Option Table) : Except String Table :=
  match acc with
  | some a => if a.isEmpty then pure (guessRegions tg) else dropNoncanonical a tg
  | none => pure (guessRegions tg)

/-- regions left for antitargets: shrunk access minus grown targets -/
def antiRegions (a tg : Table) : Table :=
  subtractTable
    (resizeTable (Generated.ANTI_ACCESS_RESIZE_SIGN * Generated.ANTI_PAD) noSizes a)
    (resizeTable (Generated.ANTI_TARGET_RESIZE_SIGN * Generated.ANTI_PAD) noSizes tg)

def nameAnti (t : Table) : Table := t.map (fun r => { r with gene := Generated.ANTITARGET_NAME })

/-- `get_antitargets(targets, accessible, avg_bin_size, min_bin_size)` -/
def getAntitargets (tg : Table) (acc : Option Table) (avg : Rat) (minSize : Int) :
    Except String Table := do
  let a ← effectiveAccess tg acc
  pure (nameAnti (subdivideTable avg minSize (antiRegions a tg)))

/-- Python `int(x)` of a real: truncation toward zero -/
def truncRat (q : Rat) : Int := if q ≥ 0 then q.floor else q.ceil

/-- `2 * int(avg_bin_size * (2**MIN_REF_COVERAGE))` -/
def defaultMinSize (avg : Rat) : Int :=
  Generated.ANTI_MIN_FACTOR * truncRat (avg * Generated.ANTI_MIN_SCALE)

/-- `do_antitarget(targets, access, avg_bin_size, min_bin_size)`; `if not min_bin_size:` is true for
    `None` and for 0 -/
def doAntitarget (tg : Table) (acc : Option Table) (avg : Rat) (minSize : Option Int) :
    Except String Table :=
  let m := match minSize with
    | some m => if m == 0 then defaultMinSize avg else m
    | none => defaultMinSize avg
  getAntitargets tg acc avg m

/-! ### one chromosome, as the theorems see it

    `acc`, `tg` are the rows of one chromosome (in table order); `merge` sorts by (start, end)
    before grouping, which is `sortSE` here. -/

def seLe (a b : Row) : Bool := a.s < b.s || (a.s == b.s && a.e ≤ b.e)

def sortSE (l : List Row) : List Row := l.mergeSort seLe

/-- `merge(bp=0)` of one chromosome's rows -/
def mergeSorted (l : List Row) : List Row := mergeChrom 0 (sortSE l)

/-- the bins of one chromosome of `do_target --split` -/
def targetChrom (avg : Rat) (baits : List Row) : List Row :=
  (mergeSorted (baits.filter (fun r => r.s != r.e))).flatMap (splitRow avg Generated.TARGET_SPLIT_MIN)

/-- `resize_ranges(-pad)`: both ends move inward, clipped at 0, empty rows dropped -/
def shrinkRows (pad : Int) (acc : List Row) : List Row :=
  (acc.map fun r => { r with s := max 0 (r.s + pad), e := max 0 (r.e - pad) }).filter
    (fun r => r.e - r.s > 0)

/-- `resize_ranges(pad)`: both ends move outward, clipped at 0 -/
def growRows (pad : Int) (tg : List Row) : List Row :=
  tg.map fun r => { r with s := max 0 (r.s - pad), e := max 0 (r.e + pad) }

/-- shrunk access minus grown targets on one chromosome: per keeper, the merged grown targets that
    overlap it (the `outer` query) are cut out by `subtractRow` -/
def antiRegionsChrom (pad : Int) (acc tg : List Row) : List Row :=
  (shrinkRows pad acc).flatMap fun k =>
    subtractRow k (overlapping k (mergeSorted (growRows pad tg)))

/-- the antitarget bins of one chromosome -/
def antiChrom (pad : Int) (avg : Rat) (minSize : Int) (acc tg : List Row) : List Row :=
  nameAnti ((mergeSorted (antiRegionsChrom pad acc tg)).flatMap (splitRow avg minSize))

end CnvVerif
