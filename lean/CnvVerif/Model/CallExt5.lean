/-
  Model of cnvlib/call.py:do_call as a WHOLE (growth round 5, C01/C02): the method check, the two filter loops, the `variants`
  branch, the purity test, the three methods, the `'baf' in outarr` branch -- one function `c01wDoCall` in front of the
  per-row `callTable` of Model/Call.lean, and next to it `c01wPlan`, the order of the effects on the output table, in the
  vocabulary of the step plan that harness/stepplan.py re-reads from the source (Generated/ExprsDoCall.lean).
  The segment filters themselves (`segfilters.ci`, `.sem`, `.ampdel`, ..) are C16's subject: here a filter is a parameter `F`
  (any function of the rows); what is modelled is WHICH filters run, in WHICH order, before or after the calling.
  Core Lean only.
-/
import CnvVerif.Model.Call
import CnvVerif.Generated.ExprsDoCall
namespace CnvVerif
open Generated (DoCallStep)

structure C01wArgs where
  method : String          -- the `method` argument as passed (any string)
  variants : Bool          -- a truthy `variants` argument; its per-segment BAFs arrive as the rows' `baf`
  bafCol : Bool            -- the input table already has a `baf` column
  filters : List String    -- `filters` (None = [])
  cfg : CallCfg
  thr : List Rat
deriving Repr, Inhabited

/-- `method not in ("threshold", "clonal", "none")` -/
def c01wMethod (s : String) : Option Method :=
  if s == "threshold" then some .threshold else if s == "clonal" then some .clonal
  else if s == "none" then some .none else none

/-- first loop: `for filt in ("ci", "sem"): if filt in filters: apply; filters.remove(filt)` -- the names applied -/
def c01wPre (filters : List String) : List String :=
  Generated.src_do_call_pre_filters.filter (fun f => filters.contains f)

/-- ... and what is left of the list (`list.remove` drops the FIRST occurrence only) for the second loop -/
def c01wPost (filters : List String) : List String :=
  Generated.src_do_call_pre_filters.foldl (fun fs f => fs.erase f) filters

/-- Python truthiness of `purity` / the comparison `purity < 1.0` (only evaluated when truthy) -/
def c01wPurityTruthy (p : Option Rat) : Bool := match p with | some q => q != 0 | none => false
def c01wPurityBelowOne (p : Option Rat) : Bool := match p with | some q => decide (q < 1) | none => false

/-- the order of `do_call`'s effects as a function of its tests (hand-written; `C01.c01w_plan_is_the_source` proves it
    equal to the plan re-read from the source) -/
def c01wPlan (bad filt vars pT pB mC mT mN baf : Bool) : List DoCallStep :=
  if bad then [.raiseValueError] else
    [.copyInput]
    ++ (if filt then [.copyFilters, .preFilterLoop] else [])
    ++ (if vars then [.bafFromVariants] else [])
    ++ (if pT && pB then [.absClonal, .log2Rewrite] ++ (if vars then [.bafRescale] else [])
        else if mC then [.absPure] else [])
    ++ (if mT then [.absThreshold] else [])
    ++ (if mN then [.writeCn] ++ (if baf then [.upperBaf, .writeCn1, .writeCn2, .nullMask, .nullCn1, .nullCn2] else [])
        else [])
    ++ (if filt then [.postFilterLoop] else [])
    ++ [.sortColumns, .returnOut]

/-- the plan of one call -/
def c01wSteps (a : C01wArgs) : List DoCallStep :=
  c01wPlan (c01wMethod a.method).isNone (!a.filters.isEmpty) a.variants
    (c01wPurityTruthy a.cfg.purity) (c01wPurityBelowOne a.cfg.purity)
    (a.method == "clonal") (a.method == "threshold") (a.method != "none") (a.variants || a.bafCol)

structure C01wOut where
  pre : List String        -- filters applied before the calling, in order
  post : List String       -- filters applied after it, in order
  calls : List CallOut
  steps : List DoCallStep
deriving Repr, Inhabited

/-- `do_call` as a whole; `F name rows` = what `getattr(segfilters, name)` does to the table before the calling -/
def c01wDoCall (F : String → List SegRow → List SegRow) (a : C01wArgs) (rows : List SegRow) :
    Except String C01wOut :=
  match c01wMethod a.method with
  | none => .error "ValueError"
  | some m =>
    let pre := c01wPre a.filters
    let rows1 := pre.foldl (fun r f => F f r) rows
    .ok { pre := pre, post := c01wPost a.filters,
          calls := callTable a.cfg m a.thr (a.variants || a.bafCol) (rows1.map (bafForCall a.cfg a.variants)),
          steps := c01wSteps a }

end CnvVerif
