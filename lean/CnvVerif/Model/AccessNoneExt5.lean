/-
  `get_regions` run as the source's OWN loop from the source's OWN initial state (round 5b).
  `Generated.src_get_regions_none_step` / `_final` (Generated/ExprsAccessNone.lean): the loop body / flush read in the
  state `chrom = cursor = run_start = None`, `None + int` = `TypeError`.  `Generated.src_get_regions_step` / `_final`
  (Generated/ExprsAccess.lean): the same body for states with a sequence name and a cursor.  `c13nLoop` chains them.
  Executable (driver op `get_regions_src`); Props/C13SrcNone.lean proves it equal to the hand model `getRegions`.
-/
import CnvVerif.Generated.ExprsAccess
import CnvVerif.Generated.ExprsAccessNone
import CnvVerif.Model.Access
namespace CnvVerif.C13N
open CnvVerif CnvVerif.Generated

/-- the generated loop body / flush as functions of the loop-carried triple (`chrom`, `cursor`, `run_start`) -/
def stepFn (st : List Char × Nat × Option Nat) (l : List Char) :
    List (List Char × Nat × Nat) × (List Char × Nat × Option Nat) :=
  src_get_regions_step st.1 st.2.1 st.2.2 l

def finalFn (st : List Char × Nat × Option Nat) : List (List Char × Nat × Nat) :=
  src_get_regions_final st.1 st.2.1 st.2.2

/-- the generator `get_regions` run from the source's own initial state: while every loop-carried variable is `None`
    the generated `None`-state step decides (error / stay / leave to the state `(chrom, cursor, run_start)`); from
    then on the generated ordinary step and flush run (`Py.genLoop`).  A state in which only some of `chrom` /
    `cursor` are `None` is not produced by the generated step (theorem `get_regions_none_states`). -/
def c13nLoop : List (List Char) → Except String (List (List Char × Nat × Nat))
  | [] => src_get_regions_none_final
  | l :: ls =>
    match src_get_regions_none_step l with
    | .error e => .error e
    | .ok (out, (some c, some k, rs)) => .ok (out ++ Py.genLoop stepFn finalFn (c, k, rs) ls)
    | .ok (out, (none, none, none)) =>
      (match c13nLoop ls with
       | .ok tail => .ok (out ++ tail)
       | .error e => .error e)
    | .ok _ => .error "partly-None state"

/-- the yielded triples as the model's `Region`s (the name as a `String`) -/
def c13nRegions (ls : List (List Char)) : Except String (List Region) :=
  match c13nLoop ls with
  | .ok v => .ok (v.map (fun r => (String.ofList r.1, r.2.1, r.2.2)))
  | .error e => .error e

end CnvVerif.C13N
