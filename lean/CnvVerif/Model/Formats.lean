/-
  C08 — table formats of `skgenome.tabio`: readers, writers, sort, format sniffing.

  FIELD-level model of the code as it is: a file is a list of lines, a line is the list of its
  tab-separated fields (`String`s, exactly the bytes between the tabs).  Integers are printed with
  `toString` and parsed with `String.toInt?` (core proves `Int.toInt?_repr`); floating-point cells
  are exact rationals, `%.6g` is `sixg` (6 significant decimal digits, round-half-even on the exact
  value).  Every ±1 coordinate shift is taken from `Generated/FormatConsts.lean`, i.e. from the
  `start -= 1` / `+ 1` sites the extractor found in `/repo`.
  Core Lean only (the JSON driver imports this file).
-/
import CnvVerif.Basic
import CnvVerif.Generated.FormatConsts
namespace CnvVerif.Fmt
open CnvVerif CnvVerif.Generated

/-! ## cells, rows, tables -/

/-- one value of a non-coordinate column: pandas int64 / float64 (exact value) / str / NaN -/
inductive Cell where
  | int (i : Int)
  | flt (q : Rat)
  | str (s : String)
  | na
deriving Repr, DecidableEq, Inhabited

/-- a row of a `GenomicArray`: chromosome, 0-based half-open `[s, e)`, the other columns in order -/
structure FRow where
  chrom : String
  s : Int
  e : Int
  cols : List Cell
deriving Repr, DecidableEq, Inhabited

/-- `names` are the names of `cols` (every column except chromosome/start/end) -/
structure FTab where
  names : List String
  rows : List FRow
deriving Repr, DecidableEq, Inhabited

abbrev Line := List String

def FRow.toRow (r : FRow) : Row := ⟨r.chrom, r.s, r.e, ""⟩

/-- `GenomicArray.sort`: stable merge sort by (`sorter_chrom`, start, end) — `Basic.sortLe` on the
    coordinate projection, so the other columns ride along. -/
def sortF (t : List FRow) : List FRow := t.mergeSort (fun a b => sortLe a.toRow b.toRow)

/-- `sort_values(['chromosome','start','end'])` (plain string order), used by `read_gff` -/
def sortLexF (t : List FRow) : List FRow := t.mergeSort (fun a b => lexLe a.toRow b.toRow)

/-! ## characters, integers, decimals -/

/-- `\w` on ASCII input -/
def isWordCh (c : Char) : Bool := c.isAlphanum || c == '_'
/-- `\s` on ASCII input -/
def isSpaceCh (c : Char) : Bool :=
  c == ' ' || c == '\t' || c == '\n' || c == '\r' || c == '\x0b' || c == '\x0c'

def sw (p : String) (s : String) : Bool := p.toList.isPrefixOf s.toList

def rstripL (l : List Char) : List Char := (l.reverse.dropWhile isSpaceCh).reverse
def rstrip (s : String) : String := String.ofList (rstripL s.toList)

/-- `-?[0-9]+` -/
def isIntLit (l : List Char) : Bool :=
  match l with
  | '-' :: ds => !ds.isEmpty && ds.all Char.isDigit
  | ds => !ds.isEmpty && ds.all Char.isDigit

/-- decimal integer field -> Int (Python `int`, pandas int64 inference) -/
def parseInt (s : String) : Option Int := if isIntLit s.toList then s.toInt? else none

def digitsVal (ds : List Char) : Nat := ds.foldl (fun a c => 10 * a + (c.toNat - 48)) 0

def pow10 (e : Int) : Rat := if e ≥ 0 then (10 : Rat) ^ e.toNat else 1 / (10 : Rat) ^ (-e).toNat

/-- decimal / scientific literal -> exact rational -/
def parseDec (l : List Char) : Option Rat :=
  let (neg, l) : Bool × List Char := match l with
    | '-' :: r => (true, r)
    | '+' :: r => (false, r)
    | r => (false, r)
  let ip := l.takeWhile Char.isDigit
  let r1 := l.dropWhile Char.isDigit
  let (fp, r2) : List Char × List Char := match r1 with
    | '.' :: r => (r.takeWhile Char.isDigit, r.dropWhile Char.isDigit)
    | r => ([], r)
  if ip.isEmpty && fp.isEmpty then none else
  let mant : Rat := (digitsVal (ip ++ fp) : Rat) / (10 : Rat) ^ fp.length
  let ex : Option Int := match r2 with
    | [] => some 0
    | c :: r =>
      if c == 'e' || c == 'E' then
        let (eneg, r) : Bool × List Char := match r with
          | '-' :: t => (true, t)
          | '+' :: t => (false, t)
          | t => (false, t)
        if r.isEmpty || !r.all Char.isDigit then none
        else some (if eneg then -(digitsVal r : Int) else (digitsVal r : Int))
      else none
  ex.map fun e => (if neg then -1 else 1) * mant * pow10 e

/-- number of decimal digits of `n` (1 for 0..9) -/
def ndig (n : Nat) : Nat := if n < 10 then 1 else ndig (n / 10) + 1

/-- decimal exponent of `a > 0`: the `e` with `10^e ≤ a < 10^(e+1)` -/
def dexp (a : Rat) : Int :=
  let e0 : Int := (ndig a.num.natAbs : Int) - (ndig a.den : Int)
  if pow10 e0 ≤ a then e0 else e0 - 1

/-- round half to even -/
def roundHE (q : Rat) : Int :=
  let f := q.floor
  let r := q - (f : Rat)
  if r < 1 / 2 then f else if 1 / 2 < r then f + 1 else if f % 2 == 0 then f else f + 1

/-- nearest decimal with `p` significant digits (ties to even) — the value `%.{p}g` prints -/
def sigRound (p : Nat) (q : Rat) : Rat :=
  if q == 0 then 0 else
  let a := if q < 0 then -q else q
  let sc := pow10 (dexp a - ((p : Int) - 1))
  let m : Rat := (roundHE (a / sc) : Rat) * sc
  if q < 0 then -m else m

/-- `float_format='%.6g'` of `tabio.write` / `write_dataframe` -/
def sixg (q : Rat) : Rat := sigRound SIG_DIGITS q

/-! ## column typing (pandas `read_csv` inference) -/

/-- pandas `STR_NA_VALUES` -/
def NA_STRINGS : List String :=
  ["", "#N/A", "#N/A N/A", "#NA", "-1.#IND", "-1.#QNAN", "-NaN", "-nan", "1.#IND", "1.#QNAN",
   "<NA>", "N/A", "NA", "NULL", "NaN", "None", "n/a", "nan", "null"]

def isNA (v : String) : Bool := NA_STRINGS.contains v

/-- dtype inference of one column: all integers -> int64; all numbers/NA -> float64; else object -/
def typeColumn (vals : List String) : List Cell :=
  if vals.all (fun v => isIntLit v.toList) then
    vals.map fun v => match parseInt v with
      | some i => .int i
      | none => .na
  else if vals.all (fun v => isNA v || (parseDec v.toList).isSome) then
    vals.map fun v => if isNA v then .na else match parseDec v.toList with
      | some q => .flt q
      | none => .na
  else vals.map fun v => if isNA v then .na else .str v

/-- a column read with `dtype=str`, `na_filter=False` -/
def strColumn (vals : List String) : List Cell := vals.map .str

/-- a column read with `dtype=float`, `na_filter=False` -/
def fltColumn (vals : List String) : Except String (List Cell) :=
  vals.mapM fun v => match parseDec v.toList with
    | some q => .ok (.flt q)
    | none => .error s!"could not convert string to float: {v}"

/-- an inferred chromosome column followed by `astype(str)` in the `GenomicArray` constructor -/
def chromColumn (cs : List String) : Except String (List String) :=
  if cs.all (fun c => isIntLit c.toList) then
    .ok (cs.map fun c => toString ((parseInt c).getD 0))
  else if cs.any isNA then .error "outside model: NA-like chromosome name"
  else if cs.all (fun c => (parseDec c.toList).isSome) then
    .error "outside model: float-like chromosome column"
  else .ok cs

def column (j : Nat) (body : List Line) : List String := body.map (fun l => l.getD j "")

def intColumn (what : String) (vals : List String) : Except String (List Int) :=
  vals.mapM fun v => match parseInt v with
    | some i => .ok i
    | none => .error s!"bad {what}: {v}"

/-- assemble rows from a chromosome column, coordinates and the typed extra columns
    (all columns have one entry per row) -/
def mkRows : List String → List Int → List Int → List (List Cell) → List FRow
  | [], _, _, _ => []
  | c :: cs, ss, es, extra =>
    { chrom := c, s := ss.headD 0, e := es.headD 0, cols := extra.map (fun col => col.headD .na) } ::
      mkRows cs ss.tail es.tail (extra.map List.tail)

def insertName (a : String) : List String → List String
  | [] => [a]
  | b :: t => if a ≤ b then a :: b :: t else b :: insertName a t

/-- Python `sorted` on column names (insertion sort: structural, so `decide` can run it) -/
def sortNames (l : List String) : List String := l.foldr insertName []

/-- `GenomicArray.sort_columns`: required columns first, the others sorted by name.
    `req` = required columns beyond chromosome/start/end (`[]` for GenomicArray,
    `["gene","log2"]` for CopyNumArray). -/
def sortColumns (req : List String) (t : FTab) : Except String FTab :=
  if !(req.all t.names.contains) then .error "ValueError: missing required columns" else
  let extra := sortNames (t.names.filter (fun n => !req.contains n))
  let target := req ++ extra
  let idx := target.map (fun n => t.names.idxOf n)
  .ok { names := target,
        rows := t.rows.map fun r => { r with cols := idx.map (fun j => r.cols.getD j .na) } }

/-- dtype repair in the `CopyNumArray` constructor: a required column whose FIRST value has the
    wrong Python type is recast as a whole (`gene` -> str, `log2` -> float) -/
def recastCNA (t : FTab) : Except String FTab :=
  let gi := t.names.idxOf "gene"
  let li := t.names.idxOf "log2"
  match t.rows with
  | [] => .ok t
  | r0 :: _ =>
    let geneBad := match r0.cols.getD gi .na with
      | .str _ => false
      | _ => true
    let logBad := match r0.cols.getD li .na with
      | .flt _ => false
      | .na => false
      | _ => true
    let fixGene (c : Cell) : Except String Cell := match c with
      | .int i => .ok (.str (toString i))
      | .str s => .ok (.str s)
      | .na => .ok (.str "nan")
      | .flt _ => .error "outside model: float gene label"
    let fixLog (c : Cell) : Except String Cell := match c with
      | .int i => .ok (.flt (i : Rat))
      | .flt q => .ok (.flt q)
      | .na => .ok .na
      | .str _ => .error "ValueError: could not convert string to float"
    do
      let rows ← t.rows.mapM fun r => do
        let cols ← (List.range r.cols.length).mapM fun j =>
          let c := r.cols.getD j .na
          if j == gi && geneBad then fixGene c
          else if j == li && logBad then fixLog c
          else pure c
        pure { r with cols := cols }
      pure { t with rows := rows }

/-- what `tabio.read` does after the format-specific reader: class constructor, `sort_columns`, `sort` -/
def finish (cna : Bool) (t : FTab) : Except String FTab := do
  let t ← if cna then (do let t ← sortColumns ["gene", "log2"] t; recastCNA t) else sortColumns [] t
  pure { t with rows := sortF t.rows }

def blank : FTab := { names := [], rows := [] }

def dropBlank (lines : List Line) : List Line := lines.filter (fun l => l != [""] && l != [])

/-! ## readers -/

/-- `bedio.read_bed.track2track` -/
def track2track (lines : List Line) : List Line :=
  let first (l : Line) : String := l.headD ""
  match lines with
  | [] => []
  | l :: rest =>
    let (l0?, rest) : Option Line × List Line :=
      if sw "browser " (first l) then (rest.head?, rest.tail) else (some l, rest)
    match l0? with
    | none => []
    | some l0 =>
      (if sw "track" (first l0) then [] else [l0]) ++ rest.takeWhile (fun l => !sw "track" (first l))

/-- `bedio.read_bed._parse_line` -/
def parseBedLine (l : Line) : Except String FRow :=
  match l with
  | c :: s :: e :: rest =>
    match parseInt (rstrip s), parseInt (rstrip e) with
    | some s, some e =>
      let gene := match rest with
        | g :: _ => rstrip g
        | [] => "-"
      let strand := match rest with
        | _ :: _ :: st :: _ => rstrip st
        | _ => "."
      .ok ⟨c, s + READ_SHIFT_bed, e, [.str gene, .str strand]⟩
    | _, _ => .error s!"ValueError: Bad line {l}"
  | _ => .error s!"ValueError: Bad line {l}"

/-- `bedio.read_bed` / `read_bed3` / `read_bed4` (`ncol` = 5, 3, 4 columns kept) -/
def readBed (ncol : Nat) (lines : List Line) : Except String FTab := do
  let rows ← (track2track lines).mapM parseBedLine
  let keep := ncol - 3
  pure { names := ["gene", "strand"].take keep,
         rows := rows.map fun r => { r with cols := r.cols.take keep } }

/-- `tab.read_tab` -/
def readTab (lines : List Line) : Except String FTab :=
  match dropBlank lines with
  | [] => .ok blank   -- pandas EmptyDataError, caught by `tabio.read`
  | hdr :: body =>
    if !(["chromosome", "start", "end"].all hdr.contains) then
      .error "ValueError: data table must have at least columns chromosome, start, end" else
    if body.any (fun l => l.length != hdr.length) then .error "outside model: ragged line" else do
      let cs := column (hdr.idxOf "chromosome") body
      if cs.any isNA then throw "outside model: NA-like chromosome name"
      let ss ← intColumn "start" (column (hdr.idxOf "start") body)
      let es ← intColumn "end" (column (hdr.idxOf "end") body)
      let extraIdx := (List.range hdr.length).filter
        (fun j => !["chromosome", "start", "end"].contains (hdr.getD j ""))
      let names := extraIdx.map (fun j => hdr.getD j "")
      -- gene labels are read as text when the source says so (`converters={"gene": str}`)
      let extra := extraIdx.map (fun j =>
        if TAB_GENE_AS_TEXT && hdr.getD j "" == "gene" then strColumn (column j body)
        else typeColumn (column j body))
      let rows := mkRows cs (ss.map (· + READ_SHIFT_tab)) es extra
      -- every bin needs a log2 value
      let li := names.idxOf "log2"
      let rows := if names.contains "log2" then
          rows.filter (fun r => r.cols.getD li .na != .na) else rows
      pure { names := names, rows := rows }

/-- `picard.read_interval` -/
def readInterval (lines : List Line) : Except String FTab := do
  let body := (dropBlank lines).filter (fun l => !sw "@" (l.headD ""))
  if body.any (fun l => l.any (fun f => f.toList.contains '@')) then
    throw "outside model: comment character inside a line"
  if body.any (fun l => l.length != 5) then throw "outside model: interval line without 5 fields"
  if body.isEmpty then return { names := ["strand", "gene"], rows := [] }
  let cs ← chromColumn (column 0 body)
  let ss ← intColumn "start" (column 1 body)
  let es ← intColumn "end" (column 2 body)
  let strand := typeColumn (column 3 body)
  let gene := (typeColumn (column 4 body)).map fun c => match c with
    | .na => .str "-"
    | c => c
  pure { names := ["strand", "gene"], rows := mkRows cs (ss.map (· + READ_SHIFT_interval)) es [strand, gene] }

/-- `rangelabel.from_label` (regular expression `re_label`, anchored at the start of the line):
    chromosome, start digits, end digits, gene -/
def fromLabel (l : List Char) : Except String (List Char × List Char × List Char × List Char) :=
  let named : Bool := match l with
    | c :: _ => isWordCh c
    | [] => false
  let chrom : List Char := if named then l.takeWhile (fun c => isWordCh c || c == '.') else []
  match (if named then l.dropWhile (fun c => isWordCh c || c == '.') else l) with
  | ':' :: r1 =>
    let sd := r1.takeWhile Char.isDigit
    match r1.dropWhile Char.isDigit with
    | '-' :: r3 =>
      let ed := r3.takeWhile Char.isDigit
      let r5 := (r3.dropWhile Char.isDigit).dropWhile isSpaceCh
      .ok (chrom, sd, ed, r5.takeWhile (fun c => !isSpaceCh c))
    | _ => .error "ValueError: Invalid range spec"
  | _ => .error "ValueError: Invalid range spec"

/-- the line a list of tab-separated pieces came from -/
def joinTab : List String → String
  | [] => ""
  | [a] => a
  | a :: rest => a ++ "\t" ++ joinTab rest

/-- one line of `textcoord.read_text` -/
def parseTextLine (line : String) : Except String FRow := do
  let (c, sd, ed, g) ← fromLabel line.toList
  if c.isEmpty then throw "outside model: range without chromosome"
  match parseInt (String.ofList sd), parseInt (String.ofList ed) with
  | some s, some e =>
    let gene := if g.isEmpty then "-" else String.ofList g
    pure ⟨String.ofList c, s + READ_SHIFT_from_label + READ_SHIFT_text_reader, e, [.str gene]⟩
  | _, _ => throw "outside model: open-ended range"

/-- `textcoord.read_text`; a line is given as its tab-separated pieces and re-joined -/
def readText (lines : List Line) : Except String FTab := do
  let rows ← lines.mapM (fun l => parseTextLine (joinTab l))
  pure { names := ["gene"], rows := rows }

/-- `gff.read_gff` (coordinates, strand, type; the gene-name regular expression is outside the model) -/
def readGff (lines : List Line) : Except String FTab := do
  let body := (dropBlank lines).filter (fun l => !sw "#" (l.headD ""))
  if body.any (fun l => l.any (fun f => f.toList.contains '#')) then
    throw "outside model: comment character inside a line"
  if body.any (fun l => l.length != 9) then throw "outside model: GFF line without 9 fields"
  let ss ← intColumn "start" (column 3 body)
  let es ← intColumn "end" (column 4 body)
  let rows := mkRows (column 0 body) (ss.map (· + READ_SHIFT_gff)) es
    [strColumn (column 6 body), strColumn (column 2 body)]
  pure { names := ["strand", "type"], rows := sortLexF rows }

/-- first-appearance grouping, `groupby(by="sample_id", sort=False)` -/
def groupBySample (sids : List String) (rows : List FRow) : List (String × List FRow) :=
  let z := sids.zip rows
  sids.eraseDups.map fun sid => (sid, (z.filter (fun p => p.1 == sid)).map (·.2))

/-- `seg.parse_seg`: all samples of a SEG file, in order of first appearance -/
def parseSeg (lines : List Line) (chromNames : List (String × String)) (pre : Option String) :
    Except String (List String × List (String × List FRow)) := do
  -- leading lines without a tab are skipped; the first line with tabs is the header
  let rest := lines.dropWhile (fun l => l.length ≤ 1)
  match rest with
  | [] => throw "ValueError: SEG file contains no data"
  | hdr :: body =>
    let hasProbes ← (if hdr.length == 6 then pure true else if hdr.length == 5 then pure false
      else throw "ValueError: SEG format expects 5 or 6 columns")
    let n := hdr.length
    let body := dropBlank body
    if body.any (fun l => l.length != n) then throw "outside model: ragged SEG line"
    if body.isEmpty then return ((if hasProbes then ["probes"] else []) ++ ["log2", "gene"], [])
    let asStr (what : String) (cells : List Cell) : Except String (List String) :=
      cells.mapM fun c => match c with
        | .int i => .ok (toString i)
        | .str s => .ok s
        | .na => .ok "nan"
        | .flt _ => .error s!"outside model: float-like {what}"
    let sids ← asStr "sample id" (typeColumn (column 0 body))
    let cs ← asStr "chromosome" (typeColumn (column 1 body))
    let cs := cs.map fun c => match chromNames.lookup c with
      | some v => v
      | none => c
    let cs := match pre with
      | some p => cs.map (p ++ ·)
      | none => cs
    let ss ← intColumn "start" (column 2 body)
    let es ← intColumn "end" (column 3 body)
    let extra := (if hasProbes then [typeColumn (column 4 body)] else []) ++
      [typeColumn (column (n - 1) body), body.map (fun _ => Cell.str "-")]
    let rows := mkRows cs (ss.map (· + READ_SHIFT_seg)) es extra
    pure ((if hasProbes then ["probes"] else []) ++ ["log2", "gene"], groupBySample sids rows)

/-- which sample `seg.read_seg` returns -/
inductive SampleSel where
  | first
  | index (i : Nat)
  | name (s : String)

/-- `seg.read_seg` -/
def readSeg (lines : List Line) (sel : SampleSel) : Except String FTab := do
  let (names, groups) ← parseSeg lines [] none
  match sel with
  | .first => match groups with
    | g :: _ => pure { names := names, rows := g.2 }
    | [] => throw "StopIteration"
  | .index i => match groups[i]? with
    | some g => pure { names := names, rows := g.2 }
    | none => throw "IndexError: no such sample index"
  | .name s => match groups.find? (fun g => g.1 == s) with
    | some g => pure { names := names, rows := g.2 }
    | none => throw "IndexError: no such sample id"

/-- `picard.read_picard_hs` -/
def readPicard (lines : List Line) : Except String FTab :=
  match dropBlank lines with
  | [] => .ok blank
  | hdr :: body =>
    if hdr.length != 8 || body.any (fun l => l.length != 8) then
      .error "outside model: per-target table without 8 columns" else do
      let ss ← intColumn "start" (column 1 body)
      let es ← intColumn "end" (column 2 body)
      let _ ← intColumn "length" (column 3 body)
      let gc ← fltColumn (column 5 body)
      let depth ← fltColumn (column 6 body)
      let ratio ← fltColumn (column 7 body)
      pure { names := ["gene", "gc", "depth", "ratio"],
             rows := mkRows (column 0 body) (ss.map (· + READ_SHIFT_picardhs)) es
               [strColumn (column 4 body), gc, depth, ratio] }

/-- position of the first occurrence of `pat` in `l` (`str.find`) -/
def findSub (pat : List Char) : List Char → Option (List Char)
  | [] => if pat.isEmpty then some [] else none
  | c :: t => if pat.isPrefixOf (c :: t) then some ((c :: t).drop pat.length) else findSub pat t

/-- `vcfsimple.parse_end_from_info` -/
def parseEndFromInfo (info : String) : Except String (Option Int) :=
  match findSub "END=".toList info.toList with
  | none => .ok none
  | some rest =>
    match parseInt (String.ofList (rest.takeWhile (· != ';'))) with
    | some e => .ok (some e)
    | none => .error "ValueError: invalid literal for int()"

/-- `vcfsimple.read_vcf_sites` / `read_vcf_simple` (coordinates, ref, alt).
    `simple = true`: `##` lines then a `#CHR…` header line are consumed, every later line is data. -/
def readVcf (simple : Bool) (lines : List Line) : Except String FTab := do
  let body ← (if simple then
      (match lines.dropWhile (fun l => sw "##" (l.headD "")) with
       | h :: rest => if sw "#CHR" (h.headD "") then pure (dropBlank rest) else throw "AssertionError"
       | [] => throw "UnboundLocalError: no header line")
    else pure ((dropBlank lines).filter (fun l => !sw "#" (l.headD ""))))
  if body.any (fun l => l.length < 8) then throw "outside model: VCF line with fewer than 8 fields"
  if !simple && body.any (fun l => l.any (fun f => f.toList.contains '#')) then
    throw "outside model: comment character inside a line"
  let pos ← intColumn "POS" (column 1 body)
  let shift := if simple then READ_SHIFT_vcf_simple else READ_SHIFT_vcf_sites
  let rows ← body.zip pos |>.mapM fun (l, p) => do
    let s := p + shift
    let ref := l.getD 3 ""
    let alt := l.getD 4 ""
    let e ← parseEndFromInfo (l.getD 7 "")
    -- `set_ends`: where END is missing (or literally -1), start + max(0, len(alt) - len(ref))
    let e := match e with
      | some v => if v == -1 then s + ((alt.length : Int) - (ref.length : Int)).toNat else v
      | none => s + ((alt.length : Int) - (ref.length : Int)).toNat
    pure (⟨l.getD 0 "", s, e, [.str alt, .str ref]⟩ : FRow)
  pure { names := ["alt", "ref"], rows := rows }

/-! ## writers (the frame handed to `to_csv`; floats become their 6-digit decimals) -/

def cellOut : Cell → Cell
  | .flt q => .flt (sixg q)
  | c => c

def colCell (t : FTab) (name : String) (r : FRow) : Option Cell :=
  if t.names.contains name then some (r.cols.getD (t.names.idxOf name) .na) else none

/-- `tab.write_tab` with header -/
def writeTab (t : FTab) : List (List Cell) :=
  ((["chromosome", "start", "end"] ++ t.names).map Cell.str) ::
    t.rows.map fun r => [.str r.chrom, .int (r.s + WRITE_SHIFT_tab), .int r.e] ++ r.cols.map cellOut

/-- `bedio.write_bed3` -/
def writeBed3 (t : FTab) : List (List Cell) :=
  t.rows.map fun r => [.str r.chrom, .int (r.s + WRITE_SHIFT_bed3), .int r.e]

/-- `bedio.write_bed4` -/
def writeBed4 (t : FTab) : List (List Cell) :=
  t.rows.map fun r =>
    [.str r.chrom, .int (r.s + WRITE_SHIFT_bed4), .int r.e, cellOut ((colCell t "gene" r).getD (.str "-"))]

/-- `picard.write_interval` -/
def writeInterval (t : FTab) : List (List Cell) :=
  t.rows.map fun r =>
    [.str r.chrom, .int (r.s + WRITE_SHIFT_interval), .int r.e,
     cellOut ((colCell t "strand" r).getD (.str "+")), cellOut ((colCell t "gene" r).getD (.str "-"))]

/-- `rangelabel.to_label` -/
def toLabel (chrom : String) (s e : Int) : String :=
  chrom ++ ":" ++ toString (s + WRITE_SHIFT_to_label) ++ "-" ++ toString e

/-- `textcoord.write_text`: shifts `start`, then applies `to_label` to every row -/
def writeText (t : FTab) : List (List Cell) :=
  t.rows.map fun r => [.str (toLabel r.chrom (r.s + WRITE_SHIFT_text_writer) r.e)]

/-- `seg.format_seg` (no chromosome renumbering, as `export seg` calls it) -/
def formatSeg (sid : String) (t : FTab) : List (List Cell) :=
  t.rows.map fun r =>
    [.str sid, .str r.chrom, .int (r.s + WRITE_SHIFT_seg), .int r.e] ++
    (match colCell t "probes" r with
     | some c => [cellOut c]
     | none => []) ++
    [cellOut ((colCell t "log2" r).getD .na)]

/-- `seg.write_seg` of several samples + header row of `to_csv` -/
def writeSeg (samples : List (String × FTab)) : Except String (List (List Cell)) :=
  match samples with
  | [] => .error "StopIteration"
  | (_, t0) :: _ =>
    let hp := t0.names.contains "probes"
    if samples.any (fun p => p.2.names.contains "probes" != hp) then
      .error "outside model: samples with and without probes" else
    .ok ((["ID", "chrom", "loc.start", "loc.end"] ++ (if hp then ["num.mark"] else []) ++ ["seg.mean"]).map Cell.str
      :: (samples.map fun p => formatSeg p.1 p.2).flatten)

/-- the field a cell becomes in the file; `none` for floats (their `%.6g` spelling is outside the
    model, the value is compared instead) -/
def renderCell : Cell → Option String
  | .int i => some (toString i)
  | .str s => some s
  | .na => some ""
  | .flt _ => none

def renderCellD (c : Cell) : String := (renderCell c).getD ""

/-- the lines of fields a written frame becomes (for frames without float cells) -/
def renderLines (ls : List (List Cell)) : List Line := ls.map (fun l => l.map renderCellD)

/-! ## format sniffing (`tabio.sniff_region_format`) -/

def isDigits (s : String) : Bool := !s.toList.isEmpty && s.toList.all Char.isDigit
def isWord (s : String) : Bool := !s.toList.isEmpty && s.toList.all isWordCh
/-- `\S+` spanning a whole tab-separated field -/
def isNonSpace (s : String) : Bool := !s.toList.isEmpty && s.toList.all (fun c => !isSpaceCh c)
def isOneOf (cs : List Char) (s : String) : Bool :=
  match s.toList with
  | [c] => cs.contains c
  | _ => false

/-- `(\d+,)+` spanning a whole field -/
def isCommaDigits (l : List Char) : Bool :=
  let rec go (fuel : Nat) (l : List Char) : Bool :=
    match fuel with
    | 0 => false
    | fuel + 1 =>
      let d := l.takeWhile Char.isDigit
      match l.dropWhile Char.isDigit with
      | ',' :: r => !d.isEmpty && (r.isEmpty || go fuel r)
      | _ => false
  go (l.length + 1) l

/-- `format_patterns[key].match(line)` on the fields of the line -/
def patMatch (key : String) (f : Line) : Bool :=
  let g (j : Nat) : String := f.getD j ""
  match key with
  | "text" =>
    let l := (g 0).toList
    let w := l.takeWhile isWordCh
    !w.isEmpty && (match l.dropWhile isWordCh with
      | ':' :: r => (match r.dropWhile Char.isDigit with
        | '-' :: _ => true
        | _ => false)
      | _ => false)
  | "tab" => f.length ≥ 3 && g 0 == "chromosome" && g 1 == "start" && sw "end" (g 2)
  | "interval" =>
    f.length == 5 && isWord (g 0) && isDigits (g 1) && isDigits (g 2) && isOneOf ['.', '+', '-'] (g 3)
      && isNonSpace (g 4)
  | "refflat" =>
    f.length == 11 && isNonSpace (g 0) && isNonSpace (g 1) && isWord (g 2) && isOneOf ['+', '-'] (g 3)
      && isDigits (g 4) && isDigits (g 5) && isDigits (g 6) && isDigits (g 7) && isDigits (g 8)
      && isCommaDigits (g 9).toList && isCommaDigits (g 10).toList
  | "gff" =>
    f.length ≥ 9 && isWord (g 0) && isNonSpace (g 1) && isWord (g 2) && isDigits (g 3) && isDigits (g 4)
      && isNonSpace (g 5) && isOneOf ['.', '?', '+', '-'] (g 6) && isOneOf ['0', '1', '2', '.'] (g 7)
  | "bed" =>
    f.length ≥ 3 && isNonSpace (g 0) && isDigits (g 1) &&
      (match (g 2).toList with
       | c :: _ => c.isDigit
       | [] => false)
  | _ => false

inductive Sniff where
  | found (fmt : String)
  | skip
  | fail
deriving Repr, DecidableEq

/-- the tests applied to one non-blank, non-track line, in the order `SNIFF_ORDER` read from the
    source (the VCF test and the `#` skip sit between the gff test and the pure-regex tests) -/
def sniffLine (order : List String) (fnameFmt : Option String) (f : Line) : Sniff :=
  let f0 := f.headD ""
  let steps : List String := order.flatMap (fun k => if k == "gff" then ["gff", "vcf", "#"] else [k])
  let rec go : List String → Sniff
    | [] => .fail
    | k :: ks =>
      if k == "gff" then
        if sw "##gff-version" f0 || patMatch "gff" f then .found "gff" else go ks
      else if k == "vcf" then
        if sw "##fileformat=VCF" f0 || (f0 == "#CHROM" && f.getD 1 "" == "POS" && sw "ID" (f.getD 2 "")) then
          .found "vcf" else go ks
      else if k == "#" then
        if sw "#" f0 then .skip else go ks
      else if k == "interval" then
        if sw "@" f0 || patMatch "interval" f then .found "interval" else go ks
      else if patMatch k f then .found k else go ks
  match fnameFmt with
  | some k => if patMatch k f then .found k else go steps
  | none => go steps

/-- `tabio.sniff_region_format`: `ext` is the file-name extension after `lstrip('.')` -/
def sniff (ext : String) (lines : List Line) : Except String (Option String) :=
  let key := String.ofList (ext.toList.drop 1)
  let fnameFmt := if (SNIFF_PATTERNS.map (·.1)).contains key then some key else none
  let rec go : List Line → Except String (Option String)
    | [] => .ok none
    | f :: rest =>
      let f0 := f.headD ""
      if f.all (fun x => x.toList.all isSpaceCh) then go rest
      else if sw "track" f0 || sw "browser " f0 then go rest
      else match sniffLine SNIFF_ORDER fnameFmt f with
        | .found k => .ok (some k)
        | .skip => go rest
        | .fail => .error "ValueError: not a recognized format"
  go lines

/-- the reader `read_auto` ends up calling -/
def autoFormat (ext : String) (lines : List Line) : Except String String := do
  match ← sniff ext lines with
  | some k => pure k
  | none => pure "bed3"

/-- `tabio.read(infile, fmt)` for the formats of the model (into a `GenomicArray`, or a
    `CopyNumArray` when `cna`) -/
def readFmt (fmt : String) (cna : Bool) (sel : SampleSel) (lines : List Line) : Except String FTab := do
  let t ← (match fmt with
    | "bed" => readBed 5 lines
    | "bed3" => readBed 3 lines
    | "bed4" => readBed 4 lines
    | "tab" => readTab lines
    | "interval" => readInterval lines
    | "text" => readText lines
    | "gff" => readGff lines
    | "seg" => readSeg lines sel
    | "picardhs" => readPicard lines
    | "vcf-sites" => readVcf false lines
    | "vcf-simple" => readVcf true lines
    | _ => throw s!"ValueError: Unknown format: {fmt}")
  finish cna t

/-- `tabio.write(garr, fmt)` (SEG through `export seg`, see `writeSeg`) -/
def writeFmt (fmt : String) (t : FTab) : Except String (List (List Cell)) :=
  match fmt with
  | "tab" => .ok (writeTab t)
  | "bed3" => .ok (writeBed3 t)
  | "bed4" => .ok (writeBed4 t)
  | "interval" => .ok (writeInterval t)
  | "text" => .ok (writeText t)
  | _ => .error s!"outside model: writer {fmt}"

end CnvVerif.Fmt
