/-
  Extension 5c of Model/Ranges.lean (C07): `GenomicArray.iter_ranges_of(other, column, mode, keep_empty)` for ANY column
  name (skgenome/gary.py:524-528): a name that is not a column of `self` raises `ValueError` -- at the first `next()`, before
  any range is looked at, hence also for an empty `other` / an empty `self`; otherwise one list of the column's values per
  range of `other` (`ser[slc]` for the slices of `iter_slices`).  Core Lean only.
-/
import CnvVerif.Model.RangesExt5
namespace CnvVerif

/-- the value of one of the four standard columns, as `str(x)` -/
def c07ColCell (column : String) (r : Row) : String :=
  if column == "chromosome" then r.chrom
  else if column == "start" then toString r.s
  else if column == "end" then toString r.e
  else r.gene

/-- `cols` = `self.data.columns` (here: chromosome, start, end, gene, in any order, or fewer) -/
def c07IterRangesOf (cols : List String) (column : String) (self other : Table) (mode : Mode) (keepEmpty : Bool) :
    Except C07Err (List (List String)) :=
  if cols.contains column then
    .ok ((iterSlices self other mode keepEmpty).map (fun sel => sel.map (c07ColCell column)))
  else .error .valueError

end CnvVerif
