/-
  The cells of one output row as the row-wise source translator (harness/exprtrans.py, class `RowFn`) emits them:
  a string, an integer or a (rational) float.  Core Lean only.
-/
namespace CnvVerif.Py

inductive Val
  | str (s : String)
  | int (i : Int)
  | num (q : Rat)
deriving Repr, DecidableEq, Inhabited

end CnvVerif.Py
