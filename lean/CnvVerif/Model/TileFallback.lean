/-
  The fallback branches of `transfer_fields` (cnvlib/segmentation/__init__.py) as a function of its own two
  arguments — the segment table a segmenter returned and the bin table of the unit — instead of the composite
  `assembleUnit` (Model/Tile.lean), which only covers the case "weight column present, at least one segment".

    * `if not len(cnarr)`            → the segments come back unchanged                      (`.unchanged`)
    * `if not len(segments)`         → NOT a table: the tuple built by `make_null_segment`    (`.nullRow`)
                                        (chromosome, first bin's start, last bin's end, gene "-", depth / log2 /
                                        probes / weight 0)
    * weight column present          → `aggregate` of Model/Tile.lean (total weight 0 ⇒ depth 0.0)
    * NO weight column               → weight = number of spanned bins, depth = their plain mean (`aggregateNW`)
    * NO depth column                → depth = 2**log2 per bin; irrational, so the harness hands the bins over with
                                        that depth already filled in (`_eff_bins`) and the model aggregates them

  The bins a segment spans are those `iter_slices(cdata, segments.data, "outer", False)` selects: same chromosome,
  overlapping the (stretched) span.  Core Lean only.
-/
import CnvVerif.Model.Tile
namespace CnvVerif

/-- the input bins of the unit that the segment spans -/
def spanned (unit : List Bin) (g : SegO) : List Bin :=
  unit.filter (fun b => b.chrom == g.chrom && decide (b.e > g.s) && decide (b.s < g.e))

/-- plain mean; `0` for the empty list (numpy gives NaN there: a segment always spans a bin, the harness never
    sends such a case) -/
def meanQ (l : List Rat) : Rat := sumQ l / (l.length : Rat)

/-- the aggregation loop of `transfer_fields` for a table WITHOUT a weight column:
    `bin_count = len(...)`, `seg_wt = float(bin_count)`, `seg_dp = bin_depths[bin_idx].mean()` -/
def aggregateNW (unit : List Bin) (g : SegO) : SegO :=
  let sel := spanned unit g
  let names := ((sel.map (·.gene)).eraseDups).filter meaningful
  { g with weight := (sel.length : Rat), depth := meanQ (sel.map (·.depth)),
           gene := if names.isEmpty then "-" else ",".intercalate names }

/-- the row `make_null_segment` builds (returned as a bare tuple, in the column order of the segment table) -/
def nullSegment (chrom : String) (s e : Int) : SegO :=
  { chrom := chrom, s := s, e := e, gene := "-", log2 := 0, probes := 0, weight := 0, depth := 0 }

/-- the end-point stretch: first segment to the first bin's start, last segment to the last bin's end, each only
    when on the same chromosome -/
def stretchEnds (ufirst ulast : Bin) (segs : List SegO) : List SegO :=
  setLast (fun g => if g.chrom == ulast.chrom then { g with e := ulast.e } else g)
    (setFirst (fun g => if g.chrom == ufirst.chrom then { g with s := ufirst.s } else g) segs)

inductive TransferOut where
  /-- `return segments` untouched (no bins) -/
  | unchanged (segs : List SegO)
  /-- `return make_null_segment(...)`: one row as a tuple, not a table -/
  | nullRow (row : SegO)
  /-- the segment table with end points stretched and gene / weight / depth filled in -/
  | table (segs : List SegO)
deriving Repr, DecidableEq

/-- `transfer_fields(segments, cnarr)`; `hasWeight` = the bin table has a `weight` column -/
def transferFields (hasWeight : Bool) (cn : List Bin) (segs : List SegO) : TransferOut :=
  match cn with
  | [] => .unchanged segs
  | ufirst :: _ =>
    let ulast := cn.getLast?.getD ufirst
    if segs.isEmpty then .nullRow (nullSegment ufirst.chrom ufirst.s ulast.e)
    else .table ((stretchEnds ufirst ulast segs).map (if hasWeight then aggregate cn else aggregateNW cn))

/-- clauses of C03's aggregation sentence violated by the rows `out` that the real `transfer_fields` returned for the
    bins `cn` (each row judged on ITS OWN span): with a weight column the weight is the total of the spanned bins and
    the depth their weighted mean, or exactly 0 when that total is not positive; without one the weight is the number
    of spanned bins and the depth their plain mean -/
def transferSpec (hasWeight : Bool) (cn : List Bin) (out : List SegO) : List String :=
  let bad (p : SegO → Bool) : Bool := out.any (fun g => !p g)
  let total (g : SegO) : Rat := sumQ ((spanned cn g).map (·.weight))
  let weighted := bad fun g =>
    !hasWeight || !decide (total g > 0) ||
      (closeQ g.weight (aggregate cn g).weight && closeQ g.depth (aggregate cn g).depth)
  let zero := bad fun g =>
    !hasWeight || decide (total g > 0) || (closeQ g.weight (total g) && decide (g.depth = 0))
  let unweighted := bad fun g =>
    hasWeight || (closeQ g.weight (aggregateNW cn g).weight && closeQ g.depth (aggregateNW cn g).depth)
  (if weighted then ["weight_depth_of_spanned_bins"] else []) ++
  (if zero then ["zero_weight_segment_has_depth_zero"] else []) ++
  (if unweighted then ["no_weight_column_counts_bins_and_averages"] else [])

end CnvVerif
