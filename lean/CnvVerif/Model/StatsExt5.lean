/-
  C17 (round 5): `do_bintest(cnarr, segments=None, …)` / `cnvkit.py bintest <cnr>` without `-s` -- the segment-less
  mode.  `cnarr.residuals(None)` (cnvlib/cnary.py, the `if not segments:` branch) subtracts from every bin the MEDIAN
  log2 of the bins of its chromosome (`by_chromosome()`: pandas groupby, every chromosome's rows together); the result
  has one value per bin under the bin's own index label, so `do_bintest` takes neither of its two re-indexing branches
  and `cnarr["log2"] = resid` (aligned on the labels) leaves the rows in TABLE order.  Everything after that is the code
  modelled in Model/Stats.lean (`pRaw`, `padjustBH`, the `target_only` filter, `< alpha`).  Core Lean only.
-/
import CnvVerif.Model.Stats
namespace CnvVerif.Stats

/-- the log2 values of the bins on chromosome `c` -/
def nosegChromLog2 (bins : List Bin) (c : String) : List Rat :=
  (bins.filter (fun x => x.row.chrom == c)).map (·.log2)

/-- `cnarr.residuals(None)` attached to the rows: `log2 − median(log2 of the chromosome's bins)`, table order -/
def nosegRows (bins : List Bin) : List (Bin × Rat) :=
  bins.map (fun b => (b, b.log2 - median (nosegChromLog2 bins b.row.chrom)))

/-- the rows `z_prob` sees -/
def nosegTested (bins : List Bin) (targetOnly : Bool) : List (Bin × Rat) :=
  if targetOnly then (nosegRows bins).filter (fun r => !Generated.ANTITARGET_ALIASES.contains r.1.gene)
  else nosegRows bins

/-- every tested bin with its adjusted p -/
def nosegAll (tail : Rat → Rat) (bins : List Bin) (targetOnly : Bool) : List Hit :=
  let rows := nosegTested bins targetOnly
  let q := padjustBH (rows.map (fun r => pRaw tail r.2 r.1.weight))
  (rows.zip q).map (fun x => { bin := x.1.1, resid := x.1.2, q := x.2 })

/-- `do_bintest(cnarr, None, alpha, target_only)` -/
def nosegBintest (tail : Rat → Rat) (bins : List Bin) (alpha : Rat) (targetOnly : Bool) : List Hit :=
  (nosegAll tail bins targetOnly).filter (fun h => h.q < alpha)

end CnvVerif.Stats
