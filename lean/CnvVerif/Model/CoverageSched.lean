/-
  Small-step model of the two parallel sections of cnvlib/coverage.py
  (`interval_coverages_count`: one task per chromosome; `interval_coverages_pileup`: one task per BED chunk):

      with futures.ProcessPoolExecutor(procs) as pool:
          for result in pool.map(worker, args_iter):      # submission order
              consume(result)

  as a labelled transition system.  A pool has `nw` workers.  Tasks are submitted in order and wait in a queue
  with their SUBMISSION INDEX.  An event is `take w k` (idle worker `w` takes the `k`-th waiting task -- FIFO is
  `k = 0`; any other pick models prefetching / stealing) or `finish w` (worker `w` finishes its task: the result
  is stored in the future of that submission index, and appended to the completion log).  A SCHEDULE is any list
  of events; an event that is not enabled in the current state does nothing.  `Executor.map` hands the futures'
  results back by submission index (`gatherOrdered`); `as_completed` would hand them back in completion order
  (`gatherCompleted`).  Which of the two the source uses is read from the source text on every run
  (`Generated.COVERAGE_GATHER_MODES`, harness/extractors/coverage_ext.py).
  Core Lean only.
-/
import CnvVerif.Model.Coverage
import CnvVerif.Generated.CoverageExt
namespace CnvVerif.Cov.Sched
open CnvVerif CnvVerif.Cov

/-- a worker event -/
inductive Ev
  | take (w k : Nat)
  | finish (w : Nat)
deriving Repr, DecidableEq, Inhabited

/-- pool state: waiting tasks with their submission index, what each worker is running, one result slot per
    submission index (the futures), the completion log -/
structure St (α β : Type) where
  pending : List (Nat × α)
  running : List (Option (Nat × α))
  slots : List (Option β)
  log : List (Nat × β)
deriving DecidableEq

/-- all tasks submitted, nothing started; `nw` idle workers -/
def init {α β} (nw : Nat) (xs : List α) : St α β :=
  { pending := (List.range xs.length).zip xs, running := List.replicate nw none,
    slots := List.replicate xs.length none, log := [] }

/-- one event; not enabled = no change -/
def step {α β} (f : α → β) (st : St α β) : Ev → St α β
  | .take w k =>
    match st.running[w]?, st.pending[k]? with
    | some none, some t => { st with pending := st.pending.eraseIdx k, running := st.running.set w (some t) }
    | _, _ => st
  | .finish w =>
    match st.running[w]? with
    | some (some (i, x)) =>
      { st with running := st.running.set w none, slots := st.slots.set i (some (f x)),
                log := st.log ++ [(i, f x)] }
    | _ => st

/-- a whole schedule -/
def run {α β} (f : α → β) (st : St α β) (evs : List Ev) : St α β := evs.foldl (step f) st

/-- nothing waiting, nobody working: the `with` block can be left -/
def quiescent {α β} (st : St α β) : Bool := st.pending.isEmpty && st.running.all Option.isNone

/-- `Executor.map`: the futures' results in submission order -/
def gatherOrdered {α β} (st : St α β) : List β := st.slots.filterMap id

/-- what the consumer's `for` loop has been handed so far while the pool is still working: `Executor.map` yields
    result `i` only when results `0..i` are all there -/
def yieldedSoFar {α β} (st : St α β) : List β := (st.slots.takeWhile Option.isSome).filterMap id

/-- `as_completed`: the results in the order in which the workers finished -/
def gatherCompleted {α β} (st : St α β) : List β := st.log.map (·.2)

/-- the gather discipline by the name the extractor gives it -/
def gatherBy {α β} (mode : String) (st : St α β) : List β :=
  if mode == "ordered" then gatherOrdered st else gatherCompleted st

/-- `list(pool.map(f, xs))` under a schedule: `none` while the pool is not quiescent -/
def schedMap {α β} (mode : String) (f : α → β) (xs : List α) (nw : Nat) (evs : List Ev) : Option (List β) :=
  let st := run f (init nw xs) evs
  if quiescent st then some (gatherBy mode st) else none

/-- number of steps still to go: a waiting task needs two events, a running one needs one -/
def measure {α β} (st : St α β) : Nat := 2 * st.pending.length + st.running.countP Option.isSome

/-- the schedule that uses worker 0 only, task by task -/
def serialSchedule (n : Nat) : List Ev := (List.replicate n [Ev.take 0 0, Ev.finish 0]).flatten

/-! ## the two commands with an explicit schedule -/

/-- `interval_coverages_count` with a worker schedule; `procs == 1` never creates a pool -/
def countTableSched (contigs : List (String × Nat)) (reads : List ARead) (q : Nat) (lines : List BedLine)
    (procs nw : Nat) (evs : List Ev) : Option (List OutRow) :=
  let regions := sortTable ((records lines).map BedRec.toRow)
  let groups := (groupByChrom regions).map (·.2)
  if procs == 1 then some (groups.flatMap (rdcChunk contigs reads q))
  else (schedMap (Generated.COVERAGE_GATHER_MODES.getD 0 "") (rdcChunk contigs reads q) groups nw evs).map
    List.flatten

/-- `interval_coverages_pileup` with a worker schedule -/
def pileupTableSched (contigs : List (String × Nat)) (reads : List ARead) (q : Nat) (lines : List BedLine)
    (procs size nw : Nat) (evs : List Ev) : Option (List OutRow) :=
  let raw :=
    if procs == 1 then some (bedcov contigs reads q lines)
    else (schedMap (Generated.COVERAGE_GATHER_MODES.getD 1 "") (bedcov contigs reads q)
      (toChunks BedLine.isComment size lines) nw evs).map List.flatten
  raw.map (fun t => t.map pileupPost)

/-- `do_coverage` under a worker schedule: `.ok none` = the schedule leaves the pool unfinished.  `nw` = the
    number of workers the pool really has (`procs`, or the CPU count for `processes=0/None`) -/
def coverageSched (contigs : List (String × Nat)) (reads : List Read) (q : Nat) (lines : List BedLine)
    (algo : Algo) (procs size nw : Nat) (evs : List Ev) : Except String (Option (List OutRow)) :=
  match validate contigs lines with
  | some e => .error e
  | none =>
    let ar := reads.map align
    match algo with
    | .count => .ok (countTableSched contigs ar q lines procs nw evs)
    | .pileup => .ok (pileupTableSched contigs ar q lines procs size nw evs)

end CnvVerif.Cov.Sched
