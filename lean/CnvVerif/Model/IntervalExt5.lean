/-
  C06 round 5b: `skgenome.merge.merge(table, bp, stranded, combine)` on tables with ANY columns, with the
  combiners of skgenome/combiners.py (`first_of`, `last_of`, `join_strings`, `merge_strands`, `make_const`, and the
  builtins `max`, `min`, `sum` the default table uses) and `get_combiners`.

  A row is the list of its (column, value) cells in column order (the namedtuple of `itertuples`), a value is a string
  or an integer (the harness scales the numeric columns to integers).
-/
import CnvVerif.Basic
namespace CnvVerif.C06X

inductive Val where
  | str (s : String)
  | num (n : Int)
deriving Repr, DecidableEq, Inhabited

abbrev XRow := List (String × Val)
abbrev XTable := List XRow

/-- the value-combining functions of skgenome/combiners.py (+ the builtins used in the default table) -/
inductive Cmb where
  | firstOf | lastOf | joinStrings | mergeStrands | const (v : Val) | maxOf | minOf | sumOf
deriving Repr, DecidableEq, Inhabited

def Val.int : Val → Int
  | .num n => n
  | .str _ => 0

def Val.text : Val → String
  | .str s => s
  | .num n => toString n

/-- `combiner(pd.Series(values))` on the (non-empty) values of one column of a row group -/
def applyCmb (c : Cmb) (vs : List Val) : Val :=
  match c with
  | .firstOf => vs.head?.getD default                     -- `elems.iat[0]`
  | .lastOf => vs.getLast?.getD default                    -- `elems.iat[-1]`
  | .joinStrings => .str (joinStrings (vs.map Val.text))   -- `sep.join(pd.unique(pd.Series(elems)))`
  | .mergeStrands => if vs.eraseDups.length > 1 then .str "." else vs.head?.getD default
  | .const v => v                                          -- `make_const(val)`
  | .maxOf => .num ((vs.map Val.int).foldl max ((vs.head?.getD default).int))
  | .minOf => .num ((vs.map Val.int).foldl min ((vs.head?.getD default).int))
  | .sumOf => .num (vs.map Val.int).sum

/-- the default table of `get_combiners`, in dict order -/
def defaultCmb : List (String × Cmb) :=
  [("chromosome", .firstOf), ("start", .firstOf), ("end", .maxOf), ("gene", .joinStrings),
   ("accession", .joinStrings), ("weight", .sumOf), ("probes", .sumOf)]

/-- `dict.update`: existing keys keep their place and get the new value, new keys are appended -/
def dictUpdate (d : List (String × Cmb)) : List (String × Cmb) → List (String × Cmb)
  | [] => d
  | (k, c) :: more =>
    dictUpdate (if d.any (·.1 == k) then d.map (fun p => if p.1 == k then (k, c) else p) else d ++ [(k, c)]) more

/-- `get_combiners(table, stranded, combine)` -/
def getCombiners (cols : List String) (stranded : Bool) (custom : List (String × Cmb)) : List (String × Cmb) :=
  let cmb := dictUpdate defaultCmb custom
  let cmb := if cmb.any (·.1 == "strand") then cmb
    else cmb ++ [("strand", if stranded then Cmb.firstOf else Cmb.mergeStrands)]
  cmb.filter (fun p => cols.contains p.1)

def cell (r : XRow) (k : String) : Val := (r.lookup k).getD default
def chromOf (r : XRow) : String := (cell r "chromosome").text
def startOf (r : XRow) : Int := (cell r "start").int
def endOf (r : XRow) : Int := (cell r "end").int
def strandOf (r : XRow) : String := (cell r "strand").text

/-- `_squash_tuples`: one row stays as it is; otherwise the first row with every column that has a combiner replaced -/
def squash (cmb : List (String × Cmb)) (rows : List XRow) : XRow :=
  match rows with
  | [] => []
  | [r] => r
  | first :: _ =>
    first.map (fun p => match cmb.lookup p.1 with
      | some c => (p.1, applyCmb c (rows.map (fun r => cell r p.1)))
      | none => p)

/-- `_nonoverlapping_groups`: a new group starts where `start - end.cummax()[:-1] > -bp` (the running maximum is the one
    of the whole (chromosome[, strand]) table, as in the code); `cur` = the open group, reversed -/
def groupsGo (bp : Int) (mx : Int) (cur : List XRow) : List XRow → List (List XRow)
  | [] => [cur.reverse]
  | x :: xs =>
    if startOf x - mx > -bp then cur.reverse :: groupsGo bp (max mx (endOf x)) [x] xs
    else groupsGo bp (max mx (endOf x)) (x :: cur) xs

def groups (bp : Int) : List XRow → List (List XRow)
  | [] => []
  | x :: xs => groupsGo bp (endOf x) [x] xs

/-- `_merge_overlapping` -/
def mergeOverlapping (bp : Int) (cmb : List (String × Cmb)) (t : XTable) : XTable :=
  (groups bp t).map (squash cmb)

/-- group key: `["chromosome", "strand"]` if stranded else `["chromosome"]` -/
def keyOf (stranded : Bool) (r : XRow) : String × String :=
  (chromOf r, if stranded then strandOf r else "")

def keyLt (a b : String × String) : Bool := decide (a.1 < b.1) || (a.1 == b.1 && decide (a.2 < b.2))

/-- `sort_values(groupkey + ["start", "end"])` -/
def sortLe (stranded : Bool) (a b : XRow) : Bool :=
  let ka := keyOf stranded a
  let kb := keyOf stranded b
  keyLt ka kb || (ka == kb && (startOf a < startOf b || (startOf a == startOf b && endOf a ≤ endOf b)))

def gapsOk (bp : Int) (t : XTable) : Bool :=
  (((t.map startOf).drop 1).zip (cummax (t.map endOf))).all (fun p => p.1 - p.2 > -bp)

def resort (t : XTable) : XTable :=
  t.mergeSort (fun a b => chromKeyLe (sorterChrom (chromOf a)) (sorterChrom (chromOf b)))

/-- the groups of `groupby(by=groupkey, sort=False)`: keys in order of first appearance -/
def byKey (stranded : Bool) (t : XTable) : List ((String × String) × XTable) :=
  ((t.map (keyOf stranded)).eraseDups).map (fun k => (k, t.filter (fun r => keyOf stranded r == k)))

/-- `merge(table, bp, stranded, combine)` -/
def mergeX (bp : Int) (stranded : Bool) (custom : List (String × Cmb)) (cols : List String) (t : XTable) : XTable :=
  if t.isEmpty then t
  else if gapsOk bp t then t
  else
    let sorted := t.mergeSort (sortLe stranded)
    let cmb := getCombiners cols stranded custom
    resort ((byKey stranded sorted).flatMap (fun g => mergeOverlapping bp cmb g.2))

/-- under `stranded=True` the output row shows the strand of its group unless `combine=` replaces the strand combiner by one
    that does not return a member of the (all equal) values: `make_const` or an arithmetic one -/
def strandKeepsKey (cmb : List (String × Cmb)) : Bool :=
  match cmb.lookup "strand" with
  | some .firstOf | some .lastOf | some .mergeStrands | some .joinStrings => true
  | _ => false

/-! ### specification read on an output (the real one and the model's) -/

/-- clauses (for `0 ≤ bp ≤ 1`, where the rows squashed into an output row are exactly the rows of its key it covers):
    * untouched table on the fast path;
    * every output row has the input's columns in order;
    * every output row covers ≥ 1 input row of its own (chromosome[, strand]) key, starts where the first of them starts;
    * a row covering one input row IS that row; a row covering several carries, in every column,
      `combiner(values of the covered rows in (start, end) order)` when the column has a combiner, else the first row's cell;
    * every input row is covered by an output row of its key. -/
def mergeXSpecB (bp : Int) (stranded : Bool) (custom : List (String × Cmb)) (cols : List String) (t out : XTable) :
    List String :=
  if t.isEmpty || gapsOk bp t then (if out == t then [] else ["x_fast_path_returns_table"])
  else if stranded && !(strandKeepsKey (getCombiners cols stranded custom)) then []
  else
    let cmb := getCombiners cols stranded custom
    let sorted := t.mergeSort (sortLe stranded)
    let covered (o : XRow) : XTable :=
      sorted.filter (fun r => keyOf stranded r == keyOf stranded o && startOf o ≤ startOf r && endOf r ≤ endOf o)
    (if out.all (fun o => o.map (·.1) == cols) then [] else ["x_columns_kept_in_order"]) ++
    (if out.all (fun o => !(covered o).isEmpty) then [] else ["x_output_row_covers_rows_of_its_key"]) ++
    (if out.all (fun o => match covered o with
        | [] => true
        | [r] => o == r
        | first :: rest => o == first.map (fun p => match cmb.lookup p.1 with
            | some c => (p.1, applyCmb c ((first :: rest).map (fun r => cell r p.1)))
            | none => p)) then [] else ["x_fields_are_combiner_of_covered_rows"]) ++
    (if t.all (fun r => out.any (fun o => keyOf stranded r == keyOf stranded o && startOf o ≤ startOf r
        && endOf r ≤ endOf o)) then [] else ["x_every_row_covered_in_its_key"])

end CnvVerif.C06X
