/-
  C17 (round 5c): `do_segmetrics` on a segment WITHOUT bins or with exactly ONE bin (cnvlib/segmetrics.py,
  cnvlib/descriptives.py `on_array`).  Which value every statistic takes on the empty set and on a singleton, with the
  branch structure that decides it: the `on_array(default)` decorator (`[]` -> NaN, `[x]` -> `default or x`), numpy's
  mean / median / std of nothing (NaN), scipy's `sem` / `ttest_1samp` with no degree of freedom (NaN), the
  `if len(ser)` guard of `calc_intervals` (no bins: NaN, the interval function is not called) and the `k < 2` shortcut
  of `confidence_interval_bootstrap`, which comes BEFORE the seeding, the resampling and the `--smooth-bootstrap`
  noise: a one-bin interval is (x, x) whatever `bootstraps` and `smoothed` are.  Spread statistics are taken over the
  deviations `bin - segment log2`, location and interval statistics over the bin values.  What the statistics compute
  on two or more values is a parameter (`Big`; modelled in Model/Stats.lean); no Mathlib.
-/
namespace CnvVerif.C17Small

/-- a cell of the result table -/
inductive Cell where
  | nan
  | num (r : Rat)
deriving Repr, BEq, DecidableEq

/-- the statistics on two or more values (Model/Stats.lean; a parameter here) -/
structure Big where
  median : List Rat → Cell
  mode : List Rat → Cell
  ttest : List Rat → Cell
  std : List Rat → Cell
  sem : List Rat → Cell
  mad : List Rat → Cell
  mse : List Rat → Cell
  iqr : List Rat → Cell
  bivar : List Rat → Cell
  ci : Bool → Nat → List Rat → Cell × Cell
  pi : List Rat → Cell × Cell

/-- `descriptives.on_array(default)` on NaN-free values: nothing -> NaN, one value -> `default`, or the value itself
    when no default is given, otherwise the decorated function -/
def onArray (default : Option Rat) (f : List Rat → Cell) : List Rat → Cell
  | [] => .nan
  | [x] => match default with
    | none => .num x
    | some d => .num d
  | a => f a

def total : List Rat → Rat
  | [] => 0
  | x :: r => x + total r

def avg (a : List Rat) : Rat := total a / (a.length : Rat)

/-- numpy's population variance `mean((a - mean(a))**2)` -/
def variance (a : List Rat) : Rat := avg (a.map (fun x => (x - avg a) * (x - avg a)))

/-- `np.mean`: NaN of nothing -/
def npMean (a : List Rat) : Cell := if a.isEmpty then .nan else .num (avg a)

/-- `np.median`: NaN of nothing, the value itself of one value -/
def npMedian (B : Big) : List Rat → Cell
  | [] => .nan
  | [x] => .num x
  | a => B.median a

/-- `np.std`: NaN of nothing; the root of the variance, which is exact when the variance is 0 -/
def npStd (B : Big) (a : List Rat) : Cell :=
  if a.isEmpty then .nan else if variance a == 0 then .num 0 else B.std a

/-- `scipy.stats.sem` (ddof = 1) and `ttest_1samp(a, 0)[1]`: NaN without a degree of freedom -/
def noDof (f : List Rat → Cell) (a : List Rat) : Cell := if a.length ≤ 1 then .nan else f a

/-- `confidence_interval_bootstrap` (alpha in (0,1)): the `k < 2` shortcut returns `values[0]` twice, before the
    generator is seeded and before any smoothing -/
def ciFunc (B : Big) (smoothed : Bool) (bootstraps : Nat) (values : List Rat) : Cell × Cell :=
  match values with
  | [] => (.nan, .nan)       -- not reached: `calc_intervals` does not call it
  | [x] => (.num x, .num x)
  | a => B.ci smoothed bootstraps a

/-- `make_pi_func`: both percentiles of one value are the value -/
def piFunc (B : Big) (values : List Rat) : Cell × Cell :=
  match values with
  | [] => (.nan, .nan)
  | [x] => (.num x, .num x)
  | a => B.pi a

/-- `calc_intervals`: the arrays start as NaN; `if len(ser):` -/
def calcInterval (f : List Rat → Cell × Cell) (ser : List Rat) : Cell × Cell :=
  if ser.isEmpty then (.nan, .nan) else f ser

structure Row where
  mean : Cell
  median : Cell
  mode : Cell
  ttest : Cell
  stdev : Cell
  sem : Cell
  mad : Cell
  mse : Cell
  iqr : Cell
  bivar : Cell
  ci : Cell × Cell
  pi : Cell × Cell

/-- one row of `do_segmetrics`: location statistics of the bin values, spread statistics of the deviations from the
    segment's log2, intervals of the bin values -/
def segRow (B : Big) (smoothed : Bool) (bootstraps : Nat) (segLog2 : Rat) (bins : List Rat) : Row :=
  let dev := bins.map (fun b => b - segLog2)
  { mean := npMean bins
    median := npMedian B bins
    mode := onArray none B.mode bins
    ttest := noDof B.ttest bins
    stdev := npStd B dev
    sem := noDof B.sem dev
    mad := onArray (some 0) B.mad dev
    mse := onArray (some 0) B.mse dev
    iqr := onArray (some 0) B.iqr dev
    bivar := onArray (some 0) B.bivar dev
    ci := calcInterval (ciFunc B smoothed bootstraps) bins
    pi := calcInterval (piFunc B) bins }

def Row.cells (r : Row) : List Cell :=
  [r.mean, r.median, r.mode, r.ttest, r.stdev, r.sem, r.mad, r.mse, r.iqr, r.bivar, r.ci.1, r.ci.2, r.pi.1, r.pi.2]

end CnvVerif.C17Small
