/-
  Model of cnvlib/segmentation/haar.py (HaarSeg): `HaarConv` (unweighted and weighted), `FindLocalPeaks`,
  `FDRThres`, `UnifyLevels`, `SegmentByPeaks` and the level loop of `haarSeg`, as the code is.

  Exact arithmetic (`Rat`).  Everything that is a *float effect* in the Python code is a parameter:
    * `norm`  -- the double `math.sqrt(2.0 * stepHalfSize)` (resp. `math.sqrt(stepHalfSize / 2)`), supplied by the caller;
    * `rnd`   -- the rounding applied after a float division / addition (`fl64` = IEEE-754 binary64
                 round-to-nearest-even in the driver, `id` = real arithmetic in the theorems);
    * `p`     -- the p-values `2 * (1 - scipy.stats.norm.cdf(x_sorted, stdev))` of `FDRThres`.
  Core Lean only.
-/
import CnvVerif.Generated.HaarConsts
namespace CnvVerif.Haar

/-! ### numbers -/

def absQ (x : Rat) : Rat := if x < 0 then -x else x

def pow2 (e : Int) : Rat :=
  if 0 ≤ e then ((2 ^ e.toNat : Nat) : Rat) else 1 / ((2 ^ (-e).toNat : Nat) : Rat)

/-- `⌊log2 a⌋` of a positive rational -/
def ilog2 (a : Rat) : Int :=
  let e0 : Int := (Nat.log2 a.num.natAbs : Int) - (Nat.log2 a.den : Int)
  if pow2 e0 ≤ a then e0 else e0 - 1

def roundHalfEven (m : Rat) : Int :=
  let f := m.floor
  let r := m - (f : Rat)
  if r < 1 / 2 then f else if 1 / 2 < r then f + 1 else if f % 2 = 0 then f else f + 1

/-- IEEE-754 binary64 round-to-nearest-even of an exact rational (no overflow handling: the values of this
model stay far below 2^1023).  What a correctly rounded float `+`, `*`, `/` returns for the exact result. -/
def fl64 (q : Rat) : Rat :=
  if q = 0 then 0 else
  let a := absQ q
  let e := max (ilog2 a) (-1022)
  let ulp := pow2 (e - 52)
  let r : Rat := ((roundHalfEven (a / ulp) : Int) : Rat) * ulp
  if q < 0 then -r else r

def nth (a : Array Rat) (i : Nat) : Rat := a.getD i 0

/-! ### HaarConv -/

/-- `highEnd = k + stepHalfSize - 1; if highEnd >= signalSize: highEnd = signalSize - 1 - (highEnd - signalSize)` -/
def hiIdx (n h k : Nat) : Nat :=
  if n ≤ k + h - 1 then n - 1 - (k + h - 1 - n) else k + h - 1

/-- `lowEnd = k - stepHalfSize - 1; if lowEnd < 0: lowEnd = -lowEnd - 1` -/
def loIdx (h k : Nat) : Nat :=
  if h + 1 ≤ k then k - h - 1 else h - k

/-- the loop `for k in range(1, signalSize)` of the unweighted branch, before the normalisation:
`result[k] = result[k-1] + signal[highEnd] + signal[lowEnd] - 2*signal[k-1]` -/
def haarRawGo (a : Array Rat) (n h : Nat) : Nat → Nat → Rat → List Rat
  | 0, _, _ => []
  | fuel + 1, k, prev =>
    let v := prev + nth a (hiIdx n h k) + nth a (loIdx h k) - 2 * nth a (k - 1)
    v :: haarRawGo a n h fuel (k + 1) v

/-- `HaarConv(signal, None, stepHalfSize)` without the final `/= stepNorm`; zeros when `stepHalfSize > signalSize` -/
def haarConvRaw (sig : List Rat) (h : Nat) : List Rat :=
  if sig.length < h then List.replicate sig.length 0
  else match sig.length with
    | 0 => []
    | m + 1 => 0 :: haarRawGo sig.toArray (m + 1) h m 1 0

/-- `HaarConv(signal, None, stepHalfSize)`: `result[1:] /= stepNorm` (element 0 stays the initial 0) -/
def haarConv (rnd : Rat → Rat) (norm : Rat) (sig : List Rat) (h : Nat) : List Rat :=
  if sig.length < h then haarConvRaw sig h
  else match haarConvRaw sig h with
    | [] => []
    | r0 :: rs => r0 :: rs.map (fun x => rnd (x / norm))

structure WAcc where
  lowN : Rat
  highN : Rat
  lowW : Rat
  highW : Rat

/-- weighted loop; `none` = a zero weight sum was divided by (numpy yields inf/nan there) -/
def haarWGo (s w : Array Rat) (n h : Nat) (fac : Rat) : Nat → Nat → WAcc → Option (List Rat)
  | 0, _, _ => some []
  | fuel + 1, k, acc =>
    let hi := hiIdx n h k
    let lo := loIdx h k
    let lowN := acc.lowN + (nth s lo * nth w lo - nth s (k - 1) * nth w (k - 1))
    let highN := acc.highN + (nth s hi * nth w hi - nth s (k - 1) * nth w (k - 1))
    let lowW := acc.lowW + (nth w (k - 1) - nth w lo)
    let highW := acc.highW + (nth w hi - nth w (k - 1))
    if lowW = 0 ∨ highW = 0 then none else
    match haarWGo s w n h fac fuel (k + 1) ⟨lowN, highN, lowW, highW⟩ with
    | none => none
    | some rest => some (fac * (lowN / lowW + highN / highW) :: rest)

/-- `HaarConv(signal, weight, stepHalfSize)`; `fac` stands for the double `math.sqrt(stepHalfSize / 2)` -/
def haarConvW (fac : Rat) (sig wt : List Rat) (h : Nat) : Option (List Rat) :=
  if sig.length < h then some (List.replicate sig.length 0)
  else match sig.length with
    | 0 => some []
    | m + 1 =>
      let hw := (wt.take h).sum
      let hn := ((wt.take h).zip (sig.take h)).foldl (fun acc p => acc + p.1 * p.2) 0
      match haarWGo sig.toArray wt.toArray (m + 1) h fac m 1 ⟨-hn, hn, hw, hw⟩ with
      | none => none
      | some rest => some (0 :: rest)

/-! ### FindLocalPeaks -/

/-- one iteration `k` of `FindLocalPeaks` on `(sig_prev, sig_curr, sig_next) = (p, c, nx)`:
(emitted peaks, maxSuspect, minSuspect) -/
def peakStep (k : Nat) (mx mn : Option Nat) (p c nx : Rat) : List Nat × Option Nat × Option Nat :=
  if 0 < c then
    if p < c ∧ nx < c then ([k], mx, mn)
    else if p < c ∧ c = nx then ([], some k, mn)
    else if c = p ∧ nx < c then
      (match mx with
       | some s => ([s], none, mn)
       | none => ([], mx, mn))
    else if c = p ∧ c < nx then ([], none, mn)
    else ([], mx, mn)
  else if c < 0 then
    if c < p ∧ c < nx then ([k], mx, mn)
    else if c < p ∧ c = nx then ([], mx, some k)
    else if c = p ∧ c < nx then
      (match mn with
       | some s => ([s], mx, none)
       | none => ([], mx, mn))
    else if c = p ∧ nx < c then ([], mx, none)
    else ([], mx, mn)
  else ([], mx, mn)

def peaksGo : Nat → Option Nat → Option Nat → Rat → Rat → List Rat → List Nat
  | _, _, _, _, _, [] => []
  | k, mx, mn, p, c, nx :: rest =>
    let r := peakStep k mx mn p c nx
    r.1 ++ peaksGo (k + 1) r.2.1 r.2.2 c nx rest

/-- `FindLocalPeaks(signal)`: `for k in range(1, len(signal) - 1)` -/
def findLocalPeaks (sig : List Rat) : List Nat :=
  match sig with
  | p :: c :: rest => peaksGo 1 none none p c rest
  | _ => []

/-! ### FDRThres -/

def insertDesc (x : Rat) : List Rat → List Rat
  | [] => [x]
  | y :: ys => if y < x then x :: y :: ys else y :: insertDesc x ys

/-- `np.sort(np.abs(x))[::-1]` -/
def sortDesc (l : List Rat) : List Rat := l.foldr insertDesc []

/-- `FDRThres(x, q, stdev)` with the p-values `p = 2*(1 - norm.cdf(x_sorted, stdev))` supplied.
`m = arange(1, M+1)/M`, `p <= m*q`, `T = x_sorted[indices[-1]]`, else `x_sorted[0] + 1e-16`. -/
def fdrThres (rnd : Rat → Rat) (x : List Rat) (q : Rat) (p : List Rat) : Rat :=
  let M := x.length
  if M < Generated.HAAR_FDR_MIN_M then Generated.HAAR_FDR_SMALL_T else
  let xs := sortDesc (x.map absQ)
  let passing := (List.range M).filter fun i =>
    decide (p.getD i 1 ≤ rnd (rnd (((i + 1 : Nat) : Rat) / (M : Rat)) * q))
  match passing.getLast? with
  | some i => xs.getD i 0
  | none => rnd (xs.headD 0 + Generated.HAAR_FDR_EPS)

/-! ### UnifyLevels -/

/-- the inner `while` for one base element: (appended addon items, addon items left for the next round) -/
def unifyInner (b w : Nat) : List Nat → List Nat × List Nat
  | [] => ([], [])
  | a :: as =>
    if a + w < b then
      let r := unifyInner b w as
      (a :: r.1, r.2)
    else if a ≤ b + w then unifyInner b w as
    else ([], a :: as)

/-- the `for base_elem in baseLevel` loop: (joinedLevel, addon items never consumed) -/
def unifyLoop (w : Nat) : List Nat → List Nat → List Nat × List Nat
  | [], addon => ([], addon)
  | b :: bs, addon =>
    let r := unifyInner b w addon
    let r2 := unifyLoop w bs r.2
    (r.1 ++ b :: r2.1, r2.2)

def insertAsc (x : Nat) : List Nat → List Nat
  | [] => [x]
  | y :: ys => if x ≤ y then x :: y :: ys else y :: insertAsc x ys

def sortAsc (l : List Nat) : List Nat := l.foldr insertAsc []

/-- `UnifyLevels(baseLevel, addonLevel, windowSize)` on index arrays (natural numbers).  With a non-empty
base the final `while addonLevel[addon_idx] <= last_pos` skips items up to `baseLevel[-1] + windowSize`;
with an empty base `last_pos = -1` and nothing is skipped. -/
def unifyLevels (base addon : List Nat) (w : Nat) : List Nat :=
  if addon.isEmpty then base else
  let r := unifyLoop w base addon
  let rest := match base.getLast? with
    | some bl => r.2.dropWhile (fun a => decide (a ≤ bl + w))
    | none => r.2
  sortAsc (r.1 ++ rest)

/-! ### SegmentByPeaks -/

def slice (l : List Rat) (s e : Nat) : List Rat := (l.drop s).take (e - s)

/-- `np.average(d, weights=w)` when `w.sum() > 0`, else `np.mean(d)`; only called on non-empty slices -/
def segValue (d : List Rat) (w : Option (List Rat)) : Rat :=
  match w with
  | some ws =>
    if 0 < ws.sum then ((d.zip ws).map (fun p => p.1 * p.2)).sum / ws.sum
    else d.sum / (d.length : Rat)
  | none => d.sum / (d.length : Rat)

/-- `segs[s:e] = v` -/
def assign (segs : List Rat) (s e : Nat) (v : Rat) : List Rat :=
  segs.take s ++ List.replicate (min e segs.length - s) v ++ segs.drop (min e segs.length)

def bounds (peaks : List Nat) (n : Nat) : List (Nat × Nat) := (0 :: peaks).zip (peaks ++ [n])

/-- `SegmentByPeaks(data, peaks, weights)`; an empty slice `data[s:e]` assigns nothing (its `nan` mean is
written to an empty slice) -/
def segmentByPeaks (data : List Rat) (peaks : List Nat) (wt : Option (List Rat)) : List Rat :=
  (bounds peaks data.length).foldl
    (fun segs se =>
      if se.1 < se.2 ∧ se.1 < data.length then
        assign segs se.1 se.2 (segValue (slice data se.1 se.2) (wt.map fun w => slice w se.1 se.2))
      else segs)
    (List.replicate data.length 0)

/-! ### haarSeg -/

/-- one level: peaks of the convolution, threshold, `np.extract(np.abs(convRes.take(peakLoc)) >= T, peakLoc)`,
`UnifyLevels(breakpoints, addonPeaks, window)` -/
def levelStep (thr : List Rat → Rat) (conv : List Rat) (window : Nat) (bp : List Nat) : List Nat :=
  let a := conv.toArray
  let pk := findLocalPeaks conv
  let T := thr (pk.map (nth a))
  let addon := pk.filter (fun k => decide (T ≤ absQ (nth a k)))
  unifyLevels bp addon window

/-- the level loop: `conv level h` is `HaarConv(I, W, h)` of that level, `thr level x` is `FDRThres(x, q, sigma)` -/
def haarBreaks (conv : Nat → Nat → List Rat) (thr : Nat → List Rat → Rat)
    (table : List (Nat × Nat × Nat)) : List Nat :=
  table.foldl (fun bp row => levelStep (thr row.1) (conv row.1 row.2.1) row.2.2 bp) []

structure SegTable where
  start : List Nat
  stop : List Int
  size : List Int
  mean : List Rat
deriving Repr, DecidableEq

/-- the dict returned by `haarSeg`: `segSt = insert(bp, 0, 0)`, `segEd = append(bp, len(I))`,
`{"start": segSt, "end": segEd - 1, "size": segEd - segSt, "mean": segs[segSt]}` -/
def segTable (I : List Rat) (wt : Option (List Rat)) (bp : List Nat) : SegTable :=
  let segs := (segmentByPeaks I bp wt).toArray
  let st := 0 :: bp
  let ed := bp ++ [I.length]
  { start := st
    stop := ed.map (fun (e : Nat) => (e : Int) - 1)
    size := (st.zip ed).map (fun (p : Nat × Nat) => (p.2 : Int) - (p.1 : Int))
    mean := st.map (nth segs) }

/-- `haarSeg(I, breaksFdrQ, W)` (rawI = None) given the per-level convolutions and thresholds -/
def haarSegWith (conv : Nat → Nat → List Rat) (thr : Nat → List Rat → Rat)
    (table : List (Nat × Nat × Nat)) (I : List Rat) (wt : Option (List Rat)) : SegTable :=
  segTable I wt (haarBreaks conv thr table)

/-- `haarSeg(I, q, W=None)` with the level table read from the source; `norm h` = the double `sqrt(2h)`,
`p level` = the p-values handed to `FDRThres` at that level -/
def haarSeg (rnd : Rat → Rat) (norm : Nat → Rat) (p : Nat → List Rat) (q : Rat) (I : List Rat) : SegTable :=
  haarSegWith (fun _ h => haarConv rnd (norm h) I h) (fun lv x => fdrThres rnd x q (p lv))
    Generated.HAAR_LEVEL_TABLE I none

end CnvVerif.Haar
