/-
  Model of skgenome/intersect.py : idx_ranges, _irange_simple, _irange_nested, iter_ranges,
  by_shared_chroms, by_ranges, iter_slices, into_ranges  and of the GenomicArray wrappers
  in_range / in_ranges / intersection.
-/
import CnvVerif.Basic
namespace CnvVerif

inductive Mode | inner | outer | trim
deriving Repr, DecidableEq, Inhabited

/-- `"inner" if mode == "inner" else "outer"` -/
def Mode.idx : Mode → Mode
  | .inner => .inner
  | _ => .outer

/-- `_irange_simple` for one query; `none` bound = that side was not given.
    `slice(start_idx, end_idx)` of the table. -/
def irangeSimple (t : Table) (qs qe : Option Int) (inner : Bool) : Table :=
  let startIdx : Nat := match qs with
    | some s => if inner then ssLeft (t.map (·.s)) s else ssRight (t.map (·.e)) s
    | none => 0
  let endIdx : Nat := match qe with
    | some e => if inner then ssRight (t.map (·.e)) e else ssLeft (t.map (·.s)) e
    | none => t.length
  (t.take endIdx).drop startIdx

/-- zero a prefix / suffix of a mask, as `region_mask[:k] = 0`, `region_mask[k:] = 0` -/
def maskFrom (n k : Nat) : List Bool := (List.range n).map (fun i => decide (k ≤ i))
def maskUpto (n k : Nat) : List Bool := (List.range n).map (fun i => decide (i < k))

def applyMask (t : Table) (m : List Bool) : Table :=
  (t.zip m).filterMap (fun p => if p.2 then some p.1 else none)

/-- `_irange_nested` for one query.  Mirrors the Python truthiness test `if start_val:`
    (a start of 0 or `None` leaves the start side open) and `if end_val is not None`. -/
def irangeNested (t : Table) (qs qe : Option Int) (inner : Bool) : Table :=
  let n := t.length
  let m0 : List Bool := List.replicate n true
  let m1 : List Bool :=
    match qs with
    | some s =>
      if s ≠ 0 then
        if inner then maskFrom n (ssLeft (t.map (·.s)) s)
        else t.map (fun r => decide (r.e > s))
      else m0
    | none => m0
  let m2 : List Bool :=
    match qe with
    | some e =>
      if inner then (m1.zip (t.map (fun r => decide (r.e ≤ e)))).map (fun p => p.1 && p.2)
      else (m1.zip (maskUpto n (ssLeft (t.map (·.s)) e))).map (fun p => p.1 && p.2)
    | none => m1
  applyMask t m2

/-- `idx_ranges` + row extraction for one query: chooses the nested (mask) path whenever the
    `end` column is not monotone. (Repaired code: before fix H the mask path was only taken
    when both bounds were given.) -/
def idxSelect (t : Table) (qs qe : Option Int) (inner : Bool) : Table :=
  if t.isEmpty || (qs.isNone && qe.isNone) then t
  else if !isMonotone (t.map (·.e)) then irangeNested t qs qe inner
  else irangeSimple t qs qe inner

/-- the clipping step of `iter_ranges(mode="trim")`; `if start_val:` / `if end_val:` truthiness -/
def trimRows (rows : Table) (qs qe : Option Int) : Table :=
  rows.map fun r =>
    let s' := match qs with
      | some s => if s ≠ 0 then max r.s s else r.s
      | none => r.s
    let e' := match qe with
      | some e => if e ≠ 0 then min r.e e else r.e
      | none => r.e
    { r with s := s', e := e' }

/-- one subtable of `iter_ranges` (table already restricted to one chromosome) -/
def selectRange (t : Table) (qs qe : Option Int) (mode : Mode) : Table :=
  let rows := idxSelect t qs qe (mode == .inner)
  if mode == .trim then trimRows rows qs qe else rows

/-- `GenomicArray.in_range(chrom, start, end, mode)` -/
def inRange (t : Table) (chrom : Option String) (qs qe : Option Int) (mode : Mode) : Table :=
  let t' := match chrom with
    | some c => if c.isEmpty then t else t.filter (fun r => r.chrom == c)
    | none => t
  selectRange t' qs qe mode

/-- `by_shared_chroms(table, other, keep_empty)`: `(chrom, rows of table, rows of other?)`. -/
def bySharedChroms (table other : Table) (keepEmpty : Bool) :
    List (String × Table × Option Table) :=
  let tc := chromsInOrder table
  let oc := chromsInOrder other
  if tc.length == 1 && oc.length == 1 && tc == oc then
    [(tc.headD "", table, some other)]
  else
    (groupByChrom table).filterMap fun (c, ct) =>
      let ot := other.filter (fun r => r.chrom == c)
      if !ot.isEmpty then some (c, ct, some ot)
      else if keepEmpty then some (c, ct, none)
      else none

/-- `by_ranges(table, other, mode, keep_empty)` at the DataFrame level:
    for each row of `other` (grouped by chromosome in order of first appearance) the
    selected rows of `table`. -/
def byRangesDf (table other : Table) (mode : Mode) (keepEmpty : Bool) : List (Row × Table) :=
  (bySharedChroms other table keepEmpty).flatMap fun (_, bins, src) =>
    match src with
    | some srcRows => bins.map (fun b => (b, selectRange srcRows (some b.s) (some b.e) mode))
    | none => if keepEmpty then bins.map (fun b => (b, [])) else []

/-- `GenomicArray.by_ranges`: drops empty selections unless `keep_empty`. -/
def byRanges (table other : Table) (mode : Mode) (keepEmpty : Bool) : List (Row × Table) :=
  (byRangesDf table other mode keepEmpty).filter (fun p => !p.2.isEmpty || keepEmpty)

/-- `iter_slices(table, other, mode, keep_empty)`; rows stand for their index labels. -/
def iterSlices (table other : Table) (mode : Mode) (keepEmpty : Bool) : List Table :=
  (bySharedChroms other table keepEmpty).flatMap fun (_, bins, src) =>
    match src with
    | none => bins.map (fun _ => [])
    | some srcRows =>
      (bins.map (fun b => idxSelect srcRows (some b.s) (some b.e) (mode == .inner))).filter
        (fun sel => keepEmpty || !sel.isEmpty)

/-- `GenomicArray.intersection(other, mode)` (repaired code: empty result instead of the
    `ValueError` of `np.concatenate([])`, finding Q). -/
def intersection (table other : Table) (mode : Mode) : Table :=
  if mode == .trim then
    ((byRanges table other .trim false).map (·.2)).flatten
  else
    (iterSlices table other mode false).flatten

/-- `in_ranges(chrom, starts, ends, mode)` with both arrays given -/
def inRanges (t : Table) (chrom : Option String) (qs : List (Int × Int)) (mode : Mode) : Table :=
  let t' := match chrom with
    | some c => if c.isEmpty then t else t.filter (fun r => r.chrom == c)
    | none => t
  if t'.isEmpty then t'
  else (qs.map (fun q => selectRange t' (some q.1) (some q.2) mode)).flatten

/-- `into_ranges` for a string column with the default summary (`join_strings`):
    one value per `dest` row. -/
def intoRangesStr (source dest : Table) (default : String) : List String :=
  if source.isEmpty || dest.isEmpty then dest.map (fun _ => default)
  else
    (iterSlices source dest .outer true).map fun sel =>
      match sel with
      | [] => default
      | [r] => r.gene
      | rs => joinStrings (rs.map (·.gene))

end CnvVerif
