/-
  Model of cnvlib/fix.py: match_ref_to_sample, mask_bad_bins, load_adjust_coverages
  (center_all + center_by_window corrections), get_edge_bias / edge_losses / edge_gains,
  the reference subtraction, apply_weights and the final centring of do_fix.
  Parameters supplied by the harness (third-party numerics): the seeded numpy permutation of
  center_by_window, the rolling-median half-window, sqrt(bin size) and the two residual
  variances (biweight midvariance², C19's subject).  Core Lean only.
-/
import CnvVerif.Basic
import CnvVerif.Generated.Consts
import CnvVerif.Generated.FixConsts
import CnvVerif.Model.Center
namespace CnvVerif

/-- a sample coverage row (`.targetcoverage.cnn` / `.antitargetcoverage.cnn`) -/
structure SRow where
  chrom : String
  s : Int
  e : Int
  gene : String
  log2 : Rat
  depth : Rat
deriving Repr, Inhabited, DecidableEq

/-- a reference row (`reference.cnn`) -/
structure RRow where
  chrom : String
  s : Int
  e : Int
  gene : String
  log2 : Rat
  depth : Rat
  gc : Option Rat      -- `none` = the reference has no gc column
  rmask : Option Rat
  spread : Rat
deriving Repr, Inhabited, DecidableEq

inductive FixErr | dupSample | dupRef | missing (n : Nat)
deriving Repr, DecidableEq, Inhabited

def sKey (r : SRow) : String × Int × Int := (r.chrom, r.s, r.e)
def rKey (r : RRow) : String × Int × Int := (r.chrom, r.s, r.e)

def hasDup {α} [BEq α] : List α → Bool
  | [] => false
  | x :: xs => xs.contains x || hasDup xs

/-- `match_ref_to_sample`: the reference rows with the sample's coordinates, in sample order -/
def matchRef (ref : List RRow) (samp : List SRow) : Except FixErr (List RRow) :=
  if hasDup (samp.map sKey) then .error .dupSample
  else if hasDup (ref.map rKey) then .error .dupRef
  else
    let found := samp.map (fun r => ref.find? (fun q => rKey q == sKey r))
    let miss := (found.filter (·.isNone)).length
    if miss > 0 then .error (.missing miss) else .ok (found.filterMap id)

/-- `mask_bad_bins` with the thresholds of params.py -/
def badBin (r : RRow) : Bool :=
  decide (r.log2 < Generated.MIN_REF_COVERAGE) || decide (r.log2 > -Generated.MIN_REF_COVERAGE) ||
  decide (r.spread > Generated.MAX_REF_SPREAD) || decide (r.depth = 0) ||
  (match r.gc with
   | some g =>
     let lo := min Generated.GC_MIN_FRACTION Generated.GC_MAX_FRACTION
     let hi := max Generated.GC_MIN_FRACTION Generated.GC_MAX_FRACTION
     decide (g > hi) || decide (g < lo)
   | none => false)

def toCBin (r : SRow) : CBin := { chrom := r.chrom, s := r.s, e := r.e, log2 := r.log2, depth := some r.depth }

/-- `cnarr.center_all(skip_low=…)` with the default estimator (median, per chromosome first) -/
def centerS (skipLow : Bool) (par : Option String) (t : List SRow) : List SRow :=
  let sh := centerShift medianR true skipLow par (t.map toCBin)
  t.map fun r => { r with log2 := r.log2 + sh }

/-! ### rolling median with mirrored edges -/

/-- `_pad_array(x, wing)`: `x[wing-1::-1] ++ x ++ x[:-wing-1:-1]` -/
def padMirror (x : List Rat) (wing : Nat) : List Rat :=
  (x.take wing).reverse ++ x ++ (x.reverse.take wing)

/-- `rolling(2*wing+1, 1, center=True).median()[wing:-wing]` on the padded signal: every window
    is complete, so each value is the median of `2*wing+1` consecutive padded values -/
def rollingMedian (x : List Rat) (wing : Nat) : List Rat :=
  let p := padMirror x wing
  (List.range x.length).map fun i => medianR ((p.drop i).take (2 * wing + 1))

/-- stable argsort (`np.argsort(kind="mergesort")`) applied to the rows themselves -/
def sortByKey {α} (key : α → Rat) (l : List α) : List α := l.mergeSort (fun a b => key a ≤ key b)

def sSortLe (a b : SRow) : Bool :=
  let ka := sorterChrom a.chrom
  let kb := sorterChrom b.chrom
  chromKeyLt ka kb || (ka == kb && (a.s < b.s || (a.s == b.s && a.e ≤ b.e)))

def sortS (t : List SRow) : List SRow := t.mergeSort sSortLe

def rSortLe (a b : RRow) : Bool :=
  let ka := sorterChrom a.chrom
  let kb := sorterChrom b.chrom
  chromKeyLt ka kb || (ka == kb && (a.s < b.s || (a.s == b.s && a.e ≤ b.e)))

def sortR (t : List RRow) : List RRow := t.mergeSort rSortLe

/-- `center_by_window(cnarr, fraction, sort_key)`: shuffle rows and keys by the seeded
    permutation, stable-sort by key, subtract the rolling median of log2, re-sort genomically.
    `keys` are positional (row i of `t` has key `keys[i]`). -/
def centerByWindow (perm : List Nat) (wing : Nat) (t : List SRow) (keys : List Rat) : List SRow :=
  let tagged := t.zip keys
  let shuffled := perm.filterMap (fun i => tagged[i]?)
  let ordered := sortByKey (·.2) shuffled
  let biases := rollingMedian (ordered.map (·.1.log2)) wing
  let fixed := (ordered.zip biases).map fun p => { p.1.1 with log2 := p.1.1.log2 - p.2 }
  sortS fixed

/-! ### edge bias -/

/-- `edge_losses` for one tile: `i/2t`, minus `(i-t)²/2it` when `t < i` -/
def edgeLoss (t i : Rat) : Rat :=
  let l := i / (2 * t)
  if t < i then l - (i - t) ^ 2 / (2 * i * t) else l

/-- `edge_gains` for one tile and one neighbour at gap `g < i`:
    `(i-g)²/4it`, minus `(i-t-g)²/4it` when `t + g < i` (overlap = gap 0) -/
def edgeGain (t g i : Rat) : Rat :=
  let g' := max 0 g
  let x := (i - g') ^ 2 / (4 * i * t)
  if t + g' < i then x - (i - t - g') ^ 2 / (4 * i * t) else x

/-- `get_edge_bias` for one chromosome's tiles (in table order) -/
def edgeBiasChrom (tiles : List (Int × Int)) (margin : Int) : List Rat :=
  let n := tiles.length
  (List.range n).map fun k =>
    let (s, e) := tiles.getD k (0, 1)
    let t : Rat := ((e - s : Int) : Rat)
    let i : Rat := (margin : Rat)
    let left : Rat := if k = 0 then 0 else
      let (_, pe) := tiles.getD (k - 1) (0, 0)
      let gap := s - pe
      if gap < margin then edgeGain t (gap : Rat) i else 0
    let right : Rat := if k + 1 < n then
      let (ns, _) := tiles.getD (k + 1) (0, 0)
      let gap := ns - e
      if gap < margin then edgeGain t (gap : Rat) i else 0
      else 0
    left + right - edgeLoss t i

/-- `get_edge_bias(cnarr, margin)`: per chromosome in order of first appearance, concatenated
    (the code then attaches the values positionally to `cnarr`) -/
def edgeBias (t : List SRow) (margin : Int) : List Rat :=
  ((t.map (·.chrom)).eraseDups).flatMap fun c =>
    edgeBiasChrom ((t.filter (·.chrom == c)).map (fun r => (r.s, r.e))) margin

/-- smallest positive difference between two values of a list (1 if none) -/
def minPosGap (l : List Rat) : Rat :=
  let s := l.mergeSort (· ≤ ·)
  ((s.zip (s.drop 1)).map (fun p => p.2 - p.1)).foldl (fun m d => if d > 0 && d < m then d else m) 1

/-! ### one class of bins (targets or antitargets) -/

structure FixCfg where
  gc : Bool
  edge : Bool
  rmask : Bool
  par : Option String
deriving Repr, Inhabited

/-- `load_adjust_coverages` (repaired code, fix D: the sample rows are brought into genomic order
    first, so that the positional keys taken from the matched reference stay attached).
    Returns the corrected sample rows and the matched reference rows, position-aligned after
    `alignRef`. `corrected` tells whether a correction re-sorted the sample. -/
def loadAdjust (samp : List SRow) (ref : List RRow) (skipLow fixGc fixEdge fixRmask : Bool)
    (par : Option String) (perm : List Nat) (wing : Nat) (edgeKeys : Option (List Rat) := none) :
    Except FixErr (List SRow × List RRow × Rat) :=
  if samp.isEmpty then .ok ([], [], 0) else
  let samp := sortS samp
  match matchRef ref samp with
  | .error e => .error e
  | .ok refM =>
    let keep := refM.map (fun r => !badBin r)
    let cn0 := ((samp.zip keep).filter (·.2)).map (·.1)
    let rf := refM.filter (fun r => !badBin r)
    let cn1 := centerS skipLow par cn0
    let nOk := (cn1.filter (fun r => decide (r.log2 > Generated.NULL_LOG2_COVERAGE - Generated.MIN_REF_COVERAGE))).length
    if nOk ≤ cn1.length / 2 then .ok (cn1, rf, 0) else
    let cn2 := if fixGc && rf.all (·.gc.isSome) && !rf.isEmpty then
        centerByWindow perm wing cn1 (rf.map (fun r => r.gc.getD 0)) else cn1
    -- sort keys of the edge correction: the exact formula, or (when supplied) the doubles numpy computed
    -- for it, so that ties / near-ties are ordered as in the real run
    let ekeys := match edgeKeys with
      | some ks => if ks.length == cn2.length then ks else edgeBias cn2 Generated.INSERT_SIZE
      | none => edgeBias cn2 Generated.INSERT_SIZE
    let cn3 := if fixEdge then centerByWindow perm wing cn2 ekeys else cn2
    let cn4 := if fixRmask && rf.all (·.rmask.isSome) && !rf.isEmpty then
        centerByWindow perm wing cn3 (rf.map (fun r => r.rmask.getD 0)) else cn3
    -- knife-edge indicator: smallest positive gap between two edge-bias sort keys (computed in floats by the code)
    -- largest deviation of the supplied float keys from the exact edge-bias formula
    let exact := edgeBias cn2 Generated.INSERT_SIZE
    let slack := if fixEdge && ekeys.length == exact.length then
        ((ekeys.zip exact).map (fun p => absR (p.1 - p.2))).foldl max 0 else 0
    .ok (cn4, rf, slack)

/-! ### weights -/

def clipQ (lo hi x : Rat) : Rat := min hi (max lo x)

/-- exact rational `np.mod(x, 1)` -/
def mod1 (x : Rat) : Rat := x - x.floor

/-- `apply_weights`; `sqrtSize` = numpy's sqrt(end − start) per row, `varT`/`varA` the squared
    biweight midvariances of the target / antitarget residuals -/
def applyWeights (rows : List (SRow × RRow × Rat)) (varT varA : Rat) : List Rat :=
  let eps := Generated.WEIGHT_EPSILON
  let isAnti (r : SRow) : Bool := Generated.ANTITARGET_ALIASES.contains r.gene
  let tg := rows.filter (fun p => !isAnti p.1)
  let an := rows.filter (fun p => isAnti p.1)
  let meanT := sumR (tg.map (·.2.2)) / (tg.length : Rat)
  let meanA := sumR (an.map (·.2.2)) / (an.length : Rat)
  let simple (p : SRow × RRow × Rat) : Rat :=
    if isAnti p.1 then 1 - varA / (p.2.2 / meanA) else 1 - varT / (p.2.2 / meanT)
  let pooled := rows.any (fun p => decide (p.2.1.spread > eps)) &&
                rows.any (fun p => decide (absR (mod1 p.2.1.log2) > eps))
  rows.map fun p =>
    let x := Generated.WEIGHT_REF_EMPHASIS
    let w := if pooled then x * (1 - p.2.1.spread ^ 2) + (1 - x) * simple p else simple p
    clipQ eps Generated.WEIGHT_MAX w

/-! ### do_fix -/

structure FixParams where
  permT : List Nat
  wingT : Nat
  permA : List Nat
  wingA : Nat
  sqrtSize : List ((String × Int × Int) × Rat)   -- numpy sqrt(end - start) by bin coordinates
  varT : Rat
  varA : Rat
  edgeKeysT : Option (List Rat) := none
deriving Repr, Inhabited

structure FixOut where
  row : SRow
  weight : Rat
deriving Repr, Inhabited

/-- `do_fix` (do_cluster = False) once the two sample tables are known to share no bin -/
def doFixCore (tgt anti : List SRow) (ref : List RRow) (cfg : FixCfg) (P : FixParams) :
    Except FixErr (List FixOut) := do
  let (cnT, rfT, _) ← loadAdjust tgt ref true cfg.gc cfg.edge false cfg.par P.permT P.wingT P.edgeKeysT
  let (cnA, rfA, _) ← loadAdjust anti ref false cfg.gc false cfg.rmask cfg.par P.permA P.wingA
  let rows := if cnA.isEmpty then cnT else sortS (cnT ++ cnA)
  let refs := if cnA.isEmpty then rfT else sortR (rfT ++ rfA)
  let sub := (rows.zip refs).map fun p => { p.1 with log2 := p.1.log2 - p.2.log2 }
  let sq (r : SRow) : Rat := ((P.sqrtSize.find? (fun kv => kv.1 == sKey r)).map (·.2)).getD 1
  let ws := applyWeights ((sub.zip refs).map fun p => (p.1, p.2, sq p.1)) P.varT P.varA
  let final := centerS true cfg.par sub
  pure ((final.zip ws).map fun p => { row := p.1, weight := p.2 })

/-- `do_fix` (repaired code, finding BA): a bin that occurs in both the target and the antitarget table is refused
    like any other duplicated coordinate (each table is also checked on its own, in `matchRef`) -/
def doFix (tgt anti : List SRow) (ref : List RRow) (cfg : FixCfg) (P : FixParams) :
    Except FixErr (List FixOut) :=
  if (tgt.map sKey).any (fun k => (anti.map sKey).contains k) then .error .dupSample
  else doFixCore tgt anti ref cfg P

/-- largest deviation of the supplied edge-bias doubles from the exact formula (must be ~1e-16) -/
def doFixSlack (tgt : List SRow) (ref : List RRow) (cfg : FixCfg) (P : FixParams) : Rat :=
  match loadAdjust tgt ref true cfg.gc cfg.edge false cfg.par P.permT P.wingT P.edgeKeysT with
  | .ok (_, _, s) => s
  | .error _ => 0

end CnvVerif
