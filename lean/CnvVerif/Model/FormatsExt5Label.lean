/-
  C08, round 5: the regular expression of `skgenome/rangelabel.py: re_label` as a regex AST with a backtracking
  semantics (greedy `?`, `*`, `+` of Python `re.match`: longest first, give back one character at a time, capture
  groups recorded on the successful path), and the whole of `from_label` (open-ended ranges, `keep_gene`).

  The AST of the pattern is REGENERATED from the pattern text on every run (`Generated/RegexLabel.lean`, written by
  `harness/extractors/regex_label.py` from Python's own parse of the pattern); `Props/C08Label.lean` proves that
  the hand-written parser `Fmt.fromLabel` — the one every text theorem of C08 is about — computes exactly
  `re_label.match(text).groups()` under this semantics, for every text.

  Character classes are read on ASCII input (as everywhere in the C08 model).  No Mathlib.
-/
import CnvVerif.Model.Formats

namespace CnvVerif.Fmt.C08L
open CnvVerif CnvVerif.Generated

/-- one item of a character class -/
inductive Atom where
  | word                -- `\w`
  | digit               -- `\d`
  | space               -- `\s`
  | notSpace            -- `\S`
  | ch (c : Char)       -- a literal character
  | any                 -- `.` (round 5c, sniff patterns): any character but the newline
deriving Repr, DecidableEq

def Atom.test : Atom → Char → Bool
  | .word, c => isWordCh c
  | .digit, c => c.isDigit
  | .space, c => isSpaceCh c
  | .notSpace, c => !isSpaceCh c
  | .ch a, c => c == a
  | .any, c => c != '\n'

/-- a character class: union of its items (`[\w.]` = `[word, ch '.']`; `\d` = `[digit]`; `:` = `[ch ':']`) -/
abbrev Cls := List Atom

def clsTest (cs : Cls) (c : Char) : Bool := cs.any (fun a => a.test c)

/-- the fragment of Python regular expressions `re_label` is written in -/
inductive Re where
  | one (c : Cls)             -- exactly one character of the class
  | star (c : Cls)            -- `c*`, greedy
  | plus (c : Cls)            -- `c+`, greedy
  | seq (a b : Re)
  | opt (a : Re)              -- `a?`, greedy
  | grp (n : Nat) (a : Re)    -- capture group number n
  | eps
deriving Repr

/-- captured groups of a successful match: (group number, text); a group that did not take part is absent -/
abbrev Caps := List (Nat × List Char)

/-- greedy `p*` followed by the continuation `k`: longest run first, then one character less, … -/
def starGo (p : Char → Bool) : List Char → (List Char → Option Caps) → Option Caps
  | [], k => k []
  | c :: t, k =>
    if p c then
      match starGo p t k with
      | some r => some r
      | none => k (c :: t)
    else k (c :: t)

/-- backtracking matcher in continuation style: `r.run l k` matches `r` at the start of `l` and hands the rest to `k`;
    the first success in Python's order of preference wins -/
def Re.run : Re → List Char → (List Char → Option Caps) → Option Caps
  | .one c, l, k =>
    match l with
    | x :: t => if clsTest c x then k t else none
    | [] => none
  | .star c, l, k => starGo (clsTest c) l k
  | .plus c, l, k =>
    match l with
    | x :: t => if clsTest c x then starGo (clsTest c) t k else none
    | [] => none
  | .seq a b, l, k => a.run l (fun l' => b.run l' k)
  | .opt a, l, k =>
    match a.run l k with
    | some r => some r
    | none => k l
  | .grp n a, l, k =>
    a.run l (fun l' => (k l').map (fun caps => (n, l.take (l.length - l'.length)) :: caps))
  | .eps, l, k => k l

/-- `re.match(text)`: anchored at the start, anything may follow -/
def reMatch (r : Re) (l : List Char) : Option Caps := r.run l (fun _ => some [])

/-- `match.group(n) or ""` (a group that did not take part is `None`, which `from_label` treats like "") -/
def capOf (caps : Caps) (n : Nat) : List Char := (caps.lookup n).getD []

/-- `re_label.match(text).groups()` with the pattern given as an AST, in the shape `Fmt.fromLabel` returns -/
def fromLabelRe (r : Re) (l : List Char) : Except String (List Char × List Char × List Char × List Char) :=
  match reMatch r l with
  | some caps => .ok (capOf caps 1, capOf caps 2, capOf caps 3, capOf caps 4)
  | none => .error "ValueError: Invalid range spec"

/-- result of `from_label`: chromosome (None = absent), start (None = open), end (None = open), gene (only with keep_gene) -/
structure Label where
  chrom : Option String
  s : Option Int
  e : Option Int
  gene : Option String
deriving Repr, DecidableEq, BEq

/-- the whole of `rangelabel.from_label(text, keep_gene)`:
    `start = int(start) - 1 if start else None`, `end = int(end) if end else None`, `gene = gene or ""`.
    (`int` of a run of ASCII digits is `Fmt.parseInt`, which cannot fail on such a run.) -/
def fromLabelFull (l : List Char) (keepGene : Bool) : Except String Label := do
  let (c, sd, ed, g) ← fromLabel l
  pure { chrom := if c.isEmpty then none else some (String.ofList c),
         s := if sd.isEmpty then none else (parseInt (String.ofList sd)).map (· + READ_SHIFT_from_label),
         e := if ed.isEmpty then none else parseInt (String.ofList ed),
         gene := if keepGene then some (String.ofList g) else none }

end CnvVerif.Fmt.C08L
