/-
  C10 (round 5) -- the WRITER CLAUSE at the call sites of the command layer.

  harness/extractors/effects_writers.py re-reads, for every function of cnvlib/commands.py, batch.py and cmdutil.py
  that writes an output, the ordered list of its file actions (`.ensure e` = `core.ensure_path(e)`, `.write helper e` =
  an output written to the path expression `e`) into Generated.WRITER_TABLE.  This file holds

    * the CHECK on such a list: a write is guarded when the action just before it is `.ensure` of the same
      expression (`pairsGuarded`: the whole list is made of such pairs; `promisedOK`: from the first guard on);
    * the MEANING of a list on a directory tree (`runActs`): `.ensure e` is the model of `ensure_path`
      (Model/PathProg.lean: `ensurePathD`, proved equal to the program read from its source), `.write _ e` is
      `open(e, "w")` (`writeFileD`: replaces the file, fails without the directory) -- what `tabio.safe_write`
      does once the directory is there;
    * the pinned list of the writers that PROMISE not to overwrite (`PROMISED`).

  Props/C10Writers.lean proves that a list that passes the check never loses a file, and that the promised writers
  of the source pass it.
-/
import CnvVerif.Model.PathProg
namespace CnvVerif.C10W
open CnvVerif.Effects

inductive WAct where
  | ensure (e : String)
  | write (helper : String) (e : String)
deriving Repr, DecidableEq, Inhabited

structure WRow where
  fn : String
  acts : List WAct
deriving Repr, Inhabited

def WAct.isWrite : WAct → Bool
  | .write _ _ => true
  | _ => false

def WAct.writesTo (x : String) : WAct → Bool
  | .write _ e => e == x
  | _ => false

def nWrites (acts : List WAct) : Nat := (acts.filter WAct.isWrite).length

/-- the whole list is `ensure e; write e` pairs: every write is guarded, every guard is used at once -/
def pairsGuarded : List WAct → Bool
  | [] => true
  | [_] => false
  | a :: b :: rest =>
    (match a, b with
     | .ensure e, .write _ e' => e == e'
     | _, _ => false) && pairsGuarded rest

/-- the expression of the first guard of a list -/
def firstEnsure : List WAct → Option String
  | [] => none
  | .ensure e :: _ => some e
  | _ :: rest => firstEnsure rest

/-- the actions from the first `.ensure` on -/
def fromFirstEnsure : List WAct → List WAct
  | [] => []
  | .ensure e :: rest => .ensure e :: rest
  | _ :: rest => fromFirstEnsure rest

/-- the actions before the first `.ensure` -/
def beforeFirstEnsure : List WAct → List WAct
  | [] => []
  | .ensure _ :: _ => []
  | a :: rest => a :: beforeFirstEnsure rest

/-- a function keeps its promise: it has a guard, nothing before the guard writes to the guarded expression, and from
    the guard on every write is guarded -/
def promisedOK (acts : List WAct) : Bool :=
  match firstEnsure acts with
  | none => false
  | some e => (beforeFirstEnsure acts).all (fun a => !a.writesTo e) && pairsGuarded (fromFirstEnsure acts)

/-- is the (first) write of `acts` to expression `e` guarded -/
def siteGuarded (e : String) : List WAct → Bool
  | .ensure x :: .write h y :: rest => if x == e && y == e then true else siteGuarded e (.write h y :: rest)
  | .write _ y :: rest => if y == e then false else siteGuarded e rest
  | _ :: rest => siteGuarded e rest
  | [] => false

/-- the output a run of the driver observes: the guarded expression if there is one, else the first write -/
def mainOutput (acts : List WAct) : Option String :=
  match firstEnsure acts with
  | some e => some e
  | none => acts.findSome? (fun a => match a with | .write _ e => some e | _ => none)

/-- one run of a function's file actions; `env` gives every path expression its value, every write writes `tok` -/
def runActs (env : String → PathArg) (tok : String) : List WAct → FSD → Except String FSD
  | [], fs => .ok fs
  | .ensure e :: rest, fs => runActs env tok rest (ensurePathD fs (env e))
  | .write _ e :: rest, fs =>
    match writeFileD fs (env e) tok with
    | .ok fs' => runActs env tok rest fs'
    | .error m => .error m

/-- the function run once per token, on the same arguments -/
def runRepeated (env : String → PathArg) (acts : List WAct) : List String → FSD → Except String FSD
  | [], fs => .ok fs
  | t :: ts, fs =>
    match runActs env t acts fs with
    | .ok fs' => runRepeated env acts ts fs'
    | .error m => .error m

/-- the writers that promise not to overwrite (property text: "output writers that promise not to overwrite";
    DESIGN 6 / C10: `coverage`, `reference`, and the reference `batch` builds) -/
def PROMISED : List String :=
  ["cnvlib.commands._cmd_coverage", "cnvlib.commands._cmd_reference", "cnvlib.batch.batch_make_reference"]

def findRow (tbl : List WRow) (fn : String) : Option WRow := tbl.find? (fun r => r.fn == fn)

/-- every promised writer has a row and its row passes `promisedOK` -/
def promisesKept (tbl : List WRow) : Bool :=
  PROMISED.all (fun fn => match findRow tbl fn with
    | some r => promisedOK r.acts
    | none => false)

end CnvVerif.C10W
