/-
  C15, round 5: the GLUE around the sex decision, as the code has it (cnvlib/cnary.py, cnvlib/commands.py,
  cnvlib/segmetrics.py):

  * `compare_sex_chromosomes(is_haploid_x_reference, diploid_parx_genome, skip_low)` as a function of the BIN
    TABLE: the two early returns (`None, {}` for an empty table and for a table without a chrX bin outside the
    PAR), the selections (`chr_x_filter`, `autosomes(diploid_parx_genome)`, `chr_y_filter`), `skip_low` on each
    of the three, the chrY fall-backs (no chrY bin -> decision by X only; chrY bins that all drop out under
    `skip_low` -> the ratio is NaN, `np.isfinite` keeps it out of the score), the statistics dictionary
    (`segment_mean` differences; NaN = `none`);
  * `guess_xx` (None passed through, otherwise the negation);
  * the row `do_sex` / `cnvkit.py sex` prints: "Male" if is_xy else "Female" (so "Female" with "NA" "NA" for a
    table without chrX), `strsign` ("+" iff the number is > 0; NaN prints without sign).

  The helper `compare_to_auto` stays a parameter `cta` (k-th call, autosomal bins, the chromosome's bins, shift):
  every theorem about the glue holds whatever it returns; the driver instantiates it with the exact Mood tables of
  Model/SexExt.lean (scipy's G and, for weighted tables, the weighted medians being what the real calls returned).
  Core Lean only.
-/
import CnvVerif.Model.SexExt
namespace CnvVerif.C15x
open CnvVerif

/-- `segmetrics.segment_mean(cnarr, skip_low)`; `none` = NaN (no bin left) -/
def segMean (skipLow : Bool) (t0 : List CBin) : Option Rat :=
  let t := if skipLow then dropLow t0 else t0
  if t.isEmpty then none
  else
    let ws := t.map fun b => b.weight.getD 0
    if t.any (fun b => b.weight.isSome) && ws.any (fun w => w != 0) then
      some (sumR ((t.zip ws).map fun (b, w) => b.log2 * w) / sumR ws)
    else some (meanR (t.map (·.log2)))

/-- `a - b` on doubles that may be NaN -/
def subNan (a b : Option Rat) : Option Rat :=
  match a, b with
  | some x, some y => some (x - y)
  | _, _ => none

/-- the dictionary `compare_sex_chromosomes` returns next to the decision -/
structure SexStats where
  chrxRatio : Option Rat
  chryRatio : Option Rat
  combined : Option Rat
  chrxLr : Option Rat
  chryLr : Option Rat
deriving Repr, Inhabited

/-- the type of `compare_to_auto`, as a parameter: call number (0 = X female, 1 = X male, 2 = Y female,
    3 = Y male), the autosomal bins, the chromosome's bins, the shift -/
abbrev Cta := Nat → List CBin → List CBin → Rat → AutoCmp

/-- `compare_chrom(vals, weights, female_shift, male_shift)`; `none` = NaN (an empty `vals`: both medians of
    nothing are NaN and `median_test` raises) -/
def chromLr (cta : Cta) (k : Nat) (auto c : List CBin) (fs ms : Rat) : Option Rat :=
  if c.isEmpty then none else some (compareChrom (cta k auto c fs) (cta (k + 1) auto c ms))

/-- `combined_score`: starts as `chrx_male_lr`; multiplied by `chry_male_lr` when chrY has bins and the ratio is
    finite -/
def combinedScore (xlr : Option Rat) (ylr : Option Rat) : Option Rat :=
  match xlr, ylr with
  | some x, some y => some (x * y)
  | some x, none => some x
  | none, _ => none

def chrXBins (par : Option String) (t : List CBin) : List CBin :=
  let first := (t.head?.map (·.chrom)).getD ""
  t.filter fun b => classOf first par b.chrom b.s b.e == .x

def chrYBins (par : Option String) (t : List CBin) : List CBin :=
  let first := (t.head?.map (·.chrom)).getD ""
  t.filter fun b => classOf first par b.chrom b.s b.e == .y

def autoBins (par : Option String) (t : List CBin) : List CBin :=
  autosomesOf ((t.head?.map (·.chrom)).getD "") par t

def lowIf (skipLow : Bool) (t : List CBin) : List CBin := if skipLow then dropLow t else t

/-- `CopyNumArray.compare_sex_chromosomes`: `none` = `(None, {})` -/
def compareSex (cta : Cta) (hapX : Bool) (par : Option String) (skipLow : Bool) (t : List CBin) :
    Option (Bool × SexStats) :=
  if t.isEmpty then none
  else if (chrXBins par t).isEmpty then none
  else
    let chrx := lowIf skipLow (chrXBins par t)
    let auto := lowIf skipLow (autoBins par t)
    let xlr := chromLr cta 0 auto chrx (xShifts hapX).1 (xShifts hapX).2
    let chry0 := chrYBins par t
    let chry := lowIf skipLow chry0
    let ylr := if chry0.isEmpty then none else chromLr cta 2 auto chry yShifts.1 yShifts.2
    let score := combinedScore xlr ylr
    let am := segMean skipLow auto
    some ((match score with | some s => decide (s > 1) | none => false),
          { chrxRatio := subNan (segMean skipLow chrx) am, chryRatio := subNan (segMean skipLow chry) am,
            combined := score, chrxLr := xlr, chryLr := ylr })

/-- `CopyNumArray.guess_xx` (its result; the log line has no effect on it): `none` = `None` -/
def guessXX (cta : Cta) (hapX : Bool) (par : Option String) (t : List CBin) : Option Bool :=
  (compareSex cta hapX par false t).map fun r => !r.1

/-- one field of the report: "NA", or a number (NaN = `none`) printed with `strsign` -/
inductive Cell where
  | na
  | num (plus : Bool) (v : Option Rat)
deriving Repr, Inhabited, DecidableEq

/-- `strsign(num)`: a "+" in front iff `num > 0` (never for NaN) -/
def strsign (v : Option Rat) : Cell :=
  .num (match v with | some q => decide (q > 0) | none => false) v

/-- the row `do_sex` yields for one sample (without the sample's name): sex, X_logratio, Y_logratio -/
def sexRow (cta : Cta) (hapX : Bool) (par : Option String) (t : List CBin) : String × Cell × Cell :=
  match compareSex cta hapX par false t with
  | none => ("Female", .na, .na)
  | some (isXY, st) => (if isXY then "Male" else "Female", strsign st.chrxRatio, strsign st.chryRatio)

/-- the unweighted `compare_to_auto` of Model/SexExt.lean as a `Cta` (scipy's G may differ per call) -/
def ctaOfG (G : Nat → MoodTable → Rat) : Cta := fun k auto c sh =>
  compareToAuto (G k) (auto.map (·.log2)) (shiftVals (c.map (·.log2)) sh)

end CnvVerif.C15x
