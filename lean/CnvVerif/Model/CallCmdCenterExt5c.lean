/-
  C01 round 5c: `cnvkit.py call --center <estimator>` — C15's `center_all` (Model/Center.lean) composed into the command
  model of Model/CallCmd.lean.  `_cmd_call` runs `cnarr.center_all(args.center, skip_low=args.drop_low_coverage,
  diploid_parx_genome=args.diploid_parx_genome)` (by_chrom keeps its default True) and hands the centred table to `do_call`.
  The estimator is a parameter (`medianR` / `meanR` are exact; `mode` / `biweight` are oracles); the double `2**x` of a
  centred log2 is the parameter `pow2`.  Core Lean only.
-/
import CnvVerif.Model.CallCmd
import CnvVerif.Model.Center
namespace CnvVerif.C01Ctr
open CnvVerif

/-- the columns `center_all` looks at (a missing log2 is outside the model: see `allPresent`) -/
def binsOf (rows : List SegRow) : List CBin :=
  rows.map fun r => { chrom := r.chrom, s := r.s, e := r.e, log2 := r.v.getD 0 }

def allPresent (rows : List SegRow) : Bool := rows.all (·.v.isSome)

/-- every log2 plus one constant, antilog re-read -/
def shiftRows (pow2 : Rat → Rat) (sh : Rat) (rows : List SegRow) : List SegRow :=
  rows.map fun r => { r with v := r.v.map (· + sh), t := pow2 (r.v.getD 0 + sh) }

/-- the constant `--center` takes off: the estimator of the per-chromosome estimates of the autosomes -/
def centerConst (est : List Rat → Rat) (skipLow : Bool) (par : Option String) (rows : List SegRow) : Rat :=
  centerEstimate est true skipLow par (binsOf rows)

/-- the table `do_call` receives after `cnarr.center_all(...)`: log2 column of `centerAll`, row by row -/
def centerRows (est : List Rat → Rat) (skipLow : Bool) (par : Option String) (pow2 : Rat → Rat) (rows : List SegRow) :
    List SegRow :=
  (rows.zip (centerAll est true skipLow par (binsOf rows))).map fun (r, b) =>
    { r with v := r.v.map (fun _ => b.log2), t := pow2 b.log2 }

/-- the four names `center_all` accepts (anything else: ValueError; argparse `choices` lets nothing else through) -/
def estimatorOf (median mean mode biweight : List Rat → Rat) (name : String) : Option (List Rat → Rat) :=
  if name == "mean" then some mean else if name == "median" then some median
  else if name == "mode" then some mode else if name == "biweight" then some biweight else none

/-- `_cmd_call` with the `--center <estimator>` branch executed -/
def cmdCallCentered (ests : String → Option (List Rat → Rat)) (skipLow : Bool) (pow2 : Rat → Rat)
    (a : CmdCallArgs) (ploidy : Nat) (hapX : Bool) (par : Option String) (guessedFemale : Bool)
    (m : Method) (thr thrPow2 : List Rat) (hasBaf : Bool) (rows rowsShifted : List SegRow) :
    Except String (List CallOut) :=
  match cmdCallPlan a ploidy hapX par guessedFemale thrPow2 with
  | .ok (.estimator n, cfg) =>
    (match ests n with
     | some est => .ok (callTable cfg m thr hasBaf (centerRows est skipLow par pow2 rows))
     | none => .error "ValueError")
  | _ => cmdCall a ploidy hapX par guessedFemale m thr thrPow2 hasBaf rows rowsShifted

end CnvVerif.C01Ctr
