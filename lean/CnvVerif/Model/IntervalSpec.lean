/-
  Decidable specification checkers for C06 / C07 in the words of the properties.
  They are evaluated by the driver on the *implementation's* output (oracle for the
  failing-input search) and are the statements the theorems in Props/ are about.
-/
import CnvVerif.Basic
import CnvVerif.Model.Ranges
import CnvVerif.Model.Interval
namespace CnvVerif

/-! ### Prop-level vocabulary (one chromosome's rows; the chromosome field is ignored) -/

/-- base `p` is covered by some row of `l` -/
def cov (l : List Row) (p : Int) : Prop := ∃ r ∈ l, r.s ≤ p ∧ p < r.e

/-- rows in order of start (what `sort_values([..., "start", "end"])` guarantees) -/
abbrev StartSorted (l : List Row) : Prop := l.Pairwise (fun a b => a.s ≤ b.s)

/-- sorted, positive length, pairwise disjoint and non-abutting -/
def Canon (l : List Row) : Prop := (∀ r ∈ l, r.s < r.e) ∧ l.Pairwise (fun a b => a.e < b.s)

def ivOf (r : Row) : Int × Int := (r.s, r.e)

/-- each bin starts where the previous one ended -/
def Consecutive : List Row → Prop
  | [] => True
  | [_] => True
  | a :: b :: t => a.e = b.s ∧ Consecutive (b :: t)

/-! ### decidable checkers -/

/-- base `p` of chromosome `c` is covered by table `t` -/
def covb (t : Table) (c : String) (p : Int) : Bool :=
  t.any (fun r => r.chrom == c && r.s ≤ p && p < r.e)

def endpoints (t : Table) (c : String) : List Int :=
  (t.filter (fun r => r.chrom == c)).flatMap (fun r => [r.s, r.e])

def allChroms (ts : List Table) : List String := (ts.flatMap (fun t => t.map (·.chrom))).eraseDups

/-- coverage of `out` equals `f (cov of inputs)` at every endpoint of any table involved
    (coverage is constant between consecutive endpoints, so this decides equality on all bases) -/
def covAgree (ins : List Table) (out : Table) (f : String → Int → Bool) : Bool :=
  (allChroms (out :: ins)).all fun c =>
    ((out :: ins).flatMap (fun t => endpoints t c)).all fun p => covb out c p == f c p

def rowsOf (t : Table) (c : String) : Table := t.filter (fun r => r.chrom == c)

def pairwiseB {α} (p : α → α → Bool) : List α → Bool
  | [] => true
  | a :: l => l.all (p a) && pairwiseB p l

/-- sorted, positive length, disjoint and non-abutting -/
def canonB (l : Table) : Bool := l.all (fun r => r.s < r.e) && pairwiseB (fun a b => a.e < b.s) l

/-- chromosomes appear in `sorter_chrom` order, each contiguous -/
def chromOrderB (t : Table) : Bool :=
  pairwiseB (fun a b => chromKeyLe (sorterChrom a.chrom) (sorterChrom b.chrom)) t

/-- C06 merge (bp = 0): sorted minimal disjoint non-abutting cover of the union -/
def mergeSpecB (inp out : Table) : List String :=
  let cs := allChroms [inp, out]
  (if cs.all (fun c => canonB (rowsOf out c)) then [] else ["merge_canonical"]) ++
  (if covAgree [inp] out (fun c p => covb inp c p) then [] else ["merge_cov"]) ++
  (if chromOrderB inp && !chromOrderB out then ["merge_chrom_order"] else [])

/-- C06 flatten: disjoint pieces, exact cover, cut at every input boundary -/
def flattenSpecB (inp out : Table) : List String :=
  let cs := allChroms [inp, out]
  let disjoint := cs.all fun c =>
    pairwiseB (fun a b => a.e ≤ b.s || b.e ≤ a.s) ((rowsOf out c).filter (fun r => r.s < r.e))
  let cut := cs.all fun c =>
    (rowsOf out c).all fun piece => (endpoints inp c).all fun b => !(piece.s < b && b < piece.e)
  (if disjoint then [] else ["flatten_disjoint"]) ++
  (if covAgree [inp] out (fun c p => covb inp c p) then [] else ["flatten_cov"]) ++
  (if cut then [] else ["flatten_cut_at_boundaries"])

/-- C06 subtract: exactly the bases of `a` not in `b`; each piece carries the fields of a row
    of `a` that contains it; pieces have positive length -/
def subtractSpecB (a b out : Table) : List String :=
  let carried := out.all fun piece =>
    a.any (fun r => r.chrom == piece.chrom && r.gene == piece.gene && r.s ≤ piece.s && piece.e ≤ r.e)
  (if covAgree [a, b] out (fun c p => covb a c p && !covb b c p) then [] else ["subtract_cov"]) ++
  (if carried then [] else ["subtract_carries_row"]) ++
  (if out.all (fun r => r.s < r.e) then [] else ["subtract_positive"])

/-- C06 trimmed intersection: exactly a ∧ b -/
def intersectTrimSpecB (a b out : Table) : List String :=
  (if covAgree [a, b] out (fun c p => covb a c p && covb b c p) then [] else ["intersect_trim_cov"])

/-- C07: per query, in table order, exactly the overlapping / contained / clipped rows -/
def selectSpec (t : Table) (c : String) (qs qe : Int) (mode : Mode) : Table :=
  let rows := rowsOf t c
  match mode with
  | .outer => rows.filter (fun r => r.e > qs && r.s < qe)
  | .inner => rows.filter (fun r => r.s ≥ qs && r.e ≤ qe)
  | .trim => (rows.filter (fun r => r.e > qs && r.s < qe)).map
      (fun r => { r with s := max r.s qs, e := min r.e qe })

/-- C06 subdivide: each merged region of at least `minSize` is cut into
    `max 1 (round (len/avg))` consecutive bins of equal size (±1) covering it exactly;
    smaller regions yield nothing. -/
def subdivideSpecB (avg : Rat) (minSize : Int) (inp out : Table) : List String :=
  let regions := mergeTable 0 inp
  let inside (m r : Row) : Bool := r.chrom == m.chrom && m.s ≤ r.s && r.e ≤ m.e
  let perRegion := regions.all fun m =>
    let pieces := out.filter (inside m)
    let span := m.e - m.s
    if span ≥ minSize then
      let n0 := roundHalfEven ((span : Rat) / avg)
      let n : Nat := if n0 ≤ 0 then 1 else n0.toNat
      pieces.length == n &&
      (pieces.head?.map (·.s)) == some m.s &&
      (pieces.getLast?.map (·.e)) == some m.e &&
      ((pieces.zip (pieces.drop 1)).all (fun p => p.1.e == p.2.s)) &&
      (pieces.all fun a => pieces.all fun b => (a.e - a.s) - (b.e - b.s) ≤ 1) &&
      -- bins have positive length whenever that is possible (no more bins than bases)
      (decide ((n : Int) > span) || pieces.all fun a => a.s < a.e)
    else pieces.isEmpty
  let allInside := out.all fun r => regions.any (fun m => inside m r)
  (if perRegion then [] else ["subdivide_regions"]) ++ (if allInside then [] else ["subdivide_inside"])

/-- C06 total_range_size: the number of distinct covered bases, counted independently of `merge`: on every chromosome
    the sorted distinct endpoints cut the line into stretches on which coverage is constant; the covered stretches'
    lengths are added up. -/
def coveredCountB (t : Table) : Int :=
  ((allChroms [t]).map fun c =>
    let pts := sortDedupInts (endpoints t c)
    ((pts.zip (pts.drop 1)).map fun ab => if covb t c ab.1 then ab.2 - ab.1 else 0).sum).sum

def totalSpecB (t : Table) (v : Int) : List String :=
  if v == coveredCountB t then [] else ["total_is_covered_bases"]

end CnvVerif
