/-
  C20, extension: (a) the text cells of a VCF record / BED row as `segments2vcf` / `export_bed` emit them (so that the
  model's records can be compared with the row functions the translator reads off the source, Generated/ExprsExport),
  (b) the glue of `cnvkit.py export bed | vcf` (commands._cmd_export_bed, _cmd_export_vcf, cmdutil.verify_sample_sex):
  which sex, which label, which files reach the exporters.  Core Lean only.
-/
import CnvVerif.Model.Export
import CnvVerif.Model.PyRow
namespace CnvVerif.Export
open CnvVerif

/-! ### records and rows as cells -/

/-- the values `segments2vcf` writes after the INFO keys (`IMPRECISE` is a flag); `fmt` is Python's formatting of a
    float inside an f-string (not modelled: a parameter) -/
def infoValues (fmt : Rat → String) (r : VcfRec) : List (Option String) :=
  [none, some r.svtype, some (toString r.endp), some (toString r.svlen), some (fmt r.fold), some (fmt r.foldLog),
   some (toString r.probes)]

/-- `";".join(fields)` -/
def infoText (fmt : Rat → String) (r : VcfRec) : String :=
  ";".intercalate ((r.infoKeys.zip (infoValues fmt r)).map fun kv =>
    match kv.2 with
    | none => kv.1
    | some v => kv.1 ++ "=" ++ v)

/-- the ten cells of a VCF data line -/
def vcfCells (fmt : Rat → String) (r : VcfRec) : List Py.Val :=
  [.str r.chrom, .int r.pos, .str r.id, .str r.ref, .str r.alt, .str r.qual, .str r.filt,
   .str (infoText fmt r), .str (":".intercalate r.formatKeys), .str (":".intercalate r.sample)]

/-- the five cells of a BED row -/
def bedCells (b : BedRow) : List Py.Val := [.str b.chrom, .int b.s, .int b.e, .str b.label, .int b.ncopies]

/-- the `show` argument as the string the code compares -/
def showText : ShowMode → String
  | .all => "all"
  | .ploidy => "ploidy"
  | .variant => "variant"

/-- `absolute_clonal(..., purity 1.0, ...)` / the `absolute` column of `absolute_dataframe(..., 1.0, ...)` of a row -/
def absoluteCol (cfg : Cfg) (first : String) (r : Seg) : Rat :=
  let re := refExpect cfg.ploidy cfg.hapX cfg.female (classOf first cfg.par r.chrom r.s r.e)
  absoluteOf re.1 re.2 (some 1) r.t

/-- the `expect` column of the same dataframe -/
def expectCol' (cfg : Cfg) (first : String) (r : Seg) : Int :=
  ((refExpect cfg.ploidy cfg.hapX cfg.female (classOf first cfg.par r.chrom r.s r.e)).2 : Nat)

/-! ### the command line: `cnvkit.py export bed`, `export vcf` -/

/-- the spellings `verify_sample_sex` takes for "male" (after lower-casing) -/
def maleSpellings : List String := ["y", "m", "male"]

/-- `cmdutil.verify_sample_sex`: the sex stated on the command line wins over the inferred one; nothing stated (or the
    empty string): the inferred one -/
def verifySampleSex (guess : Bool) (sexArg : Option String) : Bool :=
  match sexArg with
  | none => guess
  | some s => if s.isEmpty then guess else !(maleSpellings.contains s.toLower)

/-- `_cmd_export_bed`: `-i` wins, then `--label-genes` (no label: gene names), else the file's sample ID -/
def cmdBedLabel (sampleId : Option String) (labelGenes : Bool) (segId : String) : Option String :=
  match sampleId with
  | some s => if s.isEmpty then (if labelGenes then none else some segId) else some s
  | none => if labelGenes then none else some segId

/-- the options of `export bed` / `export vcf` as argparse hands them over -/
structure CmdArgs where
  ploidy : Nat
  hapX : Bool                 -- -y / --male-reference / --haploid-x-reference
  par : Option String         -- --diploid-parx-genome
  sexArg : Option String      -- -x / --sample-sex / -g / --gender
  sampleId : Option String    -- -i / --sample-id
  labelGenes : Bool           -- --label-genes (bed)
  showMode : ShowMode         -- --show (bed)
deriving Repr, Inhabited

/-- one segment file as read: its sample ID (file name), the sex `guess_xx` infers from it (C15's subject: a
    parameter), which optional columns it has, its rows -/
structure SegFile where
  segId : String
  guess : Bool
  hasCn : Bool
  hasProbes : Bool
  rows : List Seg
deriving Repr, Inhabited

def fileCfg (a : CmdArgs) (f : SegFile) : Cfg :=
  { ploidy := a.ploidy, hapX := a.hapX, female := verifySampleSex f.guess a.sexArg, par := a.par,
    hasCn := f.hasCn, hasProbes := f.hasProbes }

/-- `_cmd_export_bed`: every file through `export_bed` with its own sex and label, tables concatenated in order -/
def cmdExportBed (a : CmdArgs) (files : List SegFile) : List BedRow :=
  files.flatMap fun f => exportBed (fileCfg a f) (cmdBedLabel a.sampleId a.labelGenes f.segId) a.showMode f.rows

/-- `_cmd_export_vcf`: (name of the sample column, records) -/
def cmdExportVcf (a : CmdArgs) (f : SegFile) : String × List VcfRec :=
  (vcfSampleColumn a.sampleId f.segId, segments2vcf (fileCfg a f) f.rows)

/-- the property's wording for the command: per file, the segments `--show` selects for the sex the command line
    states (else the inferred one), labelled as the options say -/
def cmdBedSpec (a : CmdArgs) (files : List SegFile) : List BedRow :=
  files.flatMap fun f => bedSpec (fileCfg a f) (cmdBedLabel a.sampleId a.labelGenes f.segId) a.showMode f.rows

end CnvVerif.Export
