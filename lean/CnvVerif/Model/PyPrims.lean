/-
  Reading of the Python / numpy primitives that `harness/looptrans.py` meets when it re-reads the
  BODY of a generator loop (`for x in xs: ... yield ...`) from the source text.  The generated
  definitions (`Generated/ExprsAccess.lean`) are written in terms of these; each one states, in one
  line, what the library call returns on lists.  Part of the trusted base (like the reading rules
  at the top of `harness/looptrans.py`).  Core Lean only.

  A Python `str` (and a numpy array of dtype "c") is a `List Char`; a numpy integer vector a
  `List Nat` / `List Int`; a boolean mask a `List Bool`.
-/
import CnvVerif.Model.Access
namespace CnvVerif.Py

/-- a generator function whose body is `for x in xs: <step>` followed by `<final>`: the values it
    yields, in order.  `step st x` = (values yielded while handling `x`, loop-carried variables
    afterwards); `final st` = values yielded by the statements after the loop. -/
def genLoop {σ ε ο : Type} (step : σ → ε → List ο × σ) (final : σ → List ο) : σ → List ε → List ο
  | st, [] => final st
  | st, x :: xs => (step st x).1 ++ genLoop step final (step st x).2 xs

/-- `s.startswith(p)` -/
def startsWith (s p : List Char) : Bool := p.isPrefixOf s

/-- `s.split(None, 1)[0]`: the first whitespace-delimited word (`IndexError` on an all-blank `s`
    is a precondition) -/
def firstWord (s : List Char) : List Char :=
  (s.dropWhile isPySpace).takeWhile (fun c => !isPySpace c)

/-- `s.rstrip()` -/
def rstrip (s : List Char) : List Char := rstripChars s

/-- `np.where(a == c)[0]`: the positions holding `c`, ascending -/
def whereEqFrom (k : Nat) (c : Char) : List Char → List Nat
  | [] => []
  | x :: xs => if x = c then k :: whereEqFrom (k + 1) c xs else whereEqFrom (k + 1) c xs

def whereEq (a : List Char) (c : Char) : List Nat := whereEqFrom 0 c a

/-- `a[0]` (`IndexError` on an empty vector is a precondition) -/
def first (a : List Nat) : Nat := a.headD 0

/-- `a[-1]` -/
def last (a : List Nat) : Nat := a.getLastD 0

/-- `np.diff(a)` -/
def diff (a : List Nat) : List Int := (a.zip (a.drop 1)).map (fun p => (p.2 : Int) - (p.1 : Int))

/-- `a > k`, elementwise -/
def gtMask (a : List Int) (k : Int) : List Bool := a.map (fun x => decide (x > k))

/-- `mask.any()` -/
def anyTrue (m : List Bool) : Bool := m.any id

/-- `a[mask]`: the entries of `a` where the mask holds -/
def select {α : Type} : List α → List Bool → List α
  | x :: xs, b :: bs => if b then x :: select xs bs else select xs bs
  | _, _ => []

/-- `a + k`, broadcast -/
def addScalar (a : List Nat) (k : Nat) : List Nat := a.map (· + k)

/-- `x or d` for an optional integer: `None` and `0` are falsy -/
def orInt (x : Option Int) (d : Int) : Int :=
  match x with
  | some v => if v = 0 then d else v
  | none => d

end CnvVerif.Py
