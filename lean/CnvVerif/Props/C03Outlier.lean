/-
  C03 (round 5): the outlier filter of `segment` inside the model (Model/TileOutlierExt5.lean) -- what the property
  needs of it.  The smoothed trend and the rolling quantile are parameters; the decision rule, the short-array rule,
  the per-chromosome application and the removal of the flagged rows are the model's.  Proofs in
  Lemmas/TileOutlierExt5.lean.
-/
import CnvVerif.Lemmas.TileOutlierExt5
namespace CnvVerif.C03
open CnvVerif CnvVerif.C03Outl

/-- the rule is two-sided and strict: a bin is an outlier iff its log2 lies MORE than `quants · m` above or below the
    trend -/
theorem outlier_rule_two_sided_strict (m x trend quants : Rat) :
    isOutlier m x trend quants = true ↔ (x - trend > quants * m ∨ trend - x > quants * m) :=
  isOutlier_iff m x trend quants

/-- a bin on the trend line is never an outlier (in particular: a flat stretch, where residual and quantile are both 0,
    loses no bin) -/
theorem bin_on_trend_is_never_an_outlier (m t quants : Rat) (h : 0 ≤ quants * m) : isOutlier m t t quants = false :=
  on_trend_not_outlier m t quants h

/-- a larger factor never flags more bins -/
theorem larger_factor_flags_fewer (m m' x trend quants : Rat) (hq : 0 ≤ quants) (hm : m ≤ m')
    (h : isOutlier m' x trend quants = true) : isOutlier m x trend quants = true :=
  isOutlier_antitone m m' x trend quants hq hm h

/-- a chromosome (arm) of at most `width` bins loses no bin to the outlier filter -/
theorem short_chromosome_loses_no_bin (width : Nat) (m : Rat) (pts : List Pt) (rows : List Bin)
    (h : pts.length ≤ width) (hl : rows.length = pts.length) :
    dropOutliers (outlierMask width m pts) rows = rows := by
  rw [outlierMask_short width m pts h, ← hl]; exact dropOutliers_all_false rows

/-- on a longer one the mask is the rule applied to every bin -/
theorem long_chromosome_mask_is_the_rule (width : Nat) (m : Rat) (pts : List Pt) (h : width < pts.length) :
    outlierMask width m pts = pts.map fun p => isOutlier m p.x p.trend p.quants :=
  outlierMask_long width m pts h

/-- `drop_outliers` works chromosome by chromosome: the groups are non-empty, single-chromosome, concatenate to the
    table, and the concatenated mask has one element per row (so that `cnarr[~mask]` is well defined) -/
theorem drop_outliers_mask_covers_the_table (width : Nat) (factor : Rat) (rows : List (String × Pt)) :
    (dropMask width factor rows).length = rows.length ∧ (chromRuns rows).flatten = rows ∧
      (∀ g ∈ chromRuns rows, g ≠ []) ∧ ∀ g ∈ chromRuns rows, ∀ a ∈ g, ∀ b ∈ g, a.1 = b.1 :=
  ⟨dropMask_length width factor rows, chromRuns_spec rows⟩

/-- the filter only removes rows: what is left is a sub-list of the table, in order -/
theorem drop_outliers_only_removes {α} (mask : List Bool) (rows : List α) :
    (dropOutliers mask rows).Sublist rows := dropOutliers_sublist mask rows

/-- a bin flagged by the rule never survives when the filter is on, and with `skip_outliers = 0` the rule plays no part -/
theorem outlier_bin_does_not_survive (skipLow : Bool) (minWeight skipOutliers : Rat) (o : Option Bool) (b : Bin) :
    (skipOutliers ≠ 0 → filterKeep skipLow minWeight skipOutliers (some true) b = false) ∧
    filterKeep skipLow minWeight 0 o b = surviveMask skipLow minWeight false b.log2 b.depth b.weight :=
  ⟨filterKeep_outlier skipLow minWeight skipOutliers b, filterKeep_off skipLow minWeight o b⟩

/-- a dropped bin is still accounted for: in every reported segment, `probes` plus the number of filtered-out input
    bins lying inside the segment is the number of ALL input bins lying inside it -/
theorem dropped_bins_are_accounted_for (u : List Bin) (hw : WFUnit u) (runs : List Nat) :
    ∀ g ∈ assembleUnit u runs,
      g.probes + ((u.filter (fun b => !b.keep && containedIn b g)).length : Int) =
        ((u.filter (fun b => containedIn b g)).length : Int) :=
  probes_plus_dropped u hw runs

/-- an outlier at the very edge of an arm is still spanned: with the first and the last bin of the unit filtered out
    (by the outlier rule, say) the segments still start at the first and end at the last INPUT bin -/
theorem edge_outliers_are_spanned (u : List Bin) (hw : WFUnit u) (runs : List Nat) (first last : Bin)
    (hf : u.head? = some first) (hl : u.getLast? = some last) (_hfo : first.keep = false) (_hlo : last.keep = false)
    (hs : ∃ b ∈ u, b.keep = true) :
    ((assembleUnit u runs).head?.map (·.s)) = some first.s ∧ ((assembleUnit u runs).getLast?.map (·.e)) = some last.e := by
  have h := assembleUnit_endpoints u hw runs hs
  rw [hf, hl] at h
  exact h

/-! non-vacuity -/
example : isOutlier 10 5 0 (1/4) = true ∧ isOutlier 10 (5/2) 0 (1/4) = false ∧ isOutlier 10 0 0 0 = false := by
  decide +kernel
example : outlierMask 2 10 [⟨5, 0, 1/4⟩, ⟨0, 0, 1/4⟩, ⟨-5, 0, 1/4⟩] = [true, false, true] ∧
    outlierMask 3 10 [⟨5, 0, 1/4⟩, ⟨0, 0, 1/4⟩, ⟨-5, 0, 1/4⟩] = [false, false, false] := by decide +kernel
example : dropOutliers [true, false, true] ["a", "b", "c"] = ["b"] := by decide

end CnvVerif.C03
