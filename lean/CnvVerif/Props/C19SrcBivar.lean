/-
  C19, tie to the source TEXT: `biweight_midvariance` about a given centre, with the generated defaults c = 9, epsilon = 0.001.
  `Generated.src_biweight_midvariance` (Generated/ExprsDesc.lean) is re-translated from /repo's cnvlib/descriptives.py on every run by
  harness/vectrans.py (typed reading of the numpy vector subset); it is proved here that the hand-written model IS
  that expression, for all arguments.  One module per function: an edited formula breaks exactly this obligation.
-/
import CnvVerif.Generated.ExprsDesc
import CnvVerif.Lemmas.SrcDescVocab
namespace CnvVerif.C19
open CnvVerif CnvVerif.Desc CnvVerif.Generated CnvVerif.Src

set_option linter.unusedSimpArgs false
set_option linter.unusedVariables false

/-- `biweight_midvariance` about a given centre: the model returns what the source computes -- the MAD fall-back on
    exactly symmetric data, otherwise the root of the same radicand -- except where the source divides by zero
    (`.undefined`: inf / NaN in Python) -/
theorem biweight_midvariance_is_the_source (a : List Rat) (init : Rat) :
    bivarCore false a (some init) = ScaleOut.undefined ∨
      bivarCore false a (some init) = src_biweight_midvariance a init BIVAR_C BIVAR_EPS := by
  have hsrc : src_biweight_midvariance a init BIVAR_C BIVAR_EPS =
      bivarTailSrc (a.map (· - init)) (max (BIVAR_C * median ((a.map (· - init)).map absR)) BIVAR_EPS)
        (median ((a.map (· - init)).map absR) * MAD_SCALE_BIVAR) := rfl
  rw [bivarCore_tail, hsrc]
  exact bivarTail_eq _ _ _

end CnvVerif.C19
