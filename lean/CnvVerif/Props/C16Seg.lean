/-
  C16, round 4 — `do_genemetrics` GIVEN SEGMENTS, end to end (sex adjustment, threshold on the segment, the final
  `min_probes` filter).  Props/C16.lean has the end-to-end statement only without segments (`genemetrics_selection`)
  and, with segments, the rows before the final filter (`by_segment_parts`).
-/
import CnvVerif.Props.C16
namespace CnvVerif.C16
open CnvVerif CnvVerif.Genes

/-- a segment table has a `probes` column or it has none -/
def UniformProbes (segs : List SegRow) : Prop :=
  (∀ sg ∈ segs, ∃ p, sg.probes = some p) ∨ (∀ sg ∈ segs, sg.probes = none)

theorem shiftSegs_probes (segs : List SegRow) (hapX : Bool) (isXX : Option Bool) (sg : SegRow)
    (h : sg ∈ shiftSegs segs hapX isXX) : ∃ sg0 ∈ segs, sg.probes = sg0.probes := by
  simp only [shiftSegs, List.mem_map] at h
  obtain ⟨sg0, h0, rfl⟩ := h
  refine ⟨sg0, h0, ?_⟩
  split <;> rfl

/-- **given (a non-empty table of) segments**: a row is reported iff it is the part of a gene inside a segment of the
    sex-adjusted table that reaches the threshold (`by_segment_parts` says which rows those are), and -- unless
    `min_probes` is 0 -- the SEGMENT has at least `min_probes` probes; when the segment table has no `probes` column,
    the gene's part must have that many bins -/
theorem genemetrics_selection_by_segment (t : List Bin) (segs : List SegRow) (thr : Rat) (minProbes : Nat)
    (skip hapX : Bool) (isXX : Option Bool) (out : List GRow) (hne : segs ≠ []) (hu : UniformProbes segs)
    (h : doGenemetrics t (some segs) thr minProbes skip hapX isXX = .ok out) (r : GRow) :
    r ∈ out ↔
      r ∈ metricsBySegment (shiftBins t hapX isXX) (shiftSegs segs hapX isXX) thr skip ∧
      (minProbes = 0 ∨ match r.segProbes with
        | some p => (minProbes : Int) ≤ p
        | none => minProbes ≤ r.probes) := by
  have hbs : (!segs.isEmpty) = true := by
    cases segs with
    | nil => exact absurd rfl hne
    | cons _ _ => rfl
  simp only [doGenemetrics, hbs, ↓reduceIte, Option.getD_some] at h
  split at h
  · cases h
  · cases h
    -- every row carries the `probes` entry of a segment
    have hrows : ∀ x ∈ metricsBySegment (shiftBins t hapX isXX) (shiftSegs segs hapX isXX) thr skip,
        ∃ sg0 ∈ segs, x.segProbes = sg0.probes := by
      intro x hx
      obtain ⟨sg, hsg, _, g, grp, r0, _, _, _, _, rfl⟩ := mem_metricsBySegment.mp hx
      exact shiftSegs_probes segs hapX isXX sg hsg
    rcases hu with hall | hnone
    · have hsome : ∀ x ∈ metricsBySegment (shiftBins t hapX isXX) (shiftSegs segs hapX isXX) thr skip,
          ∃ p, x.segProbes = some p := by
        intro x hx
        obtain ⟨sg0, h0, he⟩ := hrows x hx
        obtain ⟨p, hp⟩ := hall sg0 h0
        exact ⟨p, by rw [he, hp]⟩
      rw [mem_minProbesFilter_seg hsome]
      constructor
      · rintro ⟨hr, h0 | ⟨p, hp, hle⟩⟩
        · exact ⟨hr, Or.inl h0⟩
        · exact ⟨hr, Or.inr (by rw [hp]; exact hle)⟩
      · rintro ⟨hr, h0 | hm⟩
        · exact ⟨hr, Or.inl h0⟩
        · obtain ⟨p, hp⟩ := hsome r hr
          rw [hp] at hm
          exact ⟨hr, Or.inr ⟨p, hp, hm⟩⟩
    · have hplain : ∀ x ∈ metricsBySegment (shiftBins t hapX isXX) (shiftSegs segs hapX isXX) thr skip,
          x.segProbes = none := by
        intro x hx
        obtain ⟨sg0, h0, he⟩ := hrows x hx
        rw [he, hnone sg0 h0]
      rw [mem_minProbesFilter_plain hplain]
      constructor
      · rintro ⟨hr, hm⟩
        refine ⟨hr, ?_⟩
        rw [hplain r hr]
        exact hm
      · rintro ⟨hr, hm⟩
        rw [hplain r hr] at hm
        exact ⟨hr, hm⟩

/-- an EMPTY segment table is as good as none: the genes are reported from the bins -/
theorem genemetrics_empty_segments (t : List Bin) (thr : Rat) (minProbes : Nat) (skip hapX : Bool)
    (isXX : Option Bool) :
    doGenemetrics t (some []) thr minProbes skip hapX isXX = doGenemetrics t none thr minProbes skip hapX isXX := rfl

/-- non-vacuity: the demo table cut at 10 on chr2; only the second segment reaches 1/5 and has ≥ 2 probes -/
example : (doGenemetrics demo (some [⟨"chr2", 0, 10, "-", 0, some 1, none⟩, ⟨"chr2", 10, 40, "-", 1, some 3, none⟩])
      (1/5) 2 false false (some true)).toOption.map (fun rows => rows.map (fun r => (r.gene, r.s, r.e, r.probes, r.segProbes.getD 0))) =
    some [("B", 20, 30, 1, 3)] := by decide +kernel

example : UniformProbes [⟨"chr2", 0, 10, "-", 0, some 1, none⟩, ⟨"chr2", 10, 40, "-", 1, some 3, none⟩] :=
  Or.inl (by intro sg h; simp at h; rcases h with rfl | rfl <;> exact ⟨_, rfl⟩)

end CnvVerif.C16
