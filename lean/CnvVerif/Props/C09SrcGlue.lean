/-
  C09, round 5b: the glue `do_coverage` / `interval_coverages` of cnvlib/coverage.py.
  (i)   source tie: the model's two step plans ARE the plans harness/stepplan.py re-reads from the source on every run
        (Generated/ExprsCovGlue.lean), for every outcome of the tests; the statement texts of the vocabulary carry the
        argument plumbing (`min_mapq`, `processes` into the chosen algorithm);
  (ii)  the options only SELECT: `by_count` the algorithm, `processes` the worker count, `min_mapq` reaches the algorithm as
        given; with algorithms whose answer does not depend on the worker count (C09Sched: any schedule of any pool) the
        returned value does not depend on `processes` at all;
  (iii) `processes`: None / 0 / negative = one worker per CPU, n >= 1 = n, never a non-positive pool size;
  (iv)  order and guards: the sortedness check comes first and an unsorted BAM is refused before the index is touched and
        before anything is counted; the index is ensured before counting; a regions file without a record counts nothing.
  Kept in a module of its own so that an edit to the glue breaks exactly these obligations.
-/
import CnvVerif.Model.CoverageExt5Glue
namespace CnvVerif.C09
open CnvVerif CnvVerif.C09Glue CnvVerif.Generated
set_option linter.unusedSimpArgs false
set_option linter.unusedVariables false

/-! ### (i) tie to the source text -/

/-- the hand-written order of `do_coverage`'s effects is the one read from the source, for every outcome of its tests -/
theorem c09g_plan_do_is_the_source (pg pb sorted : Bool) :
    c09gPlanDo pg pb sorted = src_do_coverage_plan pg pb sorted := by
  cases pg <;> cases pb <;> cases sorted <;> rfl

/-- ... and `interval_coverages`'s; the test on the number of mapped reads (it guards log lines) selects nothing -/
theorem c09g_plan_iv_is_the_source (blank byCount known : Bool) :
    c09gPlanIv blank byCount = src_interval_coverages_plan blank byCount known := by
  cases blank <;> cases byCount <;> cases known <;> rfl

/-- parameter order and defaults the model's argument record stands for -/
theorem c09g_signature_is_the_source :
    src_do_coverage_params = ["bed_fname", "bam_fname", "by_count", "min_mapq", "processes", "fasta"] ∧
    src_do_coverage_default_by_count = false ∧ src_do_coverage_default_min_mapq = 0 ∧
    src_do_coverage_default_processes = 1 := ⟨rfl, rfl, rfl, rfl⟩

/-- the statements of one call contain the algorithm's statement that the result names, and not the other one -/
theorem c09g_steps_run_the_selected_algorithm (blank : Bool) (a : C09gArgs) :
    (CovGlueStep.runCount ∈ c09gSteps true blank a ↔ (blank = false ∧ a.byCount = true)) ∧
    (CovGlueStep.runPileup ∈ c09gSteps true blank a ↔ (blank = false ∧ a.byCount = false)) := by
  obtain ⟨bc, q, p⟩ := a
  cases blank <;> cases bc <;> cases p <;>
    simp [c09gSteps, c09gPlanDo, c09gPlanIv, c09gProcsGiven, c09gProcsBelowOne] <;>
    (split <;> simp)

/-! ### (ii) the options only select -/

/-- `by_count` selects the algorithm and nothing else; `processes` the worker count and nothing else; `min_mapq` arrives
    as given -/
theorem c09g_options_only_select (blank : Bool) (a : C09gArgs) :
    c09gResult true false a = .table (if a.byCount then .count else .pileup) a.minMapq (c09gWorkers a.processes) := by
  simp [c09gResult, c09gAlgo]

/-- the call handed to the algorithm is the result's: same algorithm, same cut-off, same worker count -/
theorem c09g_trace_runs_what_is_returned (sorted blank : Bool) (a : C09gArgs) (al : C09gAlgo) (q : Int) (w : Option Int) :
    C09gCall.run al q w ∈ c09gTrace sorted blank a ↔ c09gResult sorted blank a = .table al q w := by
  cases sorted <;> cases blank <;> simp [c09gTrace, c09gResult, eq_comm]

/-- two calls that differ in `processes` only run the same algorithm with the same cut-off -/
theorem c09g_processes_selects_workers_only (sorted blank : Bool) (bc : Bool) (q : Int) (p p' : Option Int) :
    (c09gTrace sorted blank ⟨bc, q, p⟩).map (fun c => match c with | .run al m _ => C09gCall.run al m none | c => c) =
    (c09gTrace sorted blank ⟨bc, q, p'⟩).map (fun c => match c with | .run al m _ => C09gCall.run al m none | c => c) := by
  cases sorted <;> cases blank <;> simp [c09gTrace]

/-- with algorithms whose table does not depend on the worker count (C09Sched: every schedule of every pool size gathers
    the serial table) the value `do_coverage` returns does not depend on `processes` -/
theorem c09g_value_independent_of_processes {β} (cnt pil : Int → Option Int → β) (empty : β)
    (hc : ∀ q w w', cnt q w = cnt q w') (hp : ∀ q w w', pil q w = pil q w')
    (sorted blank bc : Bool) (q : Int) (p p' : Option Int) :
    c09gValue cnt pil empty sorted blank ⟨bc, q, p⟩ = c09gValue cnt pil empty sorted blank ⟨bc, q, p'⟩ := by
  cases sorted <;> cases blank <;> cases bc <;> simp [c09gValue, c09gResult, c09gAlgo, hc q _ (c09gWorkers p'), hp q _ (c09gWorkers p')]

/-- `by_count` never reaches the chosen algorithm: the value is `cnt` or `pil` of (cut-off, workers) -/
theorem c09g_value_is_the_selected_algorithm {β} (cnt pil : Int → Option Int → β) (empty : β) (a : C09gArgs) :
    c09gValue cnt pil empty true false a =
      .ok (if a.byCount then cnt a.minMapq (c09gWorkers a.processes) else pil a.minMapq (c09gWorkers a.processes)) := by
  obtain ⟨bc, q, p⟩ := a
  cases bc <;> simp [c09gValue, c09gResult, c09gAlgo]

/-! ### (iii) `processes` -/

/-- one worker per CPU exactly for None and for every integer below one (`-p` without a number is 0) -/
theorem c09g_workers_all_cpus_iff (p : Option Int) : c09gWorkers p = none ↔ (p = none ∨ ∃ n, p = some n ∧ n < 1) := by
  cases p with
  | none => simp [c09gWorkers]
  | some n => by_cases h : n < 1 <;> simp [c09gWorkers, h]

theorem c09g_workers_positive_kept (n : Int) (h : 1 ≤ n) : c09gWorkers (some n) = some n := by
  have : ¬ n < 1 := by omega
  simp [c09gWorkers, this]

/-- the pool is never asked for a non-positive number of workers -/
theorem c09g_workers_never_nonpositive (p : Option Int) (n : Int) (h : c09gWorkers p = some n) : 1 ≤ n := by
  cases p with
  | none => simp [c09gWorkers] at h
  | some m =>
    by_cases hm : m < 1
    · simp [c09gWorkers, hm] at h
    · simp [c09gWorkers, hm] at h; omega

theorem c09g_workers_idempotent (p : Option Int) : c09gWorkers (c09gWorkers p) = c09gWorkers p := by
  cases p with
  | none => rfl
  | some m => by_cases hm : m < 1 <;> simp [c09gWorkers, hm]

/-- the statement `processes = None` runs exactly when the model's worker count differs from the argument -/
theorem c09g_normalisation_step_iff (sorted : Bool) (p : Option Int) :
    CovGlueStep.procsToAllCpus ∈ c09gPlanDo (c09gProcsGiven p) (c09gProcsBelowOne p) sorted ↔ c09gWorkers p ≠ p := by
  cases p with
  | none => cases sorted <;> simp [c09gPlanDo, c09gProcsGiven, c09gProcsBelowOne, c09gWorkers]
  | some m => by_cases hm : m < 1 <;> cases sorted <;> simp [c09gPlanDo, c09gProcsGiven, c09gProcsBelowOne, c09gWorkers, hm]

/-! ### (iv) order and guards -/

/-- refused exactly when the BAM is not sorted, whatever the options -/
theorem c09g_refused_iff (sorted blank : Bool) (a : C09gArgs) : c09gResult sorted blank a = .runtimeError ↔ sorted = false := by
  cases sorted <;> cases blank <;> simp [c09gResult]

/-- an unsorted BAM: the sortedness check is the only call -- no index is written, nothing is counted -/
theorem c09g_unsorted_touches_nothing (blank : Bool) (a : C09gArgs) : c09gTrace false blank a = [.ensureSorted] := by
  simp [c09gTrace]

/-- the plan of the refusal: (perhaps the normalisation, then) the raise, and nothing after it -/
theorem c09g_unsorted_plan_ends_in_raise (pg pb : Bool) :
    (c09gPlanDo pg pb false).getLast? = some .raiseRuntimeError ∧ CovGlueStep.ensureIndex ∉ c09gPlanDo pg pb false := by
  cases pg <;> cases pb <;> simp [c09gPlanDo]

/-- a sorted BAM: sortedness check, then the index, then the regions file, then (unless it has no record) ONE run of ONE
    algorithm -/
theorem c09g_sorted_trace (blank : Bool) (a : C09gArgs) :
    c09gTrace true blank a = [.ensureSorted, .ensureIndex, .openBed] ++
      (if blank then [] else [.run (c09gAlgo a.byCount) a.minMapq (c09gWorkers a.processes)]) := by
  cases blank <;> simp [c09gTrace]

/-- a regions file without a record: an empty table, and neither algorithm runs, whatever the options -/
theorem c09g_blank_bed_counts_nothing (a : C09gArgs) :
    c09gResult true true a = .emptyTable ∧ ∀ al q w, C09gCall.run al q w ∉ c09gTrace true true a := by
  simp [c09gResult, c09gTrace]

/-- the result never depends on `processes` beyond the worker count and never on anything but the three options -/
theorem c09g_result_determined (sorted blank : Bool) (a b : C09gArgs) (h1 : a.byCount = b.byCount) (h2 : a.minMapq = b.minMapq)
    (h3 : c09gWorkers a.processes = c09gWorkers b.processes) : c09gResult sorted blank a = c09gResult sorted blank b := by
  simp [c09gResult, h1, h2, h3]

/-! ### non-vacuity -/
example : c09gResult true false ⟨true, 30, some 0⟩ = .table .count 30 none := by decide
example : c09gResult true false ⟨false, 0, some 4⟩ = .table .pileup 0 (some 4) := by decide
example : c09gTrace true false ⟨false, 7, none⟩ = [.ensureSorted, .ensureIndex, .openBed, .run .pileup 7 none] := by decide
example : c09gSteps true false ⟨true, 0, some (-2)⟩ =
    [.procsToAllCpus, .ensureIndex, .setMeta, .runCount, .unzipResults, .tableFromRows, .returnTable, .returnTable] := by decide
example : c09gWorkers (some 0) ≠ some 0 := by decide

end CnvVerif.C09
