/-
  C01 (growth round 5): the public wrappers `absolute_reference`, `absolute_expect`, `log2_ratios` return the columns of the
  proved tables -- whatever value the flag has that the wrapper pins.
-/
import CnvVerif.Props.C01
import CnvVerif.Model.CallExt5Wrap
namespace CnvVerif.C01
open CnvVerif

/-- the reference copies of a class do not depend on the sample's sex, the expected copies not on the reference's -/
theorem c01w_reference_ignores_sample_sex (ploidy : Nat) (hapX f₁ f₂ : Bool) (cls : CClass) :
    (refExpect ploidy hapX f₁ cls).1 = (refExpect ploidy hapX f₂ cls).1 := by
  cases cls <;> rfl

theorem c01w_expect_ignores_reference_sex (ploidy : Nat) (h₁ h₂ female : Bool) (cls : CClass) :
    (refExpect ploidy h₁ female cls).2 = (refExpect ploidy h₂ female cls).2 := by
  cases cls <;> rfl

/-- `absolute_reference` is the `reference` column of the table `do_call` works with, for EITHER sample sex -/
theorem c01w_absolute_reference_is_the_table_column (ploidy : Nat) (par : Option String) (hapX female : Bool)
    (rows : List SegRow) :
    c01wAbsoluteReference ploidy par hapX rows
      = rows.map (fun r => (refExpect ploidy hapX female (classOf (c01wFirst rows) par r.chrom r.s r.e)).1) := by
  unfold c01wAbsoluteReference
  exact List.map_congr_left (fun r _ => c01w_reference_ignores_sample_sex ploidy hapX true female _)

/-- `absolute_expect` is its `expect` column, for EITHER reference sex -/
theorem c01w_absolute_expect_is_the_table_column (ploidy : Nat) (par : Option String) (hapX female : Bool)
    (rows : List SegRow) :
    c01wAbsoluteExpect ploidy par female rows
      = rows.map (fun r => (refExpect ploidy hapX female (classOf (c01wFirst rows) par r.chrom r.s r.e)).2) := by
  unfold c01wAbsoluteExpect
  exact List.map_congr_left (fun r _ => c01w_expect_ignores_reference_sex ploidy true hapX female _)

/-- `log2_ratios` applied to the absolutes of the purity path is the ratio column `do_call` writes (any method) -/
theorem c01w_log2_ratios_is_the_call_column (cfg : CallCfg) (m : Method) (thr : List Rat) (hasBaf : Bool)
    (rows : List SegRow) (hp : (purityActive cfg.purity).isSome = true) :
    (callTable cfg m thr hasBaf rows).map (·.ratio)
      = (c01wLog2Ratios cfg.ploidy cfg.hapX cfg.par rows
          (rows.map (fun r =>
            let re := refExpect cfg.ploidy cfg.hapX cfg.female (classOf (c01wFirst rows) cfg.par r.chrom r.s r.e)
            absoluteOf re.1 re.2 cfg.purity r.t))).map some := by
  unfold c01wLog2Ratios callTable
  rw [List.zip_map_right, List.map_map, List.map_map, List.map_map]
  have hz : ∀ l : List SegRow, (l.zip l) = l.map (fun r => (r, r)) := by
    intro l; induction l <;> simp_all
  rw [hz, List.map_map]
  apply List.map_congr_left
  intro r _
  obtain ⟨p, hp'⟩ := Option.isSome_iff_exists.mp hp
  unfold callRow c01wFirst
  cases m <;> simp [hp']

end CnvVerif.C01
