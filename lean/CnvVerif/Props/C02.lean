/-
  C02 — threshold calls are a monotone step function of log2; cn1 + cn2 = cn.
  Property theorems only; proofs in Lemmas/Call.lean and Lemmas/CallReal.lean.
-/
import CnvVerif.Model.Call
import CnvVerif.Lemmas.Call
import CnvVerif.Lemmas.CallReal
namespace CnvVerif.C02
open CnvVerif

/-- below (or at) the last threshold, cn is the number of thresholds strictly below log2 —
    multiplied by (reference copies / ploidy) and truncated on chromosomes the reference carries
    in fewer copies -/
theorem threshold_counts (thr : List Rat) (hs : thr.Pairwise (· < ·)) (ploidy r : Nat) (v t : Rat)
    (hle : ∃ th ∈ thr, v ≤ th) :
    thresholdCall thr ploidy r (some v) t =
      (if r ≠ ploidy then ((thr.countP (fun th => decide (th < v)) * r / ploidy : Nat) : Int)
       else (thr.countP (fun th => decide (th < v)) : Int)) :=
  thresholdCall_below thr hs ploidy r v t hle

/-- above the last threshold it is ceil(r·2^log2) -/
theorem above_last_is_ceil (thr : List Rat) (ploidy r : Nat) (v t : Rat) (h : ∀ th ∈ thr, th < v) :
    thresholdCall thr ploidy r (some v) t = ((r : Rat) * t).ceil :=
  thresholdCall_above thr ploidy r v t h

/-- a missing log2 yields the neutral reference copy number -/
theorem nan_gives_reference (thr : List Rat) (ploidy r : Nat) (t : Rat) :
    thresholdCall thr ploidy r none t = (r : Int) := thresholdCall_nan thr ploidy r t

/-- the number of rows never changes -/
theorem rowcount_preserved (cfg : CallCfg) (m : Method) (thr : List Rat) (hasBaf : Bool)
    (rows : List SegRow) : (callTable cfg m thr hasBaf rows).length = rows.length := by
  simp [callTable]

/-- the default thresholds read from the source are the decimals the documentation states … -/
theorem default_thresholds_are : Generated.DEFAULT_THRESHOLDS_dec = [-11/10, -1/4, 1/5, 7/10] := by
  decide +kernel

/-- … strictly increasing … -/
theorem default_thresholds_sorted : Generated.DEFAULT_THRESHOLDS.Pairwise (· < ·) :=
  CnvVerif.default_thresholds_sorted

/-- … and give cn = 2 at log2 0 on a diploid autosome -/
theorem default_cn2_at_zero :
    thresholdCall Generated.DEFAULT_THRESHOLDS 2 (refCopiesPure "chr1" 2 false) (some 0) 1 = 2 :=
  CnvVerif.default_cn2_at_zero

/-- with the default thresholds cn never decreases as log2 increases, on any chromosome class
    (`r = ploidy` or `r = ploidy / 2`), for ploidy ≥ 2.  The ratio `t = 2^v` enters only through
    the two facts `two_rpow_monotone` and `ratio_above_last_threshold` proved below over ℝ. -/
theorem monotone_default_partial (ploidy r : Nat) (h2 : 2 ≤ ploidy) (hr : r = ploidy ∨ r = ploidy / 2)
    (v₁ v₂ t₁ t₂ : Rat) (hv : v₁ ≤ v₂) (ht : t₁ ≤ t₂) (ht0 : 0 ≤ t₁)
    (h32 : (∀ th ∈ Generated.DEFAULT_THRESHOLDS, th < v₂) → 3/2 < t₂) :
    thresholdCall Generated.DEFAULT_THRESHOLDS ploidy r (some v₁) t₁
      ≤ thresholdCall Generated.DEFAULT_THRESHOLDS ploidy r (some v₂) t₂ :=
  monotone_default ploidy r h2 hr v₁ v₂ t₁ t₂ hv ht ht0 h32

/-- the full statement (ploidy 1 included) is FALSE of the code: open finding B -/
theorem monotone_ploidy1_counterexample :
    thresholdCall Generated.DEFAULT_THRESHOLDS 1 1 (some (7/10 - 1/1000)) (1624/1000) = 3 ∧
    thresholdCall Generated.DEFAULT_THRESHOLDS 1 1 (some (71/100)) (1636/1000) = 2 :=
  CnvVerif.monotone_ploidy1_counterexample

theorem two_rpow_monotone (v₁ v₂ : ℝ) (h : v₁ ≤ v₂) : (2 : ℝ) ^ v₁ ≤ (2 : ℝ) ^ v₂ :=
  two_rpow_mono v₁ v₂ h

theorem ratio_above_last_threshold (v : ℝ) (hv : (69 / 100 : ℝ) ≤ v) : (3 / 2 : ℝ) < (2 : ℝ) ^ v :=
  two_rpow_gt_three_halves v hv

/-- cn1 + cn2 = cn with 0 ≤ cn1, cn2 ≤ cn -/
theorem allelic_sum (cn : Int) (hcn : 0 ≤ cn) (a : Rat) (baf : Option Rat) (c1 c2 : Int)
    (h : allelic cn a baf = (some c1, some c2)) :
    c1 + c2 = cn ∧ 0 ≤ c1 ∧ c1 ≤ cn ∧ 0 ≤ c2 ∧ c2 ≤ cn := CnvVerif.allelic_sum cn hcn a baf c1 c2 h

/-- both missing exactly where a segment has no BAF and cn > 0 -/
theorem allelic_missing_iff (cn : Int) (a : Rat) (baf : Option Rat) :
    ((allelic cn a baf).1 = none ∧ (allelic cn a baf).2 = none) ↔ (baf = none ∧ 0 < cn) :=
  CnvVerif.allelic_missing_iff cn a baf

/-- … also when the b-allele frequencies come from `variants` and are rescaled for purity, which can push
    them outside [0, 1] (observed 0.9 at purity 0.6 becomes 1.17): the split still lies within [0, cn] -/
theorem allelic_sum_after_purity_rescale (cfg : CallCfg) (m : Method) (thr : List Rat) (fromVariants : Bool)
    (rows : List SegRow) (hpos : ∀ r ∈ rows, 0 ≤ r.t) :
    ∀ o ∈ callTableV cfg m thr fromVariants rows, ∀ cn c1 c2, o.cn = some cn → o.cn1 = some c1 → o.cn2 = some c2 →
      0 ≤ cn ∧ c1 + c2 = cn ∧ 0 ≤ c1 ∧ c1 ≤ cn ∧ 0 ≤ c2 ∧ c2 ≤ cn :=
  callTableV_allelic cfg m thr fromVariants rows hpos

/-- the rescaled frequency really leaves [0, 1] for inputs inside it (so the clip is not redundant) -/
theorem rescaled_baf_can_exceed_one : callRescaleBaf (3/5) (9/10) = 7/6 := by decide +kernel

/-- on the purity path (`--purity p`, 0 < p < 1) the threshold scan reads the log2 the rescaling just wrote: in
    ratio space, the rescaled ratio ρ against the thresholds' antilogs -- so `threshold_counts` and
    `above_last_is_ceil` apply to it verbatim with `v = t = ρ` -/
theorem threshold_scan_reads_rescaled_ratio (cfg : CallCfg) (p : Rat) (hp : purityActive cfg.purity = some p)
    (thr : List Rat) (first : String) (hasBaf : Bool) (row : SegRow) :
    let cls := classOf first cfg.par row.chrom row.s row.e
    let ρ := rescaledRatio cfg.ploidy cfg.hapX cls
      (absoluteOf (refExpect cfg.ploidy cfg.hapX cfg.female cls).1 (refExpect cfg.ploidy cfg.hapX cfg.female cls).2
        cfg.purity row.t) Generated.MIN_ABS_VAL
    (callRow cfg .threshold thr first hasBaf row).cn =
      some (thresholdCall cfg.thrPow2 cfg.ploidy (refCopiesPure row.chrom cfg.ploidy cfg.hapX) (some ρ) ρ) ∧
    (callRow cfg .threshold thr first hasBaf row).ratio = some ρ := by
  simp only [callRow, hp]
  exact ⟨trivial, trivial⟩

/-! non-vacuity -/
example : thresholdCall Generated.DEFAULT_THRESHOLDS 2 1 (some (1/10)) 1 = 1 := by decide +kernel
example : allelic 3 3 (some (3/4)) = (some 2, some 1) := by decide +kernel

end CnvVerif.C02
