/-
  C03 (round 5): the glue of `do_segmentation` around the per-unit worker (Model/TileGatherExt5.lean) -- "for every
  number of processes".  The pool is the small-step pool of Model/CoverageSched.lean: `nw` workers, ANY schedule of
  take / finish events, results handed back by submission index (`Executor.map`).  Proofs in Lemmas/TileGatherExt5.lean.
-/
import CnvVerif.Lemmas.TileGatherExt5
namespace CnvVerif.C03
open CnvVerif CnvVerif.C03Gather CnvVerif.Cov.Sched

/-- whatever the number of workers and the schedule, a finished `do_segmentation` returns the worker's segments of the
    whole table (flasso, HMM methods) or the concatenation, in arm order, of the worker's segments of each arm -/
theorem segments_are_the_arms_results_in_order (method : String) (worker : List Bin → List SegO) (table : List Bin)
    (nw : Nat) (evs : List Ev) (ys : List SegO)
    (h : doSegmentation method "ordered" worker table nw evs = some ys) :
    ys = if wholeTable method then worker table else (byArm table).flatMap worker :=
  doSegmentation_value method worker table nw evs ys h

/-- so two runs with different numbers of processes (and different schedules) report the same segments -/
theorem segments_do_not_depend_on_processes (method : String) (worker : List Bin → List SegO) (table : List Bin)
    (nw nw' : Nat) (evs evs' : List Ev) (ys ys' : List SegO)
    (h : doSegmentation method "ordered" worker table nw evs = some ys)
    (h' : doSegmentation method "ordered" worker table nw' evs' = some ys') : ys = ys' := by
  rw [doSegmentation_value method worker table nw evs ys h, doSegmentation_value method worker table nw' evs' ys' h']

/-- and with at least one worker every partial run can be completed (the `some` above is not vacuous) -/
theorem every_pool_finishes (method : String) (worker : List Bin → List SegO) (table : List Bin) (nw : Nat)
    (hnw : 0 < nw) (evs : List Ev) :
    ∃ more ys, doSegmentation method "ordered" worker table nw (evs ++ more) = some ys :=
  doSegmentation_completable method worker table nw hnw evs

/-- which methods are run per arm: exactly cbs, haar and none among the methods the command accepts -/
theorem per_arm_methods :
    ["cbs", "flasso", "haar", "none", "hmm", "hmm-tumor", "hmm-germline"].filter (fun m => !wholeTable m) =
      ["cbs", "haar", "none"] := by decide +kernel

/-! non-vacuity: two workers, out-of-order completion, same result as the serial run -/
example : schedMap "ordered" (fun n : Nat => n * 10) [1, 2, 3] 2
    [Ev.take 0 0, Ev.take 1 0, Ev.finish 1, Ev.take 1 0, Ev.finish 1, Ev.finish 0] = some [10, 20, 30] := by decide +kernel

end CnvVerif.C03
