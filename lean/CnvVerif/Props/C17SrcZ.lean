/-
  C17: tie to the source TEXT, cnvlib/bintest.py (z_prob).  The definitions `Generated.src_*` of Generated/ExprsStats.lean are re-translated
  from /repo's Python on every run (harness/exprtrans.py, `emit_values`); these theorems state that the hand-written
  model formulas of Model/Stats.lean are those expressions.  Kept in a module of their own so that an edit to a
  formula breaks exactly these obligations.
-/
import CnvVerif.Props.C17
import CnvVerif.Lemmas.SrcStatsZ
import Mathlib.Tactic.NormNum
import Mathlib.Tactic.Positivity
namespace CnvVerif.C17
open CnvVerif CnvVerif.Stats CnvVerif.Generated

/-- the raw bin probability IS the expression `z_prob` computes before the adjustment, for every normal cdf and
    every function that is a square root at `1 − weight`; `tail` is the two-sided tail as a function of `z²` -/
theorem z_prob_is_the_source (tail cdf sqrt : Rat → Rat) (resid w : Rat)
    (htail : ∀ z : Rat, tail (z * z) = 2 * cdf (-(if z < 0 then -z else z)))
    (hsq : sqrt (1 - w) * sqrt (1 - w) = 1 - w) (hw : w ≠ 1) :
    pRaw tail resid w = src_z_prob cdf sqrt resid w :=
  Src.pRaw_is_source tail cdf sqrt resid w htail hsq hw

/-! non-vacuity of the hypotheses of `z_prob_is_the_source`: weight 3/4 with `sqrt (1/4) = 1/2`, and a
    (non-constant, even) function in the role of the cdf together with the tail it induces on squares -/
example : ∃ (tail cdf sqrt : Rat → Rat) (w : Rat),
    (∀ z : Rat, tail (z * z) = 2 * cdf (-(if z < 0 then -z else z))) ∧
    (sqrt (1 - w) * sqrt (1 - w) = 1 - w) ∧ w ≠ 1 ∧ tail 0 ≠ tail 1 := by
  refine ⟨fun y => 1 / (1 + y), fun x => 1 / (2 * (1 + x * x)), fun _ => 1 / 2, 3 / 4, ?_, by norm_num, by norm_num,
    by norm_num⟩
  intro z
  have h : (1 : Rat) + z * z ≠ 0 := by nlinarith [mul_self_nonneg z]
  split_ifs <;> field_simp

end CnvVerif.C17
