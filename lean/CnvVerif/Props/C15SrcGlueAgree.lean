/-
  C15, round 5b: report and `guess_xx` agree, read off the two generated definitions alone (see Props/C15SrcGlue.lean).
-/
import CnvVerif.Generated.ExprsSexGlue
set_option linter.unusedSimpArgs false
namespace CnvVerif.C15x

/-- consequence, read off the generated text alone: whatever `compare_sex_chromosomes` does, the report says "Male"
    iff `guess_xx` (same arguments) returns False -/
theorem src_row_male_iff_src_guess_not_xx {σ κ : Type}
    (csc : Bool → Option String → Bool → Option Bool × Option σ) (get : σ → String → Option Rat)
    (ss : Option Rat → κ) (lit : String → κ) (hapX : Bool) (par : Option String) :
    (Generated.src_sex_row csc get ss lit hapX par).1 = "Male" ↔
      Generated.src_guess_xx csc hapX par = some false := by
  unfold Generated.src_sex_row Generated.src_guess_xx
  cases h : (csc hapX par false).1 with
  | none => simp [h]
  | some b => cases b <;> simp [h]

end CnvVerif.C15x
