/-
  C16: tie to the source TEXT of cnvlib/reports.py.  The definitions `Generated.src_gene_metrics_*`,
  `src_min_probes_*`, `src_get_breakpoints_*`, `src_group_by_genes_ignore`, `src_get_gene_intervals_ignore` are
  re-translated from /repo's Python on every run (harness/exprtrans.py, typed reading;
  harness/extractors/exprs_genemetrics.py); these theorems state that the selection rules of the hand-written model
  ARE those expressions.  Kept in a module of its own so that an edit to one of them breaks exactly these obligations.
-/
import CnvVerif.Props.C16
import CnvVerif.Lemmas.SrcGeneMetrics
namespace CnvVerif.C16
open CnvVerif CnvVerif.Genes CnvVerif.Generated

/-- **genes reaching the threshold**: without segments the reported rows are the gene rows on which the source's
    test `abs(row.log2) >= threshold and row.gene` holds (a NaN mean compares false) -/
theorem genemetrics_threshold_is_the_source (t : List Bin) (thr : Rat) (skip : Bool) :
    metricsByGene t thr skip =
      (groupByGenes t skip).filter (fun r => match r.log2 with
        | some v => src_gene_metrics_by_gene_keep v thr r.gene
        | none => false) :=
  metricsByGene_src t thr skip

/-- **segments reaching the threshold**: given segments, the genes of exactly the segments on which the source's
    test `abs(segment.log2) >= threshold` holds are reported -/
theorem by_segment_threshold_is_the_source (t : List Bin) (segs : List SegRow) (thr : Rat) (skip : Bool) :
    metricsBySegment t segs thr skip =
      ((segsInOrder segs).filter (fun sg => src_gene_metrics_by_segment_keep sg.log2 thr)).flatMap
        (segmentPart t skip false) :=
  metricsBySegment_src t segs thr skip

/-- the group labels that give no genemetrics row, and the names `breaks` does not count as genes, are the lists
    the source builds -/
theorem skipped_names_are_the_source (ignore : List String) :
    skipNames = src_group_by_genes_ignore ∧ fullIgnore ignore = src_get_gene_intervals_ignore ignore :=
  ⟨rfl, rfl⟩

/-- **at least the minimum number of bins**: the final filter of `do_genemetrics` is applied when the source's test
    `min_probes and len(table)` holds and keeps the rows with `n_probes >= min_probes` (the segment's probes when
    that column exists, else the gene's) -/
theorem min_probes_filter_is_the_source (rows : List GRow) (m : Nat) :
    minProbesFilter rows m =
      if src_min_probes_applies m rows.length then
        (if rows.any (fun r => r.segProbes.isSome) then
          rows.filter (fun r => match r.segProbes with
            | some p => src_min_probes_keep p (m : Int)
            | none => false)
        else rows.filter (fun r => src_min_probes_keep (r.probes : Int) (m : Int)))
      else rows :=
  minProbesFilter_src rows m

/-- **breaks, one boundary**: the rows for the boundary after `cur` are those the source's loop body appends for each
    gene interval of the chromosome (`gstarts[0] < curr_end < gend`, the two counts, both `>= min_probes`), and none
    when the next row is on another chromosome -/
theorem breaks_iteration_is_the_source (t : List Bin) (m : Nat) (cur nxt : SegRow) :
    breaksAt t m cur nxt =
      if src_get_breakpoints_skip nxt.chrom cur.chrom then []
      else (geneIntervals t cur.chrom).flatMap (fun g =>
        (src_get_breakpoints_gene g.starts cur.e g.stop m g.gene cur.chrom nxt.log2 cur.log2).map toBrk) :=
  breaksAt_src t m cur nxt

end CnvVerif.C16
