/-
  C16: tie to the source TEXT of cnvlib/reports.py.  The definitions `Generated.src_gene_metrics_*`,
  `src_min_probes_*`, `src_get_breakpoints_*`, `src_segment_mean` (cnvlib/segmetrics.py), `src_group_by_genes_ignore`, `src_get_gene_intervals_ignore` are
  re-translated from /repo's Python on every run (harness/exprtrans.py, typed reading;
  harness/extractors/exprs_genemetrics.py); these theorems state that the selection rules of the hand-written model
  ARE those expressions.  Kept in a module of its own so that an edit to one of them breaks exactly these obligations.
-/
import CnvVerif.Props.C16
import CnvVerif.Lemmas.SrcGeneMetrics
namespace CnvVerif.C16
open CnvVerif CnvVerif.Genes CnvVerif.Generated

/-- **genes reaching the threshold**: without segments the reported rows are the gene rows on which the source's
    test `abs(row.log2) >= threshold and row.gene` holds (a NaN mean compares false) -/
theorem genemetrics_threshold_is_the_source (t : List Bin) (thr : Rat) (skip : Bool) :
    metricsByGene t thr skip =
      (groupByGenes t skip).filter (fun r => match r.log2 with
        | some v => src_gene_metrics_by_gene_keep thr r.gene v
        | none => false) :=
  metricsByGene_src t thr skip

/-- **segments reaching the threshold**: given segments, the genes of exactly the segments on which the source's
    test `abs(segment.log2) >= threshold` holds are reported -/
theorem by_segment_threshold_is_the_source (t : List Bin) (segs : List SegRow) (thr : Rat) (skip : Bool) :
    metricsBySegment t segs thr skip =
      ((segsInOrder segs).filter (fun sg => src_gene_metrics_by_segment_keep thr sg.log2)).flatMap
        (segmentPart t skip false) :=
  metricsBySegment_src t segs thr skip

/-- the group labels that give no genemetrics row, and the names `breaks` does not count as genes, are the lists
    the source builds -/
theorem skipped_names_are_the_source (ignore : List String) :
    skipNames = src_group_by_genes_ignore ∧ fullIgnore ignore = src_get_gene_intervals_ignore ignore :=
  ⟨rfl, rfl⟩

/-- **at least the minimum number of bins**: the final filter of `do_genemetrics` is applied when the source's test
    `min_probes and len(table)` holds and keeps the rows with `n_probes >= min_probes` (the segment's probes when
    that column exists, else the gene's) -/
theorem min_probes_filter_is_the_source (rows : List GRow) (m : Nat) :
    minProbesFilter rows m =
      if src_min_probes_applies m rows.length then
        (if rows.any (fun r => r.segProbes.isSome) then
          rows.filter (fun r => match r.segProbes with
            | some p => src_min_probes_keep (m : Int) p
            | none => false)
        else rows.filter (fun r => src_min_probes_keep (m : Int) (r.probes : Int)))
      else rows :=
  minProbesFilter_src rows m

/-- **breaks, one boundary**: the rows for the boundary after `cur` are those the source's loop body appends for each
    gene interval of the chromosome (`gstarts[0] < curr_end < gend`, the two counts, both `>= min_probes`), and none
    when the next row is on another chromosome -/
theorem breaks_iteration_is_the_source (t : List Bin) (m : Nat) (cur nxt : SegRow) :
    breaksAt t m cur nxt =
      if src_get_breakpoints_skip nxt.chrom cur.chrom then []
      else (geneIntervals t cur.chrom).flatMap (fun g =>
        (src_get_breakpoints_gene m g.gene g.starts g.stop cur.chrom cur.e nxt.log2 cur.log2).map toBrk) :=
  breaksAt_src t m cur nxt

/-- **the weighted mean log2** is what `segment_mean` computes from the columns of the rows it keeps (`keptRows`: all
    rows, or with `skip_low` those `drop_low_coverage` keeps): NaN for no rows, `np.average(log2, weights=weight)` when
    some weight is not 0, else the plain mean -/
theorem segment_mean_is_the_source (rows : List Bin) (skip : Bool) :
    segmentMean rows skip =
      src_segment_mean (keptRows rows skip).length ((keptRows rows skip).map (·.log2))
        ((keptRows rows skip).map (·.weight)) :=
  segmentMean_src rows skip

/-- **the row of a gene group** -- the gene's true start, end, bin count, summed weight and weight-averaged depth -- is the
    row the loop body of `group_by_genes` yields for the group: first row's chromosome and start, `rows.end.iat[-1]`,
    the group's label, `segment_mean(rows, skip_low)`, `np.average(depth, weights=weight)`, `weight.sum()`, `len(rows)`
    (`rowTuple r d` = those fields of `r` in table order; weights not summing to zero -- else `np.average` raises) -/
theorem group_row_is_the_source (g : String) (rows : List Bin) (skip : Bool) (r : GRow)
    (h : groupRow g rows skip = some r) (hs : skipNames.contains g = false) (hw : r.weight ≠ 0) :
    ∃ d, r.depth = some d ∧
      src_group_by_genes_row g rows.length (rows.map (·.chrom)) (rows.map (·.s)) (rows.map (·.e))
        (rows.map (·.depth)) (rows.map (·.weight)) (segmentMean rows skip) = [rowTuple r d] :=
  groupRow_src g rows skip r h hs hw

/-- … and a group labelled "", Antitarget or Background gives no row, whatever it holds -/
theorem group_row_skipped_is_the_source (g : String) (n : Nat) (m : Option Rat) (e : List Int) (w d : List Rat)
    (c : List String) (s : List Int) (hs : skipNames.contains g = true) :
    src_group_by_genes_row g n c s e d w m = [] :=
  groupRow_src_skipped g n m e w d c s hs

/-- non-vacuity: gene A of the demo table (two bins of weight 1) meets the hypotheses of `group_row_is_the_source` -/
example : ∃ r, groupRow "A" (demo.take 2) false = some r ∧ skipNames.contains "A" = false ∧ r.weight ≠ 0 :=
  ⟨_, rfl, by decide, by decide +kernel⟩

end CnvVerif.C16
