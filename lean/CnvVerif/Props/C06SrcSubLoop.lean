/-
  C06: tie to the source TEXT (subtract: the BODY of the keeper loop of `_subtraction` -- which of the four `np.r_`
  assemblies of `starts` / `ends` is taken when, and what is yielded).
  `Generated.src_subloop_*` (Generated/ExprsSubLoop.lean) is re-read from /repo's Python on every run by harness/subloop.py.
  These theorems state that the model's `subtractRow` / `subtractTable` EQUAL that reading, for every keeper and every
  list of excluded rows.
-/
import CnvVerif.Props.C06
import CnvVerif.Lemmas.SrcIntervalSubLoop
namespace CnvVerif.C06
open CnvVerif CnvVerif.Generated

/-- one keeper: the (start, end) pairs of the model's `subtractRow` ARE the pairs the source loop body yields from the
    keeper's (start, end) and the start / end columns of its excluded rows -- the keeper itself when nothing is excluded;
    else `zip(starts, ends)` filtered by `end > start`, with `starts` / `ends` assembled by the case
    (keep_left, keep_right, more than one excluded row) exactly as the source's `np.r_` expressions do; nothing when one
    excluded row covers the keeper -/
theorem subtract_row_loop_is_the_source (k : Row) (ex : List Row) :
    (subtractRow k ex).map (fun x => (x.s, x.e)) = src_subloop_body k.s k.e (ex.map (·.s)) (ex.map (·.e)) :=
  Src.subtractRow_is_source_loop k ex

/-- … and every yielded row is the keeper with only `start` / `end` replaced -/
theorem subtract_row_loop_replaces_only_start_end (k : Row) (ex : List Row) :
    ∀ x ∈ subtractRow k ex, { x with s := k.s, e := k.e } = k :=
  Src.subtractRow_fields k ex

/-- the whole generator: the loop runs over `by_ranges(other, table, "outer", True)` (`other` merged by `subtract`),
    carries nothing from one keeper to the next, and the table-level model yields exactly what the source loop yields -/
theorem subtract_table_loop_is_the_source (t other : Table) (hne : other.isEmpty = false) :
    src_subloop_over_by_ranges_outer = true ∧
    (subtractTable t other).map (fun x => (x.s, x.e)) =
      (byRangesDf (mergeTable 0 other) t .outer true).flatMap
        (fun p => src_subloop_body p.1.s p.1.e (p.2.map (·.s)) (p.2.map (·.e))) := by
  refine ⟨by simp [src_subloop_over_by_ranges_outer], ?_⟩
  have key : ∀ l : List (Row × List Row),
      (l.flatMap (fun p => subtractRow p.1 p.2)).map (fun x => (x.s, x.e)) =
        l.flatMap (fun p => src_subloop_body p.1.s p.1.e (p.2.map (·.s)) (p.2.map (·.e))) := by
    intro l
    induction l with
    | nil => simp
    | cons a l ih =>
      simp only [List.flatMap_cons, List.map_append]
      rw [Src.subtractRow_is_source_loop, ih]
  unfold subtractTable
  simp only [hne, Bool.false_eq_true, if_false]
  exact key _

/-! non-vacuity: the generated body on concrete keepers -- both edges kept, left only, right only, both edges cut with two
    excluded rows, covered, nothing excluded, an abutting pair discarded by `end > start` -/
example : src_subloop_body 0 100 [10, 40] [20, 50] = [(0, 10), (20, 40), (50, 100)] := by decide
example : src_subloop_body 0 100 [10, 90] [20, 120] = [(0, 10), (20, 90)] := by decide
example : src_subloop_body 0 100 [-5, 40] [20, 50] = [(20, 40), (50, 100)] := by decide
example : src_subloop_body 0 100 [-5, 90] [20, 120] = [(20, 90)] := by decide
example : src_subloop_body 0 100 [-5] [120] = [] ∧ src_subloop_body 0 100 [] [] = [(0, 100)] := by decide
example : src_subloop_body 0 100 [0, 20] [20, 50] = [(50, 100)] := by decide

end CnvVerif.C06
