/-
  C07: tie to the source TEXT of skgenome/intersect.py -- the mask path.  `Generated.src_*` (Generated/ExprsRanges.lean) is
  re-translated from /repo's Python on every run (harness/exprtrans.py, second reading: one table, one query); the
  theorem states that the hand-written model IS that term, for all tables and queries.  A module of its own, so that an
  edit to this code path breaks exactly this obligation.
-/
import CnvVerif.Props.C07
import CnvVerif.Lemmas.SrcRangesNested
namespace CnvVerif.C07
open CnvVerif

/-- mask path: the model's selection is the table filtered by the mask whose entry for the row at position `i` is
    the expression `_irange_nested` computes (`if start_val:` truthiness, `searchsorted` side, the comparisons
    `end > start_val`, `end <= end_val`, the zeroed prefix / suffix) -/
theorem nested_mask_is_the_source (t : Table) (h : WFTable t) (qs qe : Option Int) (inner : Bool) :
    irangeNested t qs qe inner = applyMask t (Src.srcNestedMask t inner qs qe) :=
  Src.irangeNested_mask_is_source t h qs qe inner

end CnvVerif.C07
