/-
  C10 (round 5) — the writer clause AT THE CALL SITES of the command layer.

  Generated.WRITER_TABLE (harness/extractors/effects_writers.py) lists, for every function of cnvlib/commands.py,
  batch.py and cmdutil.py that writes an output, its file actions in source order.  Here:

  * `writer_guarded_list_keeps_every_file` — for ALL action lists, path values, directory trees: a list that passes
    the check `pairsGuarded` (every write directly behind `ensure_path` of the same expression) never fails for a
    missing directory, adds one file per write and loses no content; `writer_guarded_command_repeated` — k runs of
    such a function leave k · (writes) more files and every earlier content;
  * `writer_unguarded_site_overwrites` — the contrast: a write without the guard replaces the file;
  * the obligations on the source as it is now: the writers that promise not to overwrite (`PROMISED`: `coverage`,
    `reference`, the reference of `batch`) pass the check (`writer_promises_kept`), `coverage` and `reference` are
    nothing but one guarded write (`writer_coverage_reference_k_runs`);
  * the bare file name: `ensure_path("out.cnn")` (no directory part, the directory block is skipped) still moves an
    existing file to its numbered backup (`writer_bare_name_still_renamed`), and what happens to the files does not
    depend on how the path is spelled (`writer_spelling_independent`).
-/
import CnvVerif.Model.WritersExt5
import CnvVerif.Lemmas.PathProg
import CnvVerif.Generated.EffectsWriters
import CnvVerif.Generated.EffectsPath
import CnvVerif.Props.C10Src
namespace CnvVerif.C10
open CnvVerif CnvVerif.Effects CnvVerif.C10W

theorem writer_runActs_pair (env : String → PathArg) (tok hlp e : String) (rest : List WAct) (fs : FSD) :
    runActs env tok (.ensure e :: .write hlp e :: rest) fs =
      (match guardedWriteD fs (env e) tok with
       | .ok fs' => runActs env tok rest fs'
       | .error m => .error m) := rfl

/-- a function whose file actions are `ensure_path(e); write(…, e)` pairs, run on ANY directory tree with ANY values
    of its path expressions: it does not fail for a missing directory, leaves one more file per write, every content
    that was there is still there (as a multiset: the old contents plus one copy of the output per write), file names
    stay unique and no directory disappears -/
theorem writer_guarded_list_keeps_every_file (env : String → PathArg) (tok : String) :
    ∀ (acts : List WAct) (fs : FSD), pairsGuarded acts = true → WF fs.files →
      (∀ e, (env e).slash = false → isDir fs (env e).dir = true) →
      ∃ fs', runActs env tok acts fs = .ok fs' ∧ WF fs'.files ∧
        fs'.files.length = fs.files.length + nWrites acts ∧
        (contents fs'.files).Perm (List.replicate (nWrites acts) tok ++ contents fs.files) ∧
        (∀ a, isDir fs a = true → isDir fs' a = true)
  | [], fs, _, hw, _ => ⟨fs, rfl, hw, by simp [nWrites], by simp [nWrites], fun _ h => h⟩
  | [_], _, h, _, _ => by simp [pairsGuarded] at h
  | a :: b :: rest, fs, h, hw, hcwd => by
    simp only [pairsGuarded, Bool.and_eq_true] at h
    obtain ⟨hab, hrest⟩ := h
    cases a with
    | write _ _ => simp at hab
    | ensure e =>
      cases b with
      | ensure _ => simp at hab
      | write hlp e' =>
        have he : e = e' := by simpa using hab
        subst he
        obtain ⟨fs1, h1, hf1, _, hk1, _⟩ := guardedWriteD_ok fs (env e) tok (hcwd e)
        obtain ⟨hw1, hl1, hp1⟩ := guardedWrite_step hw (env e).name tok
        rw [← hf1] at hw1 hl1 hp1
        obtain ⟨fs2, h2, hw2, hl2, hp2, hk2⟩ :=
          writer_guarded_list_keeps_every_file env tok rest fs1 hrest hw1 (fun x hx => hk1 _ (hcwd x hx))
        have hn : nWrites (.ensure e :: .write hlp e :: rest) = nWrites rest + 1 := by
          simp [nWrites, List.filter, WAct.isWrite]
        refine ⟨fs2, ?_, hw2, ?_, ?_, fun a ha => hk2 a (hk1 a ha)⟩
        · rw [writer_runActs_pair, h1]; exact h2
        · rw [hn, hl2, hl1]; omega
        · rw [hn, List.replicate_succ]
          refine hp2.trans ?_
          refine (List.Perm.append_left _ hp1).trans ?_
          exact List.perm_middle

/-- k runs of such a function on the same arguments (run j writes the output `ts[j]`): k · (number of writes) more
    files, every content that was there before the first run is still there after the last -/
theorem writer_guarded_command_repeated (env : String → PathArg) (acts : List WAct) (h : pairsGuarded acts = true) :
    ∀ (ts : List String) (fs : FSD), WF fs.files → (∀ e, (env e).slash = false → isDir fs (env e).dir = true) →
      ∃ fs', runRepeated env acts ts fs = .ok fs' ∧ WF fs'.files ∧
        fs'.files.length = fs.files.length + ts.length * nWrites acts ∧
        (∀ c, c ∈ contents fs.files → c ∈ contents fs'.files) ∧
        (nWrites acts ≠ 0 → ∀ t, t ∈ ts → t ∈ contents fs'.files) ∧
        (∀ a, isDir fs a = true → isDir fs' a = true)
  | [], fs, hw, _ => by
    refine ⟨fs, rfl, hw, by simp, fun _ h => h, ?_, fun _ h => h⟩
    intro _ t ht; simp at ht
  | t :: ts, fs, hw, hcwd => by
    obtain ⟨fs1, h1, hw1, hl1, hp1, hk1⟩ := writer_guarded_list_keeps_every_file env t acts fs h hw hcwd
    obtain ⟨fs2, h2, hw2, hl2, hc2, ht2, hk2⟩ :=
      writer_guarded_command_repeated env acts h ts fs1 hw1 (fun x hx => hk1 _ (hcwd x hx))
    refine ⟨fs2, ?_, hw2, ?_, ?_, ?_, fun a ha => hk2 a (hk1 a ha)⟩
    · simp [runRepeated, h1, h2]
    · rw [hl2, hl1, List.length_cons, Nat.succ_mul]; omega
    · intro c hc
      exact hc2 c (hp1.symm.subset (List.mem_append_right _ hc))
    · intro hn x hx
      rcases List.mem_cons.mp hx with rfl | hx
      · apply hc2
        apply hp1.symm.subset
        apply List.mem_append_left
        cases hk : nWrites acts with
        | zero => exact absurd hk hn
        | succ n => simp [List.replicate_succ]
      · exact ht2 hn x hx

/-- contrast: the same write WITHOUT the guard (what every other command does through `tabio.safe_write`) onto an
    existing file: the number of files stays, the path holds the new output — the old content is gone -/
theorem writer_unguarded_site_overwrites (env : String → PathArg) (tok hlp e : String) (fs : FSD) (hw : WF fs.files)
    (hf : isFile fs.files (env e).name = true) (hd : isDir fs (env e).dir = true) :
    ∃ fs', runActs env tok [.write hlp e] fs = .ok fs' ∧ fs'.files.length = fs.files.length ∧
      readFile fs'.files (env e).name = some tok := by
  refine ⟨{ fs with files := writeFile fs.files (env e).name tok }, ?_, ?_, ?_⟩
  · simp [runActs, writeFileD, hd]
  · exact plainWrites_length hw hf [tok]
  · simp [writeFile, readFile_cons_eq]

/-- a list that passes `promisedOK` splits at its first guard: before it nothing writes to the guarded expression,
    from it on the list is guarded pairs (so `writer_guarded_list_keeps_every_file` applies to that part) -/
theorem writer_promisedOK_split (acts : List WAct) (h : promisedOK acts = true) :
    acts = beforeFirstEnsure acts ++ fromFirstEnsure acts ∧ pairsGuarded (fromFirstEnsure acts) = true ∧
    ∃ e, firstEnsure acts = some e ∧ ∀ a ∈ beforeFirstEnsure acts, a.writesTo e = false := by
  have hsplit : ∀ l : List WAct, l = beforeFirstEnsure l ++ fromFirstEnsure l := by
    intro l
    induction l with
    | nil => rfl
    | cons a t ih => cases a with
      | ensure e => simp [beforeFirstEnsure, fromFirstEnsure]
      | write hh e => simp only [beforeFirstEnsure, fromFirstEnsure, List.cons_append]; rw [← ih]
  refine ⟨hsplit acts, ?_, ?_⟩
  · unfold promisedOK at h
    split at h
    · cases h
    · simp only [Bool.and_eq_true] at h; exact h.2
  · unfold promisedOK at h
    split at h
    · cases h
    · rename_i e he
      simp only [Bool.and_eq_true, List.all_eq_true] at h
      exact ⟨e, he, fun a ha => by simpa using h.1 a ha⟩

/-- from its guard on, a writer that passes `promisedOK` loses nothing, on any tree and for any path values -/
theorem writer_promised_keeps_every_file (acts : List WAct) (h : promisedOK acts = true) (env : String → PathArg)
    (tok : String) (fs : FSD) (hw : WF fs.files) (hcwd : ∀ e, (env e).slash = false → isDir fs (env e).dir = true) :
    ∃ fs', runActs env tok (fromFirstEnsure acts) fs = .ok fs' ∧
      fs'.files.length = fs.files.length + nWrites (fromFirstEnsure acts) ∧
      (∀ c, c ∈ contents fs.files → c ∈ contents fs'.files) := by
  obtain ⟨fs', h1, _, hl, hp, _⟩ :=
    writer_guarded_list_keeps_every_file env tok _ fs (writer_promisedOK_split acts h).2.1 hw hcwd
  exact ⟨fs', h1, hl, fun c hc => hp.symm.subset (List.mem_append_right _ hc)⟩

/-! ### obligations on the source as it is now (Generated.WRITER_TABLE) -/

/-- the writers that promise not to overwrite — `coverage`, `reference`, the reference built by `batch` — each have
    a row in the table read from the source, and the row passes `promisedOK` -/
theorem writer_promises_kept : promisesKept Generated.WRITER_TABLE = true := by decide

/-- `tabio.safe_write` is what the model says an unguarded write is: it opens with mode "w" and has no guard of its own -/
theorem writer_safe_write_is_plain : Generated.SAFE_WRITE_GUARDS = false ∧ Generated.SAFE_WRITE_TRUNCATES = true := by
  decide

/-- `cnvkit.py coverage` and `cnvkit.py reference`, as their source reads now: the whole function is ONE guarded
    write, hence k runs into one output path — whatever the tree, whatever the spelling of the path — leave k more
    files and keep every earlier content -/
theorem writer_coverage_reference_k_runs (fn : String)
    (hfn : fn = "cnvlib.commands._cmd_coverage" ∨ fn = "cnvlib.commands._cmd_reference") :
    ∃ r, findRow Generated.WRITER_TABLE fn = some r ∧ nWrites r.acts = 1 ∧
      ∀ (env : String → PathArg) (ts : List String) (fs : FSD), WF fs.files →
        (∀ e, (env e).slash = false → isDir fs (env e).dir = true) →
        ∃ fs', runRepeated env r.acts ts fs = .ok fs' ∧ fs'.files.length = fs.files.length + ts.length ∧
          (∀ c, c ∈ contents fs.files → c ∈ contents fs'.files) ∧ (∀ t, t ∈ ts → t ∈ contents fs'.files) := by
  have key : ∀ r : WRow, pairsGuarded r.acts = true → nWrites r.acts = 1 →
      ∀ (env : String → PathArg) (ts : List String) (fs : FSD), WF fs.files →
        (∀ e, (env e).slash = false → isDir fs (env e).dir = true) →
        ∃ fs', runRepeated env r.acts ts fs = .ok fs' ∧ fs'.files.length = fs.files.length + ts.length ∧
          (∀ c, c ∈ contents fs.files → c ∈ contents fs'.files) ∧ (∀ t, t ∈ ts → t ∈ contents fs'.files) := by
    intro r hg hn env ts fs hw hcwd
    obtain ⟨fs', h1, _, hl, hc, ht, _⟩ := writer_guarded_command_repeated env r.acts hg ts fs hw hcwd
    exact ⟨fs', h1, by rw [hl, hn]; omega, hc, ht (by rw [hn]; decide)⟩
  rcases hfn with rfl | rfl
  · have hr : ∃ r, findRow Generated.WRITER_TABLE "cnvlib.commands._cmd_coverage" = some r ∧
        pairsGuarded r.acts = true ∧ nWrites r.acts = 1 := by decide
    obtain ⟨r, h1, h2, h3⟩ := hr
    exact ⟨r, h1, h3, key r h2 h3⟩
  · have hr : ∃ r, findRow Generated.WRITER_TABLE "cnvlib.commands._cmd_reference" = some r ∧
        pairsGuarded r.acts = true ∧ nWrites r.acts = 1 := by decide
    obtain ⟨r, h1, h2, h3⟩ := hr
    exact ⟨r, h1, h3, key r h2 h3⟩

/-! ### the bare file name and the spelling of the path -/

/-- a path WITHOUT a directory part (`"/" not in normpath(fname)`: the directory block of `ensure_path` is skipped):
    no directory is made, and an existing file is still moved to the least free numbered suffix, content intact -/
theorem writer_bare_name_still_renamed (fs : FSD) (p : PathArg) (hs : p.slash = false)
    (hf : isFile fs.files p.name = true) :
    (ensurePathD fs p).dirs = fs.dirs ∧ isFile (ensurePathD fs p).files p.name = false ∧
    ∃ c, readFile fs.files p.name = some c ∧
      readFile (ensurePathD fs p).files (bakName p.name (firstFree fs.files p.name fs.files.length 1)) = some c := by
  obtain ⟨c, hc⟩ := readFile_some_of_isFile hf
  have hd : ensureDir fs p = fs := by simp [ensureDir, hs]
  have hfiles : (ensurePathD fs p).files =
      (bakName p.name (firstFree fs.files p.name fs.files.length 1), c) ::
        removeFile (removeFile fs.files p.name) (bakName p.name (firstFree fs.files p.name fs.files.length 1)) := by
    simp [ensurePathD, hd, ensurePath, hf, renameFile, hc]
  refine ⟨by simp [ensurePathD, hd], ?_, c, hc, ?_⟩
  · rw [hfiles]
    generalize firstFree fs.files p.name fs.files.length 1 = k
    have hne : bakName p.name k ≠ p.name := bakName_ne p.name k
    rw [isFile_cons]
    have h1 : isFile (removeFile (removeFile fs.files p.name) (bakName p.name k)) p.name = false := by
      rw [isFile_removeFile_of_ne (Ne.symm hne)]; exact isFile_removeFile_self _ _
    simp [h1, hne]
  · rw [hfiles]; exact readFile_cons_eq _ _ _

/-- … and the same holds for the statements of the source (`ensure_path_is_the_source`) -/
theorem writer_bare_name_source (fs : FSD) (hw : WF fs.files) (p : PathArg) (hs : p.slash = false)
    (hf : isFile fs.files p.name = true) :
    isFile (runEnsurePath Generated.ENSURE_PATH_PROG fs p).files p.name = false ∧
    (runEnsurePath Generated.ENSURE_PATH_PROG fs p).files.length = fs.files.length := by
  rw [ensure_path_is_the_source]
  refine ⟨(writer_bare_name_still_renamed fs p hs hf).2.1, ?_⟩
  obtain ⟨c, hc⟩ := readFile_some_of_isFile hf
  have hd : ensureDir fs p = fs := by simp [ensureDir, hs]
  have hfree := firstFree_free hf
  generalize hk : firstFree fs.files p.name fs.files.length 1 = k at hfree
  have hne : bakName p.name k ≠ p.name := bakName_ne p.name k
  have h1 : isFile (removeFile fs.files p.name) (bakName p.name k) = false := by
    rw [isFile_removeFile_of_ne hne]; exact hfree
  have : (ensurePathD fs p).files = (bakName p.name k, c) :: removeFile fs.files p.name := by
    simp [ensurePathD, hd, ensurePath, hf, renameFile, hc, hk, removeFile_of_free h1]
  rw [this]
  have hperm := (perm_of_readFile hw hc).length_eq
  simp at hperm ⊢; omega

/-- what `ensure_path` does to the files depends on the file the path names, not on how the path is spelled
    (absolute, `dir/name`, `./name`, bare `name`: same `name` in the model, other `slash` / `dir`) -/
theorem writer_spelling_independent (fs : FSD) (p q : PathArg) (h : p.name = q.name) :
    (ensurePathD fs p).files = (ensurePathD fs q).files := by
  simp [ensurePathD, ensureDir_files, h]

/-! ### non-vacuity -/

example : pairsGuarded [.ensure "args.output", .write "tabio.write" "args.output"] = true := by decide
example : pairsGuarded [.write "tabio.write" "args.output", .ensure "args.output"] = false := by decide
example : pairsGuarded [.ensure "args.output", .write "tabio.write" "ref_fname"] = false := by decide
example : promisedOK [.write "tabio.write" "target_bed", .ensure "o", .write "tabio.write" "o"] = true := by decide
example : promisedOK [.write "tabio.write" "o", .ensure "o", .write "tabio.write" "o"] = false := by decide
/-- `coverage` twice into the bare name `out.cnn` of a directory that already holds it -/
example : ((runRepeated (fun _ => ⟨"out.cnn", false, []⟩) [.ensure "args.output", .write "tabio.write" "args.output"]
      ["A", "B"] ⟨[[]], [("out.cnn", "old")]⟩).toOption.map (·.files)) =
    some [("out.cnn", "B"), ("out.cnn.2", "A"), ("out.cnn.1", "old")] := by decide +kernel
/-- `target` twice: one file -/
example : ((runRepeated (fun _ => ⟨"out.bed", false, []⟩) [.write "tabio.write" "args.output"]
      ["A", "B"] ⟨[[]], []⟩).toOption.map (·.files)) = some [("out.bed", "B")] := by decide +kernel

end CnvVerif.C10
