/-
  C19 — robust estimators and smoothers obey their defining invariants.
  Property theorems only; helper lemmas live in Lemmas/Descriptives.lean (order statistics, unweighted
  scale estimators), Lemmas/DescWeighted.lean (weighted median / MAD / standard deviation),
  Lemmas/DescBiweight.lean (biweight location and midvariance) and Lemmas/Smoothing.lean.

  Vocabulary.  `ValidOrder o p`: `o` is a permutation of the row indices of `p` that sorts the values — all that is
  known of `ndarray.argsort`.  A weighted sample is a list of pairs (value, weight); `shiftP c` / `scaleP k` add a constant
  to / rescale the values; `wBelow m p`, `wAbove m p` are the total weights of the values `< m`, `> m`;
  `totalW p` the total weight.  `order` is the permutation `argsort` returned (numpy's default sort is not
  stable, so the theorems hold for *every* permutation that sorts the values).  Estimators ending in a square
  root are stated on the radicand.  `none` = NaN.
-/
import CnvVerif.Lemmas.Descriptives
import CnvVerif.Lemmas.DescWeighted
import CnvVerif.Lemmas.DescWeighted2
import CnvVerif.Lemmas.DescBiweight
import CnvVerif.Lemmas.Smoothing
namespace CnvVerif.C19
open CnvVerif CnvVerif.Desc CnvVerif.Smooth CnvVerif.Generated

/-! ## the constants of the source are the published ones -/

theorem constants_as_published :
    MAD_SCALE_dec = 7413 / 5000 ∧ MAD_SCALE_WEIGHTED_dec = 7413 / 5000 ∧ MAD_SCALE_BIVAR_dec = 7413 / 5000 ∧
    BILOC_C_dec = 6 ∧ BILOC_EPS_dec = 1 / 1000 ∧ BILOC_MAX_ITER = 5 ∧ BIVAR_C_dec = 9 ∧ BIVAR_EPS_dec = 1 / 1000 ∧
    IQR_Q_HI = 75 ∧ IQR_Q_LO = 25 ∧ QN_Q = 25 ∧ QN_N_SMALL = 10 ∧ QN_N_MID_LO = 10 ∧ QN_N_LARGE = 400 ∧
    QN_SCALE_SMALL_dec = 174 / 125 ∧ QN_SCALE_MID_BASE_dec = 1 ∧ QN_NUM = 4 ∧ QN_SCALE_LARGE_dec = 1 ∧
    MIN_WING = 3 ∧ SAVGOL_WINDOW_WIDTH = 7 ∧ SAVGOL_ORDER = 3 := by decide +kernel

/-- the doubles Python multiplies with are the decimals written in the source, to 1e-15 -/
theorem constants_doubles_close :
    |MAD_SCALE - MAD_SCALE_dec| < 1 / 10 ^ 15 ∧ |MAD_SCALE_WEIGHTED - MAD_SCALE_WEIGHTED_dec| < 1 / 10 ^ 15 ∧
    |MAD_SCALE_BIVAR - MAD_SCALE_BIVAR_dec| < 1 / 10 ^ 15 ∧ |BILOC_EPS - BILOC_EPS_dec| < 1 / 10 ^ 15 ∧
    |BIVAR_EPS - BIVAR_EPS_dec| < 1 / 10 ^ 15 ∧ |QN_SCALE_SMALL - QN_SCALE_SMALL_dec| < 1 / 10 ^ 15 := by
  unfold MAD_SCALE MAD_SCALE_dec MAD_SCALE_WEIGHTED MAD_SCALE_WEIGHTED_dec MAD_SCALE_BIVAR MAD_SCALE_BIVAR_dec
    BILOC_EPS BILOC_EPS_dec BIVAR_EPS BIVAR_EPS_dec QN_SCALE_SMALL QN_SCALE_SMALL_dec
  refine ⟨?_, ?_, ?_, ?_, ?_, ?_⟩ <;> rw [abs_lt] <;> constructor <;> norm_num

/-! ## location estimators -/

/-- biweight location lies within the data range -/
theorem biweight_location_in_range (a : List Rat) (ha : a ≠ []) (lo hi : Rat) (h : ∀ x ∈ a, lo ≤ x ∧ x ≤ hi) :
    lo ≤ biweightLocationCore false a none ∧ biweightLocationCore false a none ≤ hi :=
  biweightLocationCore_in_range a ha lo hi h

/-- … and moves with the data when a constant is added -/
theorem biweight_location_translation (a : List Rat) (ha : a ≠ []) (t : Rat) :
    biweightLocationCore false (a.map (· + t)) none = biweightLocationCore false a none + t :=
  biweightLocationCore_shift a ha t

/-- every step of the iteration is the published one-step biweight location
    `M + Σ_{|u|<1}(x−M)(1−u²)² / Σ_{|u|<1}(1−u²)²`, `u = (x−M)/max(c·MAD, ε)` -/
theorem biweight_step_published (a : List Rat) (M : Rat) :
    bilocIter BILOC_C BILOC_EPS a M = publishedBiweightStep BILOC_C BILOC_EPS a M :=
  bilocIter_published BILOC_C BILOC_EPS a M

/-- the points inside the cut-off always carry positive total weight: the formula is always applied -/
theorem biweight_weights_positive (a : List Rat) (M : Rat) (ha : a ≠ []) :
    0 < (((a.map (· - M)).filter (fun x => decide (absR (x / max (BILOC_C * median ((a.map (· - M)).map absR)) BILOC_EPS) < 1))).map
      (biw (max (BILOC_C * median ((a.map (· - M)).map absR)) BILOC_EPS))).sum :=
  weightsum_pos BILOC_C BILOC_EPS a M ha (by unfold BILOC_C; norm_num) (by unfold BILOC_EPS; norm_num)

/-- before the repair (defect O) a step was not the published one: the point at 8 lies 4/3 cut-offs from 0 and kept
    weight 49/81, the three exact zeros were dropped -/
theorem biweight_prefix_counterexample :
    bilocIterPrefix 6 (1 / 1000) [0, 0, 0, 1, 1, -2, 8] 0 = 3337 / 2129 ∧
    publishedBiweightStep 6 (1 / 1000) [0, 0, 0, 1, 1, -2, 8] 0 = 67 / 1227 := by
  have cx_data : List.map absR (List.map (fun x => x - 0) [0, 0, 0, 1, 1, -2, 8]) = [0, 0, 0, 1, 1, 2, 8] := by decide +kernel
  have cx_med : median [0, 0, 0, 1, 1, 2, 8] = (1 : Rat) := by
    rw [median_def, sortR_of_sorted (by decide +kernel)]; decide +kernel
  constructor
  · unfold bilocIterPrefix; simp only [cx_data, cx_med]; decide +kernel
  · rw [← bilocIter_published]; unfold bilocIter; simp only [cx_data, cx_med]; decide +kernel

/-- the mode is one of the data values, for any density estimate -/
theorem mode_is_data_value (sarr dens : List Rat) (hne : dens ≠ []) (hlen : dens.length = sarr.length) :
    modalCore sarr dens ∈ sarr := modalCore_mem sarr dens hne hlen

/-- … and moves with the data when the density estimate does -/
theorem mode_translation (sarr dens : List Rat) (c : Rat) (hne : dens ≠ []) (hlen : dens.length = sarr.length) :
    modalCore (sarr.map (· + c)) dens = modalCore sarr dens + c := modalCore_shift sarr dens c hne hlen

/-- **half weights**: weight(values < m) ≤ half and weight(values > m) ≤ half of the total weight, up to the
    rounding allowance `midpoint·n·ε` the code grants its cumulative sum -/
theorem wmedian_half_weights (order : List Nat) (p : List (Rat × Rat))
    (hperm : order.Perm (List.range p.length)) (hsorted : SortedByValue (permute order p))
    (hw : ∀ q ∈ p, 0 ≤ q.2) (hpos : 0 < totalW p) :
    wBelow (weightedMedianCore false order p) p ≤ totalW p / 2 + wmedTol p ∧
    wAbove (weightedMedianCore false order p) p ≤ totalW p / 2 + wmedTol p :=
  weightedMedianCore_half_weights order p hperm hsorted hw hpos

/-- with an exact comparison (allowance 0) the bound is exactly half -/
theorem wmedian_half_weights_exact (p : List (Rat × Rat)) (hs : SortedByValue p)
    (hw : ∀ q ∈ p, 0 ≤ q.2) (hpos : 0 < totalW p) :
    wBelow (wmedSorted 0 p) p ≤ totalW p / 2 ∧ wAbove (wmedSorted 0 p) p ≤ totalW p / 2 := by
  simpa using wmedSorted_half_weights 0 p hs hw hpos (le_refl 0)

/-- equal positive weights: the ordinary median -/
theorem wmedian_eq_median_equal_weights (order : List Nat) (p : List (Rat × Rat)) (c : Rat)
    (hperm : order.Perm (List.range p.length)) (hsorted : SortedByValue (permute order p))
    (hn : 2 ≤ p.length) (hn' : p.length < 2 ^ 26) (hc : 0 < c) (hw : ∀ q ∈ p, q.2 = c) :
    weightedMedianCore false order p = median (p.map (·.1)) :=
  weightedMedianCore_equal_weights order p c hperm hsorted hn hn' hc hw

theorem wmedian_in_range (order : List Nat) (p : List (Rat × Rat)) (hne : order ≠ [])
    (hidx : ∀ i ∈ order, i < p.length) (hw : ∀ q ∈ p, 0 ≤ q.2) (lo hi : Rat) (h : ∀ q ∈ p, lo ≤ q.1 ∧ q.1 ≤ hi) :
    lo ≤ weightedMedianCore false order p ∧ weightedMedianCore false order p ≤ hi :=
  weightedMedianCore_in_range order p hne hidx hw lo hi h

/-- moves with the data when a constant is added — whatever sorting permutations `argsort` returns before and after -/
theorem wmedian_translation (o o' : List Nat) (p : List (Rat × Rat)) (c : Rat) (hp : p ≠ [])
    (hw : ∀ q ∈ p, 0 ≤ q.2) (h : ValidOrder o p) (h' : ValidOrder o' (shiftP c p)) :
    weightedMedianCore false o' (shiftP c p) = weightedMedianCore false o p + c :=
  weightedMedianCore_shift_any_order o o' p c hp hw h h'

/-- the order numpy's unstable sort gives to tied values is unobservable -/
theorem wmedian_tie_order_unobservable (o o' : List Nat) (p : List (Rat × Rat)) (hw : ∀ q ∈ p, 0 ≤ q.2)
    (h : ValidOrder o p) (h' : ValidOrder o' p) : weightedMedianCore false o p = weightedMedianCore false o' p :=
  weightedMedianCore_order_independent o o' p hw h h'

/-- before the repair (defect N): three equally weighted values 1, 2, 3 gave 3/2, with two thirds of the
    weight above it -/
theorem wmedian_prefix_counterexample :
    wmedSortedPrefix [(1, 1), (2, 1), (3, 1)] = 3 / 2 ∧
    ¬ (wAbove (3 / 2) [(1, 1), (2, 1), (3, 1)] ≤ totalW [(1, 1), (2, 1), (3, 1)] / 2) := by decide +kernel

/-! ## scale estimators: non-negative, zero for constant data, shift-invariant, proportional under rescaling -/

theorem mad_nonneg (a : List Rat) : 0 ≤ madCore a := madCore_nonneg a true
theorem mad_zero_on_constant (a : List Rat) (c : Rat) (h : ∀ x ∈ a, x = c) : madCore a = 0 := madCore_const a c h true
theorem mad_shift_invariant (a : List Rat) (c : Rat) : madCore (a.map (· + c)) = madCore a := madCore_shift a c true
theorem mad_proportional (a : List Rat) (k : Rat) (hk : 0 ≤ k) : madCore (a.map (k * ·)) = k * madCore a :=
  madCore_scale a k hk true

theorem iqr_nonneg (a : List Rat) (ha : a ≠ []) : 0 ≤ iqrCore a := iqrCore_nonneg a ha
theorem iqr_zero_on_constant (a : List Rat) (ha : a ≠ []) (c : Rat) (h : ∀ x ∈ a, x = c) : iqrCore a = 0 :=
  iqrCore_const a ha c h
theorem iqr_shift_invariant (a : List Rat) (ha : a ≠ []) (c : Rat) : iqrCore (a.map (· + c)) = iqrCore a :=
  iqrCore_shift a ha c
theorem iqr_proportional (a : List Rat) (ha : a ≠ []) (k : Rat) (hk : 0 ≤ k) : iqrCore (a.map (k * ·)) = k * iqrCore a :=
  iqrCore_scale a ha k hk

theorem gapper_nonneg (a : List Rat) : 0 ≤ gapperCore a := gapperCore_nonneg a
theorem gapper_zero_on_constant (a : List Rat) (c : Rat) (h : ∀ x ∈ a, x = c) : gapperCore a = 0 := gapperCore_const a c h
theorem gapper_shift_invariant (a : List Rat) (c : Rat) : gapperCore (a.map (· + c)) = gapperCore a := gapperCore_shift a c
theorem gapper_proportional (a : List Rat) (k : Rat) (hk : 0 ≤ k) : gapperCore (a.map (k * ·)) = k * gapperCore a :=
  gapperCore_scale a k hk

theorem qn_nonneg (a : List Rat) (h : 2 ≤ a.length) : 0 ≤ qnCore a := qnCore_nonneg a h
theorem qn_zero_on_constant (a : List Rat) (h : 2 ≤ a.length) (c : Rat) (hc : ∀ x ∈ a, x = c) : qnCore a = 0 :=
  qnCore_const a h c hc
theorem qn_shift_invariant (a : List Rat) (c : Rat) : qnCore (a.map (· + c)) = qnCore a := qnCore_shift a c
theorem qn_proportional (a : List Rat) (h : 2 ≤ a.length) (k : Rat) (hk : 0 ≤ k) : qnCore (a.map (k * ·)) = k * qnCore a :=
  qnCore_scale a h k hk

/-- biweight midvariance: the value returned, or the radicand of the root returned, is non-negative … -/
theorem bivar_nonneg (a : List Rat) (initial : Option Rat) :
    (∀ v, bivarCore false a initial = .direct v → 0 ≤ v) ∧ (∀ r, bivarCore false a initial = .root r → 0 ≤ r) :=
  bivarCore_nonneg false a initial
/-- … and constant data give 0 (through the MAD fall-back taken on exactly symmetric data) -/
theorem bivar_zero_on_constant (a : List Rat) (ha : a ≠ []) (c : Rat) (h : ∀ x ∈ a, x = c) :
    bivarCore false a none = .direct 0 := bivarCore_const a ha c h

/-- weighted standard deviation, stated on the variance whose root is returned -/
theorem wstd_nonneg (p : List (Rat × Rat)) (hw : ∀ q ∈ p, 0 ≤ q.2) (v : Rat) (h : weightedVarCore p = some v) : 0 ≤ v :=
  weightedVar_nonneg p hw v h
theorem wstd_zero_on_constant (p : List (Rat × Rat)) (c : Rat) (hc : ∀ q ∈ p, q.1 = c) (ht : totalW p ≠ 0) :
    weightedVarCore p = some 0 := weightedVar_const p c hc ht
theorem wstd_shift_invariant (c : Rat) (p : List (Rat × Rat)) : weightedVarCore (shiftP c p) = weightedVarCore p :=
  weightedVar_shift c p
/-- the variance scales with `k²`, i.e. the standard deviation with `|k|` -/
theorem wstd_proportional (k : Rat) (p : List (Rat × Rat)) :
    weightedVarCore (scaleP k p) = (weightedVarCore p).map (fun v => k * k * v) := weightedVar_scale k p
theorem wstd_published (p : List (Rat × Rat)) (ht : totalW p ≠ 0) :
    weightedVarCore p = some ((p.map (fun q => q.2 * (q.1 - (p.map (fun r => r.2 * r.1)).sum / totalW p) ^ 2)).sum / totalW p) :=
  weightedVar_published p ht

/-- weighted MAD, for whatever index lists `argsort` returned for the values (`o1`) and the deviations (`o2`) -/
theorem wmad_nonneg (o1 o2 : List Nat) (p : List (Rat × Rat)) (hne : o2 ≠ [])
    (hidx : ∀ i ∈ o2, i < p.length) (hw : ∀ q ∈ p, 0 ≤ q.2) : 0 ≤ weightedMadCore false o1 o2 p :=
  weightedMadCore_nonneg o1 o2 p true hne hidx hw
theorem wmad_zero_on_constant (o1 o2 : List Nat) (p : List (Rat × Rat)) (hne1 : o1 ≠ []) (hne2 : o2 ≠ [])
    (hidx1 : ∀ i ∈ o1, i < p.length) (hidx2 : ∀ i ∈ o2, i < p.length) (hw : ∀ q ∈ p, 0 ≤ q.2)
    (c : Rat) (hc : ∀ q ∈ p, q.1 = c) : weightedMadCore false o1 o2 p = 0 :=
  weightedMadCore_const o1 o2 p true hne1 hne2 hidx1 hidx2 hw c hc
theorem wmad_shift_invariant (o1 o2 o1' o2' : List Nat) (p : List (Rat × Rat)) (c : Rat) (hp : p ≠ [])
    (hw : ∀ q ∈ p, 0 ≤ q.2)
    (h1 : ValidOrder o1 p) (h2 : ValidOrder o2 (devP (weightedMedianCore false o1 p) p))
    (h1' : ValidOrder o1' (shiftP c p))
    (h2' : ValidOrder o2' (devP (weightedMedianCore false o1' (shiftP c p)) (shiftP c p))) :
    weightedMadCore false o1' o2' (shiftP c p) = weightedMadCore false o1 o2 p :=
  weightedMadCore_shift_any_order o1 o2 o1' o2' p true c hp hw h1 h2 h1' h2'
theorem wmad_proportional (o1 o2 o1' o2' : List Nat) (p : List (Rat × Rat)) (k : Rat) (hk : 0 ≤ k)
    (hw : ∀ q ∈ p, 0 ≤ q.2)
    (h1 : ValidOrder o1 p) (h2 : ValidOrder o2 (devP (weightedMedianCore false o1 p) p))
    (h1' : ValidOrder o1' (scaleP k p))
    (h2' : ValidOrder o2' (devP (weightedMedianCore false o1' (scaleP k p)) (scaleP k p))) :
    weightedMadCore false o1' o2' (scaleP k p) = k * weightedMadCore false o1 o2 p :=
  weightedMadCore_scale_any_order o1 o2 o1' o2' p true k hk hw h1 h2 h1' h2'

/-- a single value (after NaN removal) has scale 0: the `on_array(0)` / `on_weighted_array(0)` decorators -/
theorem scale_of_single_value_is_zero (f : List Rat → Option Rat) (g : List (Rat × Rat) → Option Rat) (x w : Rat) :
    onArray (some 0) f [some x] = some 0 ∧ onWeighted (some 0) g [some x] [some w] = .val (some 0) :=
  ⟨onArray_single 0 f x, onWeighted_single 0 g x w⟩

/-- NaN entries are ignored by the decorated estimators -/
theorem nan_ignored (d : Option Rat) (f : List Rat → Option Rat) (a : List (Option Rat)) :
    onArray d f a = onArray d f ((a.filterMap id).map some) := onArray_ignores_nan d f a

/-! ## smoothers -/

/-- every width `_width2wing` accepts (fraction, integer, wider than the signal) gives a half-window between 1
    and `n − 1`: the mirrored padding is always available -/
theorem accepted_width_bounds (width : Rat) (n wing : Nat) (h : width2wing width n = .ok wing) :
    1 ≤ wing ∧ wing + 1 ≤ n := width2wing_bounds width n wing h

theorem rolling_median_one_value_per_input (x : List Rat) (width : Rat) (y : List Rat)
    (h : rollingMedian x width = .ok y) : y.length = x.length := rollingMedian_length x width y h
theorem rolling_median_in_range (x : List Rat) (width : Rat) (y : List Rat) (h : rollingMedian x width = .ok y)
    (lo hi : Rat) (hx : ∀ v ∈ x, lo ≤ v ∧ v ≤ hi) : ∀ v ∈ y, lo ≤ v ∧ v ≤ hi :=
  rollingMedian_in_range x width y h lo hi hx
theorem rolling_median_constant_reproduced (n : Nat) (c width : Rat) (y : List Rat)
    (h : rollingMedian (List.replicate n c) width = .ok y) : y = List.replicate n c := rollingMedian_const n c width y h

theorem kaiser_one_value_per_input (x : List Rat) (width : Rat) (window y : List Rat)
    (h : kaiser x width window = .ok y) : y.length = x.length := kaiser_length x width window y h
/-- a non-negative window of positive sum (the Kaiser window) keeps the output within the input range -/
theorem kaiser_in_range (x : List Rat) (width : Rat) (window y : List Rat) (h : kaiser x width window = .ok y)
    (hwin : ∀ wing, width2wing width x.length = .ok wing → window.length = 2 * wing + 1)
    (hnn : ∀ v ∈ window, 0 ≤ v) (hpos : 0 < window.sum)
    (lo hi : Rat) (hx : ∀ v ∈ x, lo ≤ v ∧ v ≤ hi) : ∀ v ∈ y, lo ≤ v ∧ v ≤ hi :=
  Smooth.kaiser_in_range x width window y h hwin hnn hpos lo hi hx
theorem kaiser_constant_reproduced (n : Nat) (c width : Rat) (window y : List Rat)
    (h : kaiser (List.replicate n c) width window = .ok y)
    (hwin : ∀ wing, width2wing width n = .ok wing → window.length = 2 * wing + 1)
    (hsum : window.sum ≠ 0) : y = List.replicate n c := kaiser_const n c width window y h hwin hsum

theorem savgol_one_value_per_input (x : List Rat) (tw : Option Rat) (ww ord it : Nat) (coeffs y : List Rat)
    (h : savgol x tw ww ord it coeffs = .ok y) : y.length = x.length := savgol_length x tw ww ord it coeffs y h
/-- coefficients summing to 1 (any polynomial order ≥ 0) reproduce a constant signal, for every number of passes the
    geometry allows -/
theorem savgol_constant_reproduced (n : Nat) (c : Rat) (tw : Option Rat) (windowWidth ord it : Nat) (coeffs y : List Rat)
    (hodd : windowWidth % 2 = 1) (hsum : coeffs.sum = 1)
    (hlen : ∀ g, savgolGeometry n tw windowWidth ord it = .ok g → coeffs.length = g.2.1)
    (h : savgol (List.replicate n c) tw windowWidth ord it coeffs = .ok y) : y = List.replicate n c :=
  savgol_const n c tw windowWidth ord it coeffs y hodd hsum hlen h

theorem savgol_weighted_one_value_per_input (x w : List Rat) (tw : Option Rat) (ww ord it : Nat) (coeffs : List Rat)
    (y : List (Option Rat)) (hw : w.length = x.length) (h : savgolWeighted x w tw ww ord it coeffs = .ok y) :
    y.length = x.length := savgolWeighted_length x w tw ww ord it coeffs y hw h

/-- the weighted Savitzky–Golay value of a constant signal is the quotient `D_i/N_i = c·N_i/N_i`: it is defined, and
    equal to the constant, exactly where the weighted window sum `N_i` is not 0 -/
theorem weighted_conv_defined (win w : List Rat) (c : Rat) :
    (cwStep win (List.replicate w.length (some c), w)).1 =
      (convSame win w).map (fun N => if N = 0 then none else some c) := cwStep_const win w c

/-- positivity of the weights does not give `N_i ≠ 0` (finding P): the 7-point cubic window has negative lobes, and
    the strictly positive weights (4, 1, ¼, ¼, ¼, ¼, ¼) cancel against it -/
theorem weighted_savgol_zero_denominator :
    (convSame (normalise [-2 / 21, 3 / 21, 6 / 21, 7 / 21, 6 / 21, 3 / 21, -2 / 21]) [1 / 4, 1 / 4, 1 / 4, 1 / 4, 1 / 4, 1, 4]).getD 3 1 = 0 ∧
    (convSame (normalise [-2 / 21, 3 / 21, 6 / 21, 7 / 21, 6 / 21, 3 / 21, -2 / 21]) [0, 0, 0, 0, 0, 0, 0]).getD 3 1 = 0 := by
  decide +kernel

/-! ## non-vacuity -/

example : width2wing (1 / 4) 40 = .ok 5 := by decide +kernel
example : width2wing 1000 6 = .ok 3 := by decide +kernel
example : width2wing 3 1 = .error .assertionError := by decide +kernel
example : [0, 1, 2].Perm (List.range [((1 : Rat), (1 : Rat)), (2, 1), (3, 1)].length) := by decide
example : SortedByValue (permute [0, 1, 2] [((1 : Rat), (1 : Rat)), (2, 1), (3, 1)]) := by decide +kernel
example : ValidOrder [1, 3, 0, 2] [((3 : Rat), (0 : Rat)), (1, 1), (4, 2), (2, 1)] := ⟨by decide, by decide +kernel⟩
example : weightedMedianCore false [0, 1, 2] [(1, 1), (2, 1), (3, 1)] = 2 := by decide +kernel
example : weightedMedianCore false [1, 3, 0, 2] [(3, 0), (1, 1), (4, 2), (2, 1)] = 3 := by decide +kernel
example : rollingMedian [5] 3 = .ok [5] := by decide +kernel
example : rollingMedianPrefix [5] 3 = .error .assertionError := by decide +kernel

end CnvVerif.C19
