/-
  C06: tie to the source TEXT (subdivide: the LOOP STRUCTURE of `_split_targets`).
  `Generated.src_splitloop_*` (Generated/ExprsSplitLoop.lean) is re-read from /repo's Python on every run by
  harness/splitloop.py: the guard `if span >= min_size`, the branch `if nbins == 1: yield row`, the inner loop
  `for i in range(1, nbins)` with its carried `bin_start` (`yield row._replace(start=bin_start, end=bin_end)`;
  `bin_start = bin_end`), the `yield row._replace(start=bin_start)` after it, and what the row loop runs over
  (`merge(regions)`); the arithmetic inside is the pieces of Generated/ExprsInterval.lean (Props/C06SrcSubdivide.lean).
  These theorems state that the model's `splitRow` / `subdivideTable` EQUAL that reading, for every table, every
  positive (also fractional) average size and every minimum size.
-/
import CnvVerif.Props.C06
import CnvVerif.Lemmas.SrcIntervalSplitLoop
import CnvVerif.Lemmas.IntervalTable
namespace CnvVerif.C06
open CnvVerif CnvVerif.Generated

/-- one row of the loop: the (start, end) pairs of the model's `splitRow` ARE the pairs the source loop body yields --
    `yield row`, or the chain `(start, c1), (c1, c2), …, (c_{n-1}, end)` built by the inner loop and the yield after it -/
theorem subdivide_row_loop_is_the_source (avg : Rat) (havg : 0 < avg) (minSize : Int) (r : Row) (hlen : r.s ≤ r.e) :
    (splitRow avg minSize r).map (fun x => ((x.s : Rat), (x.e : Rat))) = src_splitloop_row r.s r.e avg minSize :=
  Src.splitRow_is_source_loop avg havg minSize r hlen

/-- … and every yielded row is its region with only `start` / `end` replaced (`row` itself or `row._replace(start=…, end=…)`:
    chromosome, label and every other field are the region's) -/
theorem subdivide_row_loop_replaces_only_start_end (avg : Rat) (minSize : Int) (r : Row) :
    ∀ x ∈ splitRow avg minSize r, { x with s := r.s, e := r.e } = r :=
  Src.splitRow_fields avg minSize r

/-- the whole generator: the row loop runs over `merge(regions)` with default options, carries nothing from one row to
    the next, and the table-level model yields exactly what the source loop yields, region after region -/
theorem subdivide_table_loop_is_the_source (avg : Rat) (havg : 0 < avg) (minSize : Int) (t : Table)
    (hp : ∀ r ∈ t, r.s < r.e) :
    src_splitloop_over_default_merge = true ∧
    (subdivideTable avg minSize t).map (fun x => ((x.s : Rat), (x.e : Rat))) =
      (mergeTable 0 t).flatMap (fun r => src_splitloop_row r.s r.e avg minSize) := by
  refine ⟨by simp [src_splitloop_over_default_merge], ?_⟩
  have key : ∀ l : List Row, (∀ r ∈ l, r.s ≤ r.e) →
      (l.flatMap (splitRow avg minSize)).map (fun x => ((x.s : Rat), (x.e : Rat))) =
        l.flatMap (fun r => src_splitloop_row r.s r.e avg minSize) := by
    intro l
    induction l with
    | nil => intro _; simp
    | cons a l ih =>
      intro h
      simp only [List.flatMap_cons, List.map_append]
      rw [Src.splitRow_is_source_loop avg havg minSize a (h a (by simp)), ih (fun r hr => h r (by simp [hr]))]
  unfold subdivideTable
  apply key
  intro r hr
  have hcan := mergeTable_canon t hp r.chrom
  have hm : r ∈ rowsOf (mergeTable 0 t) r.chrom := by
    simp only [rowsOf, List.mem_filter]
    exact ⟨hr, by simp⟩
  have := hcan.1 r hm
  omega

/-! non-vacuity: the generated loop evaluated on concrete rows (10 bases at average 3: three bins; at average 20: the
    row itself; below the minimum size: nothing), and a table that satisfies the hypothesis -/
example : src_splitloop_row 10 20 3 0 = [(10, 13), (13, 16), (16, 20)] := by decide +kernel
example : src_splitloop_row 10 20 20 0 = [(10, 20)] ∧ src_splitloop_row 10 20 3 11 = [] := by
  constructor <;> decide +kernel
example : ∀ r ∈ ([⟨"chr1", 0, 10, "a"⟩, ⟨"chr1", 5, 12, "b"⟩] : Table), r.s < r.e := by decide

end CnvVerif.C06
