/-
  C03, the fallback branches of `transfer_fields` ("Each segment's weight is the sum, and its depth the
  weight-averaged depth, of all input bins it spans", at the points where a weighted average does not exist):

    * the spanned bins weigh nothing in total            ⇒ weight 0, depth 0.0          (`seg_dp = 0.0`)
    * the bin table has no weight column                 ⇒ weight = number of spanned bins, depth = their mean
    * the two branches agree when every weight is 1 (a missing weight column means "weight 1 each")
    * no bins ⇒ segments unchanged; no segments ⇒ the null row of `make_null_segment`
    * `assembleUnit` (the composite the other C03 theorems speak about) IS `transferFields` applied to the segments of
      the partition, so everything proved here holds for the segments `do_segmentation` reports.

  Model: Model/TileFallback.lean; lemmas: Lemmas/TileFallback.lean.
-/
import CnvVerif.Model.Tile
import CnvVerif.Model.TileFallback
import CnvVerif.Lemmas.Tile
import CnvVerif.Lemmas.TileFallback
namespace CnvVerif.C03
open CnvVerif

/-- a segment whose spanned bins have no positive total weight gets depth 0 (not a division by zero, not NaN), and
    its weight is that total -/
theorem fallback_no_positive_weight_depth_zero (unit : List Bin) (g : SegO)
    (h : ¬ 0 < sumQ ((spanned unit g).map (·.weight))) :
    (aggregate unit g).depth = 0 ∧ (aggregate unit g).weight = sumQ ((spanned unit g).map (·.weight)) := by
  refine ⟨?_, rfl⟩
  rw [aggregate_depth_eq, if_neg h]

/-- a segment that spans only zero-weight bins has weight 0 and depth 0 -/
theorem fallback_zero_weight_bins (unit : List Bin) (g : SegO) (h0 : ∀ b ∈ spanned unit g, b.weight = 0) :
    (aggregate unit g).weight = 0 ∧ (aggregate unit g).depth = 0 := by
  have hs : sumQ ((spanned unit g).map (·.weight)) = 0 := by
    rw [sumQ_map_const _ _ 0 h0, Rat.mul_zero]
  refine ⟨by rw [aggregate_weight_eq, hs], ?_⟩
  rw [aggregate_depth_eq, hs]
  rfl

/-- conversely, with non-negative bin weights the reported weight is 0 ONLY when every spanned bin weighs 0; in every
    other case the depth is the weight-averaged depth -/
theorem fallback_weight_zero_iff (unit : List Bin) (g : SegO) (hnn : ∀ b ∈ spanned unit g, 0 ≤ b.weight) :
    ((aggregate unit g).weight = 0 ↔ ∀ b ∈ spanned unit g, b.weight = 0) ∧
    ((∃ b ∈ spanned unit g, b.weight ≠ 0) →
      (aggregate unit g).depth * (aggregate unit g).weight =
        sumQ ((spanned unit g).map (fun b => b.depth * b.weight))) := by
  refine ⟨by rw [aggregate_weight_eq]; exact sumQ_eq_zero_iff _ _ hnn, ?_⟩
  rintro ⟨b, hb, hne⟩
  have h0 := sumQ_nonneg (spanned unit g) (·.weight) hnn
  have hpos : 0 < sumQ ((spanned unit g).map (·.weight)) := by
    rcases Rat.le_iff_lt_or_eq.mp h0 with h | h
    · exact h
    · exact absurd ((sumQ_eq_zero_iff _ _ hnn).mp h.symm b hb) hne
  exact (aggregate_fields unit g).2.1 hpos

/-- no weight column: the weight is the NUMBER of spanned bins and the depth their plain mean; gene, end points,
    probes and log2 are what the weighted branch gives -/
theorem fallback_no_weight_column (unit : List Bin) (g : SegO) :
    (aggregateNW unit g).weight = ((spanned unit g).length : Rat) ∧
    (spanned unit g ≠ [] →
      (aggregateNW unit g).depth * ((spanned unit g).length : Rat) = sumQ ((spanned unit g).map (·.depth))) ∧
    (aggregateNW unit g).gene = (aggregate unit g).gene ∧
    (aggregateNW unit g).chrom = g.chrom ∧ (aggregateNW unit g).s = g.s ∧ (aggregateNW unit g).e = g.e ∧
    (aggregateNW unit g).probes = g.probes ∧ (aggregateNW unit g).log2 = g.log2 := by
  refine ⟨rfl, ?_, rfl, rfl, rfl, rfl, rfl, rfl⟩
  intro hne
  show meanQ ((spanned unit g).map (·.depth)) * _ = _
  unfold meanQ
  rw [List.length_map]
  have hlen : ((spanned unit g).length : Rat) ≠ 0 := by
    have : 0 < (spanned unit g).length := List.length_pos_iff.mpr hne
    exact_mod_cast Nat.pos_iff_ne_zero.mp this
  exact Rat.div_mul_cancel hlen

/-- a table without a weight column is treated exactly like one whose weights are all 1 -/
theorem fallback_unweighted_is_unit_weights (unit : List Bin) (g : SegO)
    (h1 : ∀ b ∈ spanned unit g, b.weight = 1) : aggregate unit g = aggregateNW unit g :=
  aggregate_eq_aggregateNW_of_unit_weights unit g h1

/-- no bins: the segments come back untouched -/
theorem fallback_no_bins (hw : Bool) (segs : List SegO) : transferFields hw [] segs = .unchanged segs := rfl

/-- bins but no segment: the null row — the unit's chromosome, from its first bin's start to its last bin's end,
    gene "-", probes / weight / depth / log2 all 0 — and NOT a table -/
theorem fallback_no_segments (hw : Bool) (cn : List Bin) (hne : cn ≠ []) :
    ∃ f l, cn.head? = some f ∧ cn.getLast? = some l ∧
      transferFields hw cn [] =
        .nullRow { chrom := f.chrom, s := f.s, e := l.e, gene := "-", log2 := 0, probes := 0, weight := 0, depth := 0 } := by
  cases cn with
  | nil => exact absurd rfl hne
  | cons f t =>
    obtain ⟨l, hl⟩ : ∃ l, (f :: t).getLast? = some l := ⟨_, List.getLast?_eq_getLast_of_ne_nil (by simp)⟩
    refine ⟨f, l, rfl, hl, ?_⟩
    show TransferOut.nullRow (nullSegment f.chrom f.s (((f :: t).getLast?).getD f).e) = _
    rw [hl]
    rfl

/-- bins and segments: a table with one row per input segment, in the same order, each keeping its chromosome, log2
    and probes -/
theorem fallback_table_keeps_rows (hw : Bool) (cn : List Bin) (segs : List SegO) (hc : cn ≠ []) (hs : segs ≠ []) :
    ∃ out, transferFields hw cn segs = .table out ∧ out.length = segs.length ∧
      out.map (fun g => (g.chrom, g.log2, g.probes)) = segs.map (fun g => (g.chrom, g.log2, g.probes)) := by
  cases cn with
  | nil => exact absurd rfl hc
  | cons f t =>
    have he : segs.isEmpty = false := by cases segs with
      | nil => exact absurd rfl hs
      | cons _ _ => rfl
    refine ⟨_, by show (if segs.isEmpty then _ else TransferOut.table _) = _; rw [he]; rfl, ?_, ?_⟩
    · rw [List.length_map, stretchEnds_length]
    · rw [List.map_map, ← stretchEnds_keeps f (((f :: t).getLast?).getD f) segs]
      cases hw <;> rfl

/-- the composite model of the other C03 theorems is this function applied to the segments of the partition -/
theorem assembleUnit_is_transferFields (unit : List Bin) (runs : List Nat)
    (hs : (splitLens (unit.filter (·.keep)) runs).filterMap segOfRun ≠ []) :
    transferFields true unit ((splitLens (unit.filter (·.keep)) runs).filterMap segOfRun) =
      .table (assembleUnit unit runs) := by
  cases unit with
  | nil =>
    exfalso; apply hs
    cases runs <;> rfl
  | cons f t =>
    have hsurv : ((f :: t).filter (·.keep)).isEmpty = false := by
      cases hk : (f :: t).filter (·.keep) with
      | nil =>
        exfalso; apply hs; rw [hk]
        have : ∀ r : List Nat, splitLens ([] : List Bin) r = [] := by
          intro r; induction r with
          | nil => rfl
          | cons n ns ih => rfl
        rw [this]; rfl
      | cons _ _ => rfl
    have he : ((splitLens ((f :: t).filter (·.keep)) runs).filterMap segOfRun).isEmpty = false := by
      cases hq : (splitLens ((f :: t).filter (·.keep)) runs).filterMap segOfRun with
      | nil => exact absurd hq hs
      | cons _ _ => rfl
    rw [assembleUnit_cons_eq, hsurv]
    show (if ((splitLens ((f :: t).filter (·.keep)) runs).filterMap segOfRun).isEmpty then _ else TransferOut.table _) = _
    rw [he]
    rfl

/-- the oracle that judges the rows of the real `transfer_fields` (`transferSpec`: per row, on its own span, the three
    cases above) accepts every table the model returns — so a row the oracle rejects differs from the model -/
theorem fallback_model_meets_row_oracle (hw : Bool) (cn : List Bin) (segs out : List SegO)
    (h : transferFields hw cn segs = .table out) : transferSpec hw cn out = [] := by
  cases cn with
  | nil => exact absurd h (by simp [transferFields])
  | cons f t =>
    have h' : (if segs.isEmpty then TransferOut.nullRow (nullSegment f.chrom f.s (((f :: t).getLast?).getD f).e)
        else TransferOut.table ((stretchEnds f (((f :: t).getLast?).getD f) segs).map
          (if hw then aggregate (f :: t) else aggregateNW (f :: t)))) = .table out := h
    split at h'
    · exact absurd h' (by simp)
    · injection h' with h'
      subst h'
      cases hw
      · exact transferSpec_map_aggregateNW _ _
      · exact transferSpec_map_aggregate _ _

/-! ### non-vacuity -/

/-- a segment over two zero-weight bins (depths 7 and 9): weight 0, depth 0 — and the hypothesis of
    `fallback_zero_weight_bins` holds for it -/
example :
    let u : List Bin := [ ⟨"chr1", 0, 10, "A", 0, 0, 7, false⟩, ⟨"chr1", 10, 20, "A", 0, 0, 9, false⟩,
                          ⟨"chr1", 20, 30, "B", 1, 2, 5, true⟩ ]
    let g : SegO := ⟨"chr1", 0, 20, "-", 0, 2, 0, 0⟩
    (spanned u g).length = 2 ∧ (∀ b ∈ spanned u g, b.weight = 0) ∧
      ((aggregate u g).weight, (aggregate u g).depth) = (0, 0) := by decide +kernel

/-- the same segment read from a table without weight column: weight 2, depth the mean 8; and with weights all 1
    the weighted branch gives exactly that -/
example :
    let u : List Bin := [ ⟨"chr1", 0, 10, "A", 0, 1, 7, true⟩, ⟨"chr1", 10, 20, "A", 0, 1, 9, true⟩,
                          ⟨"chr1", 20, 30, "B", 1, 1, 5, true⟩ ]
    let g : SegO := ⟨"chr1", 0, 20, "-", 0, 2, 0, 0⟩
    (∀ b ∈ spanned u g, b.weight = 1) ∧ ((aggregateNW u g).weight, (aggregateNW u g).depth) = (2, 8) ∧
      aggregate u g = aggregateNW u g := by decide +kernel

/-- with unequal weights the two branches differ (the agreement theorem is not trivial) -/
example :
    let u : List Bin := [ ⟨"chr1", 0, 10, "A", 0, 3, 7, true⟩, ⟨"chr1", 10, 20, "A", 0, 1, 9, true⟩ ]
    let g : SegO := ⟨"chr1", 0, 20, "-", 0, 2, 0, 0⟩
    aggregate u g ≠ aggregateNW u g ∧ (aggregate u g).depth = 15 / 2 := by decide +kernel

/-- the three outcomes of `transferFields` -/
example :
    let cn : List Bin := [ ⟨"chr1", 5, 10, "A", 0, 1, 7, true⟩, ⟨"chr1", 10, 20, "A", 0, 1, 9, true⟩ ]
    let g : SegO := ⟨"chr1", 10, 20, "-", 3, 1, 0, 0⟩
    transferFields true [] [g] = .unchanged [g] ∧
    transferFields false cn [] = .nullRow ⟨"chr1", 5, 20, "-", 0, 0, 0, 0⟩ ∧
    transferFields false cn [g] = .table [⟨"chr1", 5, 20, "A", 3, 1, 2, 8⟩] := by decide +kernel

/-- the row oracle is not trivially empty: depth 8 on a zero-weight segment, or weight 1 for two unweighted bins, is
    rejected -/
example :
    let cn : List Bin := [ ⟨"chr1", 0, 10, "A", 0, 0, 7, true⟩, ⟨"chr1", 10, 20, "A", 0, 0, 9, true⟩ ]
    transferSpec true cn [⟨"chr1", 0, 20, "A", 0, 2, 0, 8⟩] = ["zero_weight_segment_has_depth_zero"] ∧
    transferSpec false cn [⟨"chr1", 0, 20, "A", 0, 2, 1, 8⟩] = ["no_weight_column_counts_bins_and_averages"] ∧
    transferSpec false cn [⟨"chr1", 0, 20, "A", 0, 2, 2, 8⟩] = [] := by decide +kernel

end CnvVerif.C03
