/-
  C17: tie to the source TEXT, cnvlib/segmetrics.py (confidence_interval_bootstrap).  The definitions `Generated.src_*` of Generated/ExprsStats.lean are re-translated
  from /repo's Python on every run (harness/exprtrans.py, `emit_values`); these theorems state that the hand-written
  model formulas of Model/Stats.lean are those expressions.  Kept in a module of their own so that an edit to a
  formula breaks exactly these obligations.
-/
import CnvVerif.Props.C17
import CnvVerif.Lemmas.SrcStatsCi
import Mathlib.Tactic.NormNum
import Mathlib.Tactic.Positivity
namespace CnvVerif.C17
open CnvVerif CnvVerif.Stats CnvVerif.Generated

/-- the bootstrap interval's percentile levels ARE the ones `confidence_interval_bootstrap` computes from
    `alphas = [alpha/2, 1 − alpha/2]` (the BCa correction is commented out in the source and absent here) -/
theorem ci_levels_are_the_source (vals wts : List Rat) (alpha : Rat) (boot : List BootRow) :
    ciBoot vals wts alpha boot =
      if vals.length < 2 then (vals.getD 0 0, vals.getD 0 0)
      else (percentile (boot.map (replicateMean vals wts)) (src_ci_pct_lo alpha),
            percentile (boot.map (replicateMean vals wts)) (src_ci_pct_hi alpha)) :=
  Src.ciBoot_is_source vals wts alpha boot

/-- the number of replicates IS `bootstraps`, raised to `ceil(2/alpha)` exactly when the source does so -/
theorem bootstrap_count_is_the_source (b : Nat) (alpha : Rat) (h0 : 0 < alpha) :
    ((bootCount b (2 / alpha) : Nat) : Rat) = src_ci_bootstraps alpha (b : Rat) :=
  Src.bootCount_is_source b alpha h0

end CnvVerif.C17
