/-
  C18: tie to the source TEXT of `_parse_pedigrees` (skgenome/tabio/vcfio.py).  `Generated.src_parse_pedigrees_arm` (the
  `if / elif / elif` key precedence) and `Generated.src_parse_pedigrees_{pedigree_tag, gatk_tag, mutect2}` (what one pass of
  each arm yields under which condition) are re-read from /repo on every run (harness/yieldtrans.py, extractor vcf_pedkeys).
  These theorems state that `headerPairs`, `pedPairs`, `mutectPairs`, `mutect2Pairs` of Model/VcfPairs.lean ARE those
  structures, each atom read on the model's data as stated here: `'PEDIGREE' in meta` = there is a PEDIGREE record,
  `'GATKCommandLine' in meta` = there is a GATKCommandLine record, `'GATKCommandLine.MuTect2' in meta` = `Hdr.mutect2`,
  `'Derived' in tag` = the tag has a `Derived` item, `tag.get('ID') == 'MuTect'`, `len(samples) == 2`,
  `tuple(samples) == ('NORMAL', 'TUMOR')`.  A module of its own: an edit of the chain breaks exactly these obligations.
-/
import CnvVerif.Model.VcfPairs
import CnvVerif.Generated.VcfPedKeys
namespace CnvVerif.C18
open CnvVerif CnvVerif.Vcf

namespace SrcPed

/-- what a generated arm means on the model's header -/
def armPairs (samples : List String) (h : Hdr) : Generated.PedArm → Except VErr (List DPair)
  | .eachPedigreeTag => pedPairs h.tags
  | .eachGatkTag => mutectPairs h.gatk
  | .sampleColumns => .ok (mutect2Pairs samples)
  | .nothing => .ok []

/-- what a generated yield means: `ok none` = nothing yielded, an error = the exception the expression raises -/
def yieldOf (tag : PedTag) (g : GatkTag) (samples : List String) : Generated.PedYield → Except VErr (Option DPair)
  | .derivedOriginal =>                      -- `(tag["Derived"], tag["Original"])`
    match tag.lookup "Derived", tag.lookup "Original" with
    | some d, some o => .ok (some (some d, o))
    | _, _ => .error .keyError
  | .mutectOptions =>                        -- `(options.get("tumor_sample_name"), options["normal_sample_name"])`
    match g.opts with
    | none => .error .keyError
    | some toks =>
      match dictGet (optionsDict toks) "normal_sample_name" with
      | none => .error .keyError
      | some n => .ok (some (dictGet (optionsDict toks) "tumor_sample_name", n))
  | .tumorNormalLiteral => .ok (some (some "TUMOR", "NORMAL"))
  | .columnsInFileOrder =>                   -- `tuple(samples)`, unpacked by the caller as a pair
    match samples with
    | [a, b] => .ok (some (some a, b))
    | _ => .error .typeError
  | .nothing => .ok none

/-- a generator pass followed by the remaining passes: an exception ends the generator, a yield is put in front -/
def consY : Except VErr (Option DPair) → Except VErr (List DPair) → Except VErr (List DPair)
  | .error e, _ => .error e
  | .ok none, rest => rest
  | .ok (some p), rest => rest.map (fun r => p :: r)

end SrcPed

/-- the key precedence IS the source's: the arm the re-read `if / elif / elif` chain selects, on
    (`"PEDIGREE" in meta`, `"GATKCommandLine" in meta`, `"GATKCommandLine.MuTect2" in meta`), is what `headerPairs` computes -/
theorem header_precedence_is_the_source (samples : List String) (h : Hdr) :
    headerPairs samples h =
      SrcPed.armPairs samples h (Generated.src_parse_pedigrees_arm (!h.tags.isEmpty) (!h.gatk.isEmpty) h.mutect2) := by
  unfold headerPairs Generated.src_parse_pedigrees_arm
  cases h.tags.isEmpty <;> cases h.gatk.isEmpty <;> cases h.mutect2 <;> simp [SrcPed.armPairs]

/-- one pass of the PEDIGREE arm IS the source's: a record with `Derived` yields `(Derived, Original)`, any other nothing -/
theorem pedigree_pass_is_the_source (tag : PedTag) (rest : List PedTag) (g : GatkTag) (samples : List String) :
    pedPairs (tag :: rest) =
      SrcPed.consY (SrcPed.yieldOf tag g samples (Generated.src_parse_pedigrees_pedigree_tag (tag.lookup "Derived").isSome))
        (pedPairs rest) := by
  unfold pedPairs Generated.src_parse_pedigrees_pedigree_tag
  rw [parsePedigrees]
  cases hd : tag.lookup "Derived" <;> cases ho : tag.lookup "Original" <;>
    cases hr : parsePedigrees rest <;> simp [SrcPed.consY, SrcPed.yieldOf, hd, ho, bind, Except.bind, pure, Except.pure, Except.map]

/-- one pass of the legacy-MuTect arm IS the source's: a record with `ID == "MuTect"` yields
    `(options.get("tumor_sample_name"), options["normal_sample_name"])`, any other nothing -/
theorem mutect_pass_is_the_source (t : GatkTag) (rest : List GatkTag) (tag : PedTag) (samples : List String) :
    mutectPairs (t :: rest) =
      SrcPed.consY (SrcPed.yieldOf tag t samples (Generated.src_parse_pedigrees_gatk_tag (t.id == some "MuTect")))
        (mutectPairs rest) := by
  rw [mutectPairs]
  unfold Generated.src_parse_pedigrees_gatk_tag
  cases hid : (t.id == some "MuTect")
  · simp [SrcPed.consY, SrcPed.yieldOf]
  · cases ho : t.opts with
    | none => simp [SrcPed.consY, SrcPed.yieldOf, ho]
    | some toks =>
      cases hn : dictGet (optionsDict toks) "normal_sample_name" <;> cases hr : mutectPairs rest <;>
        simp [SrcPed.consY, SrcPed.yieldOf, ho, hn, bind, Except.bind, pure, Except.pure, Except.map]

/-- the MuTect2 arm IS the source's: only with exactly two sample columns; `("NORMAL", "TUMOR")` is read as
    `("TUMOR", "NORMAL")`, any other two columns in file order -/
theorem mutect2_arm_is_the_source (samples : List String) (tag : PedTag) (g : GatkTag) :
    (.ok (mutect2Pairs samples) : Except VErr (List DPair)) =
      SrcPed.consY (SrcPed.yieldOf tag g samples
        (Generated.src_parse_pedigrees_mutect2 (samples.length == 2) (samples == ["NORMAL", "TUMOR"]))) (.ok []) := by
  unfold Generated.src_parse_pedigrees_mutect2
  match samples with
  | [] => simp [mutect2Pairs, SrcPed.consY, SrcPed.yieldOf]
  | [_] => simp [mutect2Pairs, SrcPed.consY, SrcPed.yieldOf]
  | [a, b] =>
    by_cases ha : a = "NORMAL" <;> by_cases hb : b = "TUMOR" <;>
      simp [mutect2Pairs, SrcPed.consY, SrcPed.yieldOf, ha, hb, Except.map]
  | _ :: _ :: _ :: _ => simp [mutect2Pairs, SrcPed.consY, SrcPed.yieldOf]

/-- the loops end as the source's `for` does: no record, no pair -/
theorem no_record_no_pair : pedPairs [] = .ok [] ∧ mutectPairs [] = .ok [] := by
  simp [pedPairs, parsePedigrees, mutectPairs]

/-- non-vacuity: every arm and every yield of the generated structure is reached -/
example : Generated.src_parse_pedigrees_arm true true true = .eachPedigreeTag ∧
    Generated.src_parse_pedigrees_arm false true true = .eachGatkTag ∧
    Generated.src_parse_pedigrees_arm false false true = .sampleColumns ∧
    Generated.src_parse_pedigrees_arm false false false = .nothing := by decide
example : SrcPed.yieldOf [("Derived", "T"), ("Original", "N")] default []
    (Generated.src_parse_pedigrees_pedigree_tag true) = .ok (some (some "T", "N")) := by
  simp [SrcPed.yieldOf, Generated.src_parse_pedigrees_pedigree_tag, List.lookup]
example : SrcPed.yieldOf [] { id := some "MuTect", opts := some [("normal_sample_name", some "N")] } []
    (Generated.src_parse_pedigrees_gatk_tag true) = .ok (some (none, "N")) := by
  simp [SrcPed.yieldOf, Generated.src_parse_pedigrees_gatk_tag, dictGet, optionsDict]
example : SrcPed.yieldOf [] default ["A", "B"] (Generated.src_parse_pedigrees_mutect2 true false) = .ok (some (some "A", "B")) := by
  simp [SrcPed.yieldOf, Generated.src_parse_pedigrees_mutect2]

end CnvVerif.C18
