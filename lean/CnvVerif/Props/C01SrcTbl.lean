/-
  C01: tie of the DECISION TABLES to the source text (growth round).  `Generated/ExprsTbl.lean` is re-translated from
  cnvlib/call.py and cnvlib/cnary.py on every run (typed reader of harness/exprtrans.py): the (reference, expect) table as
  the sequence of masked column assignments the code performs, the four row masks, and `_reference_copies_pure`.  These
  theorems state that the model's `refExpect ∘ classOf` and `refCopiesPure` are those definitions — for every ploidy
  (not a finite table), every chromosome name and coordinate, every flag.
-/
import CnvVerif.Props.C01
import CnvVerif.Lemmas.SrcTbl
namespace CnvVerif.C01
open CnvVerif

/-- `_reference_copies_pure` (pure / threshold paths): the model's table is the source's `if/else` -/
theorem reference_copies_pure_is_the_source (chrom : String) (ploidy : Nat) (hapX : Bool) :
    refCopiesPure chrom ploidy hapX = Generated.src_reference_copies_pure chrom ploidy hapX :=
  Src.refCopiesPure_is_source chrom ploidy hapX

/-- `get_as_dframe_and_set_reference_and_expect_copies` (purity path): the (reference, expect) copies the model assigns
    to a row — class by `classOf`, copies by `refExpect` — are what the source's masked assignments, fed with the source's
    own `chr_x_filter` / `chr_y_filter` / `parx_filter` / `pary_filter`, leave in that row.  `x1 x2 y1 y2` are the PAR ranges
    of the genome in `Generated.PAR_TABLE` (no genome given: no hypothesis). -/
theorem reference_expect_table_is_the_source (first : String) (par : Option String) (chrom : String) (s e : Int)
    (ploidy : Nat) (hapX female : Bool) (x1 x2 y1 y2 : Int × Int)
    (hx1 : ∀ g, par = some g → Src.ParCoords g "PAR1X" x1.1 x1.2) (hx2 : ∀ g, par = some g → Src.ParCoords g "PAR2X" x2.1 x2.2)
    (hy1 : ∀ g, par = some g → Src.ParCoords g "PAR1Y" y1.1 y1.2) (hy2 : ∀ g, par = some g → Src.ParCoords g "PAR2Y" y2.1 y2.2) :
    refExpect ploidy hapX female (classOf first par chrom s e) =
      Generated.src_reference_expect ploidy hapX female par.isSome
        (Src.srcMasks first par chrom s e x1 x2 y1 y2).1 (Src.srcMasks first par chrom s e x1 x2 y1 y2).2.1
        (Src.srcMasks first par chrom s e x1 x2 y1 y2).2.2 :=
  Src.refExpect_classOf_is_source first par chrom s e ploidy hapX female x1 x2 y1 y2 hx1 hx2 hy1 hy2

/-- what the table function passes to the masks it reads as parameters: every mask gets the genome option -/
theorem reference_expect_mask_arguments :
    Generated.src_reference_expect_calls =
      ["chr_x_filter(diploid_parx_genome)", "chr_y_filter(diploid_parx_genome)", "pary_filter(diploid_parx_genome)"] ∧
    Generated.src_chr_x_filter_calls = ["parx_filter(genome_build=diploid_parx_genome)"] ∧
    Generated.src_chr_y_filter_calls = ["pary_filter(genome_build=diploid_parx_genome)"] := by decide

/-- the PAR coordinates are looked up in `params.PSEUDO_AUTSOMAL_REGIONS` (the table `Generated.PAR_TABLE` is read from)
    under the lower-cased genome name and the keys the model uses -/
theorem par_lookup_keys :
    Generated.src_parx_filter_lookups =
      ["PSEUDO_AUTSOMAL_REGIONS[genome_build.toLower][PAR1X]", "PSEUDO_AUTSOMAL_REGIONS[genome_build.toLower][PAR2X]"] ∧
    Generated.src_pary_filter_lookups =
      ["PSEUDO_AUTSOMAL_REGIONS[genome_build.toLower][PAR1Y]", "PSEUDO_AUTSOMAL_REGIONS[genome_build.toLower][PAR2Y]"] := by
  decide

/-! non-vacuity: the PAR hypotheses hold for both supported genomes, in either spelling -/
example : Src.ParCoords "GRCh38" "PAR1X" 10000 2781479 ∧ Src.ParCoords "grch38" "PAR2X" 155701382 156030895 ∧
    Src.ParCoords "grch37" "PAR1Y" 10000 2649520 ∧ Src.ParCoords "GRCh37" "PAR2Y" 59034049 59363566 := by
  unfold Src.ParCoords; decide +kernel
example : Generated.src_reference_expect 4 true false true false true false = (2, 2) := by decide +kernel

end CnvVerif.C01
