/-
  C18: from the source text to the property's wording in one statement.  `Props/C18SrcChoose` says that `chooseNamesH` IS the
  re-read step sequence of `_choose_samples`; `Props/C18Bridge` says that on PEDIGREE-declared pairs `chooseNamesH` IS
  `chooseNames`; `sample_choice_rules` (Props/C18) says that `chooseNames` answers the documented rule `specPair`.  Together:
  the step sequence re-read from /repo on every run, instantiated on the model's data, answers "header-declared pairs first,
  else the given tumour and normal ids, else the first sample" and refuses exactly when that rule leaves no tumour sample.
-/
import CnvVerif.Props.C18Bridge
import CnvVerif.Props.C18SrcChoose
namespace CnvVerif.C18
open CnvVerif CnvVerif.Vcf

/-- the documented rule, for the model the driver runs (`chooseNamesH`), on PEDIGREE-declared pairs -/
theorem sample_choice_rules_H (samples : List String) (peds : List (String × String))
    (sid nid : Option String) (hnd : samples.Nodup)
    (hs : selOk samples sid = true) (hn : selOk samples nid = true) (hp : PedsValid samples peds) :
    chooseNamesH samples (peds.map bridgeLiftPair) sid nid =
      match specPair samples peds (truthy sid) (truthy nid) with
      | some p => .ok (some p.1, p.2)
      | none => .error .indexError := by
  rw [chooseNamesH_eq_chooseNames, sample_choice_rules samples peds sid nid hnd hs hn hp]
  cases specPair samples peds (truthy sid) (truthy nid) <;> rfl

/-- the source's own step sequence answers the documented rule -/
theorem source_steps_answer_the_documented_rule (samples : List String) (peds : List (String × String))
    (sid nid : Option String) (hnd : samples.Nodup)
    (hs : selOk samples sid = true) (hn : selOk samples nid = true) (hp : PedsValid samples peds) :
    Generated.src_choose_samples_pairs (P := SrcChoose.Pairs) (R := SrcChoose.Outcome)
        (!(peds.map bridgeLiftPair).isEmpty) (truthy nid).isSome (truthy sid).isSome
        [] ((peds.map bridgeLiftPair).map (fun p => (p.1, some p.2))) (SrcChoose.othersWithNormal samples nid)
        (SrcChoose.allUnpaired samples) [(sid, none)] (SrcChoose.keepSample sid) (fun ps => !ps.isEmpty)
        (SrcChoose.confirmUnique samples) (.error .indexError) SrcChoose.firstPair =
      match specPair samples peds (truthy sid) (truthy nid) with
      | some p => .ok (some p.1, p.2)
      | none => .error .indexError := by
  rw [← sample_choice_rules_H samples peds sid nid hnd hs hn hp, choose_samples_steps_are_the_source]
  simp [hs, hn]

/-- non-vacuity of the hypotheses: a two-sample file with a PEDIGREE pair naming its columns -/
example : (["N", "T"] : List String).Nodup ∧ selOk ["N", "T"] (some "T") = true ∧ selOk ["N", "T"] none = true := by decide

end CnvVerif.C18
