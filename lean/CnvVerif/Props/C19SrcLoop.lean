/-
  C19 (round 5), tie to the source TEXT: the outer `for _i in range(max_iter)` loop of `biweight_location` -- its exit test,
  the variable it carries, the number of rounds, the default of `initial` -- is the model's `bilocLoop` / `biweightLocationCore`.
  `Generated.src_biweight_location(_loop)` (Generated/ExprsDescLoop.lean) is re-translated from /repo's cnvlib/descriptives.py on
  every run by harness/breakloop.py (bounded loop with an early `break` -> recursion with fuel; the reading rules are at
  the top of that file).  The nested step function is tied in Props/C19SrcBiloc.lean; here it is composed with the loop.
-/
import CnvVerif.Generated.ExprsDescLoop
import CnvVerif.Props.C19SrcBiloc
import CnvVerif.Model.DescLoopExt5
namespace CnvVerif.C19.Loop
open CnvVerif CnvVerif.Desc CnvVerif.Generated

set_option linter.unusedSimpArgs false
set_option linter.unusedVariables false
set_option linter.unusedTactic false
set_option linter.unreachableTactic false

/-- the loop of the source, run for `n + 1` rounds from ANY state, leaves in `result` what the model's `bilocLoop` with
    fuel `n` returns -- for every step function, vector, tolerance and starting value -/
theorem loop_is_the_source (step : List Rat → Rat → Rat) (a : List Rat) (eps : Rat) (n : Nat) (r0 : Option Rat) (init : Rat) :
    (src_biweight_location_loop step a eps (n + 1) (r0, init)).1 = some (bilocLoop (step a) eps n init) := by
  induction n generalizing r0 init with
  | zero =>
    unfold src_biweight_location_loop bilocLoop
    simp only []
    split <;> simp [src_biweight_location_loop]
  | succ m ih =>
    unfold src_biweight_location_loop bilocLoop
    simp only []
    split
    · simp_all
    · rename_i h
      first
        | exact ih _ _
        | (rw [if_neg h]; exact ih _ _)
        | (rw [if_neg (by simpa using h)]; exact ih _ _)

/-- zero rounds: the name `result` is never bound (Python raises UnboundLocalError) -/
theorem zero_rounds_unbound (step : List Rat → Rat → Rat) (a : List Rat) (initial : Option Rat) (eps : Rat) :
    src_biweight_location step a initial eps 0 = none := by
  unfold src_biweight_location src_biweight_location_loop; rfl

/-- `biweight_location` of the source with `max_iter = n + 1`, cut-off `c` and tolerance `eps` IS the model's loop over the
    model's step, started at `initial` or, without one, at the median -/
theorem biweight_location_is_the_source (a : List Rat) (initial : Option Rat) (c eps : Rat) (n : Nat) :
    src_biweight_location (fun v i => src_biloc_iter v i c eps) a initial eps (n + 1) =
      some (bilocLoop (bilocIter c eps a) eps n (initial.getD (median a))) := by
  unfold src_biweight_location
  simp only []
  rw [loop_is_the_source]
  have hstep : (fun i => src_biloc_iter a i c eps) = bilocIter c eps a := by
    funext i; exact C19.biweight_step_is_the_source a i c eps
  rw [hstep]
  cases initial <;> rfl

/-- ... for EVERY `max_iter`, zero included: the source function is the driver's `biweightLocationOpts`, the function the
    correspondence run compares the real `biweight_location(a, initial=, c=, epsilon=, max_iter=)` with -/
theorem biweight_location_opts_is_the_source (a : List Rat) (initial : Option Rat) (c eps : Rat) (m : Nat) :
    src_biweight_location (fun v i => src_biloc_iter v i c eps) a initial eps m =
      C19Loop.biweightLocationOpts a initial c eps m := by
  cases m with
  | zero => exact zero_rounds_unbound _ a initial eps
  | succ n => exact biweight_location_is_the_source a initial c eps n

/-- with the defaults read from the signature (`c = 6.0`, `epsilon = 1e-3`, `max_iter = 5`) this is `biweightLocationCore`,
    the function every C19 / C05 / C17 theorem about the biweight location speaks of -/
theorem biweight_location_defaults_are_the_source (a : List Rat) (initial : Option Rat) :
    src_biweight_location (fun v i => src_biloc_iter v i BILOC_C BILOC_EPS) a initial BILOC_EPS BILOC_MAX_ITER =
      some (biweightLocationCore false a initial) := by
  have h5 : BILOC_MAX_ITER = (BILOC_MAX_ITER - 1) + 1 := by unfold BILOC_MAX_ITER; rfl
  rw [h5, biweight_location_is_the_source]
  rfl

end CnvVerif.C19.Loop
