/-
  C17 (round 5): the option structure of `do_bintest` / `cnvkit.py bintest` (`alpha`, `target_only`, the selection
  of the returned rows), as theorems about the model that the op `bintest` ties to the code (Model/Stats.lean
  `bintestAll`, `doBintest`).  `bintest` has no guard on alpha (unlike `segmetrics`): any number is accepted, and the
  theorems say what it then returns.
-/
import CnvVerif.Props.C17
namespace CnvVerif.C17
open CnvVerif CnvVerif.Stats

/-- the rows returned are rows of the tested table, in the table's order, none repeated beyond the table's own rows
    (a sublist): selection never reorders, duplicates or invents a row -/
theorem bintest_hits_in_table_order (tail : Rat → Rat) (bins : List Bin) (segs : List Seg) (alpha : Rat) (t : Bool) :
    (doBintest tail bins segs alpha t).Sublist (bintestAll tail bins segs t) :=
  List.filter_sublist

/-- every returned row carries the residual of ITS OWN bin: (bin, residual) is a row of the tested table -/
theorem bintest_hit_carries_own_row (tail : Rat → Rat) (bins : List Bin) (segs : List Seg) (alpha : Rat) (t : Bool)
    (h : Hit) (hh : h ∈ doBintest tail bins segs alpha t) : (h.bin, h.resid) ∈ testedRows bins segs t := by
  rw [← bintestAll_bins tail]
  exact List.mem_map_of_mem ((mem_doBintest tail bins segs alpha t h).mp hh).1

/-- a larger alpha returns the same hits and possibly more, in the same order -/
theorem bintest_alpha_monotone (tail : Rat → Rat) (bins : List Bin) (segs : List Seg) (a a' : Rat) (t : Bool)
    (h : a ≤ a') : (doBintest tail bins segs a t).Sublist (doBintest tail bins segs a' t) := by
  have e : doBintest tail bins segs a t = (doBintest tail bins segs a' t).filter (fun h => h.q < a) := by
    unfold doBintest
    rw [List.filter_filter]
    apply List.filter_congr
    intro x _
    by_cases hx : x.q < a
    · have : x.q < a' := lt_of_lt_of_le hx h
      simp [hx, this]
    · simp [hx]
  rw [e]
  exact List.filter_sublist

/-- an adjusted p-value never exceeds 1 (whatever the raw values) -/
theorem padjustBH_le_one (p : List Rat) : ∀ x ∈ padjustBH p, x ≤ 1 := by
  intro x hx
  unfold padjustBH at hx
  simp only [List.mem_map] at hx
  obtain ⟨i, _, rfl⟩ := hx
  rw [List.getD_eq_getElem?_getD]
  cases hq : ((bhAccumulate p.length ((bhDescending p).map (·.1))).map (fun x => min 1 x))[
      ((bhDescending p).map (·.2)).idxOf i]? with
  | none => simp
  | some y =>
    have hy := List.mem_of_getElem? hq
    obtain ⟨z, _, rfl⟩ := List.mem_map.mp hy
    simp

/-- `alpha > 1` (accepted by `bintest`): every tested bin is returned -/
theorem bintest_alpha_above_one_returns_all_tested (tail : Rat → Rat) (bins : List Bin) (segs : List Seg)
    (alpha : Rat) (t : Bool) (ha : 1 < alpha) :
    doBintest tail bins segs alpha t = bintestAll tail bins segs t := by
  unfold doBintest
  rw [List.filter_eq_self]
  intro h hh
  have hq : h.q ∈ padjustBH ((testedRows bins segs t).map (fun r => pRaw tail r.2 r.1.weight)) := by
    rw [← bintestAll_q]
    exact List.mem_map_of_mem hh
  exact decide_eq_true (lt_of_le_of_lt (padjustBH_le_one _ _ hq) ha)

/-- `target_only` changes nothing when no tested bin carries an off-target name (the `if antitarget_idx.any()`
    branch of `do_bintest` is not taken) -/
theorem target_only_noop_without_antitargets (tail : Rat → Rat) (bins : List Bin) (segs : List Seg)
    (hno : ∀ r ∈ bintestRows bins segs, r.1.gene ∉ Generated.ANTITARGET_ALIASES) :
    bintestAll tail bins segs true = bintestAll tail bins segs false := by
  have e : testedRows bins segs true = testedRows bins segs false := by
    unfold testedRows
    simp only [if_true, Bool.false_eq_true, if_false]
    rw [List.filter_eq_self]
    intro r hr
    have := hno r hr
    simpa using this
  rw [bintestAll_eq, bintestAll_eq, e]

/-- the off-target names are the ones read from `params.ANTITARGET_ALIASES`; a look-alike name is tested -/
example : ("Antitarget2" ∉ Generated.ANTITARGET_ALIASES) ∧ ("Antitarget" ∈ Generated.ANTITARGET_ALIASES) := by decide

end CnvVerif.C17
