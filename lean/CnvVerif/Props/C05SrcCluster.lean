/-
  C05, round 5: tie of the cluster columns to the source TEXT.  `Generated/RefClusterConsts.lean` is re-read from
  `create_clusters` / `summarize_info` of cnvlib/reference.py on every run (harness/extractors/ref_cluster.py: found by
  shape -- which rows are dropped, how clusters are numbered, the skip test, which rows the summary gets, which
  estimators fill which column).  `srcClusterCols` is the loop written with those constants as parameters, applied to
  the matrix as `combine_probes` passes it (pseudo-sample row first); the theorem states that the model's `clusterCols`
  is that loop.  A module of its own: an edit to `create_clusters` breaks exactly these obligations.
-/
import CnvVerif.Props.C05Cluster
import CnvVerif.Generated.RefClusterConsts
namespace CnvVerif.C05
open CnvVerif CnvVerif.Ref CnvVerif.Ref.C05Cl

/-- a Python comparison of two lengths, by the name of its AST node -/
def srcLenCmp (op : String) (a b : Nat) : Bool :=
  if op = "Lt" then decide (a < b) else if op = "LtE" then decide (a ≤ b) else if op = "Gt" then decide (a > b)
  else if op = "GtE" then decide (a ≥ b) else false

/-- `create_clusters` with what the translator reads as parameters: `drop` leading rows of the matrix removed, cluster
    at position `p` numbered `p + off`, skipped when `len(members) <cmp> min_cluster_size` -/
def srcClusterColsBy (drop off : Nat) (cmp : String) (members : List (List Nat)) (minSize n : Nat)
    (allLogr : List (List Rat)) : List (Nat × List (Rat × Desc.ScaleOut)) :=
  members.zipIdx.filterMap fun p =>
    if srcLenCmp cmp p.1.length minSize then none else some (p.2 + off, clusterColumn n (allLogr.drop drop) p.1)

/-- the model's cluster columns ARE the source's loop over the matrix `pseudo-sample :: samples` -/
theorem cluster_loop_is_the_source (members : List (List Nat)) (minSize n : Nat) (flat : List Rat)
    (logr : List (List Rat)) :
    clusterCols members minSize n logr =
      srcClusterColsBy Generated.REFCL_DROP_ROWS Generated.REFCL_LABEL_OFFSET Generated.REFCL_SKIP_TEST
        members minSize n (flat :: logr) := by
  unfold clusterCols srcClusterColsBy
  have h1 : Generated.REFCL_DROP_ROWS = 1 := by decide
  have h2 : Generated.REFCL_LABEL_OFFSET = 1 := by decide
  have h3 : Generated.REFCL_SKIP_TEST = "Lt" := by decide
  rw [h1, h2, h3]
  simp [srcLenCmp]

/-- each cluster's summary is `summarize_info` on the member rows (all bins) with no depths; `log2_<i>` is its log2
    entry and `spread_<i>` its spread entry; and those entries are Tukey's biweight location per bin over the samples
    and the biweight midvariance of the same column started (`initial=`) at that bin's location -- the estimators
    `cellOf` applies -/
theorem cluster_summary_is_the_source :
    Generated.REFCL_SUMMARY = ("summarize_info", "member_rows", "[]") ∧
    Generated.REFCL_COLUMNS = [("log2_", "log2"), ("spread_", "spread")] ∧
    Generated.REFCL_EST_LOG2 = ("biweight_location", 0) ∧
    Generated.REFCL_EST_SPREAD = ("biweight_midvariance", "initial", true) := by decide

/-! non-vacuity: the loop with other constants is a different function -/
example : (srcClusterColsBy 0 1 "Lt" [[0]] 1 1 [[7], [3]]).map (fun c => c.2.map (·.1)) = [[7]] ∧
    (srcClusterColsBy 1 1 "Lt" [[0]] 1 1 [[7], [3]]).map (fun c => c.2.map (·.1)) = [[3]] := by
  decide +kernel

end CnvVerif.C05
