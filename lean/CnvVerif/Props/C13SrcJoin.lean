/-
  C13: tie of `join_regions` to the source TEXT.  `Generated.src_join_regions_step` / `_final` / `_min_gap` are
  re-translated from the body of `cnvlib/access.py:join_regions` on every run (harness/looptrans.py).
  `Src.triple r = (r.chrom, r.s, r.e)`; `Py.genLoop step final init xs`: what a generator `for x in xs: <step>` +
  `<final>` yields.
-/
import CnvVerif.Props.C13
import CnvVerif.Lemmas.SrcAccessJoin
namespace CnvVerif.C13
open CnvVerif CnvVerif.Generated

/-- `join_regions` on one chromosome: the model's `joinGo` IS the source's `for start, end in coords:` loop
    (`gap = start - prev_end`, `gap < min_gap_size` joins, otherwise the previous region is emitted) followed by
    the source's final `yield` -/
theorem join_loop_is_the_source (g : Int) (prev : Row) (l : List Row)
    (hc : ∀ r ∈ l, r.chrom = prev.chrom) :
    (joinGo g prev l).map Src.triple =
      Py.genLoop (fun st x => src_join_regions_step g prev.chrom st.1 st.2 x.1 x.2)
        (fun st => src_join_regions_final g prev.chrom st.1 st.2) (prev.s, prev.e)
        (l.map (fun r => (r.s, r.e))) :=
  Src.joinGo_is_source g prev l hc

/-- `min_gap_size or 0`: `None` and `0` both mean "join nothing" -/
theorem join_min_gap_is_the_source (m : Option Int) : m.getD 0 = src_join_regions_min_gap m :=
  Src.min_gap_is_source m

/-! ### non-vacuity -/

example : Py.genLoop (fun st x => src_join_regions_step 3 "chr1" st.1 st.2 x.1 x.2)
      (fun st => src_join_regions_final 3 "chr1" st.1 st.2) ((0 : Int), (4 : Int)) [(6, 9), (12, 20)] =
    [("chr1", 0, 9), ("chr1", 12, 20)] := by decide

end CnvVerif.C13
