/-
  C19 (round 5), tie to the source TEXT: `smoothing._pad_array` -- `np.concatenate((x[wing-1::-1], x, x[:-wing-1:-1]))` --
  is the model's `Smooth.padArray` for every half-width `wing ≥ 1` (what `check_inputs` asserts), with Python's own rule for
  step −1 slices (`C19Pad.sliceRev`, Model/PadExt5.lean).  `Generated.src_pad_array` is re-read from /repo's
  cnvlib/smoothing.py on every run by harness/padslices.py.  Plus what the padding IS: length, the three index ranges
  (mirror, copy, mirror) and its symmetry under reversal.
-/
import CnvVerif.Generated.ExprsPad
import CnvVerif.Lemmas.Smoothing
namespace CnvVerif.C19.Pad
open CnvVerif CnvVerif.Smooth CnvVerif.Generated CnvVerif.C19Pad

set_option linter.unusedSimpArgs false
set_option linter.unusedVariables false

/-- `x[w-1::-1]` is the first `w` values, reversed (also when `w` exceeds the length) -/
theorem head_slice {α} (x : List α) (w : Nat) (hw : 1 ≤ w) :
    sliceRev (some ((w : Int) - 1)) none x = (x.take w).reverse := by
  unfold sliceRev clipRev
  simp only []
  congr 1
  rw [show ((-1 : Int) + 1).toNat = 0 by decide, List.drop_zero]
  by_cases h : w ≤ x.length
  · congr 1; split_ifs <;> omega
  · rw [List.take_of_length_le (by omega : x.length ≤ w)]
    apply List.take_of_length_le; split_ifs <;> omega

/-- `x[:-w-1:-1]` is the last `w` values, reversed (also when `w` exceeds the length) -/
theorem tail_slice {α} (x : List α) (w : Nat) :
    sliceRev none (some (-(w : Int) - 1)) x = x.reverse.take w := by
  unfold sliceRev clipRev
  simp only []
  rw [List.take_reverse]
  congr 1
  rw [show ((x.length : Int) - 1 + 1).toNat = x.length by omega, List.take_length]
  congr 1
  split_ifs <;> omega

/-- an explicit start `-1` is the omitted start (so `x[-1:-wing-1:-1]` reads like `x[:-wing-1:-1]`) -/
theorem start_last {α} (x : List α) (stop : Option Int) : sliceRev (some (-(1 : Int))) stop x = sliceRev none stop x := by
  have h : clipRev (x.length : Int) (-(1 : Int)) = (x.length : Int) - 1 := by
    unfold clipRev; simp only []; split_ifs <;> omega
  unfold sliceRev
  simp only [h]

/-- the source's `_pad_array(x, wing)` is the model's `padArray x wing` for every `wing ≥ 1` -/
theorem pad_array_is_the_source {α} (x : List α) (wing : Nat) (hw : 1 ≤ wing) :
    src_pad_array x (wing : Int) = padArray x wing := by
  unfold src_pad_array padArray
  try simp only [start_last]
  have e1 : ∀ k : Int, k = (wing : Int) - 1 → sliceRev (some k) none x = (x.take wing).reverse :=
    fun k hk => hk ▸ head_slice x wing hw
  have e2 : ∀ k : Int, k = -(wing : Int) - 1 → sliceRev none (some k) x = x.reverse.take wing :=
    fun k hk => hk ▸ tail_slice x wing
  rw [e1 _ (by omega), e2 _ (by omega)]

/-- at `wing = 0` the two DIFFER (`x[-1::-1]` is the whole vector reversed): the assertion `wing >= 1` of `check_inputs` is needed -/
theorem pad_array_wing_zero_differs : src_pad_array [1, 2, 3] 0 = [3, 2, 1, 1, 2, 3] ∧ padArray [1, 2, 3] 0 = [1, 2, 3] := by
  decide

/-- padding commutes with reversal: the padded reversed signal is the reversed padded signal (left and right edge are treated alike) -/
theorem pad_symmetric {α} (x : List α) (wing : Nat) : padArray x.reverse wing = (padArray x wing).reverse := by
  unfold padArray
  simp [List.reverse_append, List.append_assoc]

/-- length `n + 2·wing` for `wing ≤ n`, any element type -/
theorem pad_length {α} (x : List α) (wing : Nat) (h : wing ≤ x.length) : (padArray x wing).length = x.length + 2 * wing := by
  unfold padArray
  simp [List.length_append, List.length_take, List.length_reverse]; omega

/-- the three index ranges: `pad[j] = x[wing-1-j]` (mirror incl. the edge value), `pad[wing+i] = x[i]`, `pad[wing+n+j] = x[n-1-j]` -/
theorem pad_entries (x : List Rat) (wing : Nat) (h : wing ≤ x.length) :
    (∀ j, j < wing → (padArray x wing)[j]? = x[wing - 1 - j]?) ∧
    (∀ i, i < x.length → (padArray x wing)[wing + i]? = x[i]?) ∧
    (∀ j, j < wing → (padArray x wing)[wing + x.length + j]? = x[x.length - 1 - j]?) := by
  have hl1 : ((x.take wing).reverse).length = wing := by simp [List.length_take]; omega
  refine ⟨?_, ?_, ?_⟩
  · intro j hj
    unfold padArray
    rw [List.append_assoc, List.getElem?_append_left (by omega), List.getElem?_reverse (by simp [List.length_take]; omega)]
    simp only [List.length_take]
    rw [List.getElem?_take_of_lt (by omega)]
    congr 1; omega
  · intro i hi
    unfold padArray
    rw [List.append_assoc, List.getElem?_append_right (by omega), hl1, List.getElem?_append_left (by omega)]
    congr 1; omega
  · intro j hj
    unfold padArray
    rw [List.getElem?_append_right (by simp [List.length_take]; omega)]
    simp only [List.length_append, hl1]
    rw [show wing + x.length + j - (wing + x.length) = j by omega, List.getElem?_take_of_lt hj,
      List.getElem?_reverse (by omega)]

end CnvVerif.C19.Pad
